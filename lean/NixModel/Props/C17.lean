import NixModel.Pure.Flush
import NixModel.Lemmas.C17Flush
import NixModel.Lemmas.C17Open
import NixModel.Lemmas.C17Late
import NixModel.Lemmas.C17Multi

/-!
# C17 — `flush()` and `close()` make everything written so far survive a process kill

Property theorems only; the model is `NixModel/Pure/Flush.lean`, helper lemmas are in
`NixModel/Lemmas/C17Flush.lean`. The bodies of `File.flush`, `File.close`, `File.__exit__` are the
statement lists regenerated from `nixio/file.py` on every run (`Generated/FlushShape.lean`); the
theorems evaluate decidable shape predicates on them (`*_shape`), so a `close` that no longer flushes
before the h5py close, or a `flush` that no longer reaches h5py, fails the build here.

The open path (`Pure/FlushOpen.lean`): the decision table of `File.__init__`, the mode → access-flag map and the
calls of `make_fapl()` are regenerated too (`Generated/OpenShape.lean`); `C17_open_table`, `C17_mode_flags` and
`C17_fapl_shape` compare them with the model, `C17_open_refines` / `C17_reopen_not_refused` carry every theorem
about `step` over to the model with the open path, and `C17_locking_fapl_refuses` / `C17_detached_loses` show that
the two shape conditions are not idle (a lower library-version bound ≥ 1.10, or a file created beside the named
path, lose the flushed state in the model exactly as observed on libhdf5).

Several `File` objects on one path inside the writer process (`Pure/FlushMulti.lean`: one library file structure and
cache shared by all of them): `C17_multi_flush_durable` / `C17_multi_close_durable` — the regenerated `flush` / `close`
body issued on ANY open object, others staying open, then any tail that writes nothing new, then the kill — and
`C17_multi_unflushed_loses` (a close that releases its object without flushing, a flush that does not reach
`H5Fflush`: the written state is lost).

What the theorems carry: the *protocol* (what nixio must ask of h5py, in which order, for every history of
API calls and every write-back behaviour of the library, over any number of kill / reopen cycles).
What they cannot carry: that libhdf5's `H5Fflush` and the operating system honour the request — the model's
`h5flush` *is* `disk := cache`. That part is exercised by the child-process kills of the harness.
-/
namespace Nix.C17
open Nix.Flush Nix.Flush.Lemmas

/-! ### the tie: shape of the three method bodies in file.py -/

/-- `File.flush` reaches `h5py.File.flush` on the file object, raises nothing on an open file and does not
close it -/
theorem C17_flush_shape :
    syncs Gen.fileFlushBody = true ∧ raiseFree Gen.fileFlushBody = true ∧
    closes Gen.fileFlushBody = false ∧ Gen.h5fileIsH5pyFile = true := by decide

/-- `File.close` flushes *before* it closes the h5py file, raises nothing on an open file, and closes -/
theorem C17_close_shape :
    syncs Gen.fileCloseBody = true ∧ raiseFree Gen.fileCloseBody = true ∧
    closes Gen.fileCloseBody = true := by decide

/-- leaving a `with` block does what `close` does (and `__enter__` hands out the file itself) -/
theorem C17_exit_shape :
    syncs Gen.fileExitBody = true ∧ raiseFree Gen.fileExitBody = true ∧
    closes Gen.fileExitBody = true ∧ Gen.enterReturnsSelf = true := by decide

/-! ### durability for an arbitrary body, an arbitrary reachable world, an arbitrary quiet tail -/

/-- Any method body that reaches an `h5flush` before any `h5close` (and raises nothing): run on any
well-formed world with an open handle, it returns normally; whatever happens afterwards short of a further
write (write-backs of any entries, further flushes, closes, non-truncating opens, kills), a SIGKILL followed
by opening the file read-only or read-write shows exactly the state at the moment of the call. -/
theorem C17_body_durable (body : List Prim) (hs : syncs body = true) (hr : raiseFree body = true)
    (w : World) (hwf : WF w) (hd : Handle) (ho : w.handle = some hd)
    (tail : List Ev) (hq : ∀ e ∈ tail, quiet e = true) (m : Mode) (hm : m ≠ .overwrite) :
    (runBody w body).2 = none ∧
    reopenView (run (runBody w body).1 tail) m = some hd.cache :=
  ⟨runBody_noraise body ho hr,
   reopen_settled m hm (run_settled tail hq (runBody_syncs body ho hwf hs))⟩

/-- `flush()`: returns normally, leaves the file open with the same view (it is transparent), and the state
at the flush is what a reopen after SIGKILL shows — for every well-formed world, i.e. after every history,
and every write-back behaviour before and after. -/
theorem C17_flush_durable (w : World) (hwf : WF w) (hd : Handle) (ho : w.handle = some hd)
    (tail : List Ev) (hq : ∀ e ∈ tail, quiet e = true) (m : Mode) (hm : m ≠ .overwrite) :
    (step w .flush).2 = none ∧
    view (step w .flush).1 = some hd.cache ∧
    reopenView (run (step w .flush).1 tail) m = some hd.cache := by
  obtain ⟨hs, hr, hc, _⟩ := C17_flush_shape
  have h := C17_body_durable Gen.fileFlushBody hs hr w hwf hd ho tail hq m hm
  refine ⟨h.1, ?_, h.2⟩
  show view (runBody w Gen.fileFlushBody).1 = some hd.cache
  unfold view
  rw [(runBody_keeps Gen.fileFlushBody ho hc).1]
  rfl

/-- `close()`: returns normally, the file is closed, and the state at the close survives SIGKILL. -/
theorem C17_close_durable (w : World) (hwf : WF w) (hd : Handle) (ho : w.handle = some hd)
    (tail : List Ev) (hq : ∀ e ∈ tail, quiet e = true) (m : Mode) (hm : m ≠ .overwrite) :
    (step w .close).2 = none ∧
    isOpen (step w .close).1 = false ∧
    reopenView (run (step w .close).1 tail) m = some hd.cache := by
  obtain ⟨hs, hr, hc⟩ := C17_close_shape
  have h := C17_body_durable Gen.fileCloseBody hs hr w hwf hd ho tail hq m hm
  refine ⟨h.1, ?_, h.2⟩
  show isOpen (runBody w Gen.fileCloseBody).1 = false
  unfold isOpen
  rw [runBody_closes Gen.fileCloseBody hc]
  rfl

/-- leaving a `with nixio.File.open(...) as f:` block (normally or by an exception) is as durable as
`close()`. -/
theorem C17_exit_durable (w : World) (hwf : WF w) (hd : Handle) (ho : w.handle = some hd)
    (tail : List Ev) (hq : ∀ e ∈ tail, quiet e = true) (m : Mode) (hm : m ≠ .overwrite) :
    (step w .exit).2 = none ∧
    isOpen (step w .exit).1 = false ∧
    reopenView (run (step w .exit).1 tail) m = some hd.cache := by
  obtain ⟨hs, hr, hc, _⟩ := C17_exit_shape
  have h := C17_body_durable Gen.fileExitBody hs hr w hwf hd ho tail hq m hm
  refine ⟨h.1, ?_, h.2⟩
  show isOpen (runBody w Gen.fileExitBody).1 = false
  unfold isOpen
  rw [runBody_closes Gen.fileExitBody hc]
  rfl

/-- The same, stated over histories: after *every* history `h` of API calls, write-backs and kills from the
non-existent file, if the file is open then flushing / closing / leaving the `with` block now and being
killed after any quiet tail reopens to exactly the current view. -/
theorem C17_history_durable (h : List Ev) (hd : Handle) (ho : (run World.init h).handle = some hd)
    (fin : Ev) (hfin : fin = .flush ∨ fin = .close ∨ fin = .exit)
    (tail : List Ev) (hq : ∀ e ∈ tail, quiet e = true) (m : Mode) (hm : m ≠ .overwrite) :
    (step (run World.init h) fin).2 = none ∧
    reopenView (run (step (run World.init h) fin).1 tail) m = view (run World.init h) := by
  have hwf : WF (run World.init h) := run_WF h WF_init
  have hv : view (run World.init h) = some hd.cache := by simp [view, ho]
  rw [hv]
  rcases hfin with rfl | rfl | rfl
  · exact ⟨(C17_flush_durable _ hwf hd ho tail hq m hm).1, (C17_flush_durable _ hwf hd ho tail hq m hm).2.2⟩
  · exact ⟨(C17_close_durable _ hwf hd ho tail hq m hm).1, (C17_close_durable _ hwf hd ho tail hq m hm).2.2⟩
  · exact ⟨(C17_exit_durable _ hwf hd ho tail hq m hm).1, (C17_exit_durable _ hwf hd ho tail hq m hm).2.2⟩

/-- Once `flush`, `close` or a `with`-exit has returned, then through *every* continuation that writes
nothing — write-backs, further flushes and closes, SIGKILLs, reopening read-only or read-write, in any order
and number — the disk holds exactly the state at that call, and whenever the file is open its view is that
state. (This is what the harness observes: kill, reopen `'r'`, walk, close, reopen `'a'`, walk.) -/
theorem C17_every_later_view (w : World) (hwf : WF w) (hd : Handle) (ho : w.handle = some hd)
    (fin : Ev) (hfin : fin = .flush ∨ fin = .close ∨ fin = .exit)
    (es : List Ev) (hq : ∀ e ∈ es, quiet e = true) :
    (run (step w fin).1 es).disk = some hd.cache ∧
    ∀ hd', (run (step w fin).1 es).handle = some hd' → hd'.cache = hd.cache := by
  have h0 : Settled hd.cache (step w fin).1 := by
    rcases hfin with rfl | rfl | rfl
    · exact runBody_syncs Gen.fileFlushBody ho hwf C17_flush_shape.1
    · exact runBody_syncs Gen.fileCloseBody ho hwf C17_close_shape.1
    · exact runBody_syncs Gen.fileExitBody ho hwf C17_exit_shape.1
  have h1 := run_settled es hq h0
  exact ⟨h1.disk, h1.cache⟩

/-- flushing twice is flushing once -/
theorem C17_flush_idempotent (w : World) (hwf : WF w) (hd : Handle) (ho : w.handle = some hd) :
    (step (step w .flush).1 .flush).1.disk = (step w .flush).1.disk ∧
    view (step (step w .flush).1 .flush).1 = view (step w .flush).1 := by
  have h := C17_every_later_view w hwf hd ho .flush (Or.inl rfl)
  have h0 := h [] (by simp)
  have h1 := h [.flush] (by simp [quiet])
  have hv0 := (C17_flush_durable w hwf hd ho [] (by simp) .readOnly (by simp)).2.1
  refine ⟨by simpa [run] using h1.1.trans h0.1.symm, ?_⟩
  rw [hv0]
  -- the second flush keeps the handle
  obtain ⟨_, _, hc, _⟩ := C17_flush_shape
  have hk0 := (runBody_keeps Gen.fileFlushBody ho hc).1
  have hk1 := (runBody_keeps Gen.fileFlushBody (w := (runBody w Gen.fileFlushBody).1) hk0 hc).1
  show view (runBody (runBody w Gen.fileFlushBody).1 Gen.fileFlushBody).1 = some hd.cache
  unfold view
  rw [hk1]
  rfl

/-- Several flush points in one writer: with any writes, write-backs and further flushes between two calls of
`flush()`, a kill after the **last** one (and anything that writes nothing) shows the state at the last one —
all writes up to it, not the state of an earlier flush. -/
theorem C17_last_flush_wins (w : World) (hwf : WF w) (hd : Handle) (ho : w.handle = some hd)
    (hrw : hd.mode ≠ .readOnly) (mid : List Ev) (hmid : ∀ e ∈ mid, sessionEv e = true)
    (tail : List Ev) (hq : ∀ e ∈ tail, quiet e = true) (m : Mode) (hm : m ≠ .overwrite) :
    reopenView (run (step (run (step w .flush).1 mid) .flush).1 tail) m =
      some (applyWrites (writesOf mid) hd.cache) := by
  have hk := C17_flush_shape.2.2.1
  have h1 : (step w .flush).1.handle = some hd := (runBody_keeps Gen.fileFlushBody ho hk).1
  have h2 := session_cache mid h1 hrw hmid hk
  have hwf2 : WF (run (step w .flush).1 mid) := run_WF mid (step_WF .flush hwf)
  exact (C17_flush_durable _ hwf2 _ h2 tail hq m hm).2.2

/-- **Writes after the last flush** (the property promises nothing here; this says what the *model* does): after
`flush()`, any further writes, write-backs and flushes, and a kill, the reopened file holds for every object the
value it had after *some* prefix of the later writes — the flushed value or a newer one, never an older one, but
possibly a mixture across objects that was never the state at any moment. Model-level only: the model's
write-back is per object; libhdf5's is not (the harness's negative control finds such files unreadable or
different), and the check asserts nothing about kills that follow unflushed writes. -/
theorem C17_late_writes_bounded (w : World) (hwf : WF w) (hd : Handle) (ho : w.handle = some hd)
    (hrw : hd.mode ≠ .readOnly) (es : List Ev) (hes : ∀ e ∈ es, sessionEv e = true)
    (m : Mode) (hm : m ≠ .overwrite) :
    ∃ d, reopenView (run (step w .flush).1 es) m = some d ∧
      ∀ k, ∃ n, n ≤ (writesOf es).length ∧ d k = applyWrites ((writesOf es).take n) hd.cache k := by
  have hk := C17_flush_shape.2.2.1
  have hkeep := runBody_keeps Gen.fileFlushBody ho hk
  have hset := runBody_syncs Gen.fileFlushBody ho hwf C17_flush_shape.1
  have h0 : Late hd.cache [] hd.mode (step w .flush).1 :=
    ⟨hkeep.1, by
      show (runBody w Gen.fileFlushBody).1.pending = none
      rw [hkeep.2.2]; exact (hwf hd ho).2,
     hd.cache, hset.disk, fun k => ⟨0, Nat.le_refl _, rfl⟩⟩
  have h1 := Late.runEvs hrw hk es hes h0
  simpa using h1.reopen m hm

/-! ### nothing flushed is ever lost, over any number of writer processes -/

/-- Any number of writer processes one after the other, each opening the file for writing (`'a'`, or `'w'`
which truncates), doing any writes interleaved with any write-backs and flushes, ending with `flush`,
`close` or a `with`-exit, then anything that writes nothing, then SIGKILL: afterwards nobody holds the file
and it contains exactly all writes of all processes applied in order (from the last truncation on). -/
theorem C17_chain_durable (ss : List Session) (hok : ∀ s ∈ ss, s.ok) (c : Store) (w : World)
    (hc : Closed c w) :
    Closed (chainStore ss c) (run w (ss.flatMap Session.events)) :=
  (chain_durable ss hok hc ⟨C17_flush_shape.1, C17_flush_shape.2.2.1⟩ C17_close_shape.1
    C17_exit_shape.1).1

/-- … and that is what the next open (read-only or read-write) shows — from the non-existent file on. -/
theorem C17_chain_reopen (ss : List Session) (hne : ss ≠ []) (hok : ∀ s ∈ ss, s.ok)
    (m : Mode) (hm : m ≠ .overwrite) :
    view (step (run World.init (ss.flatMap Session.events)) (.open m)).1 =
      some (chainStore ss Store.empty) :=
  open_view_closed m hm
    ((chain_durable ss hok Closed_init ⟨C17_flush_shape.1, C17_flush_shape.2.2.1⟩ C17_close_shape.1
      C17_exit_shape.1).2 hne)

/-! ### the flush is what carries it: without it the model loses data (the hypotheses are not idle) -/

/-- a write after the last flush can be lost by a SIGKILL -/
theorem C17_unflushed_can_lose :
    ∃ h : List Ev, ∃ hd, (run World.init h).handle = some hd ∧ hd.cache "k" = some "new" ∧
      ∃ c, reopenView (run World.init h) .readOnly = some c ∧ c "k" = some "old" :=
  ⟨[.open .overwrite, .write (.put "k" "old"), .flush, .write (.put "k" "new")],
   _, rfl, by decide, _, rfl, by decide⟩

/-- a `close` body without the flush before the h5py close is not durable in the model: this is the edit the
shape theorem `C17_close_shape` refuses -/
theorem C17_close_needs_flush :
    ∃ w hd, WF w ∧ w.handle = some hd ∧ hd.cache "k" = some "v" ∧
      ∃ c, reopenView (runBody w [.gcCollect, .h5close]).1 .readOnly = some c ∧ c "k" = none :=
  ⟨run World.init [.open .overwrite, .write (.put "k" "v")], _,
   run_WF _ WF_init, rfl, by decide, _, rfl, by decide⟩

/-! ### the open path: how `File.__init__` reaches libhdf5 (file.py:60-125) -/

/-- the decision table regenerated from `File.__init__` (run symbolically for every state of the path and every
mode) is the model's `openDecision`, entry by entry -/
theorem C17_open_table : ∀ ps m, Gen.openTable.lookup (ps, m) = some (openDecision ps m) := by
  intro ps m; cases ps <;> cases m <;> decide

/-- `map_file_mode` as regenerated; every open of an existing file passes the flag of the caller's mode and keeps
that mode in `self.mode` (so a ReadOnly session is opened `ACC_RDONLY`); every creation truncates and leaves
`self.mode = Overwrite` -/
theorem C17_mode_flags :
    Gen.modeFlags = [(.readOnly, .rdonly), (.readWrite, .rdwr), (.overwrite, .trunc)] ∧
    (∀ ps m fl sm, openDecision ps m = .openExisting fl sm → Gen.modeFlags.lookup m = some fl ∧ sm = m) ∧
    (∀ ps m fl sm, openDecision ps m = .create fl sm → fl = .trunc ∧ sm = .overwrite) := by
  refine ⟨by decide, ?_, ?_⟩
  · intro ps m fl sm h
    cases ps <;> cases m <;> simp [openDecision] at h <;> obtain ⟨rfl, rfl⟩ := h <;> decide
  · intro ps m fl sm h
    cases ps <;> cases m <;> simp [openDecision] at h <;> exact ⟨h.1.symm, h.2.symm⟩

/-- `make_fapl()` asks for nothing the model does not understand and for no lower library-version bound that
makes libhdf5 mark the file persistently as 'open for write'; `h5py.h5f.create` / `h5py.h5f.open` are given the
caller's path and that property list -/
theorem C17_fapl_shape :
    faplModelled Gen.faplCalls = true ∧ locking (faplLow Gen.faplCalls) = false ∧
    Gen.createPathIsArg = true ∧ Gen.openPathIsArg = true ∧
    Gen.createFaplIsMakeFapl = true ∧ Gen.openFaplIsMakeFapl = true := by decide

/-- which lower bounds lock: 1.10 and everything newer (observed on libhdf5 for every pair of bounds) -/
theorem C17_locking_bounds (lo : Libver) : locking lo = true ↔ (lo ≠ .earliest ∧ lo ≠ .v18) := by
  cases lo <;> decide

/-- **refinement**: with the open path of the source as it is, the model with the open path goes through exactly
the worlds of `Pure/Flush.lean`, with the same outcome of every call, after every history — so every theorem
above is a theorem about `stepO Gen.cfg` -/
theorem C17_open_refines (h : List Ev) :
    (runO Gen.cfg OWorld.init h).w = run World.init h ∧
    ∀ e, (stepO Gen.cfg (runO Gen.cfg OWorld.init h) e).1.w = (step (run World.init h) e).1 ∧
         (stepO Gen.cfg (runO Gen.cfg OWorld.init h) e).2 = (step (run World.init h) e).2 := by
  have hc : Cfg.plain Gen.cfg := ⟨C17_fapl_shape.2.2.1, C17_fapl_shape.2.2.2.1, C17_fapl_shape.2.1⟩
  obtain ⟨hw, hp⟩ := runO_plain hc h Plain_init
  refine ⟨hw, fun e => ?_⟩
  obtain ⟨h1, h2, _⟩ := stepO_plain hc hp e
  rw [h1, h2, hw]
  exact ⟨rfl, rfl⟩

/-- the access mode of the handle the disk/cache model hands out (`openFile`: read-only sessions are inert,
`C17_readonly_inert`) is the mode the regenerated decision table leaves in `self.mode`, whose access flag
`C17_mode_flags` pins: a ReadOnly session is opened `ACC_RDONLY`, every creation is an Overwrite session -/
theorem C17_open_mode (h : List Ev) (m : Mode) (hd : Handle) (hn : (run World.init h).handle = none)
    (ho : (step (run World.init h) (.open m)).1.handle = some hd) :
    (∃ fl, Gen.openTable.lookup (pathState (runO Gen.cfg OWorld.init h), m) = some (.create fl hd.mode)) ∨
    (∃ fl, Gen.openTable.lookup (pathState (runO Gen.cfg OWorld.init h), m) = some (.openExisting fl hd.mode)) := by
  have hw := (C17_open_refines h).1
  have := openFile_mode (run World.init h) hn m hd ho
  simp only [C17_open_table]
  unfold pathState
  rw [hw]
  rcases this with ⟨fl, hfl⟩ | ⟨fl, hfl⟩
  · exact Or.inl ⟨fl, by rw [hfl]⟩
  · exact Or.inr ⟨fl, by rw [hfl]⟩

/-- The property with the open path inside: after *every* history, if the file is open, then `flush()` /
`close()` / leaving the `with` block returns normally, and after any continuation that writes nothing a SIGKILL
followed by `File.open(path, 'r' | 'a')` **is not refused** and shows exactly the state at that call. -/
theorem C17_reopen_not_refused (h : List Ev) (hd : Handle) (ho : (run World.init h).handle = some hd)
    (fin : Ev) (hfin : fin = .flush ∨ fin = .close ∨ fin = .exit)
    (tail : List Ev) (hq : ∀ e ∈ tail, quiet e = true) (m : Mode) (hm : m ≠ .overwrite) :
    (stepO Gen.cfg (runO Gen.cfg OWorld.init h) fin).2 = none ∧
    reopenO Gen.cfg (runO Gen.cfg (stepO Gen.cfg (runO Gen.cfg OWorld.init h) fin).1 tail) m =
      (none, view (run World.init h)) := by
  have hc : Cfg.plain Gen.cfg := ⟨C17_fapl_shape.2.2.1, C17_fapl_shape.2.2.2.1, C17_fapl_shape.2.1⟩
  obtain ⟨hw0, hp0⟩ := runO_plain hc h Plain_init
  obtain ⟨hw1, he1, hp1⟩ := stepO_plain hc hp0 fin
  obtain ⟨hw2, hp2⟩ := runO_plain hc tail hp1
  obtain ⟨hw3, _, hp3⟩ := stepO_plain hc hp2 .kill
  obtain ⟨hw4, he4, _⟩ := stepO_plain hc hp3 (.open m)
  have hold := C17_history_durable h hd ho fin hfin tail hq m hm
  have hwf : WF (run World.init h) := run_WF h WF_init
  -- the world before the kill is settled on the state at the call
  have hset : Settled hd.cache (run (step (run World.init h) fin).1 tail) := by
    have h0 : Settled hd.cache (step (run World.init h) fin).1 := by
      rcases hfin with rfl | rfl | rfl
      · exact runBody_syncs Gen.fileFlushBody ho hwf C17_flush_shape.1
      · exact runBody_syncs Gen.fileCloseBody ho hwf C17_close_shape.1
      · exact runBody_syncs Gen.fileExitBody ho hwf C17_exit_shape.1
    exact run_settled tail hq h0
  have hw0' : (runO Gen.cfg OWorld.init h).w = run World.init h := hw0
  refine ⟨by rw [he1, hw0']; exact hold.1, ?_⟩
  refine Prod.ext ?_ ?_
  · show (stepO Gen.cfg (stepO Gen.cfg _ .kill).1 (.open m)).2 = none
    rw [he4, hw3, hw2, hw1, hw0']
    exact openFile_settled_ok m hm (kill_settled hset) rfl
  · show view (stepO Gen.cfg (stepO Gen.cfg _ .kill).1 (.open m)).1.w = _
    rw [hw4, hw3, hw2, hw1, hw0']
    exact hold.2

/-- … over any number of writer processes, with the open path inside: after every chain of durable sessions the
next `File.open(path, 'r' | 'a')` is not refused and shows all writes of all processes in order. -/
theorem C17_chain_reopen_open (ss : List Session) (hne : ss ≠ []) (hok : ∀ s ∈ ss, s.ok)
    (m : Mode) (hm : m ≠ .overwrite) :
    (stepO Gen.cfg (runO Gen.cfg OWorld.init (ss.flatMap Session.events)) (.open m)).2 = none ∧
    viewO (stepO Gen.cfg (runO Gen.cfg OWorld.init (ss.flatMap Session.events)) (.open m)).1 =
      some (chainStore ss Store.empty) := by
  obtain ⟨_, hstep⟩ := C17_open_refines (ss.flatMap Session.events)
  obtain ⟨h1, h2⟩ := hstep (.open m)
  have hcl := (chain_durable ss hok Closed_init ⟨C17_flush_shape.1, C17_flush_shape.2.2.1⟩ C17_close_shape.1
      C17_exit_shape.1).2 hne
  refine ⟨?_, ?_⟩
  · rw [h2]
    obtain ⟨hn, hp, hd⟩ := hcl
    show (openFile _ m).2 = none
    rw [openFile_existing m hm hn (by rw [settle_none hp]; exact hd)]
  · unfold viewO
    rw [h1]
    exact C17_chain_reopen ss hne hok m hm

/-! ### the two shape conditions of the open path are what carries it -/

/-- A lower library-version bound of 1.10 or newer in `make_fapl()`: whoever creates the file and writes,
flushes — successfully — and is killed leaves a file that **no** later `File.open(path, 'r' | 'a')` can open
(libhdf5: "file is already open for write"), for every session body. This is the edit `C17_fapl_shape` refuses. -/
theorem C17_locking_fapl_refuses (cfg : Cfg) (hl : locking cfg.low = true) (ha : cfg.createAtArg = true)
    (hoa : cfg.openAtArg = true)
    (ow : OWorld) (hn : ow.w.handle = none) (body : List Ev) (hb : ∀ e ∈ body, sessionEv e = true)
    (m : Mode) (hm : m ≠ .overwrite) :
    (stepO cfg ow (.open .overwrite)).2 = none ∧
    (stepO cfg (runO cfg (stepO cfg ow (.open .overwrite)).1 body) .flush).2 = none ∧
    (reopenO cfg (stepO cfg (runO cfg (stepO cfg ow (.open .overwrite)).1 body) .flush).1 m).1 =
      some .runtimeError := by
  obtain ⟨h0, hheld0, _⟩ := create_held hl ha hn
  have hk := C17_flush_shape.2.2.1
  have hheld1 := run_held (cfg := cfg) hk body hheld0 hb
  have hheld2 := session_held (cfg := cfg) hk hheld1 .flush rfl
  refine ⟨h0, ?_, held_kill_refused hoa hheld2 m hm⟩
  obtain ⟨hd, ho, _⟩ := hheld1.handle
  exact runBody_noraise Gen.fileFlushBody ho C17_flush_shape.2.1

/-- … while a regular `close()` (or leaving the `with` block) clears the mark: even under a locking bound the
closed file reopens and shows the state at the close — the loss is specific to `flush()` + kill, as observed. -/
theorem C17_locking_close_ok (cfg : Cfg) (hl : locking cfg.low = true) (ha : cfg.createAtArg = true)
    (hoa : cfg.openAtArg = true)
    (ow : OWorld) (hn : ow.w.handle = none) (body : List Ev) (hb : ∀ e ∈ body, sessionEv e = true)
    (fin : Ev) (hfin : fin = .close ∨ fin = .exit) (m : Mode) (hm : m ≠ .overwrite) :
    ∃ hd, (runO cfg (stepO cfg ow (.open .overwrite)).1 body).w.handle = some hd ∧
      reopenO cfg (stepO cfg (runO cfg (stepO cfg ow (.open .overwrite)).1 body) fin).1 m =
        (none, some hd.cache) := by
  obtain ⟨_, hheld0, hwf0⟩ := create_held hl ha hn
  have hk := C17_flush_shape.2.2.1
  have hheld1 := run_held (cfg := cfg) hk body hheld0 hb
  have hwf1 : WF (runO cfg (stepO cfg ow (.open .overwrite)).1 body).w := by
    rw [run_held_w hk body hheld0 hb]; exact run_WF body hwf0
  have hcl : ∃ hd, (runO cfg (stepO cfg ow (.open .overwrite)).1 body).w.handle = some hd ∧
      Settled hd.cache (stepO cfg (runO cfg (stepO cfg ow (.open .overwrite)).1 body) fin).1.w ∧
      (stepO cfg (runO cfg (stepO cfg ow (.open .overwrite)).1 body) fin).1.w.handle = none ∧
      (stepO cfg (runO cfg (stepO cfg ow (.open .overwrite)).1 body) fin).1.flag = false ∧
      (stepO cfg (runO cfg (stepO cfg ow (.open .overwrite)).1 body) fin).1.detached = false := by
    rcases hfin with rfl | rfl
    · exact close_clears hheld1 hwf1 Gen.fileCloseBody C17_close_shape.1 C17_close_shape.2.2 .close rfl
        (Or.inl rfl)
    · exact close_clears hheld1 hwf1 Gen.fileExitBody C17_exit_shape.1 C17_exit_shape.2.2.1 .exit rfl
        (Or.inr rfl)
  obtain ⟨hd, ho, hset, _, hflag, _⟩ := hcl
  exact ⟨hd, ho, reopen_unmarked hoa hset hflag m hm⟩

/-- A new file created beside the named path (`h5py.h5f.create` not given the caller's path): the flushed state
is not at the named path — reopening shows what was there before. This is the other edit `C17_fapl_shape`
refuses. -/
theorem C17_detached_loses :
    ∃ (before : OWorld) (hd : Handle) (c : Store),
      before = runO Gen.cfg OWorld.init [.open .overwrite, .write (.put "k" "old"), .close, .kill] ∧
      (runO ⟨.earliest, false, true⟩ before [.open .overwrite, .write (.put "k" "new"), .flush]).w.handle = some hd ∧
      hd.cache "k" = some "new" ∧
      reopenO ⟨.earliest, false, true⟩
        (runO ⟨.earliest, false, true⟩ before [.open .overwrite, .write (.put "k" "new"), .flush]) .readOnly
        = (none, some c) ∧ c "k" = some "old" :=
  ⟨_, _, _, rfl, rfl, by decide, rfl, by decide⟩

/-- … and the same for an existing file opened read-write at another path than the one named. -/
theorem C17_detached_open_loses :
    ∃ (before : OWorld) (hd : Handle) (c : Store),
      before = runO Gen.cfg OWorld.init [.open .overwrite, .write (.put "k" "old"), .close, .kill] ∧
      (runO ⟨.earliest, true, false⟩ before [.open .readWrite, .write (.put "k" "new"), .flush]).w.handle = some hd ∧
      hd.cache "k" = some "new" ∧
      reopenO Gen.cfg
        (runO ⟨.earliest, true, false⟩ before [.open .readWrite, .write (.put "k" "new"), .flush]) .readOnly
        = (none, some c) ∧ c "k" = some "old" :=
  ⟨_, _, _, rfl, rfl, by decide, rfl, by decide⟩

/-! ### refusals and read-only sessions -/

/-- `flush()` and `close()` on a closed file raise (h5py RuntimeError, observed) and change nothing;
so does a second `close()` and a `with`-exit after an explicit `close()` -/
theorem C17_closed_refused (w : World) (hn : w.handle = none) :
    step w .flush = (w, some .runtimeError) ∧ step w .close = (w, some .runtimeError) ∧
    step w .exit = (w, some .runtimeError) := by
  have key : ∀ body : List Prim, syncs body = true → runBody w body = (w, some .runtimeError) := by
    intro body
    induction body with
    | nil => intro h; simp [syncs] at h
    | cons p ps ih =>
      cases p with
      | gcCollect => intro h; rw [runBody_ok ps (prim_gc w)]; exact ih (by simpa [syncs] using h)
      | h5flush => intro _; rw [runBody_err ps (prim_flush_closed hn)]
      | h5close => intro h; simp [syncs] at h
  exact ⟨key _ C17_flush_shape.1, key _ C17_close_shape.1, key _ C17_exit_shape.1⟩

/-- a read-only session never changes the disk, whatever is called -/
theorem C17_readonly_inert (w : World) (hd : Handle) (ho : w.handle = some hd)
    (hro : hd.mode = .readOnly) (e : Ev) (he : ∀ m, e ≠ .open m) :
    (step w e).1.disk = w.disk := by
  cases e with
  | «open» m => exact absurd rfl (he m)
  | write x => simp [step, writeCall, ho, hro]
  | writeback ks => simp [step, writebackEv, ho, hro]
  | kill => rfl
  | flush | close | exit =>
    have key : ∀ (body : List Prim) (w : World), (w.handle = some hd ∨ w.handle = none) →
        (runBody w body).1.disk = w.disk := by
      intro body
      induction body with
      | nil => intro w _; rfl
      | cons p ps ih =>
        intro w hw
        rcases hw with ho' | hn'
        · cases p with
          | gcCollect => rw [runBody_ok ps (prim_gc w)]; exact ih w (Or.inl ho')
          | h5flush => rw [runBody_ok ps (prim_flush_ro ho' hro)]; exact ih w (Or.inl ho')
          | h5close =>
            rw [runBody_ok ps (prim_close_open ho')]
            exact ih (closeW w hd) (Or.inr rfl)
        · rw [runBody_closed_world _ hn']
    exact key _ w (Or.inl ho)

/-! ### several `File` objects on one path in the writer process (`Pure/FlushMulti.lean`) -/

section multi
open Nix.FlushMulti

/-- `flush()` through ANY of the `File` objects the process holds on the path (whatever access it was opened
with), then anything that writes nothing new — write-backs, flushes and closes through any object, further opens
— and SIGKILL: the reopened file shows the state at that flush. `File.flush` is the regenerated body. -/
theorem C17_multi_flush_durable (w : MWorld) (i : Nat) (c : Store) (tail : List MEv)
    (ho : w.objs[i]? = some true) (hc : w.cache = some c) (hp : w.pending = none)
    (hq : ∀ e ∈ tail, mquiet e = true) :
    (mstep w (.flush i)).2 = none ∧ mreopenView (mrun (mstep w (.flush i)).1 tail) = some c := by
  refine ⟨?_, mreopen_settled (mrun_settled tail hq (mrunBody_syncs i _ ho hc hp (by decide)))⟩
  simp [mstep, Gen.fileFlushBody, mrunBody, mprim, ho, hc]

/-- `close()` of ONE of the `File` objects — also while others stay open, so that the library keeps its file
structure and nothing but the flush inside `File.close` writes the cache — is durable in the same sense. -/
theorem C17_multi_close_durable (w : MWorld) (i : Nat) (c : Store) (tail : List MEv)
    (ho : w.objs[i]? = some true) (hc : w.cache = some c) (hp : w.pending = none)
    (hq : ∀ e ∈ tail, mquiet e = true) :
    (mstep w (.close i)).2 = none ∧ mreopenView (mrun (mstep w (.close i)).1 tail) = some c := by
  refine ⟨?_, mreopen_settled (mrun_settled tail hq (mrunBody_syncs i _ ho hc hp (by decide)))⟩
  simp only [mstep, Gen.fileCloseBody, mrunBody, mprim, ho, hc]
  by_cases hb : true ∈ w.objs.set i false <;> simp [hb]

/-- neither is idle: with a second object open, a `close` that releases its object without the flush, and a
`flush` that returns without reaching `H5Fflush`, both lose what was written. -/
theorem C17_multi_unflushed_loses :
    ∃ (w : MWorld) (c : Store), w.objs = [true, true] ∧ w.cache = some c ∧ w.pending = none ∧
      mreopenView (mrunBody w 1 [.gcCollect, .h5close]).1 ≠ some c ∧
      mreopenView (mrunBody w 1 []).1 ≠ some c := by
  refine ⟨⟨Store.empty, some ((Write.put "a" "1").apply Store.empty), none, [true, true]⟩, _, rfl, rfl, rfl, ?_, ?_⟩
  · intro h
    have h1 : mreopenView (mrunBody ⟨Store.empty, some ((Write.put "a" "1").apply Store.empty), none, [true, true]⟩ 1
        [.gcCollect, .h5close]).1 = some Store.empty := by
      simp [mreopenView, mstep, mrunBody, mprim]
    rw [h1] at h
    have := congrFun (Option.some.inj h) "a"
    simp [Store.empty, Write.apply] at this
  · intro h
    have h1 : mreopenView (mrunBody ⟨Store.empty, some ((Write.put "a" "1").apply Store.empty), none, [true, true]⟩ 1
        []).1 = some Store.empty := by
      simp [mreopenView, mstep, mrunBody]
    rw [h1] at h
    have := congrFun (Option.some.inj h) "a"
    simp [Store.empty, Write.apply] at this

/-- non-vacuity: two objects, writes through the second, which is closed while the first stays open -/
example : ∃ w : MWorld, w.objs[1]? = some true ∧ w.objs[0]? = some true ∧ w.pending = none ∧
    (∃ c, w.cache = some c ∧ c "a" = some "1") ∧ (mstep w (.close 1)).1.objs = [true, false] ∧
    (mstep w (.close 1)).1.cache.isSome = true :=
  ⟨mrun ⟨Store.empty, none, none, []⟩ [.openObj, .openObj, .write 1 (.put "a" "1")], by decide, by decide, rfl,
   ⟨_, rfl, by decide⟩, by decide, by decide⟩

end multi

/-! ### non-vacuity: concrete worlds meeting the hypotheses -/

example : ∃ w hd, WF w ∧ w.handle = some hd ∧ hd.cache "a" = some "1" ∧ w.disk.map (· "a") = some none :=
  ⟨run World.init [.open .overwrite, .write (.put "a" "1")], _, run_WF _ WF_init, rfl, by decide, by decide⟩

example : (⟨.readWrite, [.write (.put "a" "1"), .writeback ["a"], .flush, .write (.del "a")], .close,
            [.writeback ["a", "b"], .open .readOnly, .close]⟩ : Session).ok := by
  refine ⟨by decide, ?_, Or.inr (Or.inl rfl), ?_⟩ <;> simp [sessionEv, quiet]

example : quiet (.writeback ["x"]) = true ∧ quiet .flush = true ∧ quiet (.open .readWrite) = true ∧
    quiet (.write (.del "x")) = false := by decide

/-- the locking theorem is about real configurations: 1.10, and `latest`, lock; a concrete run is refused -/
example : locking .v110 = true ∧ locking .latest = true ∧ locking .v18 = false ∧
    (reopenO ⟨.latest, true, true⟩ (runO ⟨.latest, true, true⟩ OWorld.init [.open .readWrite, .write (.put "a" "1"), .flush])
      .readWrite).1 = some .runtimeError ∧
    (reopenO ⟨.latest, true, true⟩ (runO ⟨.latest, true, true⟩ OWorld.init [.open .readWrite, .write (.put "a" "1"), .close])
      .readWrite).1 = none := by decide

/-- `C17_reopen_not_refused` on a concrete history; `C17_last_flush_wins` with a write between the flushes -/
example : (reopenO Gen.cfg (runO Gen.cfg OWorld.init [.open .readWrite, .write (.put "a" "1"), .flush])
      .readOnly).1 = none ∧
    ∃ c, reopenView (run World.init [.open .overwrite, .write (.put "a" "1"), .flush, .write (.put "a" "2"),
      .writeback ["a"], .flush, .writeback ["b"]]) .readWrite = some c ∧ c "a" = some "2" :=
  ⟨by decide, _, rfl, by decide⟩

end Nix.C17
