import NixModel.Pure.Units
import NixModel.Lemmas.UnitsLemmas
import NixModel.Lemmas.UnitsRel
import NixModel.Lemmas.UnitsCompound
import NixModel.Lemmas.UnitsSound
import NixModel.Lemmas.UnitsScalingEq
import NixModel.Lemmas.UnitsTotal
import NixModel.Lemmas.UnitsFuel

/-!
# C09 — SI unit recognition and scaling are exact and consistent

Property theorems only; helper lemmas live in `NixModel/Lemmas/UnitsLemmas.lean`.
All statements are about the model `NixModel/Pure/Units.lean` instantiated with the tables and
regex shapes regenerated from `nixio/util/units.py` (`Generated/UnitsTables.lean`).
-/
namespace Nix.C09
open Nix.Units Nix.Units.Gen Nix.Units.Lemmas

/-- every prefix–unit–power combination of the supported tables (power texts −3…3 in all sign
spellings; no power = power 1) is atomic, SI, and is split into exactly that triple -/
theorem split_table (p u w : Str) (hp : p ∈ optPrefixes) (hu : u ∈ units) (hw : w ∈ powerTexts) :
    isAtomic (p ++ u ++ w) = true ∧ isSi (p ++ u ++ w) = true ∧
    split (p ++ u ++ w) = (p, u, w.drop 1) :=
  atom_table p u w hp hu hw

/-- scaling between two prefixed versions of the same unit and power is the ratio of the
prefixes raised to the power -/
theorem scaling_ratio (p₁ p₂ u w : Str) (h₁ : p₁ ∈ optPrefixes) (h₂ : p₂ ∈ optPrefixes)
    (hu : u ∈ units) (hw : w ∈ powerTexts) :
    scalable (p₁ ++ u ++ w) (p₂ ++ u ++ w) = true ∧
    scaling (p₁ ++ u ++ w) (p₂ ++ u ++ w) = .ok (tenPow (expOf p₁ - expOf p₂) ^ powVal w) :=
  scaling_atoms p₁ p₂ u w h₁ h₂ hu hw

/-- conversions compose: a→b followed by b→c is a→c -/
theorem scaling_compose (p₁ p₂ p₃ u w : Str) (h₁ : p₁ ∈ optPrefixes) (h₂ : p₂ ∈ optPrefixes)
    (h₃ : p₃ ∈ optPrefixes) (hu : u ∈ units) (hw : w ∈ powerTexts) :
    ∃ x y z : Rat, scaling (p₁ ++ u ++ w) (p₂ ++ u ++ w) = .ok x ∧
      scaling (p₂ ++ u ++ w) (p₃ ++ u ++ w) = .ok y ∧
      scaling (p₁ ++ u ++ w) (p₃ ++ u ++ w) = .ok z ∧ x * y = z :=
  ⟨_, _, _, (scaling_atoms p₁ p₂ u w h₁ h₂ hu hw).2, (scaling_atoms p₂ p₃ u w h₂ h₃ hu hw).2,
    (scaling_atoms p₁ p₃ u w h₁ h₃ hu hw).2, ratio_compose _ _ _ _⟩

/-- conversions invert: a→b times b→a is 1 -/
theorem scaling_invert (p₁ p₂ u w : Str) (h₁ : p₁ ∈ optPrefixes) (h₂ : p₂ ∈ optPrefixes)
    (hu : u ∈ units) (hw : w ∈ powerTexts) :
    ∃ x y : Rat, scaling (p₁ ++ u ++ w) (p₂ ++ u ++ w) = .ok x ∧
      scaling (p₂ ++ u ++ w) (p₁ ++ u ++ w) = .ok y ∧ x * y = 1 :=
  ⟨_, _, (scaling_atoms p₁ p₂ u w h₁ h₂ hu hw).2, (scaling_atoms p₂ p₁ u w h₂ h₁ hu hw).2,
    ratio_invert _ _ _⟩

/-- a different base unit or a different power text: not scalable, conversion refused -/
theorem not_scalable (p₁ p₂ u₁ u₂ w₁ w₂ : Str) (h₁ : p₁ ∈ optPrefixes) (h₂ : p₂ ∈ optPrefixes)
    (hu₁ : u₁ ∈ units) (hu₂ : u₂ ∈ units) (hw₁ : w₁ ∈ powerTexts) (hw₂ : w₂ ∈ powerTexts)
    (hne : u₁ ≠ u₂ ∨ w₁.drop 1 ≠ w₂.drop 1) :
    scalable (p₁ ++ u₁ ++ w₁) (p₂ ++ u₂ ++ w₂) = false ∧
    scaling (p₁ ++ u₁ ++ w₁) (p₂ ++ u₂ ++ w₂) = .error .invalidUnit :=
  not_scalable_atoms p₁ p₂ u₁ u₂ w₁ w₂ h₁ h₂ hu₁ hu₂ hw₁ hw₂ hne

/-- a product or quotient of two table atoms, followed by anything (so: any `*`/`/`-joined
sequence of two or more atoms), is recognised as compound and as SI -/
theorem compound (p₁ u₁ w₁ p₂ u₂ w₂ : Str) (sep : Char) (tail : Str)
    (h₁ : p₁ ∈ optPrefixes) (hu₁ : u₁ ∈ units) (hw₁ : w₁ ∈ powerTexts)
    (h₂ : p₂ ∈ optPrefixes) (hu₂ : u₂ ∈ units) (hw₂ : w₂ ∈ powerTexts)
    (hsep : sep = '*' ∨ sep = '/') :
    isCompound ((p₁ ++ u₁ ++ w₁) ++ sep :: (p₂ ++ u₂ ++ w₂) ++ tail) = true ∧
    isSi ((p₁ ++ u₁ ++ w₁) ++ sep :: (p₂ ++ u₂ ++ w₂) ++ tail) = true :=
  compound_atoms p₁ u₁ w₁ p₂ u₂ w₂ sep tail h₁ hu₁ hw₁ h₂ hu₂ hw₂ hsep

/-- unit clean-up is idempotent, for every string -/
theorem sanitizer_idempotent (s : Str) : sanitizer (sanitizer s) = sanitizer s :=
  sanitizer_idem s

/-- and it does what it says: no blank, no micro sign, no `mu` is left -/
theorem sanitizer_clean (s : Str) :
    ' ' ∉ sanitizer s ∧ 'µ' ∉ sanitizer s ∧ 'μ' ∉ sanitizer s ∧
    containsSub ['m', 'u'] (sanitizer s) = false :=
  sanitizer_is_clean s


/-! ## Every power text

`PowerText w` holds for *every* text of the POWER grammar regenerated from the source
(`^`, optional sign, a digit 1–9, any number of further digits) and for the empty text; the
statements below are the ones above without the bound −3…3 (structural proofs, no enumeration of
powers; only `prefix ++ unit` is closed over the generated tables). -/

/-- every prefix–unit–power combination, with a power of any number of digits, is atomic, SI, and is
split into exactly that triple -/
theorem split_all_powers (p u w : Str) (hp : p ∈ optPrefixes) (hu : u ∈ units) (hw : PowerText w) :
    isAtomic (p ++ u ++ w) = true ∧ isSi (p ++ u ++ w) = true ∧
    split (p ++ u ++ w) = (p, u, w.drop 1) :=
  ⟨(atomic_generic p u w hp hu hw).1, (atomic_generic p u w hp hu hw).2, split_generic p u w hp hu hw⟩

/-- the value `scaling` raises the prefix ratio to: the signed decimal number the power text spells
(never 0), 1 without a power text -/
theorem power_value (sign : Str) (d : Char) (ds : Str) (hs : sign = [] ∨ sign = ['+'] ∨ sign = ['-'])
    (hd : isDigit19 d = true) (hds : ds.all isDigit = true) :
    powVal ('^' :: sign ++ d :: ds) =
      (if sign = ['-'] then -(natOfDigits (d :: ds) : Int) else (natOfDigits (d :: ds) : Int)) ∧
    0 < natOfDigits (d :: ds) ∧ powVal [] = 1 :=
  ⟨powVal_generic sign d ds hs hd hds, natOfDigits_pos d ds hd, rfl⟩

/-- scaling is the prefix ratio raised to the power, for every integer power the grammar can spell
(negative powers invert the ratio: `zpow`) -/
theorem scaling_ratio_all_powers (p₁ p₂ u w : Str) (h₁ : p₁ ∈ optPrefixes) (h₂ : p₂ ∈ optPrefixes)
    (hu : u ∈ units) (hw : PowerText w) :
    scalable (p₁ ++ u ++ w) (p₂ ++ u ++ w) = true ∧
    scaling (p₁ ++ u ++ w) (p₂ ++ u ++ w) = .ok (tenPow (expOf p₁ - expOf p₂) ^ powVal w) :=
  scaling_atoms_generic p₁ p₂ u w h₁ h₂ hu hw

theorem scaling_compose_all_powers (p₁ p₂ p₃ u w : Str) (h₁ : p₁ ∈ optPrefixes) (h₂ : p₂ ∈ optPrefixes)
    (h₃ : p₃ ∈ optPrefixes) (hu : u ∈ units) (hw : PowerText w) :
    ∃ x y z : Rat, scaling (p₁ ++ u ++ w) (p₂ ++ u ++ w) = .ok x ∧
      scaling (p₂ ++ u ++ w) (p₃ ++ u ++ w) = .ok y ∧
      scaling (p₁ ++ u ++ w) (p₃ ++ u ++ w) = .ok z ∧ x * y = z :=
  ⟨_, _, _, (scaling_atoms_generic p₁ p₂ u w h₁ h₂ hu hw).2, (scaling_atoms_generic p₂ p₃ u w h₂ h₃ hu hw).2,
    (scaling_atoms_generic p₁ p₃ u w h₁ h₃ hu hw).2, ratio_compose _ _ _ _⟩

theorem scaling_invert_all_powers (p₁ p₂ u w : Str) (h₁ : p₁ ∈ optPrefixes) (h₂ : p₂ ∈ optPrefixes)
    (hu : u ∈ units) (hw : PowerText w) :
    ∃ x y : Rat, scaling (p₁ ++ u ++ w) (p₂ ++ u ++ w) = .ok x ∧
      scaling (p₂ ++ u ++ w) (p₁ ++ u ++ w) = .ok y ∧ x * y = 1 :=
  ⟨_, _, (scaling_atoms_generic p₁ p₂ u w h₁ h₂ hu hw).2, (scaling_atoms_generic p₂ p₁ u w h₂ h₁ hu hw).2,
    ratio_invert _ _ _⟩

theorem not_scalable_all_powers (p₁ p₂ u₁ u₂ w₁ w₂ : Str) (h₁ : p₁ ∈ optPrefixes) (h₂ : p₂ ∈ optPrefixes)
    (hu₁ : u₁ ∈ units) (hu₂ : u₂ ∈ units) (hw₁ : PowerText w₁) (hw₂ : PowerText w₂)
    (hne : u₁ ≠ u₂ ∨ w₁.drop 1 ≠ w₂.drop 1) :
    scalable (p₁ ++ u₁ ++ w₁) (p₂ ++ u₂ ++ w₂) = false ∧
    scaling (p₁ ++ u₁ ++ w₁) (p₂ ++ u₂ ++ w₂) = .error .invalidUnit :=
  not_scalable_atoms_generic p₁ p₂ u₁ u₂ w₁ w₂ h₁ h₂ hu₁ hu₂ hw₁ hw₂ hne

/-- between table atoms `scalable` holds exactly for the same base unit and the same power text -/
theorem scalable_iff_same_unit_power (p₁ p₂ u₁ u₂ w₁ w₂ : Str) (h₁ : p₁ ∈ optPrefixes) (h₂ : p₂ ∈ optPrefixes)
    (hu₁ : u₁ ∈ units) (hu₂ : u₂ ∈ units) (hw₁ : PowerText w₁) (hw₂ : PowerText w₂) :
    scalable (p₁ ++ u₁ ++ w₁) (p₂ ++ u₂ ++ w₂) = true ↔ u₁ = u₂ ∧ w₁ = w₂ :=
  scalable_atoms_iff p₁ p₂ u₁ u₂ w₁ w₂ h₁ h₂ hu₁ hu₂ hw₁ hw₂

/-- products and quotients of atoms with any power text are compound, whatever follows -/
theorem compound_all_powers (p₁ u₁ w₁ p₂ u₂ w₂ : Str) (sep : Char) (tail : Str)
    (h₁ : p₁ ∈ optPrefixes) (hu₁ : u₁ ∈ units) (hw₁ : PowerText w₁)
    (h₂ : p₂ ∈ optPrefixes) (hu₂ : u₂ ∈ units) (hw₂ : PowerText w₂)
    (hsep : sep = '*' ∨ sep = '/') :
    isCompound ((p₁ ++ u₁ ++ w₁) ++ sep :: (p₂ ++ u₂ ++ w₂) ++ tail) = true ∧
    isSi ((p₁ ++ u₁ ++ w₁) ++ sep :: (p₂ ++ u₂ ++ w₂) ++ tail) = true :=
  compound_atoms_generic p₁ u₁ w₁ p₂ u₂ w₂ sep tail h₁ hu₁ hw₁ h₂ hu₂ hw₂ hsep

/-! ## The statement shape of `scaling()`

`Scaling.scaling` interprets the shape of `scaling()` regenerated from the source into
`Generated/UnitsScaling.lean` (the expression of `is_si`, the SI guard and component comparison of `scalable`;
for `scaling`: shortcut comparisons, the if/elif chain on the prefixes with the expression each
branch assigns, which power is applied); it is the function the driver runs against the implementation. -/

/-- the regenerated shape computes the hand-written model for all inputs: every theorem about `scaling` in this
file is a theorem about the code's branches as they are in the source today -/
theorem scaling_shape (a b : Str) : Scaling.scaling a b = scaling a b := scalingGen_eq a b

/-- likewise the expression `is_si` returns and the guard / comparison of `scalable` -/
theorem recognition_shape (a b : Str) :
    Scaling.isSi a = isSi a ∧ Scaling.scalable a b = scalable a b :=
  ⟨isSiGen_eq a, scalableGen_eq a b⟩

/-- in particular: the prefix ratio to the power, for every power text -/
theorem scaling_shape_ratio (p₁ p₂ u w : Str) (h₁ : p₁ ∈ optPrefixes) (h₂ : p₂ ∈ optPrefixes)
    (hu : u ∈ units) (hw : PowerText w) :
    Scaling.scaling (p₁ ++ u ++ w) (p₂ ++ u ++ w) = .ok (tenPow (expOf p₁ - expOf p₂) ^ powVal w) := by
  rw [scalingGen_eq]
  exact (scaling_atoms_generic p₁ p₂ u w h₁ h₂ hu hw).2

/-! ## `scaling` on all inputs -/

/-- whatever `split` returns for any string: the prefix is empty or from the prefix table (each entry of which has
a factor), the power is empty or a power text without its `^` — so `scaling` can raise neither KeyError nor
ValueError -/
theorem split_captures (s : Str) : (split s).1 ∈ optPrefixes ∧ PowerTail (split s).2.2 := split_parts s

/-- for ANY two strings `scaling` either refuses with `InvalidUnit` — exactly when `scalable` is false — or returns
the ratio of the prefixes `split` found raised to the power `split` found; there is no third outcome. The same
holds for the interpretation of the regenerated statement shape, which is what the driver runs -/
theorem scaling_total_exact (a b : Str) :
    scaling a b =
      (if scalable a b then .ok (tenPow (expOf (split a).1 - expOf (split b).1) ^ powOf (split a).2.2)
       else .error .invalidUnit) ∧
    Scaling.scaling a b = scaling a b :=
  ⟨scaling_total a b, scalingGen_eq a b⟩

/-- conversions compose and invert for ANY strings the code reports scalable (atoms of any spelling the
recogniser lets through, compounds, …), not only for table atoms -/
theorem scaling_compose_invert_general (a b c : Str) (hab : scalable a b = true) (hbc : scalable b c = true) :
    (∃ x y z : Rat, scaling a b = .ok x ∧ scaling b c = .ok y ∧ scaling a c = .ok z ∧ x * y = z) ∧
    (∃ x y : Rat, scaling a b = .ok x ∧ scaling b a = .ok y ∧ x * y = 1) :=
  ⟨scaling_compose_general a b c hab hbc, scaling_invert_general a b hab⟩

/-- a conversion factor is strictly positive -/
theorem scaling_positive (a b : Str) (r : Rat) (h : scaling a b = .ok r) : 0 < r := scaling_pos a b r h

/-! ## `scalable` as a relation on arbitrary strings -/

/-- symmetric; transitive; reflexive exactly on the strings recognised as SI -/
theorem scalable_equivalence :
    (∀ a b : Str, scalable a b = scalable b a) ∧
    (∀ a b c : Str, scalable a b = true → scalable b c = true → scalable a c = true) ∧
    (∀ a : Str, scalable a a = isSi a) :=
  ⟨scalable_symm, scalable_trans, scalable_refl⟩

/-- the list form of `scalable`: same length and every corresponding pair scalable -/
theorem scalable_lists (as bs : List Str) :
    Compound.scalableList as bs = true ↔
      as.length = bs.length ∧ ∀ ab ∈ as.zip bs, scalable ab.1 ab.2 = true := by
  unfold Compound.scalableList
  by_cases h : as.length = bs.length <;> simp [h]

/-- converting any SI unit (atomic or compound) to itself is the identity -/
theorem scaling_identity (a : Str) (h : isSi a = true) : scaling a a = .ok 1 := scaling_self a h

/-- conversion is refused with `InvalidUnit` exactly for the pairs reported not scalable -/
theorem scaling_refused_iff_not_scalable (a b : Str) :
    scaling a b = .error .invalidUnit ↔ scalable a b = false := scaling_refused_iff a b


/-! ## Compounds of any length, `invert_power`, `split_compound`

Over `Pure/UnitsCompound.lean` (the code after the `fix:` commits 95294ad / 7be83b8) and the branch table of
`invert_power`, the separator lookahead and the remainder clean-up regenerated into
`Generated/UnitsCompound.lean`.  `ValidAtom a`: `a = prefix ++ unit ++ w` from the tables with any power text;
`ValidSeq l`: every separator is `*` or `/` and every atom valid; `joinCompound a₀ [(s₁,a₁),…]` is the text
`a₀ s₁ a₁ s₂ a₂ …`. -/

/-- a `*`/`/`-joined sequence of two or more atoms, of any length, is compound and SI -/
theorem compound_sequence (a₀ : Str) (l : List (Char × Str)) (ha : ValidAtom a₀) (hl : ValidSeq l)
    (hne : l ≠ []) :
    isCompound (joinCompound a₀ l) = true ∧ isSi (joinCompound a₀ l) = true :=
  compound_seq a₀ l ha hl hne

/-- `invert_power` negates the power of every table atom: the result is that prefix and unit with the power
text of the opposite sign (`^-1` when there was none), again atomic, and its value is the negated value -/
theorem invert_power_negates (p u w : Str) (hp : p ∈ optPrefixes) (hu : u ∈ units) (hw : PowerText w) :
    Compound.invertPower (p ++ u ++ w) = p ++ u ++ negPow w ∧ PowerText (negPow w) ∧
    powVal (negPow w) = - powVal w ∧ isAtomic (Compound.invertPower (p ++ u ++ w)) = true ∧
    split (Compound.invertPower (p ++ u ++ w)) = (p, u, (negPow w).drop 1) := by
  have h := invertPower_atom p u w hp hu hw
  have hn := negPow_PowerText w hw
  rw [h]
  exact ⟨rfl, hn, powVal_negPow w hw, (atomic_generic p u (negPow w) hp hu hn).1,
    split_generic p u (negPow w) hp hu hn⟩

/-- inverting twice gives back the same prefix, unit and power value -/
theorem invert_power_twice (p u w : Str) (hp : p ∈ optPrefixes) (hu : u ∈ units) (hw : PowerText w) :
    Compound.invertPower (Compound.invertPower (p ++ u ++ w)) = p ++ u ++ negPow (negPow w) ∧
    powVal (negPow (negPow w)) = powVal w := by
  have hn := negPow_PowerText w hw
  rw [invertPower_atom p u w hp hu hw, invertPower_atom p u (negPow w) hp hu hn,
    powVal_negPow _ hn, powVal_negPow w hw]
  exact ⟨rfl, Int.neg_neg _⟩

/-- `split_compound` returns the atoms of a sequence of any length, in order, the ones after `/` inverted;
every returned element is again a table atom -/
theorem split_compound_sequence (a₀ : Str) (l : List (Char × Str)) (ha : ValidAtom a₀) (hl : ValidSeq l) :
    Compound.splitCompound (joinCompound a₀ l) = some (a₀ :: expectAtoms l) ∧
    ∀ x ∈ a₀ :: expectAtoms l, ValidAtom x :=
  ⟨splitCompound_seq a₀ l ha hl, expectAtoms_valid a₀ l ha hl⟩

/-- blanks before and after the separators do not matter (`mV / Hz`): the same atoms come back -/
theorem split_compound_blanks (a₀ : Str) (l : List (Str × Char × Str × Str)) (ha : ValidAtom a₀)
    (hl : ValidPadded l) :
    Compound.splitCompound (joinPadded a₀ l) = some (a₀ :: expectAtoms (stripPads l)) :=
  splitCompound_padded a₀ l ha hl

/-- joining atoms with `*` and splitting again gives exactly the atoms -/
theorem split_compound_roundtrip (a₀ : Str) (as : List Str) (ha : ValidAtom a₀) (has : ∀ a ∈ as, ValidAtom a) :
    Compound.splitCompound (joinCompound a₀ (as.map fun a => ('*', a))) = some (a₀ :: as) :=
  splitCompound_roundtrip a₀ as ha has


/-! ## The recogniser is exact; clean-up of atoms -/

/-- `is_atomic` accepts exactly the prefix–unit–power combinations of the tables (any power text), optionally
followed by one newline (Python's `$`): nothing else — no other string — is recognised as atomic -/
theorem atomic_exact (s : Str) :
    isAtomic s = true ↔ ∃ a, ValidAtom a ∧ (s = a ∨ s = a ++ ['\n']) :=
  isAtomic_iff s

/-- a table atom has exactly one reading as prefix, unit and power text -/
theorem atom_reading_unique (p u w p' u' w' : Str) (hp : p ∈ optPrefixes) (hu : u ∈ units)
    (hw : PowerText w) (hp' : p' ∈ optPrefixes) (hu' : u' ∈ units) (hw' : PowerText w')
    (h : p ++ u ++ w = p' ++ u' ++ w') : p = p' ∧ u = u' ∧ w = w' :=
  atom_decomposition_unique p u w p' u' w' hp hu hw hp' hu' hw' h

/-- `split` of a string that is not an atomic unit returns it whole as the unit (no prefix, no power), and
`invert_power` appends `^-1` to it -/
theorem split_of_non_atomic (s : Str) (h : isAtomic s = false) :
    split s = ([], s, []) ∧ Compound.invertPower s = s ++ ['^', '-', '1'] := by
  have hs := split_non_atomic s h
  refine ⟨hs, ?_⟩
  unfold Compound.invertPower
  rw [hs]
  simp [invertPower_branch_table.1]

/-- `is_compound` accepts exactly the strings that contain two table atoms joined by `*` or `/` (it searches,
so anything may stand in front and behind) -/
theorem compound_exact (s : Str) :
    isCompound s = true ↔ ∃ front a₁ c a₂ back, ValidAtom a₁ ∧ ValidAtom a₂ ∧ (c = '*' ∨ c = '/') ∧
      s = front ++ a₁ ++ c :: a₂ ++ back :=
  isCompound_iff s

/-- hence `is_si`: a table atom (optionally followed by a newline) or a string containing such a pair -/
theorem si_exact (s : Str) :
    isSi s = true ↔ (∃ a, ValidAtom a ∧ (s = a ∨ s = a ++ ['\n'])) ∨
      (∃ front a₁ c a₂ back, ValidAtom a₁ ∧ ValidAtom a₂ ∧ (c = '*' ∨ c = '/') ∧
        s = front ++ a₁ ++ c :: a₂ ++ back) :=
  isSi_iff s

/-- every table atom is a fixed point of the clean-up, and blanks anywhere in it do not matter -/
theorem sanitizer_atoms (s a : Str) (ha : ValidAtom a) (hs : removeBlanks s = a) :
    sanitizer a = a ∧ sanitizer s = a ∧ isSi (sanitizer s) = true :=
  ⟨sanitizer_atom_fixed a ha, (sanitizer_blanked_atom s a ha hs).1, (sanitizer_blanked_atom s a ha hs).2⟩

/-- a product/quotient of table atoms written with blanks around the separators (`mV / Hz`) is, after the
clean-up, the blank-free sequence, which is recognised as compound and SI -/
theorem sanitizer_compounds (a₀ : Str) (l : List (Str × Char × Str × Str)) (ha : ValidAtom a₀)
    (hl : ValidPadded l) (hne : l ≠ []) :
    sanitizer (joinPadded a₀ l) = joinCompound a₀ (stripPads l) ∧
    isCompound (sanitizer (joinPadded a₀ l)) = true ∧ isSi (sanitizer (joinPadded a₀ l)) = true := by
  have h := sanitizer_padded a₀ l ha hl
  have hne' : stripPads l ≠ [] := by cases l <;> simp_all [stripPads]
  rw [h]
  exact ⟨rfl, compound_seq a₀ (stripPads l) ha (validSeq_stripPads l hl) hne'⟩

/-- the clean-up depends on a string only through its de-blanked form -/
theorem sanitizer_blanks (s : Str) : sanitizer s = sanitizer (removeBlanks s) := sanitizer_removeBlanks s

/-- a unit written with a micro sign (U+00B5 or U+03BC) or with `mu` is, after the clean-up, the atom with
prefix `u`: SI, and split into (`u`, unit, power) -/
theorem sanitizer_micro_spellings (sp u w : Str) (hsp : sp ∈ microSpellings) (hu : u ∈ units) (hw : PowerText w) :
    sanitizer (sp ++ u ++ w) = ['u'] ++ u ++ w ∧ isSi (sanitizer (sp ++ u ++ w)) = true ∧
    split (sanitizer (sp ++ u ++ w)) = (['u'], u, w.drop 1) :=
  ⟨sanitizer_micro sp u w hsp hu hw, (sanitizer_micro_atom sp u w hsp hu hw).1,
    (sanitizer_micro_atom sp u w hsp hu hw).2⟩

/-! ## The model's fuel is never exhausted -/

/-- `str.replace` and the loop of `split_compound` are unbounded in Python and get `length + 1` steps in the
model; for ALL inputs any larger fuel gives the same result, so the `fuel = 0` exits are reached by no input
(the fix-point loop of `sanitizer` reaches its fix point: `sanitizer_clean`; `is_compound`: `compound_exact`) -/
theorem model_fuel_never_exhausted (old new s : Str) (n : Nat) (h : s.length < n) :
    replaceFuel n old new s = replace old new s ∧
    Compound.splitCompoundLoop n s ' ' [] = Compound.splitCompound s :=
  ⟨replace_fuel old new s n h, splitCompound_fuel s n h⟩

/-! Non-vacuity: the hypotheses are met by concrete table entries. -/
example : (['m'] ∈ optPrefixes) ∧ (['m', 'o', 'l'] ∈ units) ∧ (['^', '-', '2'] ∈ powerTexts) := by
  decide
example : scaling "mV".toList "uV".toList = .ok 1000 := by decide +kernel
example : split "mmol^-2".toList = ("m".toList, "mol".toList, "-2".toList) := by decide +kernel
example : sanitizer "m mµ V".toList = "uV".toList := by decide +kernel
example : PowerText "^-1234567890".toList := .pow ['-'] '1' "234567890".toList (by simp) (by decide) (by decide)
example : ∀ w ∈ powerTexts, PowerText w := powerTexts_PowerText
example : split "damol^+120".toList = ("da".toList, "mol".toList, "+120".toList) := by decide +kernel
example : scaling "mm^-12".toList "m^-12".toList = .ok ((10 : Rat) ^ (36 : Int)) := by decide +kernel
example : scalable "mV/Hz".toList "mV/Hz".toList = true := by decide +kernel
example : ValidAtom "mmol^-2".toList :=
  ⟨"m".toList, "mol".toList, "^-2".toList, by decide, by decide, .pow ['-'] '2' [] (by simp) (by decide) (by decide), rfl⟩
example : Compound.splitCompound "mmol/l^2*Sv^+3/kat^-2".toList =
    some ["mmol".toList, "l^-2".toList, "Sv^+3".toList, "kat^2".toList] := by decide +kernel
example : joinCompound "mV".toList [('/', "s^2".toList), ('*', "mol".toList)] = "mV/s^2*mol".toList := by decide
example : Compound.invertPower "s^+12".toList = "s^-12".toList := by decide +kernel
example : powOf "-12".toList = -12 ∧ powOf [] = 1 ∧ PowerTail "+7".toList := by
  refine ⟨by decide, by decide, Or.inr (.pow ['+'] '7' [] (by simp) (by decide) (by decide))⟩
example : scaling "mV\n".toList "kV".toList = .ok ((10 : Rat) ^ (-6 : Int)) := by decide +kernel
example : joinPadded "mV".toList [("  ".toList, '/', " ".toList, "Hz".toList)] = "mV  / Hz".toList := by decide
example : microSpellings = ["µ".toList, "μ".toList, "mu".toList] := by decide
example : isAtomic "mV\n".toList = true ∧ isAtomic "mV\n\n".toList = false ∧ isAtomic "mV ".toList = false := by
  decide +kernel
example : removeBlanks " k Ohm ^ -2".toList = "kOhm^-2".toList := by decide

end Nix.C09
