import NixModel.Pure.Units
import NixModel.Lemmas.UnitsLemmas

/-!
# C09 — SI unit recognition and scaling are exact and consistent

Property theorems only; helper lemmas live in `NixModel/Lemmas/UnitsLemmas.lean`.
All statements are about the model `NixModel/Pure/Units.lean` instantiated with the tables and
regex shapes regenerated from `nixio/util/units.py` (`Generated/UnitsTables.lean`).
-/
namespace Nix.C09
open Nix.Units Nix.Units.Gen Nix.Units.Lemmas

/-- every prefix–unit–power combination of the supported tables (power texts −3…3 in all sign
spellings; no power = power 1) is atomic, SI, and is split into exactly that triple -/
theorem split_table (p u w : Str) (hp : p ∈ optPrefixes) (hu : u ∈ units) (hw : w ∈ powerTexts) :
    isAtomic (p ++ u ++ w) = true ∧ isSi (p ++ u ++ w) = true ∧
    split (p ++ u ++ w) = (p, u, w.drop 1) :=
  atom_table p u w hp hu hw

/-! Non-vacuity: the hypotheses are met by concrete table entries. -/
example : ("m".toList ∈ optPrefixes) ∧ ("mol".toList ∈ units) ∧ ("^-2".toList ∈ powerTexts) := by
  decide
example : scaling "mV".toList "uV".toList = .ok 1000 := by decide +kernel
example : split "mmol^-2".toList = ("m".toList, "mol".toList, "-2".toList) := by decide +kernel

end Nix.C09
