import NixModel.Lemmas.C12LinkWrite
import NixModel.Generated.LinkOrder

/-!
# C12 — dimension links: a refused `link_data_array` / `link_data_frame` /
# `append_range_dimension_using_self` leaves the dimension exactly as it was

The step lists of `Generated/LinkOrder.lean` are the statements of the five functions in source order with their
callees inlined (`_check_link_dimensionality`, `_check_index`, `remove_link`, `DimensionLink.create_new`, the
`DimensionLink.index` setter).  The theorems quantify over every call — every spelling of the index (container
capabilities × entries), every previous state of the descriptor (ticks or not, linked or not) — and are stated on
the generated constants: an edit of the order of validations and writes in the source changes the constants and
breaks `link_functions_safe`.
-/
namespace Nix.C12
open Nix.LinkWrite Nix.Generated.LinkOrder

/-- the discipline theorem (all step lists, all calls, all files): a list on which every statement that can
raise after the first write asks only for what an earlier guard has established never changes the file when it
refuses -/
theorem link_steps_refused_unchanged (steps : List Step) (h : safe steps = true) (c : Call)
    (f : File) (e : Err) (he : (run c steps f).2 = some e) : (run c steps f).1 = f :=
  safe_refused_unchanged steps h c f e he

/-- every link-building function of nixio, as generated from the source, obeys the discipline -/
theorem link_functions_safe : ∀ p ∈ Nix.Generated.LinkOrder.all, safe p.2 = true := by decide

/-- `Dimension.link_data_array` (SetDimension): refused ⇒ the descriptor (labels, previous link) is untouched -/
theorem link_data_array_refused_unchanged (c : Call) (f : File) (e : Err)
    (he : (run c linkDataArray f).2 = some e) : (run c linkDataArray f).1 = f :=
  safe_refused_unchanged _ (by decide) c f e he

/-- `RangeDimension.link_data_array`: refused ⇒ ticks and previous link are untouched -/
theorem range_link_data_array_refused_unchanged (c : Call) (f : File) (e : Err)
    (he : (run c rangeLinkDataArray f).2 = some e) : (run c rangeLinkDataArray f).1 = f :=
  safe_refused_unchanged _ (by decide) c f e he

theorem link_data_frame_refused_unchanged (c : Call) (f : File) (e : Err)
    (he : (run c linkDataFrame f).2 = some e) : (run c linkDataFrame f).1 = f :=
  safe_refused_unchanged _ (by decide) c f e he

theorem range_link_data_frame_refused_unchanged (c : Call) (f : File) (e : Err)
    (he : (run c rangeLinkDataFrame f).2 = some e) : (run c rangeLinkDataFrame f).1 = f :=
  safe_refused_unchanged _ (by decide) c f e he

/-- `DataArray.append_range_dimension_using_self`: refused ⇒ no descriptor was added, the array's time stamp
stands -/
theorem append_range_dimension_using_self_refused_unchanged (c : Call) (f : File) (e : Err)
    (he : (run c appendRangeDimensionUsingSelf f).2 = some e) : (run c appendRangeDimensionUsingSelf f).1 = f :=
  safe_refused_unchanged _ (by decide) c f e he

/-- what an accepted `RangeDimension.link_data_array` leaves: the complete link, no ticks -/
theorem range_link_data_array_accepted (c : Call) (d : Dim) (n s : Nat)
    (hg : ∀ g ∈ [Guard.rankMatches, .sameFile, .isSequence, .entriesPlain, .entriesStorable, .oneMinusOne, .oneNegative],
      g.check c = none) :
    run c rangeLinkDataArray ⟨some d, n, s⟩ =
      (⟨some ⟨false, some ⟨c.newId, some true, some c.target, some c.idx.entries, none, some c.now, some c.now⟩⟩,
        n, s⟩, none) := by
  have h1 := hg .rankMatches (by simp)
  have h2 := hg .isSequence (by simp)
  have h3 := hg .entriesPlain (by simp)
  have h4 := hg .oneMinusOne (by simp)
  have h5 := hg .oneNegative (by simp)
  have h6 := hg .entriesStorable (by simp)
  have h7 := hg .sameFile (by simp)
  have hof : c.otherFile = false := by
    cases ho : c.otherFile with
    | false => rfl
    | true => simp [Guard.check, ho] at h7
  have hi : c.idx.iterable = true := by
    cases hc : c.idx.iterable with
    | true => rfl
    | false => simp [Guard.check, hc] at h6
  have hst : c.idx.entries.all (·.storable) = true := by
    cases ha : c.idx.entries.all (·.storable) with
    | true => rfl
    | false => simp [Guard.check, hi, ha] at h6
  simp [rangeLinkDataArray, run, step, h1, h2, h3, h4, h5, h6, h7, hi, hst, hof, File.mapLink]

/-- the functions as they were before the type of the index was asked for up front (nixio 6f31aa5; the shape a
loosened pre-check restores): the `Sequence` test of the `DimensionLink.index` setter is the first to ask -/
def linkDataArrayLateTypeCheck : List Step := linkDataArray.erase (.guard .isSequence)

/-- a container with `len`, iteration and `count` that is no `Sequence`, holding a plain `-1` -/
def duckIndex : Call :=
  { idx := ⟨true, true, true, false, [⟨true, true, true, true, true⟩]⟩,
    col := ⟨false, 0⟩, target := 7, targetRank := 1, targetCols := 0, now := 5, newId := 9 }

def linkedDim : File :=
  ⟨some ⟨false, some ⟨1, some true, some 3, some [], none, some 1, some 1⟩⟩, 2, 1⟩

/-- **the order matters**: with the type test left to the setter the discipline fails, and the refused call has
removed the previous link and left a half-built one (no index, no time stamps) -/
theorem late_type_check_counterexample :
    safe linkDataArrayLateTypeCheck = false ∧
    (run duckIndex linkDataArrayLateTypeCheck linkedDim).2 = some .typeError ∧
    (run duckIndex linkDataArrayLateTypeCheck linkedDim).1 =
      ⟨some ⟨false, some ⟨9, some true, some 7, none, none, none, none⟩⟩, 2, 1⟩ := by
  exact ⟨by decide +kernel, by decide +kernel, by decide +kernel⟩

/-- the same for the entries (before nixio d2055a6 / 337daf9): `Fraction(-1)` compares like `-1` but cannot be
stored, and nothing asks before the link group is built -/
def linkDataArrayNoEntryCheck : List Step :=
  linkDataArray.filter fun s => s != .guard .entriesPlain && s != .guard .entriesStorable

def fractionIndex : Call :=
  { duckIndex with idx := ⟨true, true, true, true, [⟨false, true, true, true, false⟩]⟩ }

theorem entry_check_counterexample :
    safe linkDataArrayNoEntryCheck = false ∧
    (run fractionIndex linkDataArrayNoEntryCheck linkedDim).2 = some .typeError ∧
    (run fractionIndex linkDataArrayNoEntryCheck linkedDim).1 ≠ linkedDim := by
  exact ⟨by decide +kernel, by decide +kernel, by decide +kernel⟩

/-- the functions as they were before the file of the object was asked for up front (nixio before the repair of
finding `C12-dimension-link-object-of-another-file`): `H5Group.create_link`, in the middle of
`DimensionLink.create_new`, is the first to ask -/
def linkDataArrayNoFileTest : List Step := linkDataArray.erase (.guard .sameFile)

/-- a list index `[-1]`, the array offered lives in another open file -/
def otherFileCall : Call :=
  { duckIndex with idx := { duckIndex.idx with isSeq := true }, otherFile := true }

/-- without the pre-check the discipline fails, and the refused call has removed the previous link and left a link
group without target; the function as it is refuses the same call and the linked descriptor stands -/
theorem link_file_test_counterexample :
    safe linkDataArrayNoFileTest = false ∧
    run otherFileCall linkDataArrayNoFileTest linkedDim =
      (⟨some ⟨false, some ⟨9, some true, none, none, none, none, none⟩⟩, 2, 1⟩, some .valueError) ∧
    run otherFileCall linkDataArray linkedDim = (linkedDim, some .valueError) := by
  exact ⟨by decide +kernel, by decide +kernel, by decide +kernel⟩

/-! ## Non-vacuity -/

/-- on the functions as they are, the duck-typed index is refused and the linked descriptor stands … -/
example : run duckIndex rangeLinkDataArray linkedDim = (linkedDim, some .typeError) := by decide +kernel

/-- … a list index is accepted and replaces the link … -/
example : (run { duckIndex with idx := { duckIndex.idx with isSeq := true } } rangeLinkDataArray linkedDim) =
    (⟨some ⟨false, some ⟨9, some true, some 7, some duckIndex.idx.entries, none, some 5, some 5⟩⟩, 2, 1⟩, none) := by
  decide +kernel

/-- … and a refused `append_range_dimension_using_self` (rank mismatch) adds no descriptor -/
example : run { duckIndex with idx := { duckIndex.idx with isSeq := true }, targetRank := 2 }
    appendRangeDimensionUsingSelf { dim := none, ndims := 1, stamp := 1 } =
    ({ dim := none, ndims := 1, stamp := 1 }, some .incompatibleDimensions) := by decide +kernel

end Nix.C12
