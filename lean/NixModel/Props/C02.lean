import NixModel.Lemmas.C02Store
import NixModel.Lemmas.C02Handles
import NixModel.Lemmas.C02HandlesAny
import NixModel.Pure.HandleState

/-!
# C02 — closing and reopening a file reproduces the complete observable state

Two models carry the property.

* The structural model (`Store/Graph`, `Store/Api`, `Store/Step`): every getter and setter of nixio
  goes to the HDF5 file, so the whole observable state *is* the graph and `Op.reopen` is the
  identity on it. `reopen_identity` / `reopen_anywhere` say so for every history and every
  insertion point; `last_write_wins` and `deleted_stay_deleted` are the "state determined by the
  calls made" half of the property, over histories.
* The handle machine (`Pure/Handles`): the only state nixio keeps outside the file is the cached
  h5py group of each `H5Group`. `handle_independence` — for every history of link-list
  operations through any number of handles, every handle shows what a freshly opened handle
  shows — holds for the code as repaired by `fix:` 3f50192 (defect D9); for the code before it
  `handle_independence_before_counterexample` is the D9 history. `bound_handle_write` — a write
  through a handle goes to the object the handle stands for as long as that object is part of the
  file, whatever happened to the link it was opened through — holds since `fix:` f74e1cb;
  `bound_handle_write_before_counterexample` is the history in which the write created a bogus
  group instead.

What the theorems cannot carry (it is runtime truth, exercised by the correspondence): that HDF5
persists what it was given, and that the hand-written models describe nixio.
-/
namespace Nix.C02
open Nix.Store Nix.C02.Lemmas

/-! ## reopen is the identity, anywhere in any history -/

/-- a close + reopen inserted at any point `k` of any history `h`, from any state -/
theorem reopen_identity (g : Graph) (h : List Op) (k : Nat) :
    run g (h.take k ++ [.reopen] ++ h.drop k) = run g h := run_insert_reopen g h k

/-- any number of reopens at any points: histories that agree after dropping the reopens reach
the same state (so every query — `len`, iteration, `c[key]`, `key in c`, role links, attributes,
which are functions of the graph — answers the same) -/
theorem reopen_anywhere (g : Graph) (h h' : List Op)
    (heq : (h.filter fun o => !isReopen o) = (h'.filter fun o => !isReopen o)) :
    run g h = run g h' := by
  rw [← run_filter_reopen g h, ← run_filter_reopen g h', heq]

/-- the same for the file as created: `init` followed by any history -/
theorem reopen_identity_init (h : List Op) (k : Nat) :
    run init (h.take k ++ [.reopen] ++ h.drop k) = run init h := reopen_identity init h k

/-! ## last write wins; None clears -/

/-- An accepted attribute write is read back (as `stored`: `unit = ""` clears, everything else
verbatim, `None` deletes the attribute); it replaces whatever an earlier write `v1` left, and it
stays through every later history of deletions, unlinking, linking, reopens and writes of
*other* attribute names. -/
theorem last_write_wins (g g1 g2 : Graph) (p : Path) (a : String) (v1 v2 : Option String)
    (between after : List Op)
    (_hw1 : setAttrOp g p a v1 = .ok g1)
    (_hb : ∀ op ∈ between, leavesAttr a op = true)
    (hw2 : setAttrOp (run g1 between) p a v2 = .ok g2)
    (ha : ∀ op ∈ after, leavesAttr a op = true) :
    ∃ o, resolve (run g1 between) rootLoc p = some o ∧
      (run g2 after).getAttr o.key a = stored a v2 := by
  obtain ⟨o, hr, _, hget, _, _⟩ := setAttrOp_effect hw2
  exact ⟨o, hr, by rw [getAttr_run_leaves g2 a after ha, hget]⟩

/-- writing `None` removes the attribute: the getter returns `None` afterwards -/
theorem none_clears (g g' : Graph) (p : Path) (a : String) (after : List Op)
    (hw : setAttrOp g p a none = .ok g') (ha : ∀ op ∈ after, leavesAttr a op = true) :
    ∃ o, resolve g rootLoc p = some o ∧ (run g' after).getAttr o.key a = none := by
  obtain ⟨o, hr, _, hget, _, _⟩ := setAttrOp_effect hw
  refine ⟨o, hr, ?_⟩
  rw [getAttr_run_leaves g' a after ha, hget]
  simp [stored]

/-- a write changes nothing else: every other attribute of every object, and every link -/
theorem write_frame (g g' : Graph) (p : Path) (a : String) (v : Option String)
    (hw : setAttrOp g p a v = .ok g') :
    ∃ o, resolve g rootLoc p = some o ∧
      (∀ k b, ¬ (k = o.key ∧ b = a) → g'.getAttr k b = g.getAttr k b) ∧
      (∀ k, g'.links k = g.links k) := by
  obtain ⟨o, hr, _, _, hf, hl⟩ := setAttrOp_effect hw
  exact ⟨o, hr, hf, hl⟩

/-- a refused write leaves the file as it was (by construction of `step`) -/
theorem refused_write_unchanged (g : Graph) (p : Path) (a : String) (v : Option String) (e : Err)
    (h : setAttrOp g p a v = .error e) : step g (.setAttr p a v) = g := by
  simp [step, apply, h]

/-! ## deleted things stay deleted -/

/-- For every state `g` (in particular after any history) and every `del owner.cname[key]` on an
owning container (blocks, groups, arrays, frames, tags, multi-tags, features, properties;
sections and sources with their subtrees): the call is refused and nothing changes, or the
entity is linked from no group of the file — in the resulting state and in every later state
reached by operations that add no link (deletions, unlinking, attribute writes, clearing role
links, reopen). Nothing but a new create / append / role assignment can bring an entry back, and
those never address the deleted object: object keys are never reused. -/
theorem deleted_stay_deleted (g : Graph) (owner : Path) (cname : String) (key : KeyArg)
    (c : Cont) (kk : Key) (k : Nat) (after : List Op)
    (hc : openCont g owner cname = some c) (hkk : resolveKeyArg g key = some kk)
    (hown : isOwning c.info.flavour = true) (ht : delTarget g c kk = .ok k)
    (ha : ∀ op ∈ after, addsNoLink op = true) :
    step g (.del owner cname key) = g ∨
      ∀ p l, l ∈ (run (step g (.del owner cname key)) after).links p → l.2 ≠ k := by
  rcases step_cases g (.del owner cname key) with ⟨g', happ, hst⟩ | hst
  · right
    rw [hst]
    obtain ⟨c', kk', hc', hkk', hd⟩ := apply_del happ
    rw [hc] at hc'; cases hc'
    rw [hkk] at hkk'; cases hkk'
    intro p l hl
    exact contDel_unlinked hown ht hd p l (links_run_addsNoLink g' after ha p l hl)
  · left; exact hst

/-- in particular no container of any owner lists it and no role link leads to it -/
theorem deleted_not_listed (g' : Graph) (k : Nat) (hun : ∀ p l, l ∈ g'.links p → l.2 ≠ k) :
    (∀ (c' : Cont) (l : String × Nat), l ∈ contEntries g' c' → l.2 ≠ k) ∧
    (∀ (o : Nat) (role : String), g'.child? o role ≠ some k) := by
  constructor
  · intro c' l hl
    unfold contEntries cLinks at hl
    cases hn : c'.node with
    | none => simp [hn] at hl
    | some cn => rw [hn] at hl; exact hun cn l hl
  · intro o role h
    exact hun o (role, k) (Nix.Store.Lemmas.child?_some_mem h) rfl

/-! ## handles -/

open Nix.Handles Nix.Handles.Lemmas in
/-- **handle independence** (the code in `/repo` now): after every history of link-list
operations — open a handle, read, link, unlink with delete-if-empty, attribute access — through
any number of handles on the link lists of one entity, what any handle shows (`len`, iteration,
`in`) is what a freshly opened handle shows. -/
theorem handle_independence (ops : List Handles.Op) (hops : ∀ op ∈ ops, op.isListOp = true)
    (i : Nat) (h : Handle) (hi : (Handles.run Code.current Handles.init ops).1.handles[i]? = some h) :
    view Code.current (Handles.run Code.current Handles.init ops).1 h =
      truth (Handles.run Code.current Handles.init ops).1 h.name := by
  have hI := inv_run inv_init ops hops
  exact view_eq_truth hI.toCore (hI.hok h (List.mem_of_getElem? hi))

open Nix.Handles Nix.Handles.Lemmas in
/-- **handle independence, partial — for every version of the code** (both `Code` flags arbitrary,
in particular the pinned tree before the repairs): as long as no link-list group is removed while
handles are alive — every `delete` is without delete-if-empty, or the lists live at depth ≤ 1 where
nixio never removes them — every handle shows what a freshly opened handle shows. What the old
code needed this hypothesis for is exactly D9 (`handle_independence_before_counterexample`). -/
theorem handle_independence_partial (cd : Code) (d : Nat) (ops : List Handles.Op)
    (hops : ∀ op ∈ ops, op.isListOp = true ∧ keepsGroups d op = true)
    (i : Nat) (h : Handle) (hi : (Handles.run cd { depth := d } ops).1.handles[i]? = some h) :
    view cd (Handles.run cd { depth := d } ops).1 h = truth (Handles.run cd { depth := d } ops).1 h.name := by
  have hI := inv'_run cd (inv'_init d) ops hops
  exact view_eq_truth' cd hI.toCore (hI.hok h (List.mem_of_getElem? hi))

open Nix.Handles Nix.Handles.Lemmas in
/-- non-vacuity of the hypothesis: a history with two handles, links and unlinks that keeps the group -/
example : (∀ op ∈ ([.openH "tags" false, .openH "tags" true, .createLink 0 "x" 3, .delete 1 "x" false,
      .createLink 1 "y" 4, .read 0] : List Handles.Op), op.isListOp = true ∧ keepsGroups 5 op = true) ∧
    ((Handles.run Code.before { depth := 5 } [.openH "tags" false, .openH "tags" true, .createLink 0 "x" 3,
      .delete 1 "x" false, .createLink 1 "y" 4, .read 0]).2.getLast? = some (.entries [("y", 4)])) := by
  decide +kernel

open Nix.Handles in
/-- the D9 history: two handles on `data_arrays`; entry linked through handle 0, seen by handle 1;
unlinked through handle 0 (the emptied group is removed); linked again through handle 0 -/
def d9History : List Handles.Op :=
  [.openH "data_arrays" false, .openH "data_arrays" false, .createLink 0 "x" 7, .read 1,
   .delete 0 "x" true, .createLink 0 "x" 7]

open Nix.Handles in
/-- before `fix:` 3f50192 the statement is false: handle 1 keeps showing the removed group -/
theorem handle_independence_before_counterexample :
    ¬ (∀ (ops : List Handles.Op), (∀ op ∈ ops, op.isListOp = true) →
        ∀ (i : Nat) (h : Handle), (Handles.run Code.before Handles.init ops).1.handles[i]? = some h →
          view Code.before (Handles.run Code.before Handles.init ops).1 h =
            truth (Handles.run Code.before Handles.init ops).1 h.name) := by
  intro H
  have := H d9History (by decide) 1 { name := "data_arrays", cache := some 0 } (by decide +kernel)
  revert this
  decide +kernel

open Nix.Handles in
/-- the same history on the repaired code: both handles show the entry -/
example : ((Handles.run Code.current Handles.init (d9History ++ [.read 0, .read 1])).2.drop 6) =
    [.entries [("x", 7)], .entries [("x", 7)]] := by decide +kernel

open Nix.Handles in
/-- on the old code handle 1 shows an empty list -/
example : ((Handles.run Code.before Handles.init (d9History ++ [.read 0, .read 1])).2.drop 6) =
    [.entries [("x", 7)], .entries []] := by decide +kernel

open Nix.Handles in
/-- **a handle keeps the object it stands for** (the code in `/repo` now), from *any* state: a
write through a handle whose cached object is still part of the file lands on that object —
also when the link the handle was opened through has been removed or leads elsewhere by now —
creates nothing and touches no other object. -/
theorem bound_handle_write (st : St) (i : Nat) (h : Handle) (c : Nat) (a : String) (v : Option String)
    (hi : st.handles[i]? = some h) (hc : h.cache = some c) (hin : inFile st c = true) :
    attrGet ((Handles.step Code.current st (.setAttr i a v)).1.heap c) a = v ∧
    (Handles.step Code.current st (.setAttr i a v)).1.plinks = st.plinks ∧
    (Handles.step Code.current st (.setAttr i a v)).1.next = st.next ∧
    (∀ c', c' ≠ c → (Handles.step Code.current st (.setAttr i a v)).1.heap c' = st.heap c') := by
  have hcr : createH5 Code.current st h = (st, h) := by
    unfold createH5; simp [hc, hin, Code.current]
  have hg : getter Code.current st h = h := by
    unfold getter; simp [hc, hin, Code.current]
  simp only [Handles.step, hi, hcr, hg, hc, setHandle]
  refine ⟨?_, trivial, trivial, ?_⟩
  · simp only [upd, ↓reduceIte, attrGet]
    cases v with
    | none =>
      simp only [Option.map_eq_none_iff, List.find?_eq_none]
      intro kv hkv
      have := (List.mem_filter.mp hkv).2
      simpa using this
    | some s =>
      simp only [List.find?_append]
      have : (List.filter (fun kv => kv.1 != a) (st.heap c).attrs).find? (fun x => x.1 == a) = none := by
        rw [List.find?_eq_none]
        intro kv hkv
        have := (List.mem_filter.mp hkv).2
        simpa using this
      simp [this, List.find?]
  · intro c' hne
    simp [upd, hne]

open Nix.Handles in
/-- the history behind `fix:` f74e1cb: an entity `0` linked as `metadata`; a handle opened through
that link; the link removed; a write through the handle -/
def roleHistory : List Handles.Op :=
  [.newEntity, .plink "metadata" 0, .openH "metadata" false, .punlink "metadata",
   .setAttr 0 "definition" (some "y")]

open Nix.Handles in
/-- before the fix the write created a new (bogus) group under `metadata` and the entity never got
the value; now it lands on the entity and nothing is created -/
theorem bound_handle_write_before_counterexample :
    let st := (Handles.run Code.before Handles.init roleHistory).1
    st.next = 2 ∧ st.plinks "metadata" = some 1 ∧ attrGet (st.heap 0) "definition" = none := by
  decide +kernel

open Nix.Handles in
example :
    let st := (Handles.run Code.current Handles.init roleHistory).1
    st.next = 1 ∧ st.plinks "metadata" = none ∧ attrGet (st.heap 0) "definition" = some "y" := by
  decide +kernel

/-! ## the objects keep no state but the one the models account for (tie to the source: `Generated/HandleState.lean`)

"Independent of how many handles to the same entity were used" holds in the structural model by construction (it has
no handles) and in the handle machine by `handle_independence`; both speak for the code only while the code's
objects keep nothing else.  The generated table lists every assignment of an instance field in nixio; the theorems
below say that each is one of the fields the models account for, assigned only where its role allows — so no
cached content (values, data, shapes, schemas, timestamps, parsed units) lives on any object, in any class
attribute, in any module-level table or behind a caching decorator. -/
section HandleState
open Nix.HandleState Nix.Gen.HandleState

/-- every instance field assigned anywhere in nixio is one the models account for … -/
theorem handle_fields_accounted :
    ∀ s ∈ sites, (classify s.1 s.2.1).isSome = true := by decide +kernel

/-- … and is assigned only where its role allows: references and value-object fields in the constructor, lazily
created containers in the constructor and in the getter of the same name, the cached HDF5 group in `H5Group.group`,
parent handles in the constructor and the `parent` / `parent_block` getters, session switches in the constructor and
their own setter -/
theorem handle_fields_assigned_where_modelled :
    ∀ s ∈ sites, ∀ r, classify s.1 s.2.1 = some r → allowedSite r s.2.1 s.2.2 = true := by decide +kernel

/-- the model's list is not stale: every field it names is assigned somewhere in the code -/
theorem handle_fields_all_present :
    ∀ m ∈ modelled, (sites.any fun s => s.1 == m.1 && s.2.1 == m.2.1) = true := by decide +kernel

/-- the cached group of `H5Group` — the state of the handle machine — is written by the `group` property only -/
theorem h5cache_sites :
    sites.filter (fun s => classify s.1 s.2.1 == some .h5cache) =
      [("H5Group", "_group", "group"), ("H5Group", "_group", "group.setter")] := by decide +kernel

/-- nothing else holds state: no class-level or module-level container (beyond the constant prefix table), no
`global`, no caching decorator, no `__slots__`, no attribute hook but the `S` proxy, no state planted on other
objects beyond the two modelled hand-overs, and every item assignment through a field is a write to the file -/
theorem no_other_state :
    classAttrs = [] ∧ moduleState = modelledModuleState ∧ cachingDecorators = [] ∧ slotsClasses = [] ∧
    customSetattr = ["S"] ∧ foreignPrivateStores = modelledForeignStores ∧
    selfItemStores = modelledItemStores := by decide +kernel

/-- non-vacuity: the table is not empty and contains the handle machine's field -/
example : ("H5Group", "_group", "group") ∈ sites ∧ 100 < sites.length := by decide +kernel

end HandleState

/-! ## non-vacuity: concrete histories that meet the hypotheses -/

def demoOps : List Op :=
  [.createBlock "blk" "t",
   .createIn [.name "data", .name "blk"] "data_array" "a" "t" none,
   .createIn [.name "data", .name "blk"] "group" "g" "t" none,
   .append [.name "data", .name "blk", .name "groups", .name "g"] "data_arrays"
     (.obj [.name "data", .name "blk", .name "data_arrays", .name "a"]),
   .setAttr [.name "data", .name "blk", .name "data_arrays", .name "a"] "label" (some "é"),
   .reopen,
   .setAttr [.name "data", .name "blk", .name "data_arrays", .name "a"] "label" none]

def demo : Graph := run init demoOps

/-- the array is there, linked from the group, and its label was cleared by the last write -/
example : ((resolve demo rootLoc [.name "data", .name "blk", .name "groups", .name "g", .name "data_arrays"]).map
    fun l => (demo.links l.key).length) = some 1 := by decide +kernel
example : ((resolve demo rootLoc [.name "data", .name "blk", .name "data_arrays", .name "a"]).map
    fun l => demo.getAttr l.key "label") = some none := by decide +kernel
example : ((resolve (run init (demoOps.take 6)) rootLoc [.name "data", .name "blk", .name "data_arrays", .name "a"]).map
    fun l => (run init (demoOps.take 6)).getAttr l.key "label") = some (some "é") := by decide +kernel
/-- deleting the array removes it from the block and from the group's link list -/
example :
    let g' := step demo (.del [.name "data", .name "blk"] "data_arrays" (.str "a"))
    (resolve g' rootLoc [.name "data", .name "blk", .name "data_arrays", .name "a"]).isSome = false ∧
    ((resolve g' rootLoc [.name "data", .name "blk", .name "groups", .name "g", .name "data_arrays"]).map
      fun l => (g'.links l.key).length) = some 0 := by decide +kernel

end Nix.C02
