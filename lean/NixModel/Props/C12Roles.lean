import NixModel.Lemmas.C12Guarded
import NixModel.Generated.RoleOrder

/-!
# C12 — role links: a refused assignment of `positions` / `extents` / `Feature.data` / `metadata` / `Section.link`
# leaves the previous link (and everything else of the owner) exactly as it was

The setters are rendered from the source statement by statement, `H5Group.create_link` inlined, one list per class
of the offered object (`Generated/RoleOrder.lean`).  `role_sound` shows that they form a system of
`Pure/Guarded.lean` (the only write that can refuse is the hard link, and only for an object of another file; an
object held by the owner's block lives in this file); `role_setters_safe` evaluates the discipline on every path
of every setter; `role_setter_refused_unchanged` is the instance of the discipline theorem: for every setter, every
offered object (class × place × found or not), every previous state of the owner (linked or not) a refused
assignment returns the group it found.  Moving a membership test behind the removal of the previous link, or
dropping the same-file test of `create_link`, changes the generated lists and breaks `role_setters_safe`.
-/
namespace Nix.C12
open Nix.Guarded Nix.RoleWrite Nix.Generated.RoleOrder

/-- the role-link setters are a system of guards and writes -/
theorem role_sound : RoleWrite.sys.Sound where
  exec_ok := by
    intro a f w hn
    cases w with
    | link =>
      have h := hn .sameFile (by simp [RoleWrite.sys, RoleWrite.needs])
      simp only [RoleWrite.sys, RoleWrite.check] at h
      cases hp : a.place <;> simp [hp] at h <;> simp [RoleWrite.sys, RoleWrite.exec, hp]
    | _ => rfl
  invisible_obs := by
    intro a f w hi
    cases w <;> simp [RoleWrite.sys] at hi
    rfl
  implies_ok := by
    intro a g g' hc hg
    cases g <;> simp [RoleWrite.sys, RoleWrite.implies] at hg
    subst hg
    simp only [RoleWrite.sys, RoleWrite.check] at hc ⊢
    cases hp : a.place <;> simp [hp] at hc ⊢

theorem kind_mem_all (k : Kind) : k ∈ Kind.all := by cases k <;> simp [Kind.all]

/-- every role-link setter of nixio, as generated from the source, obeys the discipline on every path -/
theorem role_setters_safe : ∀ p ∈ Nix.Generated.RoleOrder.all, ∀ k ∈ Kind.all, safe RoleWrite.sys (p.2 k) = true := by
  decide

/-- **role links: refused ⇒ the owner's group is what it was** — the previous link, the `target_type` attribute,
`updated_at` — for each of the eleven setters, every offered object, every previous state -/
theorem role_setter_refused_unchanged (p : String × Setter) (hp : p ∈ Nix.Generated.RoleOrder.all) (a : Arg) (f : File)
    (e : Err) (he : (runSetter p.2 a f).2 = some e) : (runSetter p.2 a f).1 = f :=
  safe_refused_unchanged RoleWrite.sys role_sound (p.2 a.kind) (role_setters_safe p hp a.kind (kind_mem_all a.kind)) a f e he

/-- `MultiTag.extents = x`, refused ⇒ the tag still has the extents it had (the instance seeded change C12-7 breaks) -/
theorem multi_tag_extents_refused_unchanged (a : Arg) (f : File) (e : Err)
    (he : (runSetter multiTagExtents a f).2 = some e) : (runSetter multiTagExtents a f).1 = f :=
  role_setter_refused_unchanged ("MultiTag.extents", multiTagExtents) (by simp [Nix.Generated.RoleOrder.all]) a f e he

theorem multi_tag_positions_refused_unchanged (a : Arg) (f : File) (e : Err)
    (he : (runSetter multiTagPositions a f).2 = some e) : (runSetter multiTagPositions a f).1 = f :=
  role_setter_refused_unchanged ("MultiTag.positions", multiTagPositions) (by simp [Nix.Generated.RoleOrder.all]) a f e he

theorem feature_data_refused_unchanged (a : Arg) (f : File) (e : Err)
    (he : (runSetter featureData a f).2 = some e) : (runSetter featureData a f).1 = f :=
  role_setter_refused_unchanged ("Feature.data", featureData) (by simp [Nix.Generated.RoleOrder.all]) a f e he

theorem section_link_refused_unchanged (a : Arg) (f : File) (e : Err)
    (he : (runSetter sectionLink a f).2 = some e) : (runSetter sectionLink a f).1 = f :=
  role_setter_refused_unchanged ("Section.link", sectionLink) (by simp [Nix.Generated.RoleOrder.all]) a f e he

/-- the seven `metadata` setters -/
theorem metadata_refused_unchanged (st : Setter)
    (hst : st ∈ [blockMetadata, dataArrayMetadata, dataFrameMetadata, tagMetadata, multiTagMetadata, groupMetadata,
      sourceMetadata]) (a : Arg) (f : File) (e : Err)
    (he : (runSetter st a f).2 = some e) : (runSetter st a f).1 = f := by
  have hsafe : ∀ k ∈ Kind.all, safe RoleWrite.sys (st k) = true := by
    simp only [List.mem_cons, List.mem_nil_iff, or_false] at hst
    rcases hst with h | h | h | h | h | h | h <;> subst h <;> decide
  exact safe_refused_unchanged RoleWrite.sys role_sound (st a.kind) (hsafe a.kind (kind_mem_all a.kind)) a f e he

/-- what an accepted assignment leaves: an array held by the tag's block becomes the extents, the time stamp moves;
`None` removes the link -/
theorem multi_tag_extents_accepted (a : Arg) (f : File) :
    (a.kind = .array → a.place = .member →
      runSetter multiTagExtents a f = ({ f with link := some a.target, stamp := a.now }, none)) ∧
    (a.kind = .none → runSetter multiTagExtents a f = ({ f with link := none, stamp := a.now }, none)) := by
  constructor
  · intro hk hp
    simp [runSetter, multiTagExtents, hk, run, step, RoleWrite.sys, RoleWrite.check, RoleWrite.exec, hp]
  · intro hk
    simp [runSetter, multiTagExtents, hk, run, step, RoleWrite.sys, RoleWrite.exec]

/-- the `extents` setter "flattened to work like the positions setter" (seeded change C12-7): the class test, then
the previous link is dropped, then the membership test and `create_link` -/
def flattenedExtents : Setter
  | .none => [.write .dropLink, .write .stamp]
  | .array => [.write .dropLink, .guard .inBlock] ++ createLink ++ [.write .stamp]
  | _ => [.guard (.refuse .typeError)]

def foreignArray : Arg := ⟨.array, .otherBlock, false, false, 7, 5⟩
def withExtents : File := ⟨some 3, none, 1⟩

/-- **the order matters**: on the flattened setter the discipline fails, and the assignment of another block's
array is refused with RuntimeError after the tag has lost its extents; the setter as it is refuses the same
assignment and the extents stand -/
theorem flattened_extents_counterexample :
    safe RoleWrite.sys (flattenedExtents .array) = false ∧
    runSetter flattenedExtents foreignArray withExtents = (⟨none, none, 1⟩, some .runtimeError) ∧
    runSetter multiTagExtents foreignArray withExtents = (withExtents, some .runtimeError) := by
  refine ⟨by decide, by decide, by decide⟩

/-- `H5Group.create_link` as it was before nixio 16b3ce3: nothing asks where the object lives before the link that
is being replaced is removed -/
def createLinkNoFileTest : List RStep := createLink.erase (.guard .sameFile)

def otherFileSection : Arg := ⟨.section, .otherFile, false, false, 7, 5⟩

/-- a `metadata` setter over that `create_link` loses the previous metadata when a section of another file is
refused; over the repaired one the metadata stands -/
theorem create_link_file_test_counterexample :
    safe RoleWrite.sys createLinkNoFileTest = false ∧
    run RoleWrite.sys otherFileSection createLinkNoFileTest withExtents = (⟨none, none, 1⟩, some .valueError) ∧
    runSetter blockMetadata otherFileSection withExtents = (withExtents, some .valueError) := by
  refine ⟨by decide, by decide, by decide⟩

/-! ## Dimension links and the object they are given (finding `C12-dimension-link-object-of-another-file`, repaired)

`Dimension.link_data_array` / `link_data_frame` used to validate the index, not the object: `create_link` was the
first to ask where the object lives — after the previous link was removed and the new link group built.  They now
ask with their other pre-checks (`.guard .sameFile` at the head of the generated lists), and the discipline holds. -/

/-- what the two functions do with the object obeys the discipline -/
theorem dimension_link_functions_safe :
    ∀ steps ∈ [dimensionLinkDataArray, dimensionLinkDataFrame], safe RoleWrite.sys steps = true := by decide

/-- **whatever object a dimension is asked to link** (class × held by the block / another block / ANOTHER FILE /
deleted), whatever the descriptor held before: a refusal leaves the descriptor as it was — the previous link stands,
no link group has been built -/
theorem dimension_link_object_refused_unchanged (steps : List RStep)
    (hs : steps ∈ [dimensionLinkDataArray, dimensionLinkDataFrame]) (a : Arg) (f : File) (e : Err)
    (he : (run RoleWrite.sys a steps f).2 = some e) : (run RoleWrite.sys a steps f).1 = f :=
  safe_refused_unchanged RoleWrite.sys role_sound steps (dimension_link_functions_safe steps hs) a f e he

/-- an object of this file is never refused on account of the object, and becomes the target -/
theorem dimension_link_object_accepted (steps : List RStep)
    (hs : steps ∈ [dimensionLinkDataArray, dimensionLinkDataFrame]) (a : Arg) (hp : a.place ≠ .otherFile) (f : File) :
    (run RoleWrite.sys a steps f).2 = none ∧ (run RoleWrite.sys a steps f).1.link = some a.target := by
  simp only [List.mem_cons, List.mem_nil_iff, or_false] at hs
  cases hpl : a.place <;> simp [hpl] at hp <;> rcases hs with h | h <;> subst h <;>
    simp [dimensionLinkDataArray, dimensionLinkDataFrame, run, step, RoleWrite.sys, RoleWrite.check, RoleWrite.exec, hpl]

def otherFileArray : Arg := ⟨.array, .otherFile, false, false, 7, 5⟩

/-- `Dimension.link_data_array` as it was before the repair: nothing asks where the object lives before
`create_link` does -/
def dimensionLinkDataArrayNoFileTest : List RStep := dimensionLinkDataArray.erase (.guard .sameFile)

/-- **before the repair**: an array of another file was refused after the previous link was gone and a link group
without target stood in its place; the function as it is refuses the same call and the link stands -/
theorem dimension_link_object_before_fix_counterexample :
    safe RoleWrite.sys dimensionLinkDataArrayNoFileTest = false ∧
    run RoleWrite.sys otherFileArray dimensionLinkDataArrayNoFileTest ⟨some 3, some false, 1⟩ =
      (⟨none, some false, 1⟩, some .valueError) ∧
    run RoleWrite.sys otherFileArray dimensionLinkDataArray ⟨some 3, some false, 1⟩ =
      (⟨some 3, some false, 1⟩, some .valueError) := by
  refine ⟨by decide, by decide, by decide⟩

/-- a history of role-link assignments on one owner (any of the eleven setters, any objects, refusals injected at any
point): the owner's group ends as if the refused assignments had never been made -/
theorem role_history_skips_refused (h : List (RoleWrite.Arg × String × RoleWrite.Setter))
    (hall : ∀ c ∈ h, c.2 ∈ Nix.Generated.RoleOrder.all) (f : RoleWrite.File) :
    runHistory RoleWrite.sys (h.map fun c => (c.1, c.2.2 c.1.kind)) f =
      runAccepted RoleWrite.sys (h.map fun c => (c.1, c.2.2 c.1.kind)) f := by
  apply history_skips_refused RoleWrite.sys role_sound (fun _ => rfl)
  intro c hc
  obtain ⟨c0, hc0, rfl⟩ := List.mem_map.mp hc
  exact role_setters_safe c0.2 (hall c0 hc0) c0.1.kind (kind_mem_all c0.1.kind)

/-! ## Non-vacuity -/

/-- non-vacuity: valid extents, a refused re-assignment (array of the other block), a refused one (a number), None -/
example : runHistory RoleWrite.sys
    [(⟨.array, .member, false, false, 4, 2⟩, Nix.Generated.RoleOrder.multiTagExtents .array),
     (foreignArray, Nix.Generated.RoleOrder.multiTagExtents .array),
     (⟨.other, .member, false, false, 9, 6⟩, Nix.Generated.RoleOrder.multiTagExtents .other)] ⟨none, none, 1⟩ =
    ⟨some 4, none, 2⟩ := by decide


/-- a data frame offered to a tagged feature is refused before anything is written … -/
example : runSetter featureData ⟨.frame, .member, false, true, 7, 5⟩ ⟨some 3, some false, 1⟩ =
    (⟨some 3, some false, 1⟩, some .valueError) := by decide

/-- … to an untagged one it is linked, the target type follows -/
example : runSetter featureData ⟨.frame, .member, false, false, 7, 5⟩ ⟨some 3, some false, 1⟩ =
    (⟨some 7, some true, 5⟩, none) := by decide

/-- `Section.link` given an id nothing carries: KeyError, the link stands -/
example : runSetter sectionLink ⟨.other, .member, false, false, 7, 5⟩ withExtents = (withExtents, some .keyError) := by
  decide

end Nix.C12
