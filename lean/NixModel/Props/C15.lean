import NixModel.Pure.Poly
import NixModel.Lemmas.C15Horner
import NixModel.Lemmas.C15Read
import NixModel.Lemmas.C15Hist
import NixModel.Lemmas.C15Select
import NixModel.Lemmas.C15Range
import NixModel.Lemmas.C15Float
import NixModel.Lemmas.C15FloatRaw
import NixModel.Lemmas.C15Shape
import NixModel.Lemmas.C15Poly

/-!
# C15 — calibration is applied on every read and never touches the stored values

Property theorems only; helper lemmas live in `NixModel/Lemmas/C15*.lean`.  All statements are about the
model `NixModel/Pure/Poly.lean` of `DataArray._read_data`, `util.apply_polynomial`, the two calibration
setters and `DataView._read_data`, over exact rationals (the rounding of the float evaluation is the
documented partial aspect, DESIGN §5).

Vocabulary (`Nix.Poly.Lemmas`): `calibrated a` — the read calibrates (`len(coeff) or origin`);
`originVal a` — the origin in effect (`None` ↦ 0); `effCoeffs a` — the coefficients in effect (the
documented default `{0, 1}` when none are stored); `calibElem a x` — what a read makes of one stored
element; `outDtype a` — element type of a read result.
-/
namespace Nix.C15
open Nix.Poly Nix.Poly.Lemmas

/-- the polynomial the property names: `c₀ + c₁·y + c₂·y² + …` -/
def polySum (c : List Rat) (y : Rat) : Rat := ∑ k : Fin c.length, c[k] * y ^ (k : ℕ)

/-- the calibrated array: every stored element replaced by its calibrated value -/
def calibAll (a : Arr) : List Rat := a.raw.map (calibElem a)

/-- **formula.** With coefficients and/or a non-zero origin every read (any index expression) returns, as
doubles, `Σ cₖ (x − o)ᵏ` of exactly the raw elements the index expression selects, element by element. -/
theorem C15_formula (a : Arr) (ix : Index) (r : Result)
    (hcal : calibrated a = true) (h : readData a ix = .ok r) :
    ∃ shape pos xs, select a.shape ix = .ok (shape, pos) ∧ gather a.raw pos = .ok xs ∧
      r.dtype = .float64 ∧ r.shape = fixShape shape ∧
      r.vals = xs.map (fun x => polySum (effCoeffs a) (x - originVal a)) := by
  rw [readData_eq] at h
  cases hs : select a.shape ix with
  | error e => simp [hs] at h
  | ok sp =>
    obtain ⟨shape, pos⟩ := sp
    cases hg : gather a.raw pos with
    | error e => simp [hs, hg] at h
    | ok xs =>
      simp only [hs, hg, Except.ok.injEq] at h
      subst h
      refine ⟨shape, pos, xs, rfl, hg, by simp [outDtype, hcal], rfl, ?_⟩
      apply List.map_congr_left
      intro x _
      simp [calibElem, hcal, polySum, evalAsc_eq_sum]

/-- the coefficients in effect are the stored ones whenever there are any -/
theorem C15_formula_coeffs (a : Arr) (cs : List Rat) (h : a.coeffs = some cs) (hne : cs ≠ []) :
    effCoeffs a = cs ∧ calibrated a = true := by
  have hl : cs.length ≠ 0 := fun h0 => hne (List.length_eq_zero_iff.mp h0)
  simp [effCoeffs, calibrated, Arr.coeffsGet, h, hne, hl]

/-- an origin without coefficients: the read returns `x − o` (the default polynomial `{0, 1}`) -/
theorem C15_formula_origin_only (a : Arr) (o x : Rat) (hc : a.coeffsGet = []) (ho : a.origin = some o)
    (hne : o ≠ 0) : calibrated a = true ∧ calibElem a x = x - o := by
  have hcal : calibrated a = true := by simp [calibrated, truthy, ho, hne]
  simp [hcal, calibElem, effCoeffs, hc, originVal, ho, evalAsc]

/-- **map and gather commute**, for every elementwise function and *every* selection of positions
(repeated, permuted, out of range: the refusal is the same on both sides) -/
theorem C15_gather_map (f : Rat → Rat) (xs : List Rat) (pos : List Nat) :
    gather (xs.map f) pos = (gather xs pos).map (List.map f) :=
  gather_map f xs pos

/-- **commutes.** Reading through an index expression = selecting, with the same selection, from the
calibrated array; the element type depends on the calibration only.  Holds for refused reads too. -/
theorem C15_commutes (a : Arr) (ix : Index) :
    readData a ix =
      match select a.shape ix with
      | .error e => .error e
      | .ok (shape, pos) =>
        match gather (calibAll a) pos with
        | .error e => .error e
        | .ok vals => .ok ⟨outDtype a, fixShape shape, vals⟩ := by
  rw [readData_eq]
  cases hs : select a.shape ix with
  | error e => rfl
  | ok sp =>
    obtain ⟨shape, pos⟩ := sp
    simp only [calibAll, gather_map]
    cases hg : gather a.raw pos <;> simp [Except.map]

/-- every read of a valid view is a `_read_data` of the parent array (so `C15_formula` and
`C15_commutes` apply to `get_slice`, `tagged_data` and `feature_data` reads), or is refused by the
coordinate transformation before anything is read -/
theorem C15_view_reads_through (a : Arr) (v : View) (uix : Index) (hv : v.valid = true) :
    (∃ ix, readView a v uix = readData a ix) ∨ (∃ e, readView a v uix = .error e) := by
  unfold readView
  simp only [hv, Bool.not_true, Bool.false_eq_true, if_false]
  cases uix with
  | none => exact Or.inl ⟨_, rfl⟩
  | some l =>
    cases ht : transformCoordinates v.slices l with
    | error e => exact Or.inr ⟨e, by simp [bind, Except.bind, ht]⟩
    | ok tsl => exact Or.inl ⟨some tsl, by simp [bind, Except.bind, ht]⟩

/-- **raw untouched.** No sequence of set / change / clear of the two calibration attributes — accepted
or refused, interleaved with reads of any kind and reopening — changes the stored elements, the shape
or the element type. -/
theorem C15_raw_untouched (a : Arr) (ops : List Op) (h : ∀ op ∈ ops, isWrite op = false) :
    (exec a ops).raw = a.raw ∧ (exec a ops).shape = a.shape ∧ (exec a ops).dtype = a.dtype := by
  refine ⟨?_, (exec_shape_dtype a ops).1, (exec_shape_dtype a ops).2⟩
  have hf : ops.filter isWrite = [] := by
    apply List.filter_eq_nil_iff.mpr
    intro op hop
    simp [h op hop]
  have := exec_raw_filter a a ops rfl
  simpa [hf, exec_nil] using this

/-- in any history at all, the stored elements are exactly what the writes alone produce: calibration
operations are transparent for the data -/
theorem C15_raw_only_writes (a : Arr) (ops : List Op) :
    (exec a ops).raw = (exec a (ops.filter isWrite)).raw :=
  exec_raw_filter a a ops rfl

/-- the setters: validation and `None` handling.  Invalid values — a bare number, a nested list / 2-D array /
text (anything with a length that is not a flat sequence), a flat sequence holding text or complex numbers, a
non-number as origin — are refused (and by `C15_refused_changes_nothing` change nothing); an empty
anything clears the coefficients. -/
theorem C15_setters (a : Arr) :
    setCoeffs a .none = .ok { a with coeffs := none } ∧
    setCoeffs a (.seq []) = .ok { a with coeffs := none } ∧
    (∀ c cs, setCoeffs a (.seq (c :: cs)) = .ok { a with coeffs := some (c :: cs) }) ∧
    (∀ x, setCoeffs a (.scalar x) = .error .typeError) ∧
    setCoeffs a (.notFlat 0) = .ok { a with coeffs := none } ∧
    (∀ n, setCoeffs a (.notFlat (n + 1)) = .error .valueError) ∧
    setCoeffs a (.badElems false) = .error .valueError ∧ setCoeffs a (.badElems true) = .error .typeError ∧
    setOrigin a .none = .ok { a with origin := none } ∧
    (∀ x, setOrigin a (.num x) = .ok { a with origin := some x }) ∧
    setOrigin a .notNumber = .error .typeError := by
  simp [setCoeffs, setOrigin]

/-- **no calibration ⇒ identity.** Without coefficients and with origin `None` or `0`, every read returns
the selected raw elements unchanged, in the stored element type. -/
theorem C15_no_calibration_identity (a : Arr) (ix : Index)
    (hc : a.coeffs = none ∨ a.coeffs = some []) (ho : a.origin = none ∨ a.origin = some 0) :
    readData a ix = (rawRead a ix).map (fun sv => ⟨a.dtype, fixShape sv.1, sv.2⟩) := by
  have hcal : calibrated a = false := by
    rcases hc with hc | hc <;> rcases ho with ho | ho <;> simp [calibrated, Arr.coeffsGet, truthy, hc, ho]
  have hid : calibElem a = id := by funext x; simp [calibElem, hcal]
  rw [readData_eq]
  unfold rawRead
  cases hs : select a.shape ix with
  | error e => simp [bind, Except.bind, Except.map]
  | ok sp =>
    obtain ⟨shape, pos⟩ := sp
    cases hg : gather a.raw pos <;> simp [bind, Except.bind, Except.map, hg, outDtype, hcal, hid]

/-- clearing both attributes after *any* calibration history gives back the raw reads of the original
array, in the stored type -/
theorem C15_clear_restores (a : Arr) (ops : List Op) (h : ∀ op ∈ ops, isWrite op = false) (ix : Index) :
    readData (exec a (ops ++ [.setCoeffs .none, .setOrigin .none])) ix =
      (rawRead a ix).map (fun sv => ⟨a.dtype, fixShape sv.1, sv.2⟩) := by
  have hfr := C15_raw_untouched a ops h
  rw [exec_append]
  generalize exec a ops = b at hfr
  obtain ⟨hraw, hshape, hdtype⟩ := hfr
  have hex : exec b [.setCoeffs .none, .setOrigin .none] = { b with coeffs := none, origin := none } := by
    simp [exec, run, step, setCoeffs, setOrigin]
  rw [hex, C15_no_calibration_identity _ ix (Or.inl rfl) (Or.inl rfl)]
  simp only [rawRead, hraw, hshape, hdtype]


/-- well-formed array: as many stored elements as the shape says, rank ≥ 1 (what nixio creates) -/
def WF (a : Arr) : Prop := a.raw.length = a.shape.prod ∧ a.shape ≠ []

/-- **whole read.** `da[:]` / `np.array(da)` of a well-formed array returns every stored element, calibrated,
in storage order and with the stored shape -/
theorem C15_whole (a : Arr) (h : WF a) :
    readData a none = .ok ⟨outDtype a, a.shape, calibAll a⟩ := by
  obtain ⟨hlen, hne⟩ := h
  rw [C15_commutes, select_whole a.shape hne]
  have hl : (calibAll a).length = a.shape.prod := by simp [calibAll, hlen]
  have hg := gather_range (calibAll a)
  rw [hl] at hg
  have hfs : fixShape a.shape = a.shape := by
    cases hs : a.shape with
    | nil => exact absurd hs hne
    | cons d ds => simp [fixShape]
  simp only [hg, hfs]

/-- **slicing and calibration commute.** For a well-formed array, reading through any index expression is
the same as taking the whole calibrated read and selecting from it with the same selection (same values,
same element type, same refusals). -/
theorem C15_commutes_whole (a : Arr) (h : WF a) (ix : Index) :
    ∃ w, readData a none = .ok w ∧
      readData a ix =
        match select a.shape ix with
        | .error e => .error e
        | .ok (shape, pos) =>
          match gather w.vals pos with
          | .error e => .error e
          | .ok vals => .ok ⟨w.dtype, fixShape shape, vals⟩ :=
  ⟨_, C15_whole a h, C15_commutes a ix⟩


/-- **every accepted read is calibrated.** On a well-formed array an index expression that the selection
accepts always yields a result — one value per selected position, element type by the calibration
alone — and a refused read is refused by the selection itself, whatever the calibration. -/
theorem C15_read_total (a : Arr) (h : WF a) (ix : Index) :
    (∀ shape pos, select a.shape ix = .ok (shape, pos) →
      ∃ r, readData a ix = .ok r ∧ r.dtype = outDtype a ∧ r.shape = fixShape shape ∧
        r.vals.length = pos.length ∧ ∀ p ∈ pos, p < a.raw.length) ∧
    (∀ e, select a.shape ix = .error e → readData a ix = .error e) := by
  constructor
  · intro shape pos hs
    have hr : ∀ p ∈ pos, p < a.raw.length := by
      rw [h.1]; exact select_in_range a.shape ix shape pos hs
    have hr' : ∀ p ∈ pos, p < (calibAll a).length := by simpa [calibAll] using hr
    obtain ⟨ys, hy, hyl⟩ := gather_ok_of_in_range (calibAll a) pos hr'
    refine ⟨⟨outDtype a, fixShape shape, ys⟩, ?_, rfl, rfl, hyl, hr⟩
    rw [C15_commutes, hs]
    simp only [hy]
  · intro e he
    rw [C15_commutes, he]

/-- the formula for view reads (`get_slice`, `tagged_data`, `feature_data`): a successful read of a valid
view over a calibrated array returns the polynomial of raw elements of the parent array -/
theorem C15_view_formula (a : Arr) (v : View) (uix : Index) (r : Result) (hv : v.valid = true)
    (hcal : calibrated a = true) (h : readView a v uix = .ok r) :
    ∃ ix shape pos xs, select a.shape ix = .ok (shape, pos) ∧ gather a.raw pos = .ok xs ∧
      r.dtype = .float64 ∧ r.shape = fixShape shape ∧
      r.vals = xs.map (fun x => polySum (effCoeffs a) (x - originVal a)) := by
  rcases C15_view_reads_through a v uix hv with ⟨ix, hix⟩ | ⟨e, he⟩
  · rw [hix] at h
    obtain ⟨shape, pos, xs, h1, h2, h3, h4, h5⟩ := C15_formula a ix r hcal h
    exact ⟨ix, shape, pos, xs, h1, h2, h3, h4, h5⟩
  · rw [he] at h; cases h

/-- an invalid view reads as an empty array, whatever the calibration -/
theorem C15_invalid_view_empty (a : Arr) (v : View) (uix : Index) (hv : v.valid = false) :
    readView a v uix = .ok ⟨.float64, [0], []⟩ := by
  simp [readView, hv]


/-! ## The partial aspect: rounding of the float evaluation

The theorems above are about exact arithmetic.  What the implementation computes in doubles is related to
them by the standard model of IEEE arithmetic (`Rounds u exact r`: `r = exact·(1+δ)`, `|δ| ≤ u`; no
overflow / underflow; `x` and `o` themselves doubles).  `FloatPolyval u yf c r` says that `r` is *some*
execution of NumPy's `polyval` loop at `yf` in which every multiplication and addition is rounded that way. -/

/-- **float bound.** For a non-empty coefficient list with `n` entries, the double a read returns for the
stored element `x` differs from `Σ cₖ (x−o)ᵏ` by at most `((1+u)^(3n−2) − 1) · Σ |cₖ| |x−o|ᵏ`. -/
theorem C15_float_bound (u : Rat) (hu : 0 ≤ u) (c : List Rat) (x o yf r : Rat)
    (hy : Rounds u (x - o) yf) (hr : FloatPolyval u yf c r) :
    |r - polySum c (x - o)|
      ≤ ((1 + u) ^ (3 * c.length - 2) - 1) * polySum (c.map (fun a => |a|)) |x - o| := by
  obtain ⟨d, hd, rfl⟩ := hy
  obtain ⟨top, rest, hrev, hloop⟩ := hr
  have hc : c = rest.reverse ++ [top] := by
    have := congrArg List.reverse hrev
    simpa using this
  have hw : |(1 + d) - 1| ≤ u := by simpa using hd
  have h := float_polyval_bound u (x - o) (1 + d) r hu hw top rest hloop
  rw [← hc] at h
  have hlen : c.length = rest.length + 1 := by simp [hc]
  rw [← hlen] at h
  simpa [polySum, evalAbs, evalAsc_eq_sum, g] using h

/-- with `3n·u ≤ 1/2` (for doubles: any `n` below 10¹⁵) the bound is at most `6n·u·Σ |cₖ| |x−o|ᵏ` — the
correspondence harness allows `4(2n+1)·u·Σ |cₖ| |x−o|ᵏ`, which is larger -/
theorem C15_float_bound_linear (u : Rat) (hu : 0 ≤ u) (c : List Rat) (x o yf r : Rat)
    (hsmall : ((3 * c.length : Nat) : Rat) * u ≤ 1 / 2)
    (hy : Rounds u (x - o) yf) (hr : FloatPolyval u yf c r) :
    |r - polySum c (x - o)| ≤ 6 * c.length * u * polySum (c.map (fun a => |a|)) |x - o| := by
  have h := C15_float_bound u hu c x o yf r hy hr
  have hS : 0 ≤ polySum (c.map (fun a => |a|)) |x - o| := by
    have := evalAbs_nonneg |x - o| (abs_nonneg _) c
    simpa [polySum, evalAbs, evalAsc_eq_sum] using this
  have hg : g u (3 * c.length - 2) ≤ g u (3 * c.length) := g_mono u hu (by omega)
  have hl := g_le_linear u hu (3 * c.length) hsmall
  have hcast : (2 : Rat) * ((3 * c.length : Nat) : Rat) * u = 6 * c.length * u := by push_cast; ring
  rw [hcast] at hl
  have hgg : (1 + u) ^ (3 * c.length - 2) - 1 ≤ 6 * c.length * u := le_trans hg hl
  calc |r - polySum c (x - o)|
      ≤ ((1 + u) ^ (3 * c.length - 2) - 1) * polySum (c.map (fun a => |a|)) |x - o| := h
    _ ≤ 6 * c.length * u * polySum (c.map (fun a => |a|)) |x - o| :=
        mul_le_mul_of_nonneg_right hgg hS

/-- origin without coefficients: the read returns the rounded difference, within `u·|x−o|` -/
theorem C15_float_bound_origin_only (u x o r : Rat) (h : Rounds u (x - o) r) :
    |r - (x - o)| ≤ u * |x - o| :=
  float_origin_only_bound u (x - o) r h

/-- **stored elements that are not doubles** (64-bit integers beyond 2⁵³): `astype(double)` rounds the element
first (`xf`), then the origin is subtracted and rounded (`yf`), then the loop runs.  The result differs from
`Σ cₖ (x−o)ᵏ` of the *stored* value by at most the shift of the polynomial under an argument change of `u·|x|`
plus the rounding bound at the shifted argument — the two terms of the bound the correspondence harness uses
(`float_bound`: `pert + 4(2n+1)u·cond`, the second being larger than `((1+u)^(3n−2)−1)·cond` by
`C15_float_bound_linear`'s estimate). -/
theorem C15_float_bound_inexact_raw (u : Rat) (hu : 0 ≤ u) (c : List Rat) (x o xf yf r : Rat)
    (hx : Rounds u x xf) (hy : Rounds u (xf - o) yf) (hr : FloatPolyval u yf c r) :
    |r - polySum c (x - o)|
      ≤ (polySum (c.map (fun a => |a|)) (|x - o| + u * |x|) - polySum (c.map (fun a => |a|)) |x - o|)
        + ((1 + u) ^ (3 * c.length - 2) - 1) * polySum (c.map (fun a => |a|)) (|x - o| + u * |x|) := by
  have h1 := C15_float_bound u hu c xf o yf r hy hr
  obtain ⟨d, hd, rfl⟩ := hx
  have hshift : |(x * (1 + d) - o) - (x - o)| ≤ u * |x| := by
    have e : (x * (1 + d) - o) - (x - o) = d * x := by ring
    rw [e, abs_mul]
    exact mul_le_mul_of_nonneg_right hd (abs_nonneg _)
  have h2 := eval_shift (x - o) (x * (1 + d) - o) (u * |x|) hshift c
  have hy' : |x * (1 + d) - o| ≤ |x - o| + u * |x| := by
    have e : x * (1 + d) - o = (x - o) + ((x * (1 + d) - o) - (x - o)) := by ring
    rw [e]
    exact le_trans (abs_add_le _ _) (by linarith)
  have hmono := evalAbs_mono c _ _ (abs_nonneg (x * (1 + d) - o)) hy'
  have hg : 0 ≤ (1 + u) ^ (3 * c.length - 2) - 1 := g_nonneg u hu _
  have h3 := mul_le_mul_of_nonneg_left hmono hg
  simp only [polySum, ← evalAsc_eq_sum] at h1 ⊢
  unfold evalAbs at h2 h3
  have htri := abs_add_le (r - evalAsc (x * (1 + d) - o) c) (evalAsc (x * (1 + d) - o) c - evalAsc (x - o) c)
  have e : r - evalAsc (x * (1 + d) - o) c + (evalAsc (x * (1 + d) - o) c - evalAsc (x - o) c)
      = r - evalAsc (x - o) c := by ring
  rw [e] at htri
  linarith

/-- non-vacuity: the `int64` value `2⁵³ + 1` is stored exactly and read as the double `2⁵³` -/
example : Rounds (1 / 2 ^ 53) (2 ^ 53 + 1) (2 ^ 53) :=
  ⟨-1 / (2 ^ 53 + 1), by norm_num [abs_div], by norm_num⟩

/-- non-vacuity: the exact evaluation is one of the float executions the bound speaks about -/
example (u : Rat) (hu : 0 ≤ u) (y top : Rat) (rest : List Rat) :
    FloatPolyval u y (rest.reverse ++ [top]) (polyvalLoop y top rest) :=
  ⟨top, rest, by simp, floatLoop_exact u y hu rest top⟩

/-! ## The tie to the source: statement lists regenerated from `/repo` compute the model functions

`Generated/CalibShape.lean` is rewritten by `harness/extract/calibshape.py` on every run from
`DataArray._read_data`, `util.apply_polynomial`, `DataView._read_data`, the two calibration setters / getters
and the `DataSet` entry points.  The theorems below are about those generated definitions: an edit of the
source that stays inside the translator's vocabulary but changes what is computed (order of subtraction and
evaluation, the test `len(coeff) or origin`, the default origin, the conversion, the HDF5 names, the helper
that is called) makes `lake build` fail here; an edit outside the vocabulary makes the translator refuse. -/

/-- **`DataArray._read_data` as it stands in the source is the model `readData`**: the generated statement
list, run with the generated body of `util.apply_polynomial`, returns the same result or the same refusal for
every array and every index expression. -/
theorem C15_shape_read_data (a : Arr) (ix : Index) :
    readDataG Gen.readDataBody Gen.applyPolynomialBody a ix = readData a ix :=
  shape_read_data a ix

/-- **`DataView._read_data` as it stands in the source is the model `readView`** (the parent read being the
array's `_read_data`). -/
theorem C15_shape_view_read (a : Arr) (v : View) (uix : Index) :
    runView readData a v uix Gen.viewReadBody none = readView a v uix :=
  shape_view_read a v uix

/-- **the two setters as they stand in the source are the model setters**, interpreted over the HDF5 names
the two *getters* read (a setter writing under another name than the getter reads is outside the
interpreter and cannot satisfy this). -/
theorem C15_shape_setters (a : Arr) :
    (∀ c, Gen.coeffSetterBody.run Gen.coeffGetterName Gen.originGetterName (.coeff c) a = setCoeffs a c) ∧
    (∀ o, Gen.originSetterBody.run Gen.coeffGetterName Gen.originGetterName (.origin o) a = setOrigin a o) :=
  ⟨shape_set_coeffs a, shape_set_origin a⟩

/-- **every entry point reads through `_read_data`**: `obj[index]`, `np.array(obj)`, `obj.read_direct(buf)` and
iteration are, in `DataSet`, a plain `self._read_data(...)`, and neither `DataArray` nor `DataView` overrides
them — so the theorems about `readData` / `readView` speak about each of them. -/
theorem C15_shape_entry_points :
    Gen.getitemReads = true ∧ Gen.arrayReads = true ∧ Gen.readDirectReads = true ∧ Gen.iterReads = true := by
  decide

/-- the formula, stated for the generated program: what the source's `_read_data` returns for a calibrated
array is `Σ cₖ (x − o)ᵏ` of the selected raw elements, as doubles -/
theorem C15_generated_read_formula (a : Arr) (ix : Index) (r : Result) (hcal : calibrated a = true)
    (h : readDataG Gen.readDataBody Gen.applyPolynomialBody a ix = .ok r) :
    ∃ shape pos xs, select a.shape ix = .ok (shape, pos) ∧ gather a.raw pos = .ok xs ∧
      r.dtype = .float64 ∧ r.shape = fixShape shape ∧
      r.vals = xs.map (fun x => polySum (effCoeffs a) (x - originVal a)) := by
  rw [C15_shape_read_data] at h
  exact C15_formula a ix r hcal h

/-! ## Element type, special coefficient lists, refusals, histories -/

/-- **element type of every read result**: `float64` exactly when the array is calibrated (whatever the
stored type: `float32`, every integer width, `bool`), otherwise the stored type — for every index
expression, including those that select nothing or a single element. -/
theorem C15_result_dtype (a : Arr) (ix : Index) (r : Result) (h : readData a ix = .ok r) :
    r.dtype = (if a.coeffsGet ≠ [] ∨ (∃ o, a.origin = some o ∧ o ≠ 0) then DType.float64 else a.dtype) := by
  obtain ⟨shape, pos, xs, _, _, rfl⟩ := readData_ok a ix r h
  have hc : calibrated a = true ↔ (a.coeffsGet ≠ [] ∨ (∃ o, a.origin = some o ∧ o ≠ 0)) := by
    unfold calibrated truthy
    cases ho : a.origin with
    | none => cases hcs : a.coeffsGet <;> simp
    | some o => cases hcs : a.coeffsGet <;> simp
  by_cases hcal : calibrated a = true
  · simp [outDtype, hcal, hc.mp hcal]
  · have : ¬ (a.coeffsGet ≠ [] ∨ (∃ o, a.origin = some o ∧ o ≠ 0)) := fun h' => hcal (hc.mpr h')
    simp only [outDtype, hcal, this]
    simp

/-- **the zero polynomial.** A stored coefficient list that consists only of zeros (any length ≥ 1) is a
calibration like any other: every read returns `0.0` for every selected element, as doubles, whatever the
origin — not the raw values, and not `x − o`. -/
theorem C15_zero_polynomial (a : Arr) (cs : List Rat) (ix : Index) (r : Result)
    (hc : a.coeffs = some cs) (hne : cs ≠ []) (hz : ∀ c ∈ cs, c = 0) (h : readData a ix = .ok r) :
    r.dtype = .float64 ∧ ∀ v ∈ r.vals, v = 0 := by
  obtain ⟨heff, hcal⟩ := C15_formula_coeffs a cs hc hne
  obtain ⟨shape, pos, xs, _, _, rfl⟩ := readData_ok a ix r h
  refine ⟨by simp [outDtype, hcal], ?_⟩
  intro v hv
  simp only [List.mem_map] at hv
  obtain ⟨x, _, rfl⟩ := hv
  simp [calibElem, hcal, heff, evalAsc_zeros _ cs hz]

/-- **a constant polynomial** `(c)` makes every read return `c` for every selected element, as doubles -/
theorem C15_constant_polynomial (a : Arr) (c : Rat) (ix : Index) (r : Result)
    (hc : a.coeffs = some [c]) (h : readData a ix = .ok r) :
    r.dtype = .float64 ∧ ∀ v ∈ r.vals, v = c := by
  obtain ⟨heff, hcal⟩ := C15_formula_coeffs a [c] hc (by simp)
  obtain ⟨shape, pos, xs, _, _, rfl⟩ := readData_ok a ix r h
  refine ⟨by simp [outDtype, hcal], ?_⟩
  intro v hv
  simp only [List.mem_map] at hv
  obtain ⟨x, _, rfl⟩ := hv
  simp [calibElem, hcal, heff, evalAsc_single]

/-- **vanishing high-order coefficients change nothing** — as long as a coefficient remains: appending
zeros to a non-empty coefficient list leaves every read (values, element type, shape, refusals) as it was.
(The hypothesis `cs ≠ []` is essential: `C15_zero_polynomial` versus `C15_formula_origin_only`.) -/
theorem C15_trailing_zeros (a : Arr) (cs zs : List Rat) (ix : Index) (hne : cs ≠ []) (hz : ∀ c ∈ zs, c = 0) :
    readData { a with coeffs := some (cs ++ zs) } ix = readData { a with coeffs := some cs } ix := by
  have hne' : cs ++ zs ≠ [] := by simp [hne]
  apply readData_congr { a with coeffs := some (cs ++ zs) } { a with coeffs := some cs } ix rfl rfl
  · simp [outDtype, calibrated, Arr.coeffsGet, hne]
  · funext x
    have h1 : calibrated { a with coeffs := some (cs ++ zs) } = true := by
      cases cs <;> simp_all [calibrated, Arr.coeffsGet]
    have h2 : calibrated { a with coeffs := some cs } = true := by
      cases cs <;> simp_all [calibrated, Arr.coeffsGet]
    simp only [calibElem, h1, h2, if_true, effCoeffs, Arr.coeffsGet, hne, hne', if_false, originVal]
    exact evalAsc_append_zeros _ cs zs hz

/-- the default polynomial written out: coefficients `(0, 1)` with origin `None`/`0` return the stored
values themselves — but as doubles -/
theorem C15_identity_polynomial (a : Arr) (ix : Index) (r : Result) (hc : a.coeffs = some [0, 1])
    (ho : a.origin = none ∨ a.origin = some 0) (h : readData a ix = .ok r) :
    ∃ shape pos xs, select a.shape ix = .ok (shape, pos) ∧ gather a.raw pos = .ok xs ∧
      r = ⟨.float64, fixShape shape, xs⟩ := by
  obtain ⟨heff, hcal⟩ := C15_formula_coeffs a [0, 1] hc (by simp)
  obtain ⟨shape, pos, xs, hs, hg, rfl⟩ := readData_ok a ix r h
  refine ⟨shape, pos, xs, hs, hg, ?_⟩
  have hid : calibElem a = id := by
    funext x
    rcases ho with ho | ho <;> simp [calibElem, hcal, heff, evalAsc, originVal, ho]
  simp [outDtype, hcal, hid]

/-- **a refused operation changes nothing** (C12 overlap): whatever operation answers with an error —
a bare number or anything without a length as coefficients, a non-number as origin, a read with an index
expression that is out of range, a write of the wrong size — leaves coefficients, origin, stored elements,
shape and element type exactly as they were. -/
theorem C15_refused_changes_nothing (a : Arr) (op : Op) (e : Err) (h : (step a op).2 = .err e) :
    (step a op).1 = a := by
  cases op with
  | setCoeffs c => simp only [step] at h ⊢; split at h <;> simp_all
  | setOrigin o => simp only [step] at h ⊢; split at h <;> simp_all
  | read ix => simp only [step]; split <;> rfl
  | readView w u => simp only [step]; split <;> rfl
  | getCoeffs => rfl
  | getOrigin => rfl
  | rawDump => rfl
  | linkTicks i => simp only [step]; split <;> rfl
  | write v => simp only [step] at h ⊢; split at h <;> simp_all
  | reopen => rfl

/-- **ticks of a range dimension linked to a calibrated array are the stored values**: `dimension.ticks` /
`DimensionLink.values` read the HDF5 dataset directly, so they do not depend on the calibration at all and
are raw elements of the array (the property's read paths — array, views, tags — do not include this one;
positions are therefore looked up among *uncalibrated* ticks). -/
theorem C15_link_values_raw (a : Arr) (c : Option (List Rat)) (o : Option Rat) (idx : List Int) :
    linkValues { a with coeffs := c, origin := o } idx = linkValues a idx ∧
    (∀ vals, linkValues a idx = .ok vals → ∃ ix shape, rawRead a ix = .ok (shape, vals)) := by
  refine ⟨rfl, ?_⟩
  intro vals h
  unfold linkValues at h
  split at h
  · cases h
  · split at h
    · cases h
    · refine ⟨some (idx.map fun i => if i = -1 then fullSlice else AxisIx.int i), ?_⟩
      cases hr : rawRead a (some (idx.map fun i => if i = -1 then fullSlice else AxisIx.int i)) with
      | error e => simp [hr, bind, Except.bind] at h
      | ok sv =>
        obtain ⟨shape, vs⟩ := sv
        simp only [hr, bind, Except.bind, Except.ok.injEq] at h
        subst h
        exact ⟨shape, rfl⟩

/-- **only the last assignment counts.** After *any* history (calibration changes, refusals, reads,
writes, reopening), assigning coefficients `c :: cs` and origin `o` makes every read what it is for the
array that holds the data the writes alone produced and exactly that calibration: nothing of an earlier
calibration survives. -/
theorem C15_last_assignment_wins (a : Arr) (ops : List Op) (c : Rat) (cs : List Rat) (o : Rat) (ix : Index) :
    readData (exec a (ops ++ [.setCoeffs (.seq (c :: cs)), .setOrigin (.num o)])) ix =
      readData { a with raw := (exec a (ops.filter isWrite)).raw, coeffs := some (c :: cs), origin := some o } ix := by
  rw [exec_append]
  have hr := C15_raw_only_writes a ops
  have hsd := exec_shape_dtype a ops
  generalize exec a ops = b at hr hsd
  have hex : exec b [.setCoeffs (.seq (c :: cs)), .setOrigin (.num o)]
      = { b with coeffs := some (c :: cs), origin := some o } := by
    simp [exec, run, step, setCoeffs, setOrigin]
  rw [hex]
  apply readData_congr _ _ ix
  · exact hsd.1
  · exact hr
  · simp [outDtype, calibrated, Arr.coeffsGet]
  · funext x; simp [calibElem, calibrated, Arr.coeffsGet, effCoeffs, originVal]

/-- **write, then read**: after `da[:] = vals` the whole read returns the new values, calibrated with the
calibration that was in force before the write (a write goes to the stored values as they are: no inverse
calibration is applied, and the calibration is untouched). -/
theorem C15_write_then_read (a : Arr) (h : WF a) (vals : List Rat) (hl : vals.length = a.raw.length) :
    readData (exec a [.write vals]) none = .ok ⟨outDtype a, a.shape, vals.map (calibElem a)⟩ := by
  have hex : exec a [.write vals] = { a with raw := vals } := by simp [exec, run, step, hl]
  rw [hex]
  have hwf : WF { a with raw := vals } := ⟨by simpa [hl] using h.1, h.2⟩
  have hce : calibElem { a with raw := vals } = calibElem a := rfl
  have hod : outDtype { a with raw := vals } = outDtype a := rfl
  have := C15_whole _ hwf
  simpa only [calibAll, hce, hod] using this

/-! ## Non-vacuity: concrete arrays meeting the hypotheses, with the values the theorems speak about -/

/-- a 2×3 `int16` array with coefficients `(1, 2)` and origin `1/2` -/
def exArr : Arr := ⟨.int16, [2, 3], [0, 1, 2, 3, 4, 5], some [1, 2], some (1 / 2)⟩

example : WF exArr := ⟨by decide, by decide⟩
example : calibrated exArr = true := by decide +kernel
example : readData exArr (some [.int 1, .slice none none (some 2)]) = .ok ⟨.float64, [2], [6, 10]⟩ := by
  decide +kernel
example : readData exArr (some [.int (-1), .int 0]) = .ok ⟨.float64, [1], [6]⟩ := by decide +kernel
example : readView exArr (mkView exArr.shape (some [(0, 2), (1, 3)])) (some [.int 1, .int (-1)])
    = .ok ⟨.float64, [1], [10]⟩ := by decide +kernel
example : (mkView exArr.shape (some [(0, 2), (1, 3)])).valid = true := by decide +kernel
example : (mkView exArr.shape (some [(0, 2), (1, 4)])).valid = false := by decide +kernel
/-- a history of accepted and refused calibration operations and reads (no writes) -/
def exHist : List Op :=
  [.setCoeffs (.seq [0, 0, 1]), .read none, .setOrigin .notNumber, .setCoeffs (.scalar 5),
   .setOrigin (.num 3), .readView (some [(0, 1), (0, 3)]) none, .setCoeffs .none, .reopen]
example : ∀ op ∈ exHist, isWrite op = false := by decide
example : (exec exArr exHist).origin = some 3 ∧ (exec exArr exHist).coeffs = none := by decide +kernel
example : readData { exArr with coeffs := none, origin := some 0 } (some [.int 1])
    = .ok ⟨.int16, [3], [3, 4, 5]⟩ := by decide +kernel

/-! non-vacuity of the new statements -/
example : readDataG Gen.readDataBody Gen.applyPolynomialBody exArr (some [.int 1, .slice none none (some 2)])
    = .ok ⟨.float64, [2], [6, 10]⟩ := by decide +kernel
/-- the interpreter tells programs apart: evaluating before subtracting the origin is another function … -/
example : readDataG Gen.readDataBody (.seq (.ite .coeffTruthy .polyval) .subOrigin) exArr (some [.int 0, .int 0])
    ≠ readData exArr (some [.int 0, .int 0]) := by decide +kernel
/-- … so is testing only the coefficients (an origin without coefficients would be ignored) … -/
example : readDataG (.seq .loadCoeff (.seq .loadOrigin (.seq .rawRead
      (.ite .lenCoeff (.seq (.astype .float64) .callApply))))) Gen.applyPolynomialBody
      { exArr with coeffs := none } (some [.int 0, .int 1])
    ≠ readData { exArr with coeffs := none } (some [.int 0, .int 1]) := by decide +kernel
/-- … and a setter that stores the coefficients under a name the getter does not read -/
example : (SStmt.writeData "coefficients" .float64).run Gen.coeffGetterName Gen.originGetterName
      (.coeff (.seq [1])) exArr ≠ setCoeffs exArr (.seq [1]) := by decide +kernel
example : readData { exArr with coeffs := some [0, 0, 0] } (some [.int 1]) = .ok ⟨.float64, [3], [0, 0, 0]⟩ := by
  decide +kernel
example : readData { exArr with coeffs := some [7] } (some [.int 1, .int 1]) = .ok ⟨.float64, [1], [7]⟩ := by
  decide +kernel
example : readData { exArr with coeffs := some [1, 2, 0, 0] } none = readData exArr none := by decide +kernel
example : readData { exArr with dtype := .float32, coeffs := none } (some [.int 0, .int 0])
    = .ok ⟨.float64, [1], [-1 / 2]⟩ := by decide +kernel
example : (step exArr (.setCoeffs (.scalar 5))).2 = .err .typeError := by decide +kernel
example : (step exArr (.read (some [.int 2]))).2 = .err .indexError := by decide +kernel
example : linkValues exArr [1, -1] = .ok [3, 4, 5] := by decide +kernel
example : linkValues exArr [-1, -1] = .error .valueError := by decide +kernel
example : readData (exec exArr [.write [5, 4, 3, 2, 1, 0]]) (some [.int 0])
    = .ok ⟨.float64, [3], [10, 8, 6]⟩ := by decide +kernel

end Nix.C15
