import NixModel.Pure.NdArray
import NixModel.Lemmas.C01Steps
import NixModel.Lemmas.C01History
import NixModel.Lemmas.C01Region

/-!
# C01 — array data is stored and returned exactly (type, shape, values)

Property theorems only; helper lemmas live in `NixModel/Lemmas/C01*.lean`.  All statements are about the model
`NixModel/Pure/NdArray.lean` (nixio's logic over an executable stand-in for h5py/libhdf5 storage), with the
compression enum and resolution statements regenerated from the source (`Generated/Compression.lean`).
-/
namespace Nix.C01
open Nix Nix.Nd Nix.Nd.Lemmas Nix.Gen.Compr

/-- `append` along an axis that names a dimension, with equal rank and equal other extents, reads back as the
concatenation — shape included, pointwise on every multi-index, for every rank, axis and extent (0 included);
element type and filter are untouched.  (`contiguous` is `np.ascontiguousarray`: 0-d data counts as length 1.) -/
theorem C01_append_concat (A : DArr) (D : NdArray Elem) (axis : Int)
    (h : AppendOk A.arr.shape (contiguous D).shape axis) :
    ∃ B, append A D axis = .ok B ∧ B.dtype = A.dtype ∧ B.compressed = A.compressed ∧
      B.arr.shape = (A.arr.concat (contiguous D) axis.toNat).shape ∧
      ∀ idx, inBounds idx B.arr.shape = true →
        B.arr.get idx = (A.arr.concat (contiguous D) axis.toNat).get idx := by
  obtain ⟨hl, h0, hlt, hrest⟩ := h
  obtain ⟨k, rfl⟩ : ∃ k : Nat, axis = (k : Int) := ⟨axis.toNat, by omega⟩
  have hk : k < A.arr.shape.length := by omega
  have hm := (shapeMismatch_false_iff (k : Int) _ _ hl).mpr hrest
  refine ⟨_, append_ok A D k hl hk hm, rfl, rfl, ?_, ?_⟩
  · simp [NdArray.setRegion, NdArray.resize, NdArray.concat, appendEnlarge_eq_set k _ _ hl hk]
  · intro idx hb
    simp only [NdArray.setRegion, NdArray.resize] at hb
    obtain ⟨h1, h2, h3⟩ := relIdx_append k _ _ idx hl hk hm hb
    simp only [NdArray.setRegion, NdArray.resize, NdArray.concat, Int.toNat_natCast, h1]
    by_cases hc : idx.getD k 0 < A.arr.shape.getD k 0
    · simp only [hc, if_true, h2 hc]
    · have hcnt : (mkSel (appendOffset (k : Int) A.arr.shape) (contiguous D).shape).map (·.count)
          = (contiguous D).shape := mkSel_counts _ _ (by rw [length_appendOffset, hl])
      simp only [hc, if_false]
      rw [bcastIdx_exact _ _ _ hcnt (mkSel_nonscalar _ _) (h3 hc)]

/-- in every other case `append` is refused with ValueError (the caller's array is untouched: the result
carries no array) — including an axis outside `0..rank-1` with equal shapes (defect D15, repaired in /repo) -/
theorem C01_append_refused (A : DArr) (D : NdArray Elem) (axis : Int)
    (h : ¬ AppendOk A.arr.shape (contiguous D).shape axis) : append A D axis = .error .valueError :=
  append_refused A D axis h

/-! Non-vacuity: a rank-2 array, appending along axis 1; and the D15 input is refused. -/
example : AppendOk [2, 3] [2, 0] 1 := by
  refine ⟨rfl, by decide, by decide, ?_⟩
  intro j hj
  match j with
  | 0 => rfl
  | 1 => exact absurd rfl hj
  | _ + 2 => rfl
example : ¬ AppendOk [2] [2] (-1) := fun h => absurd h.2.1 (by decide)
example : ¬ AppendOk [2] [2] 1 := fun h => absurd h.2.2.1 (by decide)

/-! ## histories -/

/-- For every array and every list of write / assign / append / resize / reopen steps, what the model reads
afterwards is the fold of the reference semantics (`refStep`: an accepted step is a functional update of the map
from multi-indices to elements — `written` names the source element per multi-index, everything else keeps its
value or is the fill value when new; a step that cannot be performed changes nothing) — same shape, same element
on every valid multi-index; and the element type and filter flag are the ones the array was created with. -/
theorem C01_history (A : DArr) (steps : List Step) :
    EqArr (run A steps).arr (refRun A.dtype.fill A.arr steps) ∧
    (run A steps).dtype = A.dtype ∧ (run A steps).compressed = A.compressed :=
  ⟨run_refines steps A, run_keeps_meta steps A⟩

/-- last write wins, per multi-index: if step `s` (accepted on the array reached after `pre`) puts `v` on `idx`
and no later step of `post` touches `idx` or moves it out of bounds, then `idx` reads `v` at the end -/
theorem C01_last_write_wins (A : DArr) (pre post : List Step) (s : Step) (idx : List Nat) (v : Elem)
    (hacc : Accepts (run A pre).arr.shape s)
    (hw : written (run A pre).arr.shape s idx = some v)
    (hpost : Untouched (newShape (run A pre).arr.shape s) post idx) :
    (run A (pre ++ s :: post)).arr.get idx = v ∧
    inBounds idx (run A (pre ++ s :: post)).arr.shape = true := by
  have hrun : run A (pre ++ s :: post) = run (stepState (run A pre) s) post := by
    rw [run_append]; rfl
  rw [hrun]
  exact step_then_untouched (run A pre) s post idx v hacc hw hpost

/-- no step changes the element type or the filter flag; write, assign and reopen keep the shape; a refused step
changes nothing at all (append and resize change the shape exactly as `newShape` says: `C01_history`) -/
theorem C01_dtype_shape_stable (A : DArr) (s : Step) :
    (stepState A s).dtype = A.dtype ∧ (stepState A s).compressed = A.compressed ∧
    (Accepts A.arr.shape s → (stepState A s).arr.shape = newShape A.arr.shape s) ∧
    (¬ Accepts A.arr.shape s → (stepState A s).arr.shape = A.arr.shape) ∧
    (∀ e, step A s = .error e → stepState A s = A) := by
  refine ⟨(stepState_meta A s).1, (stepState_meta A s).2, ?_, ?_, ?_⟩
  · intro h
    rw [(stepState_refines A s).1, refStep_pos _ _ _ h]
  · intro h
    rw [(stepState_refines A s).1, refStep_neg _ _ _ h]
  · intro e he
    unfold stepState
    rw [he]

/-- the stored elements stay values of the element type: if they were at the start and every step supplies
values of the array's element type, every element read after any history is one -/
theorem C01_elements_typed (A : DArr) (steps : List Step) (hA : Typed A)
    (hs : ∀ s ∈ steps, StepTyped A.dtype s) : Typed (run A steps) :=
  run_typed steps A hA hs

/-- reading back through the selection that was assigned returns the (broadcast) source, for every selection
`select` can produce (integers, slices with any positive step, negative and clipped bounds); everything outside
the selection and the shape are untouched -/
theorem C01_assign_exact (A B : DArr) (ixs : List Ix) (D : NdArray Elem) (sel : List AxisSel)
    (hsel : select A.arr.shape ixs = .ok sel) (h : assign A ixs D = .ok B) :
    B.arr.shape = A.arr.shape ∧
    (∀ r, inBounds r (selShape sel) = true →
      (B.arr.gather sel).get r = D.get (bcastIdx sel (fullRel sel r) D.shape)) ∧
    (∀ idx, relIdx sel idx = none → B.arr.get idx = A.arr.get idx) := by
  unfold assign at h
  rw [hsel] at h
  simp only at h
  split at h
  · cases h
    refine ⟨rfl, ?_, ?_⟩
    · intro r hr
      simp only [NdArray.gather, NdArray.setRegion, relIdx_absIdx sel r (select_wf _ _ _ hsel) hr]
    · intro idx hn
      simp only [NdArray.setRegion, hn]
  · cases h

/-- … in particular a scalar source fills the region, and a source of exactly the region's shape assigned
through slices reads back unchanged -/
theorem C01_assign_exact_sources (A B : DArr) (ixs : List Ix) (D : NdArray Elem) (sel : List AxisSel)
    (hsel : select A.arr.shape ixs = .ok sel) (h : assign A ixs D = .ok B) :
    (D.shape = [] → ∀ r, inBounds r (selShape sel) = true → (B.arr.gather sel).get r = D.get []) ∧
    ((∀ s ∈ sel, s.scalar = false) → D.shape = selShape sel →
      ∀ r, inBounds r (selShape sel) = true → (B.arr.gather sel).get r = D.get r) := by
  have hx := (C01_assign_exact A B ixs D sel hsel h).2.1
  constructor
  · intro hD r hr
    rw [hx r hr, hD, bcastIdx_scalar_source]
  · intro hns hD r hr
    have hf := fullRel_nonscalar sel r hns hr
    rw [hx r hr, hf.1, bcastIdx_exact sel r D.shape (by rw [hD, hf.2]) hns (by rw [hD]; exact hr)]

/-- creation with data: the element type is the `dtype` argument, else the data's; a given `shape` must equal
the data's shape (else ValueError); text needs `dtype=DataType.String` (else TypeError); the new array has the
data's shape and reads back the data on every multi-index -/
theorem C01_create_exact (dtype : Option DType) (shape : Option (List Nat)) (ddt : DType) (d : NdArray Elem)
    (compr : Bool) :
    (shapeAgrees shape (contiguous d).shape = true → ¬ (dtype = none ∧ ddt = .string) →
      ∃ A, createDataArray dtype shape (some (ddt, d)) compr = .ok A ∧
        A.dtype = chooseDType dtype ddt ∧ A.compressed = compr ∧
        A.arr.shape = (contiguous d).shape ∧
        ∀ idx, inBounds idx A.arr.shape = true → A.arr.get idx = (contiguous d).get idx) ∧
    (shapeAgrees shape (contiguous d).shape = false →
      createDataArray dtype shape (some (ddt, d)) compr = .error .valueError) := by
  constructor
  · intro hsh htxt
    obtain ⟨B, hB, h1, h2, h3, h4⟩ := writeDirect_exact
      ⟨chooseDType dtype ddt, compr, ⟨(contiguous d).shape, fun _ => (chooseDType dtype ddt).fill⟩⟩
      (contiguous d) rfl (contiguous_rank d)
    refine ⟨B, ?_, h1, h2, h3, fun idx hb => h4 idx (h3 ▸ hb)⟩
    unfold createDataArray
    simp only [hsh, Bool.not_true, Bool.false_eq_true, if_false]
    rw [if_neg htxt]
    exact hB
  · intro hsh
    unfold createDataArray
    simp [hsh]

/-- creation without data needs a shape; the element type defaults to float64; every element is the fill value -/
theorem C01_create_empty (dtype : Option DType) (shape : Option (List Nat)) (compr : Bool) :
    createDataArray dtype shape none compr =
      (match shape with
       | none => .error .valueError
       | some sh => .ok ⟨chooseDType dtype .float64, compr,
                         ⟨sh, fun _ => (chooseDType dtype .float64).fill⟩⟩) := by
  unfold createDataArray
  cases shape <;> rfl

/-! Non-vacuity for the history theorems: a concrete accepted assignment that is not touched afterwards. -/
example : Accepts [2, 3] (.resize [4, 1]) := ⟨rfl, by intro x hx; simp at hx; rcases hx with h | h <;> omega⟩
example : Typed ⟨.int8, false, ⟨[2], fun _ => .int (-128)⟩⟩ := fun _ _ => by simp only; decide
example : StepTyped .float32 (.write ⟨[1], fun _ => .f32 0x7fc00001⟩) := fun _ => by simp only; decide

/-- the hypotheses of `C01_last_write_wins` are satisfiable: on a rank-1 array of 3 elements, `a[1] = 7` followed
by a shrink to 2 elements leaves index 1 untouched -/
example : Accepts [3] (.assign [.int 1] ⟨[], fun _ => .int 7⟩) ∧
    written [3] (.assign [.int 1] ⟨[], fun _ => .int 7⟩) [1] = some (.int 7) ∧
    Untouched (newShape [3] (.assign [.int 1] ⟨[], fun _ => .int 7⟩)) [.resize [2]] [1] := by
  refine ⟨⟨[⟨1, 1, 1, true⟩], rfl, rfl⟩, rfl, ?_⟩
  have hacc : Accepts (newShape [3] (.assign [.int 1] ⟨[], fun _ => .int 7⟩)) (.resize [2]) :=
    ⟨rfl, by intro x hx; simp at hx; omega⟩
  refine ⟨rfl, ?_⟩
  rw [if_pos hacc]
  exact ⟨rfl, rfl⟩

/-! ## compression -/

/-- what is read never depends on the filter: two arrays that differ only in the gzip flag go through any
history in lock-step — same content, same refusals — and creation with either flag yields the same content -/
theorem C01_compression_transparent (A : DArr) (c : Bool) (steps : List Step) :
    run { A with compressed := c } steps = { run A steps with compressed := c } ∧
    readAll (run { A with compressed := c } steps) = readAll (run A steps) ∧
    (∀ ixs, readRegion (run { A with compressed := c } steps) ixs = readRegion (run A steps) ixs) := by
  have h := run_compr steps A c
  refine ⟨h, ?_, ?_⟩
  · rw [h]; rfl
  · intro ixs; rw [h]; rfl


/-- reference reading of the three-level default: the array's own setting unless it is Auto, else the setting of
the block handle (the handle `create_block` returned carries the block's setting, itself defaulting to the
file's, itself defaulting to No; a handle re-fetched from `file.blocks` carries none), gzip iff DeflateNormal -/
def effective (file block array : Compression) (refetched : Bool) : Compression :=
  if array ≠ .auto then array
  else if refetched then .auto
  else if block ≠ .auto then block
  else if file ≠ .auto then file
  else .no

/-- complete resolution table (3 × 3 × 3 × created/re-fetched handle), over the regenerated enum and constants -/
theorem C01_compression_table (file block array : Compression) (refetched : Bool) :
    resolveCompression file block array refetched
      = decide (effective file block array refetched = .deflateNormal) := by
  cases file <;> cases block <;> cases array <;> cases refetched <;> decide

end Nix.C01
