import NixModel.Pure.NdArray
import NixModel.Lemmas.C01Steps
import NixModel.Lemmas.C01History
import NixModel.Lemmas.C01Region
import NixModel.Lemmas.C01Gen
import NixModel.Lemmas.C01Typed
import NixModel.Lemmas.C01Spell
import NixModel.Lemmas.C01Seq

/-!
# C01 — array data is stored and returned exactly (type, shape, values)

Property theorems only; helper lemmas live in `NixModel/Lemmas/C01*.lean`.  All statements are about the model
`NixModel/Pure/NdArray.lean` (nixio's logic over an executable stand-in for h5py/libhdf5 storage), with the
compression enum and resolution statements regenerated from the source (`Generated/Compression.lean`).
-/
namespace Nix.C01
open Nix Nix.Nd Nix.Nd.Lemmas Nix.Gen.Compr Nix.NdGen

/-- `append` along an axis that names a dimension, with equal rank and equal other extents, reads back as the
concatenation — shape included, pointwise on every multi-index, for every rank, axis and extent (0 included);
element type and filter are untouched.  (`contiguous` is `np.ascontiguousarray`: 0-d data counts as length 1.) -/
theorem C01_append_concat (A : DArr) (D : NdArray Elem) (axis : Int)
    (h : AppendOk A.arr.shape (contiguous D).shape axis) :
    ∃ B, append A D axis = .ok B ∧ B.dtype = A.dtype ∧ B.compressed = A.compressed ∧
      B.arr.shape = (A.arr.concat (contiguous D) axis.toNat).shape ∧
      ∀ idx, inBounds idx B.arr.shape = true →
        B.arr.get idx = (A.arr.concat (contiguous D) axis.toNat).get idx := by
  obtain ⟨hl, h0, hlt, hrest⟩ := h
  obtain ⟨k, rfl⟩ : ∃ k : Nat, axis = (k : Int) := ⟨axis.toNat, by omega⟩
  have hk : k < A.arr.shape.length := by omega
  have hm := (shapeMismatch_false_iff (k : Int) _ _ hl).mpr hrest
  refine ⟨_, append_ok A D k hl hk hm, rfl, rfl, ?_, ?_⟩
  · simp [NdArray.setRegion, NdArray.resize, NdArray.concat, appendEnlarge_eq_set k _ _ hl hk]
  · intro idx hb
    simp only [NdArray.setRegion, NdArray.resize] at hb
    obtain ⟨h1, h2, h3⟩ := relIdx_append k _ _ idx hl hk hm hb
    simp only [NdArray.setRegion, NdArray.resize, NdArray.concat, Int.toNat_natCast, h1]
    by_cases hc : idx.getD k 0 < A.arr.shape.getD k 0
    · simp only [hc, if_true, h2 hc]
    · have hcnt : (mkSel (appendOffset (k : Int) A.arr.shape) (contiguous D).shape).map (·.count)
          = (contiguous D).shape := mkSel_counts _ _ (by rw [length_appendOffset, hl])
      simp only [hc, if_false]
      rw [bcastIdx_exact _ _ _ hcnt (mkSel_nonscalar _ _) (h3 hc)]

/-- in every other case `append` is refused with ValueError (the caller's array is untouched: the result
carries no array) — including an axis outside `0..rank-1` with equal shapes (defect D15, repaired in /repo) -/
theorem C01_append_refused (A : DArr) (D : NdArray Elem) (axis : Int)
    (h : ¬ AppendOk A.arr.shape (contiguous D).shape axis) : append A D axis = .error .valueError :=
  append_refused A D axis h

/-! Non-vacuity: a rank-2 array, appending along axis 1; and the D15 input is refused. -/
example : AppendOk [2, 3] [2, 0] 1 := by
  refine ⟨rfl, by decide, by decide, ?_⟩
  intro j hj
  match j with
  | 0 => rfl
  | 1 => exact absurd rfl hj
  | _ + 2 => rfl
example : ¬ AppendOk [2] [2] (-1) := fun h => absurd h.2.1 (by decide)
example : ¬ AppendOk [2] [2] 1 := fun h => absurd h.2.2.1 (by decide)

/-! ## histories -/

/-- For every array and every list of write / assign / append / resize / reopen steps, what the model reads
afterwards is the fold of the reference semantics (`refStep`: an accepted step is a functional update of the map
from multi-indices to elements — `written` names the source element per multi-index, everything else keeps its
value or is the fill value when new; a step that cannot be performed changes nothing) — same shape, same element
on every valid multi-index; and the element type and filter flag are the ones the array was created with. -/
theorem C01_history (A : DArr) (steps : List Step) :
    EqArr (run A steps).arr (refRun A.dtype.fill A.arr steps) ∧
    (run A steps).dtype = A.dtype ∧ (run A steps).compressed = A.compressed :=
  ⟨run_refines steps A, run_keeps_meta steps A⟩

/-- last write wins, per multi-index: if step `s` (accepted on the array reached after `pre`) puts `v` on `idx`
and no later step of `post` touches `idx` or moves it out of bounds, then `idx` reads `v` at the end -/
theorem C01_last_write_wins (A : DArr) (pre post : List Step) (s : Step) (idx : List Nat) (v : Elem)
    (hacc : Accepts (run A pre).arr.shape s)
    (hw : written (run A pre).arr.shape s idx = some v)
    (hpost : Untouched (newShape (run A pre).arr.shape s) post idx) :
    (run A (pre ++ s :: post)).arr.get idx = v ∧
    inBounds idx (run A (pre ++ s :: post)).arr.shape = true := by
  have hrun : run A (pre ++ s :: post) = run (stepState (run A pre) s) post := by
    rw [run_append]; rfl
  rw [hrun]
  exact step_then_untouched (run A pre) s post idx v hacc hw hpost

/-- no step changes the element type or the filter flag; write, assign and reopen keep the shape; a refused step
changes nothing at all (append and resize change the shape exactly as `newShape` says: `C01_history`) -/
theorem C01_dtype_shape_stable (A : DArr) (s : Step) :
    (stepState A s).dtype = A.dtype ∧ (stepState A s).compressed = A.compressed ∧
    (Accepts A.arr.shape s → (stepState A s).arr.shape = newShape A.arr.shape s) ∧
    (¬ Accepts A.arr.shape s → (stepState A s).arr.shape = A.arr.shape) ∧
    (∀ e, step A s = .error e → stepState A s = A) := by
  refine ⟨(stepState_meta A s).1, (stepState_meta A s).2, ?_, ?_, ?_⟩
  · intro h
    rw [(stepState_refines A s).1, refStep_pos _ _ _ h]
  · intro h
    rw [(stepState_refines A s).1, refStep_neg _ _ _ h]
  · intro e he
    unfold stepState
    rw [he]

/-- the stored elements stay values of the element type: if they were at the start and every step supplies
values of the array's element type, every element read after any history is one -/
theorem C01_elements_typed (A : DArr) (steps : List Step) (hA : Typed A)
    (hs : ∀ s ∈ steps, StepTyped A.dtype s) : Typed (run A steps) :=
  run_typed steps A hA hs

/-- reading back through the selection that was assigned returns the (broadcast) source, for every selection
`select` can produce (integers, slices with any positive step, negative and clipped bounds); everything outside
the selection and the shape are untouched -/
theorem C01_assign_exact (A B : DArr) (ixs : List Ix) (D : NdArray Elem) (sel : List AxisSel)
    (hsel : select A.arr.shape ixs = .ok sel) (h : assign A ixs D = .ok B) :
    B.arr.shape = A.arr.shape ∧
    (∀ r, inBounds r (selShape sel) = true →
      (B.arr.gather sel).get r = D.get (bcastIdx sel (fullRel sel r) D.shape)) ∧
    (∀ idx, relIdx sel idx = none → B.arr.get idx = A.arr.get idx) := by
  unfold assign at h
  rw [hsel] at h
  simp only at h
  split at h
  · cases h
    refine ⟨rfl, ?_, ?_⟩
    · intro r hr
      simp only [NdArray.gather, NdArray.setRegion, relIdx_absIdx sel r (select_wf _ _ _ hsel) hr]
    · intro idx hn
      simp only [NdArray.setRegion, hn]
  · cases h

/-- … in particular a scalar source fills the region, and a source of exactly the region's shape assigned
through slices reads back unchanged -/
theorem C01_assign_exact_sources (A B : DArr) (ixs : List Ix) (D : NdArray Elem) (sel : List AxisSel)
    (hsel : select A.arr.shape ixs = .ok sel) (h : assign A ixs D = .ok B) :
    (D.shape = [] → ∀ r, inBounds r (selShape sel) = true → (B.arr.gather sel).get r = D.get []) ∧
    ((∀ s ∈ sel, s.scalar = false) → D.shape = selShape sel →
      ∀ r, inBounds r (selShape sel) = true → (B.arr.gather sel).get r = D.get r) := by
  have hx := (C01_assign_exact A B ixs D sel hsel h).2.1
  constructor
  · intro hD r hr
    rw [hx r hr, hD, bcastIdx_scalar_source]
  · intro hns hD r hr
    have hf := fullRel_nonscalar sel r hns hr
    rw [hx r hr, hf.1, bcastIdx_exact sel r D.shape (by rw [hD, hf.2]) hns (by rw [hD]; exact hr)]

/-- creation with data: the element type is the `dtype` argument, else the data's; a given `shape` must equal
the data's shape (else ValueError); text needs `dtype=DataType.String` (else TypeError); the new array has the
data's shape and reads back the data on every multi-index -/
theorem C01_create_exact (dtype : Option DType) (shape : Option (List Nat)) (ddt : DType) (d : NdArray Elem)
    (compr : Bool) :
    (shapeAgrees shape (contiguous d).shape = true → ¬ (dtype = none ∧ ddt = .string) →
      ∃ A, createDataArray dtype shape (some (ddt, d)) compr = .ok A ∧
        A.dtype = chooseDType dtype ddt ∧ A.compressed = compr ∧
        A.arr.shape = (contiguous d).shape ∧
        ∀ idx, inBounds idx A.arr.shape = true → A.arr.get idx = (contiguous d).get idx) ∧
    (shapeAgrees shape (contiguous d).shape = false →
      createDataArray dtype shape (some (ddt, d)) compr = .error .valueError) := by
  constructor
  · intro hsh htxt
    obtain ⟨B, hB, h1, h2, h3, h4⟩ := writeDirect_exact
      ⟨chooseDType dtype ddt, compr, ⟨(contiguous d).shape, fun _ => (chooseDType dtype ddt).fill⟩⟩
      (contiguous d) rfl (contiguous_rank d)
    refine ⟨B, ?_, h1, h2, h3, fun idx hb => h4 idx (h3 ▸ hb)⟩
    unfold createDataArray
    simp only [hsh, Bool.not_true, Bool.false_eq_true, if_false]
    rw [if_neg htxt]
    exact hB
  · intro hsh
    unfold createDataArray
    simp [hsh]

/-- creation without data needs a shape; the element type defaults to float64; every element is the fill value -/
theorem C01_create_empty (dtype : Option DType) (shape : Option (List Nat)) (compr : Bool) :
    createDataArray dtype shape none compr =
      (match shape with
       | none => .error .valueError
       | some sh => .ok ⟨chooseDType dtype .float64, compr,
                         ⟨sh, fun _ => (chooseDType dtype .float64).fill⟩⟩) := by
  unfold createDataArray
  cases shape <;> rfl

/-! Non-vacuity for the history theorems: a concrete accepted assignment that is not touched afterwards. -/
example : Accepts [2, 3] (.resize [4, 1]) := ⟨rfl, by intro x hx; simp at hx; rcases hx with h | h <;> omega⟩
example : Typed ⟨.int8, false, ⟨[2], fun _ => .int (-128)⟩⟩ := fun _ _ => by simp only; decide
example : StepTyped .float32 (.write ⟨[1], fun _ => .f32 0x7fc00001⟩) := fun _ => by simp only; decide

/-- the hypotheses of `C01_last_write_wins` are satisfiable: on a rank-1 array of 3 elements, `a[1] = 7` followed
by a shrink to 2 elements leaves index 1 untouched -/
example : Accepts [3] (.assign [.int 1] ⟨[], fun _ => .int 7⟩) ∧
    written [3] (.assign [.int 1] ⟨[], fun _ => .int 7⟩) [1] = some (.int 7) ∧
    Untouched (newShape [3] (.assign [.int 1] ⟨[], fun _ => .int 7⟩)) [.resize [2]] [1] := by
  refine ⟨⟨[⟨1, 1, 1, true⟩], rfl, rfl⟩, rfl, ?_⟩
  have hacc : Accepts (newShape [3] (.assign [.int 1] ⟨[], fun _ => .int 7⟩)) (.resize [2]) :=
    ⟨rfl, by intro x hx; simp at hx; omega⟩
  refine ⟨rfl, ?_⟩
  rw [if_pos hacc]
  exact ⟨rfl, rfl⟩

/-! ## compression -/

/-- what is read never depends on the filter: two arrays that differ only in the gzip flag go through any
history in lock-step — same content, same refusals — and creation with either flag yields the same content -/
theorem C01_compression_transparent (A : DArr) (c : Bool) (steps : List Step) :
    run { A with compressed := c } steps = { run A steps with compressed := c } ∧
    readAll (run { A with compressed := c } steps) = readAll (run A steps) ∧
    (∀ ixs, readRegion (run { A with compressed := c } steps) ixs = readRegion (run A steps) ixs) := by
  have h := run_compr steps A c
  refine ⟨h, ?_, ?_⟩
  · rw [h]; rfl
  · intro ixs; rw [h]; rfl


/-- reference reading of the three-level default: the array's own setting unless it is Auto, else the setting of
the block handle (the handle `create_block` returned carries the block's setting, itself defaulting to the
file's, itself defaulting to No; a handle re-fetched from `file.blocks` carries none), gzip iff DeflateNormal -/
def effective (file block array : Compression) (refetched : Bool) : Compression :=
  if array ≠ .auto then array
  else if refetched then .auto
  else if block ≠ .auto then block
  else if file ≠ .auto then file
  else .no

/-- complete resolution table (3 × 3 × 3 × created/re-fetched handle), over the regenerated enum and constants -/
theorem C01_compression_table (file block array : Compression) (refetched : Bool) :
    resolveCompression file block array refetched
      = decide (effective file block array refetched = .deflateNormal) := by
  cases file <;> cases block <;> cases array <;> cases refetched <;> decide

/-! ## the source, compiled (`Generated/DataSetShape.lean`), is the model

`harness/extract/datasetshape.py` compiles the array I/O methods of nixio from the Python source into Lean
definitions on every run; the theorems below state that those definitions are, for all inputs, the hand-written
model (`Pure/NdStore.lean`) the theorems of this file are about.  An edit of the source (a reordered or dropped
check in `append`, another offset / enlarge expression, a dropped restore, `if not slc` for `if slc is None`,
another single-value test or exception class, a changed argument rule of `create_data_array`) changes a
generated definition and breaks one of them. -/

/-- `DataSet.append` as written in data_set.py is `appendS`: rank check, axis check, per-axis shape check
excluding `axis` (in this order, each a ValueError that leaves the array alone), offset, enlarge, resize,
hyperslab write of the contiguous data, restore of the old extent when the write raises -/
theorem C01_source_append (A : DArr) (d : Arr) (axis : Int) :
    Nix.Gen.DataSet.dsAppend A d axis = appendS A d axis := dsAppend_eq A d axis

/-- `DataSet.__setitem__`, `write_direct`, `_write_data`, `H5DataSet.write_data` as written: data without
elements for a selection with elements is refused (`/repo` 61e9077); otherwise the whole dataset iff the index
is `None` (not: iff it is falsy), else exactly the indexed region -/
theorem C01_source_write (A : DArr) (d : Arr) (ix : IndexArg) :
    Nix.Gen.DataSet.dsSetItem A ix d = writeData A d ix ∧
    Nix.Gen.DataSet.dsWriteDirect A d = writeData A d .none ∧
    (∀ B, writeData A d ix = .ok B → h5SetItem A ix.orFull d = .ok B) ∧
    ((arrIsEmpty d && optTruthy (h5SelectedCount A ix)) = false → writeData A d ix = h5SetItem A ix.orFull d) ∧
    ((arrIsEmpty d && optTruthy (h5SelectedCount A ix)) = true → writeData A d ix = .error (.err .valueError)) ∧
    Nix.Gen.DataSet.h5WriteDataNoneBranch = "data = np.full(self.shape, np.nan)[slc]" := by
  refine ⟨dsSetItem_eq A ix d, dsWriteDirect_eq A d, fun B h => writeData_ok h, ?_, ?_, rfl⟩
  · intro hg
    unfold writeData
    rw [hg]
    cases ix <;> rfl
  · intro hg
    unfold writeData
    rw [hg]
    rfl

/-- the guard of `/repo` 61e9077, spelled out: for an index without `Ellipsis` that h5py accepts, the NumPy probe
counts exactly the elements h5py selects; data without elements is refused with ValueError iff the selection has
elements; in every other case the write is h5py's `dataset[ix] = data` -/
theorem C01_empty_source (A : DArr) (d : Arr) (ix : IndexArg) (ixs : List Ix) (sel : List AxisSel)
    (hitems : ix.orFull.items = ixs.map .ix) (hs : select A.arr.shape ixs = .ok sel) :
    h5SelectedCount A ix = some (selCount sel) ∧
    (arrIsEmpty d = true → selCount sel ≠ 0 → writeData A d ix = .error (.err .valueError)) ∧
    (arrIsEmpty d = false ∨ selCount sel = 0 → writeData A d ix = h5SetItem A ix.orFull d) := by
  have hc := h5SelectedCount_select A ix ixs sel hitems hs
  refine ⟨hc, ?_, ?_⟩
  · intro he hn
    unfold writeData
    rw [hc, he]
    obtain ⟨m, hm⟩ : ∃ m, selCount sel = m + 1 := ⟨selCount sel - 1, by omega⟩
    rw [hm]
    rfl
  · intro h
    have hg : (arrIsEmpty d && optTruthy (h5SelectedCount A ix)) = false := by
      rw [hc]
      rcases h with h | h
      · rw [h]; rfl
      · rw [h]; simp [optTruthy]
    unfold writeData
    rw [hg]
    cases ix <;> rfl

example : h5SelectedCount ⟨.int8, false, ⟨[2, 3], fun _ => .int 0⟩⟩ (.tuple [.ix (.slice none none (some (-1)))])
    = some 6 := by decide

/-- no second code path: the methods `DataSet` and `H5DataSet` define are the ones the model knows, `DataArray`
(bases `Entity`, `DataSet`) overrides only `dtype` and `_read_data`, and `Entity` shadows none of them — a new
method (another read or write path, an override of something compiled from `DataSet`) changes these lists -/
theorem C01_source_methods :
    Nix.Gen.DataSet.dataSetMethods =
      ["__array__", "__getitem__", "__setitem__", "__len__", "__iter__", "len", "shape", "size", "dtype",
       "write_direct", "read_direct", "append", "_write_data", "_read_data", "data_extent", "data_extent.setter",
       "data_type", "_get_dtype"] ∧
    Nix.Gen.DataSet.h5DataSetMethods =
      ["__init__", "create_from_h5obj", "write_data", "_is_empty", "_selected_count", "read_data",
       "_convert_string_cols", "set_attr", "get_attr", "shape", "shape.setter", "dtype", "__str__"] ∧
    Nix.Gen.DataSet.dataArrayOverrides = ["dtype", "_read_data"] ∧
    Nix.Gen.DataSet.dataArrayBases = ["Entity", "DataSet"] ∧
    Nix.Gen.DataSet.entityShadows = [] := ⟨rfl, rfl, rfl, rfl, rfl⟩

/-- the methods of the read and creation paths that the model represents by hand (`__array__`, `read_direct`,
`__iter__`, the dtype getters, `H5DataSet.__init__` with `maxshape=(None,)*rank`, `chunks=True` and the
variable-length string type, `_is_empty`, `_selected_count`, `DataArray.create_new`) are what the model was
written against -/
theorem C01_source_pinned : Nix.Gen.DataSet.pinned =
  [
    ("DataSet.__array__", "(self): return self._read_data()[:]"),
    ("DataSet.__iter__", "(self): for idx in range(self.len()):\n    yield self[idx]"),
    ("DataSet.__len__", "(self): return self.len()"),
    ("DataSet.read_direct", "(self, data): data[:] = self._read_data()"),
    ("DataSet.dtype", "(self): return np.dtype(self._get_dtype())"),
    ("DataSet.data_type", "(self): return self._get_dtype()"),
    ("DataSet._get_dtype", "(self): dataset = self._h5group.get_dataset('data'); return dataset.dtype"),
    ("H5DataSet.__init__", "(self, parent, name, dtype, shape, compression): self._parent = parent; self.name = name; if dtype is None or shape is None:\n    self.dataset = self._parent[name]\nelse:\n    maxshape = (None,) * len(shape)\n    if dtype == DataType.String:\n        dtype = util.vlen_str_dtype\n    comprargs = dict()\n    if compression:\n        comprargs = {'compression': 'gzip', 'compression_opts': 6}\n    self.dataset = self._parent.require_dataset(name, shape=shape, dtype=dtype, chunks=True, maxshape=maxshape, **comprargs); self.h5obj = self.dataset"),
    ("H5DataSet.dtype", "(self): dtype = self.dataset.dtype; if dtype == util.vlen_str_dtype:\n    return DataType.String; return dtype"),
    ("H5DataSet._is_empty", "(data): if isinstance(data, np.ndarray):\n    return data.size == 0; try:\n    return np.size(data) == 0\nexcept Exception:\n    return False"),
    ("H5DataSet._selected_count", "(self, slc): probe = np.broadcast_to(np.zeros((), dtype=bool), self.dataset.shape); try:\n    return probe[slice(None) if slc is None else slc].size\nexcept Exception:\n    return None"),
    ("DataArray.create_new", "(cls, nixfile, nixparent, h5parent, name, type_, data_type, shape, compression): newentity = super(DataArray, cls).create_new(nixfile, nixparent, h5parent, name, type_); datacompr = False; if compression == Compression.DeflateNormal:\n    datacompr = True; newentity._h5group.create_dataset('data', shape, data_type, datacompr); return newentity"),
    ("DataArray.dtype", "(self): return self._h5group.group['data'].dtype")] := rfl

/-- `DataSet.__getitem__` → `DataArray._read_data` → `DataSet._read_data` → `H5DataSet.read_data` as written:
`None` reads everything, h5py's ValueError / TypeError become IndexError, a 0-d result (and only that) comes
back with shape (1,); the statements that follow (string decoding, calibration) are pinned as text -/
theorem C01_source_read (A : DArr) (ix : IndexArg) :
    Nix.Gen.DataSet.dsGetItem A ix = readData A ix ∧
    Nix.Gen.DataSet.dsReadDataDefault = IndexArg.none ∧
    Nix.Gen.DataSet.h5ReadDataTail =
      ["if isinstance(data, (bytes, str)):\n    data = np.array(ensure_str(data), dtype=object)\nelif data.dtype == util.vlen_str_dtype:\n    data = np.reshape(np.array(list(map(ensure_str, data.ravel())), dtype=object), data.shape)\nelif data.dtype.fields:\n    data = self._convert_string_cols(data)",
       "return data"] ∧
    Nix.Gen.DataSet.daReadDataCalibration =
      (["coeff = self.polynom_coefficients", "origin = self.expansion_origin"],
       ["if len(coeff) or origin:\n    if not origin:\n        origin = 0.0\n    data = data.astype(DataType.Double)\n    util.apply_polynomial(coeff, origin, data)"]) :=
  ⟨dsGetItem_eq A ix, rfl, rfl, rfl⟩

/-- `len(da)` is `shape[0]`, `da.size` the product of the extents, `da.shape` the extent of the dataset -/
theorem C01_source_len_size (A : DArr) :
    Nix.Gen.DataSet.dsLen A = lenS A ∧ Nix.Gen.DataSet.dsSize A = sizeS A ∧
    Nix.Gen.DataSet.dsShapeOf A = A.arr.shape.map Int.ofNat :=
  ⟨dsLen_eq A, dsSize_eq A, rfl⟩

/-- `Block.create_data_array` as written: the dtype / shape / data rules followed by `create_new` and
`write_direct` are `createS`; the statements around them are pinned as text -/
theorem C01_source_create (dtype : Option DType) (shape : Option (List Nat)) (data : Option Arr) (compr : Bool) :
    (Nix.Gen.DataSet.createRules (dtype.map .nix) (shape.map (·.map Int.ofNat)) data).bind (createFrom compr)
      = createS dtype shape data compr ∧
    Nix.Gen.DataSet.createSequence =
      (["util.check_entity_name_and_type(name, array_type)",
        "data_arrays = self._h5group.open_group('data_arrays')",
        "if name in data_arrays:\n    raise exceptions.DuplicateName('create_data_array')",
        "if compression == Compression.Auto:\n    compression = self._compr"],
       ["da = DataArray.create_new(self.file, self, data_arrays, name, array_type, dtype, shape, compression)",
        "if data is not None:\n    da.write_direct(data)", "da.unit = unit", "da.label = label"]) :=
  ⟨createRules_eq dtype shape data compr, rfl⟩

/-- what the driver of the correspondence runs — typed steps and creation executed through the compiled
definitions — is the model: `stepGen = stepS`, `createGen = createS` -/
theorem C01_source_step (A : DArr) (s : TStep) (dtype : Option DType) (shape : Option (List Nat))
    (data : Option Arr) (compr : Bool) :
    stepGen A s = stepS A s ∧ createGen dtype shape data compr = createS dtype shape data compr :=
  ⟨stepGen_eq A s, createRules_eq dtype shape data compr⟩

/-! ## typed data: conversion, refusals, restore -/

/-- data that already has the array's element type is stored as it is; whatever is stored is a value of the
array's element type (integers saturate, floats are truncated / rounded, see `Pure/NdConv.lean`) -/
theorem C01_conversion (t : DType) (x : Elem) :
    (x.hasType t = true → convElem t x = x) ∧ (convElem t x).hasType t = true :=
  ⟨convElem_exact t x, convElem_typed t x⟩

/-- which kinds are refused: everything but text into a text array (TypeError), text into anything but a text
array and floats into a boolean array (OSError); all other pairs of the 12 element types are converted -/
theorem C01_refused_kinds (src tgt : DType) :
    convRefusal src tgt =
      (if tgt.kind = .text then (if src.kind = .text then none else some (.err .typeError))
       else if src.kind = .text then some .osError
       else if src.kind = .float ∧ tgt.kind = .bool then some .osError
       else none) := by
  cases src <;> cases tgt <;> rfl

/-- a typed step that raised an exception leaves the array as it was — same shape, same element on every
multi-index, same element type and filter flag.  For `append` this is the restore of `/repo` a578a3d: the
data cannot be stored only after the dataset has been enlarged. -/
theorem C01_raised_unchanged (A : DArr) (s : TStep) (e : IoErr) (h : (stepS A s).2 = some e) :
    EqArr (stepS A s).1.arr A.arr ∧ (stepS A s).1.dtype = A.dtype ∧ (stepS A s).1.compressed = A.compressed :=
  stepS_exc A s e h

/-- a typed step that raised nothing did exactly what its erasure (the data converted to the array's element
type) does in the model of `C01_history` -/
theorem C01_performed_step (A : DArr) (s : TStep) (s' : Step) (he : s.erase A.dtype = some s')
    (hn : (stepS A s).2 = none) : step A s' = .ok (stepS A s).1 :=
  stepS_ok A s s' he hn

/-- every history of typed write / assign / append / resize / reopen steps (index arguments without `Ellipsis`)
reads back as the fold of the reference semantics over exactly the steps that raised nothing, their data
converted to the array's element type; element type and filter flag never change; and every stored element is a
value of the element type — without any hypothesis on the data -/
theorem C01_typed_history (A : DArr) (steps : List TStep) (hp : ∀ s ∈ steps, s.plain = true) :
    EqArr (runS A steps).arr (refRun A.dtype.fill A.arr (performed A steps)) ∧
    (runS A steps).dtype = A.dtype ∧ (runS A steps).compressed = A.compressed ∧
    (Typed A → Typed (runS A steps)) :=
  ⟨(runS_refines steps A hp).1, (runS_refines steps A hp).2.1, (runS_refines steps A hp).2.2,
   fun hA => runS_typed steps A hA⟩

/-- `append` with typed data of an accepted kind along an axis that names a dimension (same rank, other extents
equal): no exception, and the array reads back as the concatenation with the converted data — shape included,
pointwise on every multi-index (`C01_append_concat` carried over to the code path with conversion and restore) -/
theorem C01_typed_append_concat (A : DArr) (d : Arr) (axis : Int) (hk : convRefusal d.dt A.dtype = none)
    (h : AppendOk A.arr.shape (contiguous d.a).shape axis) :
    ∃ B, appendS A d axis = (B, none) ∧ B.dtype = A.dtype ∧
      B.arr.shape = (A.arr.concat (contiguous (convArr A.dtype d.a)) axis.toNat).shape ∧
      ∀ idx, inBounds idx B.arr.shape = true →
        B.arr.get idx = (A.arr.concat (contiguous (convArr A.dtype d.a)) axis.toNat).get idx := by
  obtain ⟨B, hB, happ⟩ := appendS_accepts A d axis hk h
  have h' : AppendOk A.arr.shape (contiguous (convArr A.dtype d.a)).shape axis := by
    rw [contiguous_convArr]; exact h
  obtain ⟨B', hB', h1, _, h3, h4⟩ := C01_append_concat A (convArr A.dtype d.a) axis h'
  rw [happ] at hB'
  cases hB'
  exact ⟨B, hB, h1, h3, h4⟩

/-- stored elements are typed after any typed history, `Ellipsis` or not -/
theorem C01_typed_always (A : DArr) (steps : List TStep) (hA : Typed A) : Typed (runS A steps) :=
  runS_typed steps A hA

/-- creation with data of an accepted kind: chosen element type, the data's shape, the converted data on every
multi-index (the data itself where it already has that type) -/
theorem C01_create_typed (dtype : Option DType) (shape : Option (List Nat)) (d0 : Arr) (compr : Bool)
    (hsh : shapeAgrees shape (contiguous d0.a).shape = true) (htxt : ¬ (dtype = none ∧ d0.dt = .string))
    (hk : convRefusal d0.dt (chooseDType dtype d0.dt) = none) :
    ∃ A, createS dtype shape (some d0) compr = .ok A ∧ A.dtype = chooseDType dtype d0.dt ∧
      A.compressed = compr ∧ A.arr.shape = (contiguous d0.a).shape ∧
      (∀ idx, inBounds idx A.arr.shape = true →
        A.arr.get idx = convElem (chooseDType dtype d0.dt) ((contiguous d0.a).get idx)) ∧
      (∀ idx, inBounds idx A.arr.shape = true →
        ((contiguous d0.a).get idx).hasType (chooseDType dtype d0.dt) = true →
        A.arr.get idx = (contiguous d0.a).get idx) := by
  obtain ⟨A, h0, h1, h2, h3, h4⟩ := createS_exact dtype shape d0 compr hsh htxt hk
  exact ⟨A, h0, h1, h2, h3, h4, fun idx hb ht => by rw [h4 idx hb, convElem_exact _ _ ht]⟩

/-! Non-vacuity: an int8 array takes a float source (truncated), refuses text, and keeps its extent. -/
example : convRefusal .float64 .int8 = none ∧ convRefusal .string .int8 = some .osError ∧
    convRefusal .int8 .string = some (.err .typeError) := ⟨rfl, rfl, rfl⟩
example : convElem .int8 (.f64 0x4060200000000000) = .int 127 := by decide
example : convElem .float32 (.int 16777217) = .f32 0x4b800000 := by decide
example : (stepS ⟨.int8, false, ⟨[2], fun _ => .int 1⟩⟩
    (.append ⟨.string, ⟨[1], fun _ => .text "a"⟩⟩ 0)).2 = some .osError := by decide
example : (stepS ⟨.int8, false, ⟨[2], fun _ => .int 1⟩⟩
    (.append ⟨.string, ⟨[1], fun _ => .text "a"⟩⟩ 0)).1.arr.shape = [2] := by decide

/-! ## reads and index arguments -/

/-- what `DataArray[ix]` returns: the hyperslab h5py selects (`None` = everything), with the shape of the
selection — the counts of the axes indexed by slices — except that a selection of rank 0 (every axis indexed by
an integer) comes back with shape (1,); every selection error is an IndexError -/
theorem C01_read_rule (A : DArr) (ix : IndexArg) :
    readData A ix =
      (match selectIndex A.arr.shape (match ix with | .none => fullSlice | s => s) with
       | .ok sel =>
         .ok (if selShape sel = [] then ⟨[1], fun _ => A.arr.get (absIdx sel [])⟩ else A.arr.gather sel)
       | .error _ => .error (.err .indexError)) :=
  readData_rule A ix

/-- every way of reading the whole array is the same read: `np.array(da)` (`__array__`) and `read_direct` as written
in the source, `da[:]`, `da[...]`, `da[()]` and `_read_data()` all return `readData A None` (rank ≥ 1) -/
theorem C01_read_paths_agree (A : DArr) (hr : A.arr.shape ≠ []) :
    Nix.Gen.DataSet.dsArray A = readData A .none ∧ Nix.Gen.DataSet.dsReadDirect A = readData A .none ∧
    Nix.Gen.DataSet.dsGetItem A fullSlice = readData A .none ∧
    Nix.Gen.DataSet.dsGetItem A (.one .ellipsis) = readData A .none ∧
    Nix.Gen.DataSet.dsGetItem A (.tuple []) = readData A .none := by
  have h := readData_whole A hr
  refine ⟨dsArray_eq A, dsReadDirect_eq A, ?_, ?_, ?_⟩
  · rw [dsGetItem_eq]; exact h.1
  · rw [dsGetItem_eq]; exact h.2.1
  · rw [dsGetItem_eq]; exact h.2.2

/-- index arguments without `Ellipsis` select what `select` (the selection of `C01_assign_exact`) selects; one
`Ellipsis` stands for the missing full slices; a second one is an error -/
theorem C01_ellipsis (sh : List Nat) (pre post : List Ix) :
    selectIndex sh (.tuple ((pre ++ post).map .ix)) = select sh (pre ++ post) ∧
    (pre.length + post.length ≤ sh.length →
      selectIndex sh (.tuple (pre.map .ix ++ .ellipsis :: post.map .ix)) =
        select sh (pre ++ List.replicate (sh.length - pre.length - post.length) (Ix.slice none none none) ++ post)) ∧
    (∀ rest, ∃ e, selectIndex sh
      (.tuple (pre.map .ix ++ .ellipsis :: (post.map .ix ++ .ellipsis :: rest))) = .error e) :=
  ⟨selectIndex_plain sh _ _ (plainItems_map _), selectIndex_ellipsis sh pre post,
   fun rest => selectIndex_two_ellipses sh _ _ rest ⟨pre, plainItems_map pre⟩ ⟨post, plainItems_map post⟩⟩

example : selectIndex [2, 3, 4] (.tuple [.ix (.int 1), .ellipsis]) = .ok [⟨1, 1, 1, true⟩, ⟨0, 1, 3, false⟩,
    ⟨0, 1, 4, false⟩] := rfl
example : selectIndex [2, 3] (.one .ellipsis) = select [2, 3] [] := rfl

/-- shrink, then grow (`data_extent`): an element survives iff its multi-index is inside the array before,
between and after; everything else reads as the fill value of the element type -/
theorem C01_shrink_grow_fill (A B C : DArr) (e1 e2 : List Int)
    (h1 : setExtent A e1 = .ok B) (h2 : setExtent B e2 = .ok C) :
    C.dtype = A.dtype ∧ C.arr.shape = e2.map Int.toNat ∧
      ∀ idx, C.arr.get idx =
        if inBounds idx B.arr.shape = true ∧ inBounds idx A.arr.shape = true then A.arr.get idx
        else A.dtype.fill :=
  shrink_grow A B C e1 e2 h1 h2

example : ∃ B C, setExtent ⟨.int8, false, ⟨[3], fun _ => .int 7⟩⟩ [1] = .ok B ∧ setExtent B [3] = .ok C ∧
    C.arr.get [0] = .int 7 ∧ C.arr.get [2] = .int 0 := ⟨_, _, rfl, rfl, rfl, rfl⟩

/-! ## The spelling of the element type

`create_data_array(dtype=…)` takes whatever NumPy takes as a dtype.  `Generated/DataSetDType.lean` holds what the
source does with it (regenerated on every run): the `DataType` members, the calls that carry the argument to h5py,
the one rule of `H5DataSet.__init__` that looks at it. -/

open Nix.NdSpell Nix.Gen.DataSetDType in
/-- `nixio.DataType`: the twelve members are the NumPy scalar types of the twelve element types — `Float` the
32-bit, `Double` the 64-bit float — and the class defines nothing else that maps types (two type groups, two
helpers) -/
theorem C01_datatype_members :
    dataTypeMembers.map (fun p => (p.1, npScalarType p.2)) =
      [("UInt8", some .uint8), ("UInt16", some .uint16), ("UInt32", some .uint32), ("UInt64", some .uint64),
       ("Int8", some .int8), ("Int16", some .int16), ("Int32", some .int32), ("Int64", some .int64),
       ("Float", some .float32), ("Double", some .float64), ("String", some .string), ("Bool", some .bool)] ∧
    dataTypeOther = ["IntTypes = (Int8, Int16, Int32, Int64, UInt8, UInt16, UInt32, UInt64)",
      "FloatTypes = (Float, Double)", "def get_dtype(cls, value)", "def is_numeric_dtype(cls, dtype)"] := by
  decide

open Nix.NdSpell Nix.Gen.DataSetDType in
/-- the `dtype` argument reaches h5py as it was given: each of the four calls between `create_data_array` and
`require_dataset` passes its own variable, none rebinds it on the way (the `dtype is None` defaults of
`create_data_array` are `createRules`, the text rule of `H5DataSet.__init__` is `h5InitDtype`), and the dataset is
created with exactly these keyword arguments -/
theorem C01_dtype_handed_through :
    dtypeHops.map (fun h => h.1) =
      ["Block.create_data_array -> DataArray.create_new", "DataArray.create_new -> H5Group.create_dataset",
       "H5Group.create_dataset -> H5DataSet", "H5DataSet.__init__ -> require_dataset"] ∧
    (∀ h ∈ dtypeHops, h.2.2.1 = h.2.1 ∧ h.2.2.2 = []) ∧
    (∀ d, h5InitDtype d = if DtypeVal.pyEq dataTypeMembers d "String" then .vlenStr else d) ∧
    h5InitCreateArgs = ["shape=shape", "dtype=dtype", "chunks=True", "maxshape=maxshape", "**=comprargs"] := by
  refine ⟨by decide, by decide, fun d => rfl, by decide⟩

open Nix.NdSpell Nix.Gen.DataSetDType in
/-- **every spelling means what NumPy means by it.**  A dtype argument that NumPy reads as one of the eleven
numeric / boolean element types `t` — Python's `bool` / `int` / `float`, a NumPy scalar type, a `DataType` member, a
`np.dtype` object of either byte order, a type string — creates exactly what `dtype=t` creates: all theorems
about `createS` (element type, shape, content) hold for it.  For text: a spelling equal to `DataType.String` (the
member, `np.str_`, a dtype object of kind U) creates what `dtype=DataType.String` creates; any other spelling of
text (`str`, `'U'`) reaches h5py as fixed-width unicode and nothing is created -/
theorem C01_spelling_exact (s : Spelling) (t : DType) (sw : Bool) (shape : Option (List Nat)) (data : Option Arr)
    (compr : Bool) (hm : meaning dataTypeMembers s = some ⟨t, sw⟩) :
    (t ≠ .string → createSpelled s shape data compr = some (createS (some t) shape data compr)) ∧
    (t = .string → pyEqMember dataTypeMembers s "String" = true →
      createSpelled s shape data compr = some (createS (some .string) shape data compr)) ∧
    (t = .string → pyEqMember dataTypeMembers s "String" = false →
      ∃ r, createSpelled s shape data compr = some r ∧ ∀ A, r ≠ .ok A) := by
  have harg := spelledArg_eq s
  rw [hm] at harg
  refine ⟨fun ht => ?_, fun ht hp => ?_, fun ht hp => ?_⟩
  · have : spelledArg s = some (.nix t) := by
      rw [harg]; cases t <;> first | rfl | exact absurd rfl ht
    simp only [createSpelled, this, Option.map_some]
    exact congrArg some (createRules_eq (some t) shape data compr)
  · subst ht
    have : spelledArg s = some (.nix .string) := by rw [harg]; simp [hp]
    simp only [createSpelled, this, Option.map_some]
    exact congrArg some (createRules_eq (some .string) shape data compr)
  · subst ht
    have : spelledArg s = some .numpyText := by rw [harg]; simp [hp]
    simp only [createSpelled, this, Option.map_some]
    exact ⟨_, rfl, fun A => create_numpyText_refused _ data compr A⟩

open Nix.NdSpell Nix.Gen.DataSetDType in
/-- an array that is created has the element type NumPy means by the spelling of its `dtype` argument — never
another width, kind or signedness -/
theorem C01_spelling_created_type (s : Spelling) (shape : Option (List Nat)) (data : Option Arr) (compr : Bool)
    (A : DArr) (h : createSpelled s shape data compr = some (.ok A)) :
    ∃ sw, meaning dataTypeMembers s = some ⟨A.dtype, sw⟩ := by
  have harg := spelledArg_eq s
  cases hm : meaning dataTypeMembers s with
  | none =>
    rw [hm] at harg
    simp [createSpelled, harg] at h
  | some m =>
    obtain ⟨t, sw⟩ := m
    obtain ⟨h1, h2, h3⟩ := C01_spelling_exact s t sw shape data compr hm
    by_cases ht : t = .string
    · cases hp : pyEqMember dataTypeMembers s "String" with
      | true =>
        rw [h2 ht hp] at h
        have := createS_dtype (Option.some.inj h)
        exact ⟨sw, by rw [this, ht]; rfl⟩
      | false =>
        obtain ⟨r, hr, hno⟩ := h3 ht hp
        rw [hr] at h
        exact absurd (Option.some.inj h) (hno A)
    · rw [h1 ht] at h
      have := createS_dtype (Option.some.inj h)
      exact ⟨sw, by rw [this]; rfl⟩

open Nix.NdSpell Nix.Gen.DataSetDType in
example : meaning dataTypeMembers (.py .float) = some ⟨.float64, false⟩ ∧
    meaning dataTypeMembers (.nix "Float") = some ⟨.float32, false⟩ ∧
    meaning dataTypeMembers (.typeStr (some '>') "i4") = some ⟨.int32, true⟩ ∧
    meaning dataTypeMembers (.typeStr none "complex") = none := by decide
open Nix.NdSpell Nix.Gen.DataSetDType in
example : ∃ A, createSpelled (.py .float) (some [2]) none false = some (.ok A) ∧ A.dtype = .float64 := ⟨_, rfl, rfl⟩
open Nix.NdSpell Nix.Gen.DataSetDType in
example : spelledArg (.py .str) = some .numpyText ∧ spelledArg (.dtypeObj none "U") = some (.nix .string) := by decide

open Nix.NdSpell Nix.Gen.DataSetDType in
/-- **what an array reports as its element type is its element type.**  `da.data_type` (the compiled getters
`H5DataSet.dtype` → `DataSet._get_dtype` → `data_type`: nixio's text type for a text array, else h5py's NumPy
dtype) and `da.dtype` (`DataArray.dtype`: h5py's dtype, the variable-length string dtype for text) name the
element type `A.dtype`: NumPy reads the reported value as that type, and handing it to `create_data_array` as the
dtype argument creates exactly what `dtype=A.dtype` creates — in particular an array of the same element type -/
theorem C01_reported_type (A : DArr) (shape : Option (List Nat)) (data : Option Arr) (compr : Bool) :
    createWith (dsDataType (storedDtype A.dtype)) shape data compr
      = some (createS (some A.dtype) shape data compr) ∧
    createWith (daDtype (storedDtype A.dtype)) shape data compr
      = some (createS (some A.dtype) shape data compr) ∧
    (∀ B, createWith (dsDataType (storedDtype A.dtype)) shape data compr = some (.ok B) → B.dtype = A.dtype) ∧
    (∀ B, createWith (daDtype (storedDtype A.dtype)) shape data compr = some (.ok B) → B.dtype = A.dtype) ∧
    (A.dtype = .string → dsDataType (storedDtype A.dtype) = .spelled (.nix "String")) ∧
    (A.dtype ≠ .string → ∃ s, dsDataType (storedDtype A.dtype) = .spelled s ∧
      daDtype (storedDtype A.dtype) = .spelled s ∧ meaning dataTypeMembers s = some ⟨A.dtype, false⟩) := by
  obtain ⟨h1, h2⟩ := createWith_reported A.dtype shape data compr
  refine ⟨h1, h2, fun B hB => ?_, fun B hB => ?_, fun hs => by rw [hs]; rfl, fun hs => ?_⟩
  · rw [h1] at hB; exact createS_dtype (Option.some.inj hB)
  · rw [h2] at hB; exact createS_dtype (Option.some.inj hB)
  · refine ⟨.dtypeObj none (typeCode A.dtype), ?_, ?_, ?_⟩
    · cases hd : A.dtype <;> first | rfl | exact absurd hd hs
    · cases hd : A.dtype <;> first | rfl | exact absurd hd hs
    · cases hd : A.dtype <;> first | decide | exact absurd hd hs

open Nix.NdSpell Nix.Gen.DataSetDType in
/-- creation by spelling is creation with that value of the dtype argument -/
example (s : Spelling) (sh : Option (List Nat)) (d : Option Arr) (c : Bool) :
    createSpelled s sh d c = createWith (.spelled s) sh d c := rfl

/-! ## Sources that are not arrays: lists, tuples, ranges, Python scalars

A whole-array write and a region assignment hand such a source to h5py, which reads it with the array's own
element type (`numpy.asarray(seq, dtype=…)`, `Pure/NdSeq.lean`): NumPy's cast of Python objects, not libhdf5's
conversion. -/

/-- the steps the driver runs for sequence sources — through the compiled `h5WriteData` — are the model's -/
theorem C01_seq_source (A : DArr) (s : TStep) : stepSeqGen A s = stepSeq A s := stepSeqGen_eq A s

/-- NumPy's cast: whatever it yields is a value of the array's element type; a Python object that is a value of
the element type is stored as it is (integers in range, doubles, booleans, text) -/
theorem C01_seq_cast (t : DType) (x : Elem) :
    (∀ e, t ≠ .string → castElem t x = .ok e → e.hasType t = true) ∧
    (x.hasType t = true → t ≠ .float32 → castElem t x = .ok x) :=
  ⟨fun e ht h => castElem_typed t x e ht h, fun h hf => castElem_exact t x h hf⟩

/-- where the cast differs from the conversion of array data (`C01_conversion`): a Python integer outside the
range of an integer element type is refused (`OverflowError`) where libhdf5 saturates; inside the range both
store the integer.  A float NaN is refused (`ValueError`), ±inf too (`OverflowError`) -/
theorem C01_seq_cast_vs_conversion (t : DType) (lo hi v : Int) (hr : t.intRange = some (lo, hi)) :
    (lo ≤ v ∧ v ≤ hi → castElem t (.int v) = .ok (.int v) ∧ convElem t (.int v) = .int v) ∧
    (¬ (lo ≤ v ∧ v ≤ hi) → castElem t (.int v) = .error (.err .overflowError) ∧
      convElem t (.int v) = .int (clampInt lo hi v)) ∧
    castElem t (.f64 0x7ff8000000000000) = .error (.err .valueError) ∧
    castElem t (.f64 0x7ff0000000000000) = .error (.err .overflowError) := by
  have hc : lo ≤ v ∧ v ≤ hi → clampInt lo hi v = v := by
    intro h; unfold clampInt
    rw [if_neg (by omega), if_neg (by omega)]
  have e1 : castElem t (.int v) = castInt lo hi v := by
    cases t <;> simp only [DType.intRange, Option.some.injEq, Prod.mk.injEq, reduceCtorEq] at hr <;>
      (obtain ⟨rfl, rfl⟩ := hr; rfl)
  have e2 : convElem t (.int v) = .int (clampInt lo hi v) := by
    cases t <;> simp only [DType.intRange, Option.some.injEq, Prod.mk.injEq, reduceCtorEq] at hr <;>
      (obtain ⟨rfl, rfl⟩ := hr; rfl)
  have e3 : ∀ b, castElem t (.f64 b) = (pyIntOfFloat b).bind (castInt lo hi) := by
    intro b
    cases t <;> simp only [DType.intRange, Option.some.injEq, Prod.mk.injEq, reduceCtorEq] at hr <;>
      (obtain ⟨rfl, rfl⟩ := hr; rfl)
  refine ⟨fun h => ⟨by rw [e1]; unfold castInt; rw [if_pos h], by rw [e2, hc h]⟩,
    fun h => ⟨by rw [e1]; unfold castInt; rw [if_neg h], e2⟩, ?_, ?_⟩
  · rw [e3]; rfl
  · rw [e3]; rfl

/-- a sequence step that raised (`OverflowError`, `ValueError`, the refusals of array steps) leaves the array as
it was — shape, every element, element type, filter flag -/
theorem C01_seq_raised_unchanged (A B : DArr) (s : TStep) (e : IoErr) (h : stepSeq A s = some (B, some e)) :
    EqArr B.arr A.arr ∧ B.dtype = A.dtype ∧ B.compressed = A.compressed :=
  stepSeq_exc A B s e h

/-- a sequence assignment that raised nothing is the assignment of an array of the array's own element type that
holds the cast of every element of the sequence: `C01_performed_step`, `C01_typed_history` and `C01_assign_exact`
apply to it with that array as data.  A sequence of values of the element type is that very array -/
theorem C01_seq_performed (A B : DArr) (ix : IndexArg) (d : Arr) (hs : A.dtype ≠ .string)
    (h : stepSeq A (.assign ix d) = some (B, none)) :
    ∃ d', stepS A (.assign ix d') = (B, none) ∧ d'.dt = A.dtype ∧ d'.a.shape = d.a.shape ∧
      (∀ idx ∈ indices d.a.shape, castElem A.dtype (d.a.get idx) = .ok (d'.a.get idx)) ∧
      (d.dt = A.dtype → A.dtype ≠ .float32 →
        (∀ idx ∈ indices d.a.shape, (d.a.get idx).hasType A.dtype = true) →
        ∀ idx ∈ indices d.a.shape, d'.a.get idx = d.a.get idx) := by
  obtain ⟨d', hc, hst⟩ := stepSeq_performed A B ix d h
  obtain ⟨h1, h2, h3⟩ := castSeq_ok hs hc
  refine ⟨d', hst, h1, h2, h3, fun hdt hf hty idx hidx => ?_⟩
  have := h3 idx hidx
  rw [castElem_exact _ _ (hty idx hidx) hf] at this
  exact (Except.ok.inj this).symm

/-- **every history with sequence sources** (any mix of array and sequence steps on which the model is defined) is
the history with array sources only that `toArrays` computes — a sequence becomes the assignment of its cast
values, or nothing when the cast or the empty-source guard raised; same length.  So it reads back as the fold of
the reference semantics over the performed steps (`C01_typed_history`), element type and filter flag never
change, and every stored element is a value of the element type -/
theorem C01_seq_history (A : DArr) (l : List (TStep × Bool)) :
    runMixed A l = (toArrays A l).map (runS A) ∧
    ∀ l', toArrays A l = some l' →
      l'.length = l.length ∧ runMixed A l = some (runS A l') ∧
      (runS A l').dtype = A.dtype ∧ (runS A l').compressed = A.compressed ∧
      (Typed A → Typed (runS A l')) ∧
      ((∀ s ∈ l', s.plain = true) →
        EqArr (runS A l').arr (refRun A.dtype.fill A.arr (performed A l'))) := by
  refine ⟨runMixed_eq l A, fun l' hl' => ⟨toArrays_length l A l' hl', by rw [runMixed_eq, hl']; rfl, ?_, ?_,
    fun hA => runS_typed l' A hA, fun hp => (runS_refines l' A hp).1⟩⟩
  · exact (runS_meta l' A).1
  · exact (runS_meta l' A).2

example : stepSeq ⟨.int8, false, ⟨[2], fun _ => .int 0⟩⟩ (.write ⟨.int64, ⟨[2], fun _ => .int 300⟩⟩)
    = some (⟨.int8, false, ⟨[2], fun _ => .int 0⟩⟩, some (.err .overflowError)) := rfl
example : (toArrays ⟨.int8, false, ⟨[2], fun _ => .int 0⟩⟩
    [(.write ⟨.int64, ⟨[2], fun _ => .int 5⟩⟩, true), (.write ⟨.int64, ⟨[2], fun _ => .int 300⟩⟩, true),
     (.reopen, false)]).map List.length = some 3 := rfl
example : (runMixed ⟨.int8, false, ⟨[2], fun _ => .int 0⟩⟩
    [(.write ⟨.int64, ⟨[2], fun _ => .int 5⟩⟩, true), (.write ⟨.int64, ⟨[2], fun _ => .int 300⟩⟩, true)]).map
      (fun B => B.arr.get [1]) = some (.int 5) := rfl
example : castElem .int8 (.f64 0xbff8000000000000) = .ok (.int (-1)) := rfl
example : castElem .bool (.f64 0x7ff8000000000000) = .ok (.bool true) := rfl
example : castElem .float32 (.int 16777217) = .ok (.f32 0x4b800000) := rfl
/-- just above the largest finite single: NumPy's cast rounds down to it, libhdf5's conversion says infinity -/
example : castElem .float32 (.f64 0x47efffffefffffff) = .ok (.f32 0x7f7fffff) ∧
    convElem .float32 (.f64 0x47efffffefffffff) = .f32 0x7f800000 := ⟨rfl, rfl⟩

end Nix.C01
