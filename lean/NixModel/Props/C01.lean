import NixModel.Pure.NdArray
import NixModel.Lemmas.C01Steps

/-!
# C01 — array data is stored and returned exactly (type, shape, values)

Property theorems only; helper lemmas live in `NixModel/Lemmas/C01*.lean`.  All statements are about the model
`NixModel/Pure/NdArray.lean` (nixio's logic over an executable stand-in for h5py/libhdf5 storage), with the
compression enum and resolution statements regenerated from the source (`Generated/Compression.lean`).
-/
namespace Nix.C01
open Nix Nix.Nd Nix.Nd.Lemmas Nix.Gen.Compr

/-- `append` along an axis that names a dimension, with equal rank and equal other extents, reads back as the
concatenation — shape included, pointwise on every multi-index, for every rank, axis and extent (0 included);
element type and filter are untouched.  (`contiguous` is `np.ascontiguousarray`: 0-d data counts as length 1.) -/
theorem C01_append_concat (A : DArr) (D : NdArray Elem) (axis : Int)
    (h : AppendOk A.arr.shape (contiguous D).shape axis) :
    ∃ B, append A D axis = .ok B ∧ B.dtype = A.dtype ∧ B.compressed = A.compressed ∧
      B.arr.shape = (A.arr.concat (contiguous D) axis.toNat).shape ∧
      ∀ idx, inBounds idx B.arr.shape = true →
        B.arr.get idx = (A.arr.concat (contiguous D) axis.toNat).get idx := by
  obtain ⟨hl, h0, hlt, hrest⟩ := h
  obtain ⟨k, rfl⟩ : ∃ k : Nat, axis = (k : Int) := ⟨axis.toNat, by omega⟩
  have hk : k < A.arr.shape.length := by omega
  have hm := (shapeMismatch_false_iff (k : Int) _ _ hl).mpr hrest
  refine ⟨_, append_ok A D k hl hk hm, rfl, rfl, ?_, ?_⟩
  · simp [NdArray.setRegion, NdArray.resize, NdArray.concat, appendEnlarge_eq_set k _ _ hl hk]
  · intro idx hb
    simp only [NdArray.setRegion, NdArray.resize] at hb
    obtain ⟨h1, h2, h3⟩ := relIdx_append k _ _ idx hl hk hm hb
    simp only [NdArray.setRegion, NdArray.resize, NdArray.concat, Int.toNat_natCast, h1]
    by_cases hc : idx.getD k 0 < A.arr.shape.getD k 0
    · simp only [hc, if_true, h2 hc]
    · have hcnt : (mkSel (appendOffset (k : Int) A.arr.shape) (contiguous D).shape).map (·.count)
          = (contiguous D).shape := mkSel_counts _ _ (by rw [length_appendOffset, hl])
      simp only [hc, if_false]
      rw [bcastIdx_exact _ _ _ hcnt (mkSel_nonscalar _ _) (h3 hc)]

/-- in every other case `append` is refused with ValueError (the caller's array is untouched: the result
carries no array) — including an axis outside `0..rank-1` with equal shapes (defect D15, repaired in /repo) -/
theorem C01_append_refused (A : DArr) (D : NdArray Elem) (axis : Int)
    (h : ¬ AppendOk A.arr.shape (contiguous D).shape axis) : append A D axis = .error .valueError :=
  append_refused A D axis h

/-! Non-vacuity: a rank-2 array, appending along axis 1; and the D15 input is refused. -/
example : AppendOk [2, 3] [2, 0] 1 := by
  refine ⟨rfl, by decide, by decide, ?_⟩
  intro j hj
  match j with
  | 0 => rfl
  | 1 => exact absurd rfl hj
  | _ + 2 => rfl
example : ¬ AppendOk [2] [2] (-1) := fun h => absurd h.2.1 (by decide)
example : ¬ AppendOk [2] [2] 1 := fun h => absurd h.2.2.1 (by decide)

/-! ## compression -/

/-- reference reading of the three-level default: the array's own setting unless it is Auto, else the setting of
the block handle (the handle `create_block` returned carries the block's setting, itself defaulting to the
file's, itself defaulting to No; a handle re-fetched from `file.blocks` carries none), gzip iff DeflateNormal -/
def effective (file block array : Compression) (refetched : Bool) : Compression :=
  if array ≠ .auto then array
  else if refetched then .auto
  else if block ≠ .auto then block
  else if file ≠ .auto then file
  else .no

/-- complete resolution table (3 × 3 × 3 × created/re-fetched handle), over the regenerated enum and constants -/
theorem C01_compression_table (file block array : Compression) (refetched : Bool) :
    resolveCompression file block array refetched
      = decide (effective file block array refetched = .deflateNormal) := by
  cases file <;> cases block <;> cases array <;> cases refetched <;> decide

end Nix.C01
