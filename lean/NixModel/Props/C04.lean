import NixModel.Lemmas.C04Hist
import NixModel.Lemmas.C04Shape
import NixModel.Lemmas.C04Find
import NixModel.Lemmas.StoreWF
import NixModel.Lemmas.C04Ext
import NixModel.Lemmas.C04Obj
import NixModel.Store.C04Copy
import NixModel.Lemmas.C04Forest

/-!
# C04 — deleting an entity removes it, what it owns and every link to it — nothing else

Statements over the structural model (`Store/Graph`, `Store/Api`, `Store/Step`): the file is a graph
of HDF5 objects with ordered, named hard links; *every* reference nixio keeps to an entity —
membership in its owning container, an entry of a group / tag / multi-tag / source link list, a
role link (`metadata`, `positions`, `extents`, feature `data`, section `link`) — is one such link,
and every accessor (`len`, iteration, `c[i]`, `c[name]`, `c[id]`, the role getters) reads links.

All theorems hold for **every** graph `g` (so in particular for every graph reachable by an
operation history, `history_delete` spells that out), every container and every key form.

Deletion is by *object* since the repair `fix: deleting an entity also deleted every same-id copy
file-wide`: `delete_all` unlinks the HDF5 objects handed to it (`Graph.deleteObjs`, node keys), not
every object that carries one of their `entity_id`s. The frame — only links to the deleted entity
(for sections / sources: to its subtree) disappear — therefore holds on **every** graph, whatever ids
its objects carry (`frame_full`, `delete_frame`, `delete_exact`); `frame_counterexample_before_fix`
records that it was false of the deletion by id (`Graph.deleteAll`, no longer used by the model).

What is partial:
* `subtree_complete` assumes that the section / source hierarchy below the deleted entity is a
  finite forest (`ForestSize`) of at most `|nodes|² + 1` entities — the collection is fuel-based;
  `subtree_finite_of_growing` discharges the *finite forest* half from the decidable condition that
  child keys exceed their parent's (`GrowingKids`: objects are keyed in creation order), the bound on
  the count (no entity with two parents) stays a hypothesis;
* that HDF5 frees what became unreachable is not observable through the API and not modelled.
-/
namespace Nix.C04
open Nix.Store Nix.Store.Graph Nix.Store.C04

/-! ## `delete_all(objs)` on the graph -/

/-- **gone**: after `delete_all(objs)` no link of any group targets one of the objects -/
theorem deleteObjs_gone (g : Graph) (ks : List Nat) (p : Nat) (l : String × Nat)
    (hl : l ∈ (g.deleteObjs ks).links p) : l.2 ∉ ks := by
  have hd := ((mem_deleteObjs_links g ks p l).mp hl).2
  unfold doomed at hd
  simpa using hd

/-- **frame**: every group keeps exactly its links to the other objects, in their old order; every
node keeps its attributes and kind; the set of nodes and both counters are unchanged -/
theorem deleteObjs_frame (g : Graph) (ks : List Nat) :
    (∀ p, (g.deleteObjs ks).links p = (g.links p).filter (fun l => !doomed ks l.2)) ∧
    (∀ k a, (g.deleteObjs ks).getAttr k a = g.getAttr k a) ∧
    (∀ k, ((g.deleteObjs ks).node? k).map (·.attrs) = (g.node? k).map (·.attrs)) ∧
    (∀ k, ((g.deleteObjs ks).node? k).map (·.kind) = (g.node? k).map (·.kind)) ∧
    (g.deleteObjs ks).nodes.map (·.1) = g.nodes.map (·.1) ∧
    (g.deleteObjs ks).nextKey = g.nextKey ∧ (g.deleteObjs ks).nextId = g.nextId :=
  ⟨fun p => deleteObjs_links g ks p, deleteObjs_getAttr g ks, deleteObjs_attrs g ks,
   deleteObjs_kind g ks, deleteObjs_keys g ks, rfl, rfl⟩

/-- frame, order: what is left of a link list is a sublist (same relative order) -/
theorem deleteObjs_order (g : Graph) (ks : List Nat) (p : Nat) :
    ((g.deleteObjs ks).links p).Sublist (g.links p) := by
  rw [deleteObjs_links]; exact List.filter_sublist

/-- frame, a group none of whose links targets one of the objects is untouched -/
theorem deleteObjs_untouched (g : Graph) (ks : List Nat) (p : Nat)
    (h : ∀ l ∈ g.links p, doomed ks l.2 = false) : (g.deleteObjs ks).links p = g.links p := by
  rw [deleteObjs_links]
  apply List.filter_eq_self.mpr
  intro l hl
  unfold keepLink
  rw [h l hl]; rfl

/-! ## `del container[key]` on an owning container (blocks, groups, arrays, frames, tags,
multi-tags, features, properties; sections and sources with their subtrees) -/

/-- the call is `delete_all` of the entity — for sections / sources of the collected subtree — and is
refused (TypeError) for an object of the wrong class -/
theorem delete_is_deleteObjs (g : Graph) (c : Cont) (key : Key) (k : Nat)
    (hown : isOwning c.info.flavour = true) (ht : delTarget g c key = .ok k)
    (hk : kindOf g k = c.info.item) :
    contDel g c key = .ok (g.deleteObjs (delKeys g c k)) := by
  rw [contDel_eq, ht]
  simp [hk, hown]

/-- a key that addresses nothing (KeyError / IndexError) leaves the file as it is -/
theorem delete_refused (g : Graph) (c : Cont) (key : Key) (e : Err)
    (ht : delTarget g c key = .error e) : contDel g c key = .error e := by
  rw [contDel_eq, ht]

/-- the addressed entity is always among the objects handed to `delete_all` -/
theorem delete_keys_self (g : Graph) (c : Cont) (k : Nat) : k ∈ delKeys g c k :=
  delKeys_self g c k

/-- for sections / sources the whole subtree is handed over (forest assumption, see
`subtreeKeys_complete`) -/
theorem subtree_complete (g : Graph) (c : Cont) (k n : Nat) (sub : String)
    (hf : (c.info.flavour = .sections ∧ sub = "sections") ∨ (c.info.flavour = .sources ∧ sub = "sources"))
    (hs : ForestSize g sub [k] n) (hn : n ≤ g.nodes.length * g.nodes.length + 1)
    (d : Nat) (hd : Desc g sub k d) : d ∈ delKeys g c k := by
  unfold delKeys
  rcases hf with ⟨hfl, hsub⟩ | ⟨hfl, hsub⟩ <;> subst hsub <;> simp only [hfl]
  · exact subtreeKeys_complete g _ k n hs hn d hd
  · exact List.mem_append.mpr (Or.inl (subtreeKeys_complete g _ k n hs hn d hd))

/-- the same under the *decidable* hypothesis that the collection ended with an empty queue (the
model driver evaluates it for every section / source deletion of the correspondence runs:
op `fuel_ok`) -/
theorem subtree_complete_of_done (g : Graph) (c : Cont) (k : Nat) (sub : String)
    (hf : (c.info.flavour = .sections ∧ sub = "sections") ∨ (c.info.flavour = .sources ∧ sub = "sources"))
    (hdone : bfsRest g sub (g.nodes.length * g.nodes.length + 1) [k] = [])
    (d : Nat) (hd : Desc g sub k d) : d ∈ delKeys g c k := by
  have h : d ∈ subtreeKeys g sub k := bfsKeys_complete g sub _ [k] [] hdone k (by simp) d hd
  unfold delKeys
  rcases hf with ⟨hfl, hsub⟩ | ⟨hfl, hsub⟩ <;> subst hsub <;> simp only [hfl]
  · exact h
  · exact List.mem_append.mpr (Or.inl h)

/-- **the hierarchy is a finite forest whenever child keys grow** (`GrowingKids`, decidable, over the entities `P` of the hierarchy — link lists
that are also called `sources` do not count; nodes are
keyed in creation order and a section / source is created inside its parent): the collection loop of
`find_sections` / `find_sources`, which keeps no visited set, ends, and run to its end it hands every
entity at or below the deleted one to `delete_all`. Partial with respect to `subtree_complete`: the
fuel that suffices is shown to exist, not to be below `|nodes|² + 1`. -/
theorem subtree_finite_of_growing (g : Graph) (sub : String) (B : Nat) (P : Nat → Bool)
    (h : GrowingKids g sub B P) (k : Nat) (hk : k < B) (hp : P k = true) :
    (∃ n, ForestSize g sub [k] n) ∧
    ∃ fuel, bfsRest g sub fuel [k] = [] ∧ ∀ d, Desc g sub k d → d ∈ bfsKeys g sub fuel [k] [] :=
  ⟨forest_of_growing g sub B P h [k] (by simpa using ⟨hk, hp⟩), bfs_ends_of_growing g sub B P h k hk hp⟩

/-- … and nothing but the subtree is handed over (no assumption) -/
theorem subtree_sound (g : Graph) (c : Cont) (k d : Nat) (h : d ∈ delKeys g c k) : InSub g c k d :=
  delKeys_sound g c k d h

theorem contDel_owning_eq {g g' : Graph} {c : Cont} {key : Key} {k : Nat}
    (hown : isOwning c.info.flavour = true) (ht : delTarget g c key = .ok k)
    (hdel : contDel g c key = .ok g') : g' = g.deleteObjs (delKeys g c k) := by
  rw [contDel_eq, ht] at hdel
  simp only [hown, ↓reduceIte] at hdel
  split at hdel
  · cases hdel
  · simpa using hdel.symm

/-- **gone, through every access path**: after a successful `del c[key]` of entity `k`, for every
object `d` that was handed over (the entity itself; its subtree for sections / sources): no
container — of any owner, any flavour — yields it by position, name or id, no iteration contains
it, no role link (`metadata`, `positions`, `extents`, `data`, `link`) of any object points to it,
no group of the file links it -/
theorem delete_gone (g g' : Graph) (c : Cont) (key : Key) (k : Nat)
    (hown : isOwning c.info.flavour = true) (ht : delTarget g c key = .ok k)
    (hdel : contDel g c key = .ok g') (d : Nat) (hin : d ∈ delKeys g c k) :
    (∀ (c' : Cont) (key' : Key) (l : String × Nat), contGet g' c' key' = .ok l → l.2 ≠ d) ∧
    (∀ (c' : Cont) (l : String × Nat), l ∈ contEntries g' c' → l.2 ≠ d) ∧
    (∀ (o : Nat) (role : String), g'.child? o role ≠ some d) ∧
    (∀ (p : Nat) (l : String × Nat), l ∈ g'.links p → l.2 ≠ d) := by
  have hg' : g' = g.deleteObjs (delKeys g c k) := contDel_owning_eq hown ht hdel
  have hdoom : doomed (delKeys g c k) d = true := by
    unfold doomed; simpa using hin
  have hlinks : ∀ (p : Nat) (l : String × Nat), l ∈ g'.links p → l.2 ≠ d := by
    intro p l hl e
    rw [hg'] at hl
    have := ((mem_deleteObjs_links g _ p l).mp hl).2
    rw [e, hdoom] at this
    cases this
  have hentries : ∀ (c' : Cont) (l : String × Nat), l ∈ contEntries g' c' → l.2 ≠ d := by
    intro c' l hl
    unfold contEntries cLinks at hl
    cases hn : c'.node with
    | none => simp [hn] at hl
    | some cn => rw [hn] at hl; exact hlinks cn l hl
  refine ⟨fun c' key' l h => hentries c' l (contGet_mem g' c' key' l h), hentries, ?_, hlinks⟩
  intro o role h
  rw [hg'] at h
  have := deleteObjs_child? g _ o role d h
  rw [hdoom] at this
  cases this

/-- the deleted entity is no longer reachable from the root — neither is anything whose every
path from the root ran through a deleted entity (**what it owns goes with it**) -/
theorem delete_owned_unreachable (g g' : Graph) (c : Cont) (key : Key) (k : Nat)
    (hown : isOwning c.info.flavour = true) (ht : delTarget g c key = .ok k)
    (hdel : contDel g c key = .ok g') (x : Nat)
    (hx : ∀ ks, PathFrom g 0 ks x → ∃ m ∈ ks, doomed (delKeys g c k) m = true) :
    ¬ Reach g' x := by
  rw [contDel_owning_eq hown ht hdel]
  exact owned_unreachable g _ x hx

/-- … and every object that had a path from the root avoiding the deleted objects is still reachable,
with unchanged attributes (**nothing else goes**) -/
theorem delete_others_stay (g g' : Graph) (c : Cont) (key : Key) (k : Nat)
    (hown : isOwning c.info.flavour = true) (ht : delTarget g c key = .ok k)
    (hdel : contDel g c key = .ok g') (x : Nat) (ks : List Nat) (hp : PathFrom g 0 ks x)
    (hall : ∀ m ∈ ks, doomed (delKeys g c k) m = false) :
    Reach g' x ∧ (∀ a, g'.getAttr x a = g.getAttr x a) ∧
      g'.links x = (g.links x).filter (fun l => !doomed (delKeys g c k) l.2) := by
  rw [contDel_owning_eq hown ht hdel]
  exact ⟨other_stays_reachable g _ x ks hp hall, deleteObjs_getAttr g _ x, deleteObjs_links g _ x⟩

/-! ## frame at full strength: only links to the deleted object disappear -/

/-- **"only links to the deleted object `k` disappear"** — on every graph; in particular an object
that carries the same `entity_id` as `k` (an id-keeping copy) keeps every link to it -/
theorem frame_full (g : Graph) (k : Nat) (p : Nat) (l : String × Nat)
    (hl : l ∈ g.links p) (hne : l.2 ≠ k) : l ∈ (g.deleteObjs [k]).links p := by
  rw [mem_deleteObjs_links]
  refine ⟨hl, ?_⟩
  unfold doomed
  simpa using hne

/-- **frame of `del c[key]`, every graph, every owning container**: a successful `del c[key]` of
entity `k` keeps every link whose target is not `k` (for sections / sources: not in the subtree of
`k`), keeps the relative order of the links of every group, and keeps every attribute of every
object — whatever ids the objects of the file carry -/
theorem delete_frame (g g' : Graph) (c : Cont) (key : Key)
    (k : Nat) (hown : isOwning c.info.flavour = true) (ht : delTarget g c key = .ok k)
    (hdel : contDel g c key = .ok g') :
    (∀ (p : Nat) (l : String × Nat), l ∈ g.links p → ¬ InSub g c k l.2 → l ∈ g'.links p) ∧
    (∀ p, (g'.links p).Sublist (g.links p)) ∧
    (∀ x a, g'.getAttr x a = g.getAttr x a) ∧
    g'.nodes.map (·.1) = g.nodes.map (·.1) := by
  rw [contDel_owning_eq hown ht hdel]
  exact ⟨fun p l hl hn => frame_keys g c k p l hl hn,
         fun p => deleteObjs_order g _ p, deleteObjs_getAttr g _, deleteObjs_keys g _⟩

/-- … and for the containers that delete a single object (blocks, groups, arrays, frames, tags,
multi-tags, properties, features) the link lists afterwards are *exactly* the old ones without
the links to `k` -/
theorem delete_exact (g g' : Graph) (c : Cont) (key : Key) (k : Nat)
    (hfl : c.info.flavour = .plain ∨ c.info.flavour = .features) (ht : delTarget g c key = .ok k)
    (hdel : contDel g c key = .ok g')
    (p : Nat) (l : String × Nat) : l ∈ g'.links p ↔ l ∈ g.links p ∧ l.2 ≠ k := by
  have hown : isOwning c.info.flavour = true := by rcases hfl with h | h <;> rw [h] <;> rfl
  have hsub : ∀ d, InSub g c k d ↔ d = k := by
    intro d; unfold InSub; rcases hfl with h | h <;> rw [h]
  constructor
  · intro hl
    exact ⟨((delete_frame g g' c key k hown ht hdel).2.1 p).subset hl,
      (delete_gone g g' c key k hown ht hdel k (delete_keys_self g c k)).2.2.2 p l hl⟩
  · rintro ⟨hl, hne⟩
    exact (delete_frame g g' c key k hown ht hdel).1 p l hl (fun h => hne ((hsub _).mp h))

/-! ### the code before the fix: deletion by `entity_id` (`Graph.deleteAll`, used by no operation of the
model any more) did not have the frame -/

/-- "only links to the deleted object `k` disappear", stated for the deletion by id -/
def frame_full_before_fix : Prop :=
  ∀ (g : Graph) (k : Nat) (i : String), g.entityId k = some i →
    ∀ (p : Nat) (l : String × Nat), l ∈ g.links p → l.2 ≠ k → l ∈ (g.deleteAll [i]).links p

/-- hand-built file: `/data/blk/data_arrays` holds `a` (node 4) and `a-copy` (node 5), the copy
made with `keep_copy_id=True`: both carry `id:0` -/
def sharedIdGraph : Graph :=
  { nodes := [(0, { links := [("data", 1)] }),
              (1, { links := [("blk", 2)] }),
              (2, { attrs := [("entity_id", "id:9")], links := [("data_arrays", 3)] }),
              (3, { links := [("a", 4), ("a-copy", 5)] }),
              (4, { attrs := [("entity_id", "id:0"), ("name", "a")] }),
              (5, { attrs := [("entity_id", "id:0"), ("name", "a-copy")] })],
    nextKey := 6, nextId := 10 }

/-- before the fix, deleting `a` also removed `a-copy` -/
theorem frame_counterexample_before_fix : ¬ frame_full_before_fix := by
  intro h
  have := h sharedIdGraph 4 "id:0" (by decide) 3 ("a-copy", 5) (by decide) (by decide)
  revert this
  decide

/-- … the deletion by object keeps it (an instance of `frame_full`) -/
example : (sharedIdGraph.deleteObjs [4]).links 3 = [("a-copy", 5)] := by decide

/-! ## removing an entry from a link list / clearing a role link never deletes the target -/

/-- `del group.data_arrays[key]`, `del tag.references[key]`, `del x.sources[key]` …: one link of
the list's own HDF5 group goes (and the link to that group from its owner, if it became empty).
Every other link list in the file — in particular the owning container of the target — every
attribute and the set of objects are unchanged; the list keeps its other entries in order, its
owner keeps every other child -/
theorem unlink_keeps_target (g g' : Graph) (c : Cont) (key : Key)
    (hlink : isOwning c.info.flavour = false) (hdel : contDel g c key = .ok g') :
    ∃ cn, c.node = some cn ∧ OneLinkRemoved g g' cn c.owner.key c.cname ∧
      (∀ s, s ≠ cn → s ≠ c.owner.key → g'.links s = g.links s) ∧
      (c.owner.key ≠ cn → ∀ l ∈ g.links c.owner.key, l.1 ≠ c.cname → l ∈ g'.links c.owner.key) ∧
      (cn ≠ c.owner.key → ∃ name, g'.links cn = (g.links cn).filter (fun l => l.1 != name)) ∧
      (∀ k a, g'.getAttr k a = g.getAttr k a) ∧
      g'.nodes.map (·.1) = g.nodes.map (·.1) := by
  rw [contDel_eq] at hdel
  split at hdel
  · cases hdel
  · simp only [hlink, Bool.false_eq_true, ↓reduceIte] at hdel
    split at hdel
    · cases hdel
    · split at hdel
      · rename_i cn i hcn _
        have h := h5Delete_effect _ _ _ _ _ _ _ _ hdel
        exact ⟨cn, hcn, h, fun s h1 h2 => oneLink_links_other h s h1 h2,
          fun hne l hl hn => oneLink_links_parent h hne l hl hn,
          fun hne => oneLink_links_grp h hne, oneLink_getAttr h, oneLink_keys h⟩
      · cases hdel

/-- `del x.metadata`, `section.link = None`, `multi_tag.extents = None`: at most the one role link
goes; all other links, all attributes and all objects stay -/
theorem role_clear_keeps_target (g g' : Graph) (p : Path) (role : String)
    (h : setRole g p role none = .ok g') :
    g' = g ∨ ∃ o, resolve g rootLoc p = some o ∧
      (∀ s, g'.links s = if s = o.key then (g.links s).filter (fun l => l.1 != role) else g.links s) ∧
      (∀ k a, g'.getAttr k a = g.getAttr k a) ∧
      g'.nodes.map (·.1) = g.nodes.map (·.1) := by
  rcases setRole_none_effect g g' p role h with h | ⟨o, ho, _, hg⟩
  · exact Or.inl h
  · refine Or.inr ⟨o, ho, ?_, ?_, ?_⟩
    · intro s; rw [hg, delLink_links]
    · intro k a; rw [hg, delLink_getAttr]
    · rw [hg, delLink_keys]

/-! ## the same, for every operation history -/

/-- for every history `ops` and every following `del owner.cname[key]` on an owning container:
the call either leaves the file unchanged (refused), or afterwards no link anywhere targets the
entity and the entity is unreachable from the root -/
theorem history_delete (ops : List Op) (owner : Path) (cname : String) (key : KeyArg)
    (c : Cont) (kk : Key) (k : Nat) :
    let g := run init ops
    let g' := step g (.del owner cname key)
    openCont g owner cname = some c → resolveKeyArg g key = some kk →
    isOwning c.info.flavour = true → delTarget g c kk = .ok k →
    g' = g ∨
      ((∀ (p : Nat) (l : String × Nat), l ∈ g'.links p → l.2 ≠ k) ∧
       (k ≠ 0 → ¬ Reach g' k)) := by
  intro g g' hc hkk hown ht
  have hstep : g' = match contDel g c kk with | .ok x => x | .error _ => g := by
    show step g (.del owner cname key) = _
    unfold step apply
    simp only [hc, hkk]
    cases contDel g c kk <;> rfl
  cases hdel : contDel g c kk with
  | error e => left; rw [hstep, hdel]
  | ok x =>
    right
    have hx : g' = x := by rw [hstep, hdel]
    rw [hx]
    have hin := delete_keys_self g c k
    refine ⟨(delete_gone g x c kk k hown ht hdel k hin).2.2.2, ?_⟩
    intro hk0
    apply delete_owned_unreachable g x c kk k hown ht hdel k
    intro ks hp
    cases hp with
    | nil => exact absurd rfl hk0
    | cons name hl hrest =>
      refine ⟨k, path_end_mem (.cons name hl hrest) (by simp), ?_⟩
      unfold doomed; simpa using hin

/-- **frame for every history**: after any history `ops` of the `Op` language a successful
`del c[key]` of entity `k` keeps every link whose target is not `k` (for sections / sources: not in
the subtree of `k`), keeps the relative order of the links of every group, and keeps every attribute
of every object (an instance of `delete_frame`, which needs nothing about the graph: no freshness
proviso, no assumption on ids) -/
theorem history_frame (ops : List Op) (g' : Graph) (c : Cont) (key : Key)
    (k : Nat) (hown : isOwning c.info.flavour = true) (ht : delTarget (run init ops) c key = .ok k)
    (hdel : contDel (run init ops) c key = .ok g') :
    (∀ (p : Nat) (l : String × Nat), l ∈ (run init ops).links p → ¬ InSub (run init ops) c k l.2 → l ∈ g'.links p) ∧
    (∀ p, (g'.links p).Sublist ((run init ops).links p)) ∧
    (∀ x a, g'.getAttr x a = (run init ops).getAttr x a) ∧
    g'.nodes.map (·.1) = (run init ops).nodes.map (·.1) :=
  delete_frame (run init ops) g' c key k hown ht hdel

/-- … and for the containers that delete a single object the link lists afterwards are *exactly* the
old ones without the links to `k` -/
theorem history_delete_exact (ops : List Op) (g' : Graph) (c : Cont)
    (key : Key) (k : Nat)
    (hfl : c.info.flavour = .plain ∨ c.info.flavour = .features) (ht : delTarget (run init ops) c key = .ok k)
    (hdel : contDel (run init ops) c key = .ok g')
    (p : Nat) (l : String × Nat) : l ∈ g'.links p ↔ l ∈ (run init ops).links p ∧ l.2 ≠ k :=
  delete_exact (run init ops) g' c key k hfl ht hdel p l

/-! ## non-vacuity: a reachable file with one array linked from a group, a tag, a multi-tag
(positions) and a feature; deleting it by name -/

def demoOps : List Op :=
  [.createBlock "blk" "t",
   .createIn [.name "data", .name "blk"] "data_array" "a" "t" none,
   .createIn [.name "data", .name "blk"] "data_array" "keep" "t" none,
   .createIn [.name "data", .name "blk"] "group" "g" "t" none,
   .createIn [.name "data", .name "blk"] "tag" "tg" "t" none,
   .createIn [.name "data", .name "blk"] "multi_tag" "mt" "t"
     (some [.name "data", .name "blk", .name "data_arrays", .name "a"]),
   .append [.name "data", .name "blk", .name "groups", .name "g"] "data_arrays"
     (.obj [.name "data", .name "blk", .name "data_arrays", .name "a"]),
   .append [.name "data", .name "blk", .name "groups", .name "g"] "data_arrays"
     (.obj [.name "data", .name "blk", .name "data_arrays", .name "keep"]),
   .append [.name "data", .name "blk", .name "tags", .name "tg"] "references"
     (.obj [.name "data", .name "blk", .name "data_arrays", .name "a"]),
   .createFeature [.name "data", .name "blk", .name "tags", .name "tg"]
     (some [.name "data", .name "blk", .name "data_arrays", .name "a"]) "untagged"]

def demo : Graph := run init demoOps
def demoAfter : Graph := step demo (.del [.name "data", .name "blk"] "data_arrays" (.str "a"))

/-- the demo file is reachable by a history that meets the freshness proviso of the invariant `WF` -/
example : Nix.Store.Lemmas.ReachableFresh demo :=
  ⟨demoOps, freshHist_of_names demoOps (by decide) init, rfl⟩

/-- before: the group lists both arrays, the multi-tag has positions -/
example : ((resolve demo rootLoc [.name "data", .name "blk", .name "groups", .name "g", .name "data_arrays"]).map
    fun l => (demo.links l.key).length) = some 2 := by decide +kernel
example : ((resolve demo rootLoc [.name "data", .name "blk", .name "multi_tags", .name "mt", .name "positions"])).isSome
    = true := by decide +kernel
/-- after: one entry left in the group, the positions link is gone, the array is unreachable, the
other array is still there -/
example : ((resolve demoAfter rootLoc [.name "data", .name "blk", .name "groups", .name "g", .name "data_arrays"]).map
    fun l => (demoAfter.links l.key).length) = some 1 := by decide +kernel
example : ((resolve demoAfter rootLoc [.name "data", .name "blk", .name "multi_tags", .name "mt", .name "positions"])).isSome
    = false := by decide +kernel
example : ((resolve demoAfter rootLoc [.name "data", .name "blk", .name "data_arrays", .name "keep"])).isSome
    = true := by decide +kernel
example : ((resolve demoAfter rootLoc [.name "data", .name "blk", .name "data_arrays", .name "a"])).isSome
    = false := by decide +kernel

/-! non-vacuity for unlinking, role clearing and the subtree theorems -/

/-- `del group.data_arrays["a"]` in the demo file is a link-list deletion that succeeds -/
example : ((openCont demo [.name "data", .name "blk", .name "groups", .name "g"] "data_arrays").map fun c =>
    (isOwning c.info.flavour, (contDel demo c (.str "a")).toOption.isSome)) = some (false, true) := by
  decide +kernel

/-- a file with nested sections `s / x / y`, a property and a metadata link from the block to `x` -/
def demo2Ops : List Op :=
  [.createBlock "blk" "t",
   .createSection [] "s" "t",
   .createSection [.name "metadata", .name "s"] "x" "t",
   .createSection [.name "metadata", .name "s", .name "sections", .name "x"] "y" "t",
   .createProperty [.name "metadata", .name "s", .name "sections", .name "x"] "p",
   .setRole [.name "data", .name "blk"] "metadata" (some [.name "metadata", .name "s", .name "sections", .name "x"])]

def demo2 : Graph := run init demo2Ops

/-- `s` is node 4, `x` node 6, `y` node 8; clearing the block's metadata link succeeds and is not a no-op -/
example : (resolve demo2 rootLoc [.name "metadata", .name "s"]).map (·.key) = some 4 := by decide +kernel
example : ((setRole demo2 [.name "data", .name "blk"] "metadata" none).toOption.map fun g' =>
    decide (g' = demo2)) = some false := by decide +kernel
/-- the hypothesis of `subtree_complete_of_done` holds for deleting `s` … -/
example : bfsRest demo2 "sections" (demo2.nodes.length * demo2.nodes.length + 1) [4] = [] := by decide +kernel
/-- … and so does the forest hypothesis of `subtree_complete`: three sections, 3 ≤ 11² + 1 -/
example : ForestSize demo2 "sections" [4] 3 := by
  have k4 : kids demo2 "sections" 4 = [6] := by decide +kernel
  have k6 : kids demo2 "sections" 6 = [8] := by decide +kernel
  have k8 : kids demo2 "sections" 8 = [] := by decide +kernel
  have h8 : ForestSize demo2 "sections" [8] 1 := .cons 8 [] 0 0 (k8 ▸ .nil) .nil
  have h6 : ForestSize demo2 "sections" [6] 2 := .cons 6 [] 1 0 (k6 ▸ h8) .nil
  exact .cons 4 [] 2 0 (k4 ▸ h6) .nil
/-- the hypothesis of `subtree_finite_of_growing` holds of that file, for sections and for sources -/
example : GrowingKids demo2 "sections" demo2.nextKey (fun k => kindOf demo2 k == "section") ∧
    GrowingKids demo2 "sources" demo2.nextKey (fun k => kindOf demo2 k == "source") ∧
    4 < demo2.nextKey ∧ (kindOf demo2 4 == "section") = true := by
  decide +kernel
/-- `y` lies below `s`, and it is handed to `delete_all` when `s` is deleted -/
example : Desc demo2 "sections" 4 8 :=
  .step (m := 6) (by decide +kernel) (.step (m := 8) (by decide +kernel) (.refl 8))
example : subtreeKeys demo2 "sections" 4 = [4, 6, 8] := by decide +kernel
/-- after `del file.sections["s"]` the block's metadata link is gone and `x`, `y`, the property are unreachable -/
example : ((resolve (step demo2 (.del [] "metadata" (.str "s"))) rootLoc [.name "data", .name "blk", .name "metadata"])).isSome
    = false := by decide +kernel
example : ((resolve demo2 rootLoc [.name "data", .name "blk", .name "metadata"])).isSome = true := by decide +kernel

/-! ## the frame on a file with an id-keeping copy

The situation the open finding `C04-delete-hits-same-id-copy` was about: two objects with one id. -/

/-- a file whose block holds `a` and — as `create_data_array(copy_from=a)` with the default
`keep_copy_id=True` leaves it — a second array `a-copy` carrying the same `entity_id`; a group links
the copy, a tag references the original -/
def copyGraph : Graph :=
  { nodes := [(0, { links := [("data", 1)] }),
              (1, { links := [("blk", 2)] }),
              (2, { attrs := [("entity_id", "id:9"), ("~kind", "block")],
                    links := [("data_arrays", 3), ("groups", 6), ("tags", 9)] }),
              (3, { links := [("a", 4), ("a-copy", 5)] }),
              (4, { attrs := [("entity_id", "id:0"), ("name", "a"), ("~kind", "data_array")] }),
              (5, { attrs := [("entity_id", "id:0"), ("name", "a-copy"), ("~kind", "data_array")] }),
              (6, { links := [("g", 7)] }),
              (7, { attrs := [("entity_id", "id:1"), ("name", "g"), ("~kind", "group")], links := [("data_arrays", 8)] }),
              (8, { links := [("id:0", 5)] }),
              (9, { links := [("t", 10)] }),
              (10, { attrs := [("entity_id", "id:2"), ("name", "t"), ("~kind", "tag")], links := [("references", 11)] }),
              (11, { links := [("id:0", 4)] })],
    nextKey := 12, nextId := 10 }

/-- deleting the original: the copy stays in the block and in the group, the tag's reference to the
original goes -/
example : ((copyGraph.deleteObjs [4]).links 3, (copyGraph.deleteObjs [4]).links 8, (copyGraph.deleteObjs [4]).links 11)
    = ([("a-copy", 5)], [("id:0", 5)], []) := by decide
/-- deleting the copy: the original stays in the block and referenced by the tag, the group's entry goes -/
example : ((copyGraph.deleteObjs [5]).links 3, (copyGraph.deleteObjs [5]).links 8, (copyGraph.deleteObjs [5]).links 11)
    = ([("a", 4)], [], [("id:0", 4)]) := by decide
/-- the deletion by id (before the fix) emptied all three lists -/
example : ((copyGraph.deleteAll ["id:0"]).links 3, (copyGraph.deleteAll ["id:0"]).links 8,
    (copyGraph.deleteAll ["id:0"]).links 11) = ([], [], []) := by decide

/-! ## the deletion code *as written in the source* (Generated/DeleteShape) is the model

`harness/extract/delshape.py` renders the statement lists of `Container.__delitem__` and its
variants, the visitor of `H5Group.delete_all`, the parameters of `H5Group.delete`, the container
constructor calls, the role-link deleters and the shape of `util/find.py` as the constants of
`Nix.Store.DelShape.Gen`; `Store/DelShape.lean` gives them a meaning. The theorems below quantify
over these generated constants: an edit of the deletion code breaks `lake build` here (or no longer
translates). -/

open Nix.Store.DelShape in
/-- `del owner.cname[key]`, run statement by statement as `container.py` spells it for the class
of that container, is the model's `contDel` — every graph, every container, every key form -/
theorem delitem_follows_source (g : Graph) (p : Path) (cn : String) (c : Cont) (key : Key)
    (hc : openCont g p cn = some c) :
    runDel Gen.h5Params (Gen.delitemOf (classOf c.info.flavour)) g c key = contDel g c key :=
  runDel_eq_contDel g c key (openCont_info hc)

open Nix.Store.DelShape in
/-- the loop of `H5Group.delete_all`, run over every group as `h5group.py` spells it, is
`Graph.deleteObjs` (in particular: the test is on the child *object*, not on an attribute it carries;
no `break`, every child of every group is tested) -/
theorem deleteObjs_follows_source (g : Graph) (ks : List Nat) :
    scanAll g ks Gen.deleteAllScan = g.deleteObjs ks :=
  scanAll_eq_deleteObjs g ks

open Nix.Store.DelShape in
/-- `H5Group.delete` with the depth bound read from the source is the model's `h5Delete`, and a
call without the keyword (link lists) removes the emptied list group -/
theorem h5Delete_follows_source (g : Graph) (grp parent : Nat) (lname : String) (depth : Nat) (x : String)
    (b : Bool) :
    h5DeleteP Gen.h5Params.minDepth g grp parent lname depth x b = h5Delete g grp parent lname depth x b ∧
      Gen.h5Params.defaultDeleteIfEmpty = true :=
  ⟨rfl, rfl⟩

open Nix.Store.DelShape in
/-- every `Xcontainer("cname", …)` constructor call of the entity modules is a row of
`containerInfo` with that class and item kind … -/
theorem containerInfo_follows_source :
    ∀ e ∈ Gen.containerTable,
      (containerInfo e.1 e.2.1).map (fun i => (classOf i.flavour, i.item)) = some (e.2.2.1, e.2.2.2) := by
  decide

open Nix.Store.DelShape in
/-- … and `containerInfo` has no other rows -/
theorem containerInfo_only_source (ok cn : String) (info : CInfo) (h : containerInfo ok cn = some info) :
    (ok, cn, classOf info.flavour, info.item) ∈ Gen.containerTable := by
  unfold containerInfo at h
  split at h <;> first | (cases h; decide) | cases h

open Nix.Store.DelShape in
/-- `del x.metadata`, `section.link = None`, `multi_tag.extents = None`, run as the entity modules
spell them (guard, `delete(…, delete_if_empty=False)` / `del`), are the model's `setRole … none`:
in particular none of them prunes the entity's own group -/
theorem role_clear_follows_source (e : String × String × List RStmt) (he : e ∈ Gen.roleClear)
    (g : Graph) (p : Path) (o : Loc) (ho : resolve g rootLoc p = some o) (hk : kindOf g o.key = e.1) :
    setRole g p e.2.1 none = runRole Gen.h5Params g o e.2.2 := by
  simp only [Gen.roleClear, List.mem_cons, List.not_mem_nil, or_false] at he
  rcases he with rfl | rfl | rfl | rfl | rfl | rfl | rfl | rfl | rfl
  all_goals
    simp only [setRole, ho, hk]
    first
      | rw [runRole_guardedDelete _ _ _ (by decide +kernel)]; simp
      | rw [runRole_guardedDelItem]; simp

open Nix.Store.DelShape Nix.Store.FindProg in
/-- **`util/find.py`, run statement by statement**: `_find_sections` / `_find_sources` as the source spells them
(`Gen.findSectionsProg` / `Gen.findSourcesProg`: queue the start, pop from the front, queue the children of
`child.elem.<sub>` at the back, filter, append), started on an entity with no depth bound (`limit=None`), return
the model's breadth-first collection from that entity, filtered — for every graph, every filter, every fuel -/
theorem find_follows_source (g : Graph) (k : Nat) (filtr : Nat → Bool) (fuel : Nat) :
    runFind Gen.findSectionsProg ⟨g, k, true, none, filtr⟩ fuel = some ((bfsKeys g "sections" fuel [k] []).filter filtr) ∧
    runFind Gen.findSourcesProg ⟨g, k, true, none, filtr⟩ fuel = some ((bfsKeys g "sources" fuel [k] []).filter filtr) :=
  ⟨stdFind_run g "sections" k filtr fuel, stdFind_run g "sources" k filtr fuel⟩

open Nix.Store.DelShape Nix.Store.FindProg in
/-- the objects `item.find_sections()` / `item.find_sources()` collect for a deletion (default filter
`lambda _: True`, no limit) are the model's `subtreeKeys`: breadth first, the entity itself included -/
theorem subtree_follows_source (g : Graph) (k : Nat) :
    runFind Gen.findSectionsProg ⟨g, k, true, none, fun _ => true⟩ (g.nodes.length * g.nodes.length + 1)
      = some (subtreeKeys g "sections" k) ∧
    runFind Gen.findSourcesProg ⟨g, k, true, none, fun _ => true⟩ (g.nodes.length * g.nodes.length + 1)
      = some (subtreeKeys g "sources" k) := by
  have h := find_follows_source g k (fun _ => true) (g.nodes.length * g.nodes.length + 1)
  have hf : ∀ l : List Nat, l.filter (fun _ => true) = l := fun l => List.filter_eq_self.mpr (fun _ _ => rfl)
  rw [hf, hf] at h
  exact h

/-- non-vacuity: on the nested sections `s / x / y` of `demo2` the source's `_find_sections`, started on `s`,
returns the three sections in breadth-first order; filtered for "is `y`" it returns `y` alone -/
example : Nix.Store.FindProg.runFind Nix.Store.DelShape.Gen.findSectionsProg ⟨demo2, 4, true, none, fun _ => true⟩ 122
    = some [4, 6, 8] := by decide +kernel
example : Nix.Store.FindProg.runFind Nix.Store.DelShape.Gen.findSectionsProg ⟨demo2, 4, true, none, fun k => k == 8⟩ 122
    = some [8] := by decide +kernel
/-- … and with `limit=1` only `s` and its child (the depth bound is interpreted, though no theorem speaks of it) -/
example : Nix.Store.FindProg.runFind Nix.Store.DelShape.Gen.findSectionsProg ⟨demo2, 4, true, some 1, fun _ => true⟩ 122
    = some [4, 6] := by decide +kernel

open Nix.Store.DelShape in
/-- **gone and frame, stated on the source's own statements**: whenever the `__delitem__` of an owning
container, run as written, succeeds on a key addressing entity `k`, no link of any group of the
result targets `k` (or, for sections / sources, an object collected from its subtree), such an object
is unreachable from the root, and every link to any other object is still there -/
theorem source_delete_gone (g g' : Graph) (p : Path) (cn : String) (c : Cont) (key : Key) (k : Nat)
    (hc : openCont g p cn = some c) (hown : isOwning c.info.flavour = true)
    (ht : delTarget g c key = .ok k)
    (hrun : runDel Gen.h5Params (Gen.delitemOf (classOf c.info.flavour)) g c key = .ok g') :
    (∀ d ∈ delKeys g c k, (∀ (q : Nat) (l : String × Nat), l ∈ g'.links q → l.2 ≠ d) ∧ (d ≠ 0 → ¬ Reach g' d)) ∧
    (∀ (q : Nat) (l : String × Nat), l ∈ g.links q → ¬ InSub g c k l.2 → l ∈ g'.links q) := by
  rw [delitem_follows_source g p cn c key hc] at hrun
  refine ⟨?_, (delete_frame g g' c key k hown ht hrun).1⟩
  intro d hin
  refine ⟨(delete_gone g g' c key k hown ht hrun d hin).2.2.2, ?_⟩
  intro hd0
  rw [contDel_owning_eq hown ht hrun]
  apply doomed_unreachable g _ d hd0
  unfold doomed; simpa using hin

/-- non-vacuity: in the demo file the source-level `del blk.data_arrays["a"]` succeeds -/
example : ((openCont demo [.name "data", .name "blk"] "data_arrays").map fun c =>
    (Nix.Store.DelShape.runDel Nix.Store.DelShape.Gen.h5Params
      (Nix.Store.DelShape.Gen.delitemOf (Nix.Store.DelShape.classOf c.info.flavour)) demo c (.str "a")).toOption.isSome)
    = some true := by decide +kernel

/-! ## histories with data frames and dimension links (`Store/C04Ext`: `Op4`)

The theorems of the first sections hold for every graph; spelled out for the larger operation
language: data frames (linked from `Group.data_frames`, feature `data`, `metadata` owners) and range
dimensions whose ticks come from a linked array / frame (one more hard link to the target, named by
its id, from `array/dimensions/<n>/link`). -/

/-- **one `del owner.cname[key]` on any file**: refused and nothing changed, or no link anywhere
targets the entity and the entity is unreachable -/
theorem delete_step_gone (g : Graph) (owner : Path) (cname : String) (key : KeyArg)
    (c : Cont) (kk : Key) (k : Nat)
    (hc : openCont g owner cname = some c) (hkk : resolveKeyArg g key = some kk)
    (hown : isOwning c.info.flavour = true) (ht : delTarget g c kk = .ok k) :
    step g (.del owner cname key) = g ∨
      ((∀ (p : Nat) (l : String × Nat), l ∈ (step g (.del owner cname key)).links p → l.2 ≠ k) ∧
       (k ≠ 0 → ¬ Reach (step g (.del owner cname key)) k)) := by
  have hstep : step g (.del owner cname key) = match contDel g c kk with | .ok x => x | .error _ => g := by
    unfold step apply
    simp only [hc, hkk]
    cases contDel g c kk <;> rfl
  cases hdel : contDel g c kk with
  | error e => left; rw [hstep, hdel]
  | ok x =>
    right
    have hx : step g (.del owner cname key) = x := by rw [hstep, hdel]
    rw [hx]
    have hin := delete_keys_self g c k
    refine ⟨(delete_gone g x c kk k hown ht hdel k hin).2.2.2, ?_⟩
    intro hk0
    apply delete_owned_unreachable g x c kk k hown ht hdel k
    intro ks hp
    cases hp with
    | nil => exact absurd rfl hk0
    | cons name hl hrest =>
      refine ⟨k, path_end_mem (.cons name hl hrest) (by simp), ?_⟩
      unfold doomed; simpa using hin

/-- the same after every history of the larger language (frames, dimension links) -/
theorem history4_delete (ops : List Op4) (owner : Path) (cname : String) (key : KeyArg)
    (c : Cont) (kk : Key) (k : Nat) :
    let g := run4 init ops
    let g' := step4 g (.base (.del owner cname key))
    openCont g owner cname = some c → resolveKeyArg g key = some kk →
    isOwning c.info.flavour = true → delTarget g c kk = .ok k →
    g' = g ∨
      ((∀ (p : Nat) (l : String × Nat), l ∈ g'.links p → l.2 ≠ k) ∧
       (k ≠ 0 → ¬ Reach g' k)) := by
  intro g g' hc hkk hown ht
  exact delete_step_gone g owner cname key c kk k hc hkk hown ht

/-- **a dimension link never yields a deleted array / frame**: the `link` group of a dimension
descriptor (`array/dimensions/<n>/link`) is still in place after `delete_all(objs)` — its own groups
are none of the deleted entities — and holds exactly its old links to the other objects: the link
to a deleted target is gone (the accessor then finds no linked object), every other one stays -/
theorem dimLink_after_delete (g : Graph) (ks : List Nat) (arr n ds d lk : Nat)
    (h1 : g.child? arr "dimensions" = some ds) (h2 : g.child? ds (toString n) = some d)
    (h3 : g.child? d "link" = some lk)
    (k1 : doomed ks ds = false) (k2 : doomed ks d = false) (k3 : doomed ks lk = false) :
    dimLinkGroup (g.deleteObjs ks) arr n = some lk ∧
    (g.deleteObjs ks).links lk = (g.links lk).filter (fun l => !doomed ks l.2) ∧
    ∀ l ∈ (g.deleteObjs ks).links lk, l.2 ∉ ks :=
  ⟨dimLinkGroup_deleteObjs g ks arr n ds d lk h1 h2 h3 k1 k2 k3, deleteObjs_links g ks lk,
   fun l hl => deleteObjs_gone g ks lk l hl⟩

/-- non-vacuity: array `x` with two range dimensions, linked to array `a` and to frame `f`; `f`
also in a group and as feature data; then `a` and `f` are deleted -/
def demo4Ops : List Op4 :=
  [.base (.createBlock "b" "t"),
   .base (.createIn [.name "data", .name "b"] "data_array" "a" "t" none),
   .base (.createIn [.name "data", .name "b"] "data_array" "x" "t" none),
   .createFrame [.name "data", .name "b"] "f" "t",
   .base (.createIn [.name "data", .name "b"] "group" "g" "t" none),
   .base (.createIn [.name "data", .name "b"] "tag" "tg" "t" none),
   .base (.append [.name "data", .name "b", .name "groups", .name "g"] "data_frames"
     (.obj [.name "data", .name "b", .name "data_frames", .name "f"])),
   .base (.createFeature [.name "data", .name "b", .name "tags", .name "tg"]
     (some [.name "data", .name "b", .name "data_frames", .name "f"]) "untagged"),
   .dimLink [.name "data", .name "b", .name "data_arrays", .name "x"] [.name "data", .name "b", .name "data_arrays", .name "a"],
   .dimLink [.name "data", .name "b", .name "data_arrays", .name "x"] [.name "data", .name "b", .name "data_frames", .name "f"]]

def demo4 : Graph := run4 init demo4Ops
def demo4After : Graph :=
  run4 demo4 [.base (.del [.name "data", .name "b"] "data_arrays" (.str "a")),
              .base (.del [.name "data", .name "b"] "data_frames" (.str "f"))]

def xDimLinks (g : Graph) (n : Nat) : Option (List String) :=
  ((resolve g rootLoc [.name "data", .name "b", .name "data_arrays", .name "x"]).bind fun x =>
    dimLinkGroup g x.key n).map fun lk => (g.links lk).map (·.1)

/-- before: both descriptors link their target (by its id), the group lists the frame, the feature has data -/
example : (xDimLinks demo4 1, xDimLinks demo4 2) = (some ["id:1"], some ["id:3"]) := by decide +kernel
example : ((resolve demo4 rootLoc [.name "data", .name "b", .name "groups", .name "g", .name "data_frames"]).map
    fun l => (demo4.links l.key).length) = some 1 := by decide +kernel
/-- after: both `link` groups are empty, the group's frame list is gone, the feature's data link is gone,
`x` is still there -/
example : (xDimLinks demo4After 1, xDimLinks demo4After 2) = (some [], some []) := by decide +kernel
example : ((resolve demo4After rootLoc [.name "data", .name "b", .name "groups", .name "g", .name "data_frames"]).map
    fun l => (demo4After.links l.key).length) = some 0 := by decide +kernel
example : (resolve demo4After rootLoc [.name "data", .name "b", .name "tags", .name "tg", .name "features", .idx 0,
    .name "data"]).isSome = false := by decide +kernel
example : (resolve demo4 rootLoc [.name "data", .name "b", .name "tags", .name "tg", .name "features", .idx 0,
    .name "data"]).isSome = true := by decide +kernel
example : (resolve demo4After rootLoc [.name "data", .name "b", .name "data_arrays", .name "x"]).isSome = true := by
  decide +kernel

/-! ## deletion *by object*: the object handed over is the one deleted — member of that container or not

`Container.__delitem__` (and its section / source / link variants) does not look an entity object up again:
`del container[obj]` deletes `obj` wherever it lives, refuses an object of another class, and never touches
an entity of the same name that the receiving container happens to hold. A name, an id or a position can
only address a member. (Seeded change class C04-7: "resolve the object again by its name in the receiving
container" deletes the namesake instead.) -/

/-- `del c[obj]` on an owning container, for an object of the container's item class: `delete_all` of
exactly that object (sections / sources: of its collected subtree) — `c`'s own entries are never consulted -/
theorem delete_by_object (g : Graph) (c : Cont) (k : Nat)
    (hown : isOwning c.info.flavour = true) (hk : kindOf g k = c.info.item) :
    contDel g c (.ent k) = .ok (g.deleteObjs (delKeys g c k)) :=
  delete_is_deleteObjs g c (.ent k) k hown rfl hk

/-- … so the outcome is the same through *every* container of that class (the list of another block, of
another parent section / source, the file's top-level list): membership plays no role -/
theorem delete_by_object_any_container (g : Graph) (c c' : Cont) (k : Nat)
    (hown : isOwning c.info.flavour = true) (hinfo : c'.info.flavour = c.info.flavour)
    (hitem : c'.info.item = c.info.item) :
    contDel g c' (.ent k) = contDel g c (.ent k) := by
  rw [contDel_eq, contDel_eq]
  have hd : delKeys g c' k = delKeys g c k := by unfold delKeys; rw [hinfo]
  simp only [delTarget, hitem, hinfo, hown, hd, ↓reduceIte]

open Nix.Store.DelShape in
/-- the same **on the source's own statements**: the `__delitem__` of an owning container class, run as
`container.py` spells it on an entity object of the item class, unlinks exactly that object (its subtree) —
no statement of it looks the object up in the container (a change that does, like resolving it again by its
name, no longer translates or breaks this theorem) -/
theorem source_delete_by_object (g : Graph) (p : Path) (cn : String) (c : Cont) (k : Nat)
    (hc : openCont g p cn = some c) (hown : isOwning c.info.flavour = true) (hk : kindOf g k = c.info.item) :
    runDel Gen.h5Params (Gen.delitemOf (classOf c.info.flavour)) g c (.ent k) = .ok (g.deleteObjs (delKeys g c k)) := by
  rw [delitem_follows_source g p cn c (.ent k) hc]
  exact delete_by_object g c k hown hk

/-- an object of another class is refused (TypeError), whatever the container holds -/
theorem delete_by_object_wrong_class (g : Graph) (c : Cont) (k : Nat) (hk : kindOf g k ≠ c.info.item) :
    contDel g c (.ent k) = .error .typeError := by
  rw [contDel_eq]
  simp [delTarget, hk]

/-- **the namesake stays**: after `del c[obj]` for a single-object container (blocks, groups, arrays,
frames, tags, multi-tags, properties, features) every entry of `c` — and of every other group — whose
target is not `obj` itself is still there, in order, with all its attributes; in particular an entry of
`c` that carries the same name (or the same id) as `obj` -/
theorem delete_by_object_others_stay (g g' : Graph) (c : Cont) (k : Nat)
    (hfl : c.info.flavour = .plain ∨ c.info.flavour = .features)
    (hdel : contDel g c (.ent k) = .ok g') :
    (∀ (p : Nat) (l : String × Nat), l ∈ g'.links p ↔ l ∈ g.links p ∧ l.2 ≠ k) ∧
    (∀ l ∈ contEntries g c, l.2 ≠ k → l ∈ contEntries g' c) ∧
    (∀ x a, g'.getAttr x a = g.getAttr x a) := by
  have hown : isOwning c.info.flavour = true := by rcases hfl with h | h <;> rw [h] <;> rfl
  have hex := delete_exact g g' c (.ent k) k hfl rfl hdel
  refine ⟨hex, ?_, (delete_frame g g' c (.ent k) k hown rfl hdel).2.2.1⟩
  intro l hl hne
  unfold contEntries cLinks at hl ⊢
  cases hn : c.node with
  | none => simp [hn] at hl
  | some cn => rw [hn] at hl; exact (hex cn l).mpr ⟨hl, hne⟩

/-- the same for section / source containers: every link whose target does not lie in the subtree of
`obj` stays — the receiving container's namesake of `obj` with its whole subtree, for one -/
theorem delete_by_object_subtree_others_stay (g g' : Graph) (c : Cont) (k : Nat)
    (hown : isOwning c.info.flavour = true) (hdel : contDel g c (.ent k) = .ok g') :
    (∀ (p : Nat) (l : String × Nat), l ∈ g.links p → ¬ InSub g c k l.2 → l ∈ g'.links p) ∧
    (∀ (p : Nat) (l : String × Nat), l ∈ g'.links p → l.2 ≠ k) ∧
    (∀ x a, g'.getAttr x a = g.getAttr x a) :=
  ⟨(delete_frame g g' c (.ent k) k hown rfl hdel).1,
   (delete_gone g g' c (.ent k) k hown rfl hdel k (delete_keys_self g c k)).2.2.2,
   (delete_frame g g' c (.ent k) k hown rfl hdel).2.2.1⟩

/-- a name, an id or a position addresses a **member** of the container (only an object can come from
elsewhere) -/
theorem delete_by_key_member (g : Graph) (c : Cont) (key : Key) (k : Nat)
    (hkey : ∀ x, key ≠ .ent x) (ht : delTarget g c key = .ok k) : ∃ l ∈ contEntries g c, l.2 = k :=
  delTarget_member g c key k hkey ht

/-- by a name (a text not of UUID form) a block / section / source container deletes the member linked
under exactly that name — an entity of the same name in another parent is not even looked at -/
theorem delete_by_name_member (g : Graph) (c : Cont) (x : String) (k : Nat)
    (hf : hasByObject c.info.flavour = true) (hx : isUuid x = false)
    (ht : delTarget g c (.str x) = .ok k) : (x, k) ∈ contEntries g c :=
  delTarget_name g c x k hf hx ht

/-- **`obj in container` after the deletion**: no block / section / source container of the file answers
`True` for a deleted object (the membership test of these containers is by object, `Container.__contains__`) -/
theorem delete_gone_contains (g g' : Graph) (c : Cont) (key : Key) (k : Nat)
    (hown : isOwning c.info.flavour = true) (ht : delTarget g c key = .ok k)
    (hdel : contDel g c key = .ok g') (d : Nat) (hin : d ∈ delKeys g c k)
    (c' : Cont) (hf : hasByObject c'.info.flavour = true) : contHas g' c' (.ent d) ≠ .ok true := by
  intro h
  obtain ⟨l, hl, hld⟩ := contHas_ent_mem g' c' d hf h
  exact (delete_gone g g' c key k hown ht hdel d hin).2.1 c' l hl hld

/-- `del link_list[obj]` (group / tag / multi-tag / source lists): the entry is looked up by the object's
**id** in that list's own group, and `H5Group.delete` removes that one link -/
theorem unlink_by_object (g : Graph) (c : Cont) (k cn : Nat) (i : String)
    (hlink : isOwning c.info.flavour = false) (hk : kindOf g k = c.info.item)
    (hcn : c.node = some cn) (hi : g.entityId k = some i) :
    contDel g c (.ent k) = h5Delete g cn c.owner.key c.cname (c.owner.depth + 1) i true := by
  rw [contDel_eq]
  simp [delTarget, hk, hlink, hcn, hi]

/-- … and an object that the list does not link (no entry under its id, none carrying its id) is refused:
nothing is removed, neither here nor where the object lives -/
theorem unlink_by_object_not_linked (g : Graph) (c : Cont) (k : Nat)
    (hlink : isOwning c.info.flavour = false)
    (hno : ∀ cn i, c.node = some cn → g.entityId k = some i →
      ∀ l ∈ g.links cn, l.1 ≠ i ∧ g.entityId l.2 ≠ some i) :
    ∃ e, contDel g c (.ent k) = .error e := by
  rw [contDel_eq]
  simp only [delTarget]
  split
  · exact ⟨_, rfl⟩
  · simp only [hlink, Bool.false_eq_true, ↓reduceIte]
    split
    · rename_i cn i hcn hi
      have hn := hno cn i hcn hi
      have hbyname : getByName g (some cn) i = none := by
        unfold getByName cLinks
        rw [List.find?_eq_none]
        intro l hl
        simpa using (hn l hl).1
      have hbyid : getById g (some cn) i = none := by
        unfold getById cLinks
        rw [List.find?_eq_none]
        intro l hl
        simpa using (hn l hl).2
      have hchild : g.hasChild cn i = false := by
        unfold Graph.hasChild Graph.child?
        have : (g.links cn).find? (fun l => l.1 == i) = none := by
          rw [List.find?_eq_none]
          intro l hl
          simpa using (hn l hl).1
        rw [this]; rfl
      unfold h5Delete
      by_cases hu : isUuid i = true
      · simp only [hu, ↓reduceIte]
        unfold getByIdOrName
        simp only [hu, ↓reduceIte, hbyid, hbyname]
        exact ⟨_, rfl⟩
      · simp only [hu, Bool.false_eq_true, ↓reduceIte, hchild, Bool.not_false]
        exact ⟨_, rfl⟩
    · exact ⟨_, rfl⟩

/-! non-vacuity: names reused in different parents; objects handed to containers that do not hold them -/

/-- two blocks with an array `lfp` each, both linked from a group of their block; a root section `subject`
and a section `subject` below `session`, each the metadata of one array -/
def demo7Ops : List Op :=
  [.createBlock "day1" "t", .createBlock "day2" "t",
   .createIn [.name "data", .name "day1"] "data_array" "lfp" "t" none,
   .createIn [.name "data", .name "day2"] "data_array" "lfp" "t" none,
   .createIn [.name "data", .name "day1"] "group" "g" "t" none,
   .createIn [.name "data", .name "day2"] "group" "g" "t" none,
   .append [.name "data", .name "day1", .name "groups", .name "g"] "data_arrays"
     (.obj [.name "data", .name "day1", .name "data_arrays", .name "lfp"]),
   .append [.name "data", .name "day2", .name "groups", .name "g"] "data_arrays"
     (.obj [.name "data", .name "day2", .name "data_arrays", .name "lfp"]),
   .createSection [] "subject" "t", .createSection [] "session" "t",
   .createSection [.name "metadata", .name "session"] "subject" "t",
   .setRole [.name "data", .name "day1", .name "data_arrays", .name "lfp"] "metadata"
     (some [.name "metadata", .name "subject"]),
   .setRole [.name "data", .name "day2", .name "data_arrays", .name "lfp"] "metadata"
     (some [.name "metadata", .name "session", .name "sections", .name "subject"])]

def demo7 : Graph := run init demo7Ops
/-- `del day2.data_arrays[day1_lfp]` -/
def demo7A : Graph :=
  step demo7 (.del [.name "data", .name "day2"] "data_arrays" (.obj [.name "data", .name "day1", .name "data_arrays", .name "lfp"]))
/-- `del file.sections[nested_subject]` -/
def demo7B : Graph :=
  step demo7 (.del [] "metadata" (.obj [.name "metadata", .name "session", .name "sections", .name "subject"]))

def has7 (g : Graph) (p : Path) : Bool := (resolve g rootLoc p).isSome

/-- the array handed over is gone from its own block and its group; its namesake in the receiving block
keeps its place, its group entry and its metadata -/
example : (has7 demo7 [.name "data", .name "day1", .name "data_arrays", .name "lfp"],
           has7 demo7A [.name "data", .name "day1", .name "data_arrays", .name "lfp"],
           has7 demo7A [.name "data", .name "day1", .name "groups", .name "g", .name "data_arrays", .idx 0],
           has7 demo7A [.name "data", .name "day2", .name "data_arrays", .name "lfp"],
           has7 demo7A [.name "data", .name "day2", .name "groups", .name "g", .name "data_arrays", .idx 0],
           has7 demo7A [.name "data", .name "day2", .name "data_arrays", .name "lfp", .name "metadata"])
    = (true, false, false, true, true, true) := by decide +kernel
/-- the nested section handed to the file's list is gone together with the metadata link to it; the root
section of the same name and the link to it stay -/
example : (has7 demo7B [.name "metadata", .name "session", .name "sections", .name "subject"],
           has7 demo7B [.name "data", .name "day2", .name "data_arrays", .name "lfp", .name "metadata"],
           has7 demo7B [.name "metadata", .name "subject"],
           has7 demo7B [.name "data", .name "day1", .name "data_arrays", .name "lfp", .name "metadata"],
           has7 demo7B [.name "metadata", .name "session"])
    = (false, false, true, true, true) := by decide +kernel
/-- an array handed to a link list that does not link it is refused: the file is unchanged -/
example : step demo7 (.del [.name "data", .name "day2", .name "groups", .name "g"] "data_arrays"
    (.obj [.name "data", .name "day1", .name "data_arrays", .name "lfp"])) = demo7 := by decide +kernel
/-- a section handed to an array list is refused -/
example : step demo7 (.del [.name "data", .name "day2"] "data_arrays" (.obj [.name "metadata", .name "subject"])) = demo7 := by
  decide +kernel

/-! ## every history of the correspondence's language (`Op5`: `Op4` plus copies within the file)

After an id-keeping copy two objects carry one id — and, copied into another parent without a new name, one
name. The theorems above need nothing about the graph, so they hold after every such history. -/

/-- one `del` after any `Op5` history: refused and nothing changed, or the entity is gone from every link
list and unreachable; and every link to any other object — an id-keeping copy of the entity included — stays,
all lists keep their order, all attributes stay -/
theorem history5_delete (ops : List Op5) (owner : Path) (cname : String) (key : KeyArg)
    (c : Cont) (kk : Key) (k : Nat) :
    let g := run5 init ops
    let g' := step5 g (Op5.del owner cname key)
    openCont g owner cname = some c → resolveKeyArg g key = some kk →
    isOwning c.info.flavour = true → delTarget g c kk = .ok k →
    g' = g ∨
      ((∀ (p : Nat) (l : String × Nat), l ∈ g'.links p → l.2 ≠ k) ∧
       (k ≠ 0 → ¬ Reach g' k) ∧
       (∀ (p : Nat) (l : String × Nat), l ∈ g.links p → ¬ InSub g c k l.2 → l ∈ g'.links p) ∧
       (∀ p, (g'.links p).Sublist (g.links p)) ∧
       (∀ x a, g'.getAttr x a = g.getAttr x a)) := by
  intro g g' hc hkk hown ht
  have hstep : g' = match contDel g c kk with | .ok x => x | .error _ => g := by
    show step g (.del owner cname key) = _
    unfold step apply
    simp only [hc, hkk]
    cases contDel g c kk <;> rfl
  cases hdel : contDel g c kk with
  | error e => left; rw [hstep, hdel]
  | ok x =>
    right
    have hx : g' = x := by rw [hstep, hdel]
    have hgone := delete_step_gone g owner cname key c kk k hc hkk hown ht
    have hfr := delete_frame g x c kk k hown ht hdel
    rcases hgone with hsame | ⟨h1, h2⟩
    · -- the step changed nothing although the call succeeded: then `x = g`, and the frame is trivial
      have hxg : x = g := by rw [← hx]; exact hsame
      rw [hx]
      refine ⟨(delete_gone g x c kk k hown ht hdel k (delete_keys_self g c k)).2.2.2, ?_, hfr.1, hfr.2.1, hfr.2.2.1⟩
      intro hk0
      apply delete_owned_unreachable g x c kk k hown ht hdel k
      intro ks hp
      cases hp with
      | nil => exact absurd rfl hk0
      | cons name hl hrest =>
        refine ⟨k, path_end_mem (.cons name hl hrest) (by simp), ?_⟩
        unfold doomed; simpa using delete_keys_self g c k
    · rw [hx]
      have e : step g (.del owner cname key) = x := hx
      rw [e] at h1 h2
      exact ⟨h1, h2, hfr.1, hfr.2.1, hfr.2.2.1⟩

/-- … and for the single-object containers the link lists afterwards are exactly the old ones without the
links to the deleted object (`Op4` and `Op5` histories alike) -/
theorem history5_delete_exact (ops : List Op5) (g' : Graph) (c : Cont) (key : Key) (k : Nat)
    (hfl : c.info.flavour = .plain ∨ c.info.flavour = .features) (ht : delTarget (run5 init ops) c key = .ok k)
    (hdel : contDel (run5 init ops) c key = .ok g')
    (p : Nat) (l : String × Nat) : l ∈ g'.links p ↔ l ∈ (run5 init ops).links p ∧ l.2 ≠ k :=
  delete_exact (run5 init ops) g' c key k hfl ht hdel p l

/-- non-vacuity: an id-keeping copy of `day1/lfp` into `day2` under the name `lfp2`, the copy linked from
`day2`'s group; then the *original* is handed to `day2`'s list: the original goes, the copy (same id) stays
with its group entry -/
def demo8 : Graph :=
  run5 init (demo7Ops.map (fun o => Op5.base (.base o)) ++
    [.copyInto [.name "data", .name "day2"] "data_array" [.name "data", .name "day1", .name "data_arrays", .name "lfp"] "lfp2" true,
     .base (.base (.append [.name "data", .name "day2", .name "groups", .name "g"] "data_arrays"
       (.obj [.name "data", .name "day2", .name "data_arrays", .name "lfp2"])))])
def demo8After : Graph :=
  step5 demo8 (Op5.del [.name "data", .name "day2"] "data_arrays" (.obj [.name "data", .name "day1", .name "data_arrays", .name "lfp"]))

example : ((resolve demo8 rootLoc [.name "data", .name "day1", .name "data_arrays", .name "lfp"]).bind fun l => demo8.entityId l.key)
    = ((resolve demo8 rootLoc [.name "data", .name "day2", .name "data_arrays", .name "lfp2"]).bind fun l => demo8.entityId l.key) := by
  decide +kernel
example : (has7 demo8 [.name "data", .name "day2", .name "data_arrays", .name "lfp2"],
           has7 demo8After [.name "data", .name "day1", .name "data_arrays", .name "lfp"],
           has7 demo8After [.name "data", .name "day2", .name "data_arrays", .name "lfp2"],
           has7 demo8After [.name "data", .name "day2", .name "groups", .name "g", .name "data_arrays", .idx 1],
           has7 demo8After [.name "data", .name "day2", .name "data_arrays", .name "lfp"])
    = (true, false, true, true, true) := by decide +kernel

end Nix.C04
