import NixModel.Pure.PropVals
import NixModel.Lemmas.C10Values
import NixModel.Lemmas.C10State
import NixModel.Lemmas.C10Dict
import NixModel.Pure.PropHandles
import NixModel.Lemmas.C10Handles
import NixModel.Generated.PropValsShape
import NixModel.Lemmas.C10Shape

/-!
# C10 — metadata properties hold typed value lists; sections behave like ordered dicts

Property theorems only (helper lemmas: `NixModel/Lemmas/C10Values.lean`, `C10State.lean`,
`C10Dict.lean`).  All statements are about the model `NixModel/Pure/PropVals.lean`:

* `Reachable st` — `st` is the state of the section after *some* history of well-formed
  operations (create / assign / extend / clear / attribute setters / dictionary-style access /
  create_section / reopen) from the empty section; nothing bounds the history.
* `Input.assigned?` / `Input.appended?` — the list of values an input *denotes*, defined on the
  specification side without any dtype (`Lemmas/C10Values.lean`).
* `step st op = (st', out)` — one call; `out` is the result or the exception class.
* `Input.WF` — the inputs the model speaks about: arrays whose data fit their shape and dtype; every
  scalar and every list (also text containing NUL, integers of any size) is well-formed.
-/
namespace Nix.C10
open Nix.PropVals
open Nix.Units (Str)

/-- the property a keyed mutator addresses -/
def Op.key? : Op → Option PKey
  | .set k _ | .extend k _ | .clear k | .setAttr k _ _ | .setOdml k _ | .delitem k => some k
  | _ => none

/-! ## one data type, fixed at creation -/

/-- In every reachable state every stored value is of its property's data type, and no operation
changes the data type (or name) of an existing property. -/
theorem C10_type_fixed {st : State} (hr : Reachable st) :
    (∀ p ∈ st.props, ∀ c ∈ p.vals, cellOk p.dtype c = true) ∧
    (∀ op : Op, op.WF = true → ∀ p ∈ st.props, ∀ p' ∈ (step st op).1.props, p'.id = p.id →
      p'.dtype = p.dtype ∧ p'.name = p.name) := by
  refine ⟨fun p hp => hr.inv.typed p hp, ?_⟩
  intro op hwf p hp p' hp' hid
  have := (step_trans (st := st) hwf).head_fixed hr.inv hp hp' hid
  exact ⟨this.dtype, this.name⟩

/-- The data type is the `get_dtype` of the first value (one of the four supported types) or the
type object handed in; the new property holds exactly the given values, in order. -/
theorem C10_dtype_at_creation {st : State} {name : Str} :
    (∀ v vs, (createProperty st name (.list (v :: vs))).2 = .ok () →
      ∃ d cells, getDtype v = .ok d ∧ (d = .bool ∨ d = .int64 ∨ d = .float64 ∨ d = .string) ∧
        cellsOf? (v :: vs) = some cells ∧
        (createProperty st name (.list (v :: vs))).1.props =
          st.props ++ [{ name := name, id := st.next, dtype := d, vals := cells }]) ∧
    (∀ d, (createProperty st name (.type (.np d))).2 = .ok () →
        (createProperty st name (.type (.np d))).1.props =
          st.props ++ [{ name := name, id := st.next, dtype := d, vals := [] }]) := by
  constructor
  · intro v vs h
    rcases createProperty_cases st name (.list (v :: vs)) with ⟨e, h'⟩ | ⟨dt, n, vals, d, hplan, hd, _, _, hres, h'⟩
    · rw [h'] at h; simp at h
    · rw [h']
      simp only
      simp only [createPlan] at hplan
      cases hv : getDtype v with
      | error e => simp [hv] at hplan
      | ok d' =>
        simp only [hv] at hplan
        cases hc : checkConsistent d' (v :: vs) with
        | error e => simp [hc] at hplan
        | ok u =>
          simp [hc] at hplan
          obtain ⟨h1, h2, h3⟩ := hplan
          subst h1 h3
          simp [resolveDtype] at hd
          subst hd
          obtain ⟨cells, hs, hres'⟩ := setValues_ok (p := newProp st name d' n) hres
          refine ⟨d', cells, rfl, getDtype_main hv, hs, ?_⟩
          rw [hres']; rfl
  · intro d h
    rcases createProperty_cases st name (.type (.np d)) with ⟨e, h'⟩ | ⟨dt, n, vals, d', hplan, hd, _, _, _, h'⟩
    · rw [h'] at h; simp at h
    · rw [h']
      simp [createPlan] at hplan
      obtain ⟨h1, h2, h3⟩ := hplan
      subst h1 h2 h3
      simp [resolveDtype, TypeArg.resolve] at hd
      subst hd
      rfl

/-! ## reading returns the values last stored; extend appends -/

/-- A successful assignment stores exactly the values the input denotes, in order; the very next
read through the same key returns them (name, id, dtype and attributes unchanged), also after
closing and reopening the file. -/
theorem C10_read_last_stored {st : State} (hr : Reachable st) {k : PKey} {inp : Input} (_hwf : inp.WF = true)
    (hok : (step st (.set k inp)).2 = .ok .unit) :
    ∃ p cells, findProp st k = .ok p ∧ inp.assigned? = some cells ∧
      findProp (step st (.set k inp)).1 k = .ok { p with vals := cells } ∧
      findProp (step (step st (.set k inp)).1 .reopen).1 k = .ok { p with vals := cells } := by
  obtain ⟨p, hf, hres, hst⟩ := onProp_ok (f := (setValues · inp)) hok
  obtain ⟨cells, hs, hp'⟩ := setValues_ok hres
  have hfind : findProp (step st (.set k inp)).1 k = .ok { p with vals := cells } := by
    show findProp (onProp st k (setValues · inp)).1 k = _
    rw [hst, hp']
    exact findProp_putProp hr.inv hf ⟨rfl, rfl, rfl⟩
  exact ⟨p, cells, hf, hs, hfind, hfind⟩

/-- A successful `extend_values` leaves the existing values in place and puts the new ones, in
order (C order for arrays), after them. -/
theorem C10_extend_appends {st : State} (hr : Reachable st) {k : PKey} {inp : Input} (hwf : inp.WF = true)
    (hok : (step st (.extend k inp)).2 = .ok .unit) :
    ∃ p cells, findProp st k = .ok p ∧ inp.appended? = some cells ∧
      findProp (step st (.extend k inp)).1 k = .ok { p with vals := p.vals ++ cells } := by
  obtain ⟨p, hf, hres, hst⟩ := onProp_ok (f := (extendValues · inp)) hok
  obtain ⟨cells, hs, hp'⟩ := extendValues_ok hwf hres
  refine ⟨p, cells, hf, hs, ?_⟩
  show findProp (onProp st k (extendValues · inp)).1 k = _
  rw [hst, hp']
  exact findProp_putProp hr.inv hf ⟨rfl, rfl, rfl⟩

/-- `delete_values` (and assigning `None`, `[]`, `()`, an empty array — covered by
`C10_read_last_stored` with `assigned? = some []`) leaves an empty list; extending afterwards starts
from the empty list. -/
theorem C10_clear_empties {st : State} (hr : Reachable st) {k : PKey}
    (hok : (step st (.clear k)).2 = .ok .unit) :
    ∃ p, findProp st k = .ok p ∧ findProp (step st (.clear k)).1 k = .ok { p with vals := [] } := by
  obtain ⟨p, hf, _, hst⟩ := onProp_ok (f := fun p => (p.clear, .ok ())) hok
  refine ⟨p, hf, ?_⟩
  show findProp (onProp st k fun p => (p.clear, .ok ())).1 k = _
  rw [hst]
  exact findProp_putProp hr.inv hf ⟨rfl, rfl, rfl⟩

/-- A keyed operation touches no property but the one its key resolves to: all the others are still
there, unchanged. -/
theorem C10_other_properties_untouched {st : State} {op : Op} {k : PKey} {p : PropRec}
    (hk : Op.key? op = some k) (hf : findProp st k = .ok p) :
    ∀ q ∈ st.props, q.id ≠ p.id → q ∈ (step st op).1.props := by
  intro q hq hne
  have hon : ∀ f : PropRec → PropRec × Except Err Unit, (∀ r, (f r).1.id = r.id) →
      q ∈ (onProp st k f).1.props := by
    intro f hid
    simp only [onProp, hf]
    exact mem_putProp_of_ne hq (by rw [hid p]; exact hne)
  cases op with
  | set k' inp =>
    simp [Op.key?] at hk; subst hk
    exact hon _ fun r => (setValues_head r inp).1.id
  | extend k' inp =>
    simp [Op.key?] at hk; subst hk
    exact hon _ fun r => (extendValues_head r inp).1.id
  | clear k' =>
    simp [Op.key?] at hk; subst hk
    exact hon _ fun r => rfl
  | setAttr k' a v =>
    simp [Op.key?] at hk; subst hk
    exact hon _ fun r => (setAttr_head r a v).1.id
  | setOdml k' o =>
    simp [Op.key?] at hk; subst hk
    exact hon _ fun r => (setOdml_head r o).1.id
  | delitem k' =>
    simp [Op.key?] at hk; subst hk
    simp only [step, lift, delitem, hf]
    exact List.mem_filter.mpr ⟨hq, by simp [hne]⟩
  | create _ _ | get _ | mksec _ _ | getitem _ | setitem _ _ | contains _ | len | items | reopen | iter =>
    simp [Op.key?] at hk

/-- Reading, membership tests, `len`, iteration and reopening the file change nothing. -/
theorem C10_reads_change_nothing (st : State) (k : PKey) (k' : Key) :
    (step st (.get k)).1 = st ∧ (step st (.getitem k')).1 = st ∧ (step st (.contains k')).1 = st ∧
    (step st .len).1 = st ∧ (step st .items).1 = st ∧ (step st .reopen).1 = st ∧ (step st .iter).1 = st :=
  ⟨rfl, rfl, rfl, rfl, rfl, rfl, rfl⟩

/-! ## refusals -/

/-- **A refused call changes nothing.**  Whatever operation raises — TypeError for values of another
type or of mixed types, ValueError for a value of no supported type or a text containing NUL,
OverflowError for an integer outside int64, KeyError / IndexError / DuplicateName of the lookups —
leaves the section exactly as it was: every property with its values, dtype and attributes, every
child section, and nothing new.  (Before the repairs 38c9f56 / 578a510 of /repo this failed for text
containing NUL, which h5py refused only after the dataset had been resized.) -/
theorem C10_refused_unchanged {st : State} (hr : Reachable st) {op : Op} (hwf : op.WF = true) {e : Err}
    (herr : (step st op).2 = .error e) : (step st op).1 = st := by
  have liftErr : ∀ r : State × Except Err Unit, (lift r).2 = .error e → r.2 = .error e := by
    intro r h
    simp only [lift] at h
    cases hr2 : r.2 with
    | ok u => simp [hr2] at h
    | error e' => simp [hr2] at h; rw [h]
  cases op with
  | create name inp => exact createProperty_refused (liftErr _ herr)
  | set k inp => exact onProp_refused hr.inv herr fun p hp => setValues_refused hp
  | extend k inp => exact onProp_refused hr.inv herr fun p hp => extendValues_refused hwf hp
  | clear k => exact onProp_refused hr.inv herr fun p hp => by simp at hp
  | setAttr k a v => exact onProp_refused hr.inv herr fun p hp => setAttr_refused hp
  | setOdml k o => exact onProp_refused hr.inv herr fun p hp => setOdml_refused hp
  | get k => rfl
  | getitem k => rfl
  | contains k => rfl
  | len => rfl
  | items => rfl
  | reopen => rfl
  | iter => rfl
  | mksec name type => exact createSection_error (liftErr _ herr)
  | delitem k => exact delitem_error (liftErr _ herr)
  | setitem key v =>
    cases v with
    | S ty => exact createSection_error (liftErr _ herr)
    | val inp =>
      have herr' := liftErr _ herr
      show (setitem st key (.val inp)).1 = st
      obtain ⟨ws, hws⟩ := asListData_list inp
      simp only [setitem, hws] at herr' ⊢
      split
      · rename_i hc
        simp only [hc] at herr'
        exact createProperty_refused herr'
      · rename_i hc
        simp only [hc] at herr'
        cases hf : findProp st (.key (.name key)) with
        | error e' => rfl
        | ok p =>
          simp only [hf] at herr' ⊢
          rw [setValues_refused herr']
          exact putProp_self hr.inv.ids (findProp_mem hf)

/-- The same for every history and every call, stated as one closed proposition: no reachable state
and no well-formed call whose refusal changes the state exist. -/
theorem C10_any_refusal_unchanged :
    ∀ st : State, Reachable st → ∀ op : Op, op.WF = true → ∀ e : Err,
      (step st op).2 = .error e → (step st op).1 = st :=
  fun _ hr _ hwf _ herr => C10_refused_unchanged hr hwf herr

/-- **The type check precedes resize and write.**  When `_check_new_value_types` refuses, that very
error is what `extend_values` and the `values` setter raise and the property is untouched.  (Two
things are honoured before the check in the setter: the empty request `None` / `""` / `[]` / empty
array, which clears the list, and a 0-d array, whose `len()` raises TypeError.) -/
theorem C10_check_precedes_write (p : PropRec) (inp : Input) (e : Err)
    (h : checkNewValueTypes p.dtype inp = .error e) :
    extendValues p inp = (p, .error e) ∧
    (setValues p inp = (p, .error e) ∨
     (setValues p inp = (p.clear, .ok ()) ∧ inp.assigned? = some []) ∨
     setValues p inp = (p, .error .typeError)) :=
  ⟨extendValues_check_error h, setValues_check_error h⟩

/-- **Wrong or mixed types are refused at every element position.**  A non-empty candidate list
whose elements all belong to the four supported types but not all to the property's own type —
whichever position the stranger is in — is refused with TypeError by assignment and by extend, and
the property (hence, `C10_refused_unchanged`, the whole section) stays as it was. -/
theorem C10_wrong_or_mixed_refused (p : PropRec) (vs : List PyVal)
    (hsup : ∀ v ∈ vs, ∃ d, getDtype v = .ok d) (hbad : ∃ v ∈ vs, getDtype v ≠ .ok p.dtype) :
    setValues p (.list vs) = (p, .error .typeError) ∧
    extendValues p (.list vs) = (p, .error .typeError) := by
  have hchk : checkNewValueTypes p.dtype (.list vs) = .error .typeError := by
    cases vs with
    | nil => obtain ⟨v, hv, _⟩ := hbad; simp at hv
    | cons v vs =>
      obtain ⟨d, hd⟩ := hsup v (by simp)
      simp only [checkNewValueTypes, hd]
      by_cases hdp : d = p.dtype
      · simp only [hdp, ne_eq, not_true_eq_false, if_false]
        apply checkConsistent_mixed hsup
        obtain ⟨w, hw, hne⟩ := hbad
        exact ⟨w, hw, hne⟩
      · simp [hdp]
  refine ⟨?_, extendValues_check_error hchk⟩
  cases vs with
  | nil => obtain ⟨v, hv, _⟩ := hbad; simp at hv
  | cons v vs =>
    show assignList p (v :: vs) = _
    simp [assignList, hchk]

/-- **`bool` is not `int`** (although `isinstance(True, int)` holds in Python): `True`/`False` and
`np.bool_` are booleans to `get_dtype`, so a boolean anywhere in a candidate for an integer
property — and an integer anywhere in a candidate for a boolean property — is refused with
TypeError, values unchanged. -/
theorem C10_bool_is_not_int (p : PropRec) (vs : List PyVal) (hsup : ∀ v ∈ vs, ∃ d, getDtype v = .ok d) :
    (∀ b, getDtype (.pyBool b) = .ok .bool ∧ getDtype (.npBool b) = .ok .bool) ∧
    (∀ i, getDtype (.pyInt i) = .ok .int64 ∧ getDtype (.npInt i) = .ok .int64) ∧
    (p.dtype = .int64 → (∃ b, .pyBool b ∈ vs ∨ .npBool b ∈ vs) →
      setValues p (.list vs) = (p, .error .typeError) ∧ extendValues p (.list vs) = (p, .error .typeError)) ∧
    (p.dtype = .bool → (∃ i, .pyInt i ∈ vs ∨ .npInt i ∈ vs) →
      setValues p (.list vs) = (p, .error .typeError) ∧ extendValues p (.list vs) = (p, .error .typeError)) := by
  refine ⟨fun b => ⟨rfl, rfl⟩, fun i => ⟨rfl, rfl⟩, ?_, ?_⟩
  · rintro hd ⟨b, hb | hb⟩
    · exact C10_wrong_or_mixed_refused p vs hsup ⟨_, hb, by rw [hd]; simp [getDtype, getDtypeCls, PyVal.cls, PyClass.isBools]⟩
    · exact C10_wrong_or_mixed_refused p vs hsup ⟨_, hb, by rw [hd]; simp [getDtype, getDtypeCls, PyVal.cls, PyClass.isBools]⟩
  · rintro hd ⟨i, hi | hi⟩
    · exact C10_wrong_or_mixed_refused p vs hsup
        ⟨_, hi, by rw [hd]; simp [getDtype, getDtypeCls, PyVal.cls, PyClass.isBools, PyClass.isIntegral]⟩
    · exact C10_wrong_or_mixed_refused p vs hsup
        ⟨_, hi, by rw [hd]; simp [getDtype, getDtypeCls, PyVal.cls, PyClass.isBools, PyClass.isIntegral]⟩

/-! ## optional attributes -/

/-- The optional attributes and the value list are independent: attribute setters never touch
values or dtype, value operations never touch attributes; a text attribute reads back what was
set, `None` removes it. -/
theorem C10_attrs_independent (p : PropRec) :
    (∀ a v, (setAttr p a v).1.vals = p.vals ∧ (setAttr p a v).1.dtype = p.dtype) ∧
    (∀ o, (setOdml p o).1.vals = p.vals ∧ (setOdml p o).1.dtype = p.dtype) ∧
    (∀ inp, (setValues p inp).1.attrs = p.attrs ∧ (extendValues p inp).1.attrs = p.attrs) ∧
    p.clear.attrs = p.attrs ∧
    (∀ s, (setAttr p .definition (.str s)).1.attrs.definition = some s ∧
          (setAttr p .reference (.str s)).1.attrs.reference = some s ∧
          (setAttr p .dependency (.str s)).1.attrs.dependency = some s ∧
          (setAttr p .dependencyValue (.str s)).1.attrs.dependencyValue = some s ∧
          (setAttr p .valueOrigin (.str s)).1.attrs.valueOrigin = some s) ∧
    (setAttr p .definition .none).1.attrs.definition = none ∧
    (∀ t b, (setAttr p .uncertainty (.num t b)).1.attrs.uncertainty = some b) :=
  ⟨fun a v => ⟨(setAttr_head p a v).2, (setAttr_head p a v).1.dtype⟩,
   fun o => ⟨(setOdml_head p o).2, (setOdml_head p o).1.dtype⟩,
   fun inp => ⟨(setValues_head p inp).2, (extendValues_head p inp).2⟩,
   rfl, fun _ => ⟨rfl, rfl, rfl, rfl, rfl⟩, rfl, fun _ _ => rfl⟩

/-! ## the section as an ordered dictionary -/

/-- In every reachable state: `len` counts the properties; `items()` lists the properties in
creation order and then the child sections; `key in section` holds exactly when `section[key]`
succeeds, and for a string exactly when it is a listed name; a property's name or id yields its
value(s) — a single value unwrapped —, a property taking precedence over a child section of the
same name; a child section's id, or its name when no property has it, yields the section. -/
theorem C10_dict_consistent {st : State} (hr : Reachable st) :
    secLen st = st.props.length ∧
    items st = st.props.map (fun p => (p.name, ItemKind.prop)) ++ st.secs.map (fun x => (x.name, ItemKind.sec)) ∧
    (∀ k, contains st k = true ↔ ∃ i, getitem st k = .ok i) ∧
    (∀ n, contains st (.name n) = true ↔ ∃ kind, (n, kind) ∈ items st) ∧
    (∀ p ∈ st.props, getitem st (.name p.name) = .ok (unwrap p.vals) ∧
                      getitem st (.id p.id) = .ok (unwrap p.vals)) ∧
    (∀ x ∈ st.secs, getitem st (.id x.id) = .ok (.section x) ∧
      ((∀ p ∈ st.props, p.name ≠ x.name) → getitem st (.name x.name) = .ok (.section x))) := by
  have hinv := hr.inv
  refine ⟨rfl, rfl, fun k => contains_iff_getitem, ?_, ?_, ?_⟩
  · intro n
    simp only [contains, propsContains, secsContains, Bool.or_eq_true, List.any_eq_true, items,
      List.mem_append, List.mem_map, Prod.mk.injEq]
    constructor
    · rintro (⟨p, hp, hn⟩ | ⟨x, hx, hn⟩)
      · exact ⟨.prop, Or.inl ⟨p, hp, by simpa using hn, rfl⟩⟩
      · exact ⟨.sec, Or.inr ⟨x, hx, by simpa using hn, rfl⟩⟩
    · rintro ⟨kind, ⟨p, hp, hn, _⟩ | ⟨x, hx, hn, _⟩⟩
      · exact Or.inl ⟨p, hp, by simpa using hn⟩
      · exact Or.inr ⟨x, hx, by simpa using hn⟩
  · intro p hp
    exact ⟨getitem_prop (findProp_name_of_mem hinv hp), getitem_prop (findProp_id_of_mem hinv hp)⟩
  · intro x hx
    constructor
    · apply getitem_sec _ (findSec_id_of_mem hinv hx)
      simp only [propsContains]
      rw [Bool.eq_false_iff]
      intro h
      rw [List.any_eq_true] at h
      obtain ⟨p, hp, hid⟩ := h
      exact hinv.disjoint p hp x hx (by simpa using hid)
    · intro hno
      apply getitem_sec _ (findSec_name_of_mem hinv hx)
      simp only [propsContains]
      rw [Bool.eq_false_iff]
      intro h
      rw [List.any_eq_true] at h
      obtain ⟨p, hp, hn⟩ := h
      exact hno p hp (by simpa using hn)

/-- `section[name] = data` followed by `section[name]` returns `data` (a non-list is stored as a
one-element list and handed back unwrapped), whether the assignment created the property or replaced
the values of an existing one. -/
theorem C10_dict_setitem_getitem {st : State} (hr : Reachable st) {name : Str} {inp : Input}
    (hwf : inp.WF = true) (hok : (step st (.setitem name (.val inp))).2 = .ok .unit) :
    ∃ cells, inp.asListData.assigned? = some cells ∧
      getitem (step st (.setitem name (.val inp))).1 (.name name) = .ok (unwrap cells) := by
  have hr' : Reachable (step st (.setitem name (.val inp))).1 := hr.step (by simpa [Op.WF] using hwf)
  have hinv' := hr'.inv
  obtain ⟨ws, hws⟩ := asListData_list inp
  have hset : setitem st name (.val inp) =
      (if !propsContains st (.name name) then createProperty st name (.list ws)
       else match findProp st (.key (.name name)) with
        | .error e => (st, .error e)
        | .ok p => (st.putProp (setValues p (.list ws)).1, (setValues p (.list ws)).2)) := by
    simp only [setitem, hws] <;> rfl
  have hres : (setitem st name (.val inp)).2 = .ok () := by
    have hstep : (step st (.setitem name (.val inp))) = lift (setitem st name (.val inp)) := rfl
    rw [hstep] at hok
    simp only [lift] at hok
    cases h2 : (setitem st name (.val inp)).2 with
    | ok u => rfl
    | error e => simp [h2] at hok
  have hst1 : (step st (.setitem name (.val inp))).1 = (setitem st name (.val inp)).1 := rfl
  rw [hst1] at hinv' ⊢
  rw [hws]
  by_cases hc : propsContains st (.name name) = true
  · -- existing property: values replaced
    obtain ⟨p, hf⟩ := propsContains_iff.mp hc
    rw [hset] at hres hinv' ⊢
    simp only [hc, Bool.not_true, Bool.false_eq_true, if_false, hf] at hres hinv' ⊢
    obtain ⟨cells, hs, hp'⟩ := setValues_ok hres
    refine ⟨cells, hs, ?_⟩
    have := findProp_putProp hr.inv hf (setValues_head p (.list ws)).1
    rw [getitem_prop this, hp']
  · -- new property
    have hc' : propsContains st (.name name) = false := by simpa using hc
    rw [hset] at hres hinv' ⊢
    simp only [hc', Bool.not_false, if_true] at hres hinv' ⊢
    rcases createProperty_cases st name (.list ws) with ⟨e, h'⟩ | ⟨dt, n, vals, d, hplan, hd, _, _, hsv, h'⟩
    · rw [h'] at hres; simp at hres
    · have hvals := createPlan_of_list hplan
      subst hvals
      rw [h'] at hinv' ⊢
      simp only at hinv' ⊢
      obtain ⟨cells, hs, hp'⟩ := setValues_ok hsv
      refine ⟨cells, hs, ?_⟩
      have hmem : (setValues (newProp st name d n) (.list ws)).1 ∈
          (st.props ++ [(setValues (newProp st name d n) (.list ws)).1]) := by simp
      have hname : (setValues (newProp st name d n) (.list ws)).1.name = name :=
        (setValues_head (newProp st name d n) (.list ws)).1.name
      have := findProp_name_of_mem hinv' hmem
      rw [hname] at this
      rw [getitem_prop this, hp']

/-- `del section[key]` removes exactly the property the key resolves to: the other properties keep
their order and content, the child sections stay, `len` drops by one and neither the name nor the
id of the deleted property is `in` the property list any more. -/
theorem C10_dict_delitem {st : State} (hr : Reachable st) {k : PKey}
    (hok : (step st (.delitem k)).2 = .ok .unit) :
    ∃ p, findProp st k = .ok p ∧
      (step st (.delitem k)).1.props = st.props.filter (·.id != p.id) ∧
      (step st (.delitem k)).1.secs = st.secs ∧
      secLen (step st (.delitem k)).1 + 1 = secLen st ∧
      propsContains (step st (.delitem k)).1 (.name p.name) = false ∧
      propsContains (step st (.delitem k)).1 (.id p.id) = false := by
  have hinv := hr.inv
  have hres : (delitem st k).2 = .ok () := by
    have : (step st (.delitem k)) = lift (delitem st k) := rfl
    rw [this] at hok
    simp only [lift] at hok
    cases h2 : (delitem st k).2 with
    | ok u => rfl
    | error e => simp [h2] at hok
  obtain ⟨p, hf, hst⟩ := delitem_ok hres
  have hp := findProp_mem hf
  have hst' : (step st (.delitem k)).1 = (delitem st k).1 := rfl
  rw [hst', hst]
  refine ⟨p, hf, rfl, ?_, ?_, ?_, ?_⟩
  · show st.secs.filter (·.id != p.id) = st.secs
    rw [List.filter_eq_self]
    intro x hx
    have := hinv.disjoint p hp x hx
    simp; exact fun h => this h.symm
  · show (st.props.filter (·.id != p.id)).length + 1 = st.props.length
    exact filter_id_length hinv.ids hp
  · simp only [propsContains]
    rw [Bool.eq_false_iff]
    intro h
    rw [List.any_eq_true] at h
    obtain ⟨q, hq, hn⟩ := h
    obtain ⟨hq1, hq2⟩ := List.mem_filter.mp hq
    have : q = p := eq_of_name hinv.names hq1 hp (by simpa using hn)
    subst this
    simp at hq2
  · simp only [propsContains]
    rw [Bool.eq_false_iff]
    intro h
    rw [List.any_eq_true] at h
    obtain ⟨q, hq, hn⟩ := h
    obtain ⟨_, hq2⟩ := List.mem_filter.mp hq
    simp at hq2 hn
    exact hq2 hn

/-! ## the model is the interpretation of what the translator reads from the source

`NixModel/Generated/PropValsShape.lean` is rewritten from `nixio/property.py`, `datatype.py`,
`section.py` on every run (`harness/extract/propvals.py`).  The theorems below are *about the
generated definitions*: an edit of the source that reorders, drops or adds a statement of the
`values` setter / `extend_values` / `delete_values`, changes the `isinstance` chain of `get_dtype`
or the collections the dictionary methods consult, changes the generated file and breaks them. -/

open Shape in
/-- `DataType.get_dtype`: the model's chain is the chain in the source, test for test. -/
theorem C10_get_dtype_is_source_chain (c : PyClass) : getDtypeCls c = evalChain Gen.getDtypeChain c := by
  cases c <;> rfl

open Shape in
/-- The `values` setter of the model is the statement list of the source, run in source order — for
every property and every input. -/
theorem C10_values_setter_is_source_order (p : PropRec) (inp : Input) :
    setValues p inp = Shape.run Gen.valuesSetterBody p inp := by
  cases inp with
  | none => rfl
  | type t => exact (setter_list p .other []).symm
  | list vs =>
    cases vs with
    | nil => rfl
    | cons v vs => exact (setter_list p v vs).symm
  | scalar v =>
    by_cases hv : v.isEmptyStr = true
    · simp [Shape.run, Gen.valuesSetterBody, exec, Prim.sem, setValues, hv]
    · have : Shape.run Gen.valuesSetterBody p (.scalar v) =
          exec [.checkTypes, .checkText, .convert, .resizeTo, .writeAll, .stamp] { p := p, x := .list [v] } := by
        simp [Shape.run, Gen.valuesSetterBody, exec, Prim.sem, hv, wrap, Input.asElem]
      rw [this, setter_list]
      simp [setValues, hv]
  | ndarray dt shape data =>
    cases shape with
    | nil => rfl
    | cons n ns =>
      cases n with
      | zero => rfl
      | succ n =>
        cases ns with
        | nil =>
          simp only [Shape.run, Gen.valuesSetterBody, exec, Prim.sem, wrap, setValues, Input.elems, inputCells]
          cases h : checkNewValueTypes p.dtype (.ndarray dt [n + 1] data) with
          | error e => rfl
          | ok u => simp [textRefused]
        | cons m ms =>
          simp only [Shape.run, Gen.valuesSetterBody, exec, Prim.sem, wrap, setValues, Input.elems, inputCells]
          cases h : checkNewValueTypes p.dtype (.ndarray dt ((n + 1) :: m :: ms) data) with
          | error e => rfl
          | ok u => simp [textRefused]

open Shape in
/-- `extend_values` of the model is the statement list of the source, run in source order. -/
theorem C10_extend_values_is_source_order (p : PropRec) (inp : Input) :
    extendValues p inp = Shape.run Gen.extendValuesBody p inp := by
  simp only [Shape.run, Gen.extendValuesBody, exec, Prim.sem, extendValues]
  cases h : checkNewValueTypes p.dtype inp with
  | error e => rfl
  | ok u =>
    simp only [wrap_elems]
    by_cases hn : textRefused p.dtype inp.elems = true
    · simp [hn]
    · cases hc : inputCells p.dtype inp with
      | error e => simp [hn, wrap_cells, hc]
      | ok cs => simp [hn, wrap_cells, hc, resize_take]

open Shape in
/-- `delete_values`. -/
theorem C10_delete_values_is_source_order (p : PropRec) (x : Input) :
    Shape.run Gen.deleteValuesBody p x = (p.clear, .ok ()) := rfl

open Shape in
/-- **In the source, every statement that can refuse precedes the first statement that changes the
dataset** — in the `values` setter and in `extend_values` — and *therefore* (by
`exec_refusal_unchanged`, which holds for any statement list with that order) whatever they raise,
the stored values are what they were.  This derives `setValues_refused` / `extendValues_refused`
from the order of the statements read from the source, not from the hand-written functions. -/
theorem C10_source_checks_precede_writes :
    checksFirst Gen.valuesSetterBody = true ∧ checksFirst Gen.extendValuesBody = true ∧
    (∀ (p : PropRec) (inp : Input) (e : Err), (setValues p inp).2 = .error e → (setValues p inp).1 = p) ∧
    (∀ (p : PropRec) (inp : Input) (e : Err), (extendValues p inp).2 = .error e → (extendValues p inp).1 = p) := by
  have h1 : checksFirst Gen.valuesSetterBody = true := by decide
  have h2 : checksFirst Gen.extendValuesBody = true := by decide
  refine ⟨h1, h2, ?_, ?_⟩
  · intro p inp e h
    rw [C10_values_setter_is_source_order] at h ⊢
    exact exec_refusal_unchanged _ { p := p, x := inp } e h1 h
  · intro p inp e h
    rw [C10_extend_values_is_source_order] at h ⊢
    exact exec_refusal_unchanged _ { p := p, x := inp } e h2 h

open Shape in
/-- The dictionary methods consult the collections the source names, in the source's order:
`items()` / iteration list `props` then `sections`; `in` asks `props` or `sections`; `len` counts
`props`; `section[key]` is a child section exactly when the key is not in `props` but in `sections`
and a property's value(s) otherwise, a list of the length the source names being unwrapped. -/
theorem C10_dict_is_source_order (st : State) :
    items st = Gen.itemsOrder.flatMap (Coll.listing st) ∧
    (step st .iter).2 = .ok (.items (Gen.itemsOrder.flatMap (Coll.listing st))) ∧
    (∀ k, contains st k = Gen.containsOrder.any (Coll.has st k)) ∧
    secLen st = Gen.lenOf.size st ∧
    (∀ k, (!Gen.getitemGuard.1.has st k && Gen.getitemGuard.2.has st k) = true →
      getitem st k = (match findSec st k with | .ok x => .ok (.section x) | .error e => .error e)) ∧
    (∀ k p, (!Gen.getitemGuard.1.has st k && Gen.getitemGuard.2.has st k) = false →
      findProp st (.key k) = .ok p →
      getitem st k = .ok (if p.vals.length = Gen.getitemUnwrapLen then
        (match p.vals with | [c] => .scalar c | cs => .values cs) else .values p.vals)) := by
  refine ⟨by simp [items, Gen.itemsOrder, Coll.listing], by simp [step, items, Gen.itemsOrder, Coll.listing],
    fun k => by simp [contains, Gen.containsOrder, Coll.has], rfl, ?_, ?_⟩
  · intro k h
    simp only [Gen.getitemGuard, Coll.has] at h
    simp only [getitem, h, if_true]
    rfl
  · intro k p h hf
    simp only [Gen.getitemGuard, Coll.has] at h
    simp only [getitem, h, hf, Gen.getitemUnwrapLen]
    cases hv : p.vals with
    | nil => simp
    | cons c cs =>
      cases cs with
      | nil => simp
      | cons d ds => simp

/-! ## kept `Property` objects: one value list per property, whatever object is used -/

/-- **A history with kept objects is a history of calls on fresh lookups.**  Whatever the
interleaving of calls through fresh lookups and calls through `Property` objects kept from earlier
lookups (`hold`, `createHold`), the section is in a state the plain operations can reach — so every
theorem above holds of it — and no kept object dangles: each stands for exactly one property of the
section. -/
theorem C10_kept_objects_refine_lookups {hs : HState} (hr : HReachable hs) :
    Reachable hs.st ∧
    (∀ ops : List HOp, (hrun hs ops).st = run hs.st (eraseAll hs ops)) ∧
    (∀ e ∈ hs.handles, ∃ p ∈ hs.st.props, p.id = e.2 ∧ ∀ q ∈ hs.st.props, q.id = e.2 → q = p) := by
  refine ⟨hr.reachable, fun ops => hrun_st ops hs, ?_⟩
  intro e he
  obtain ⟨p, hp, hid⟩ := hr.hinv.live e he
  exact ⟨p, hp, hid, fun q hq hqid => eq_of_id hr.hinv.inv.ids hq hp (by rw [hqid, hid])⟩

/-- **A kept object reads the current record.**  In every reachable state, every getter of a kept
object reports exactly what a fresh lookup of its property — by id or by name — reports: the values
last stored through *any* object, the data type, the attributes. -/
theorem C10_kept_object_reads_current {hs : HState} (hr : HReachable hs) {h pid : Nat}
    (hl : lookupH hs.handles h = some pid) :
    ∃ p ∈ hs.st.props, p.id = pid ∧
      hstep hs (.hget h) = (hs, .ok (.prop p)) ∧
      (hstep hs (.plain (.get (.key (.id pid))))).2 = .ok (.prop p) ∧
      (hstep hs (.plain (.get (.key (.name p.name))))).2 = .ok (.prop p) := by
  obtain ⟨p, hp, hid⟩ := hr.hinv.live _ (lookupH_mem hl)
  have hfid : findProp hs.st (.key (.id pid)) = .ok p := by
    have := findProp_id_of_mem hr.hinv.inv hp
    rwa [hid] at this
  have hfn := findProp_name_of_mem hr.hinv.inv hp
  exact ⟨p, hp, hid, hget_of hl hfid, plain_get_of hfid, plain_get_of hfn⟩

/-- **Written through one object, read through another.**  After a successful assignment through
the kept object `h1`, *every* kept object `h2` of the same property — however long ago it was
obtained and whatever it has read before — returns exactly the values the input denotes; so does a
fresh lookup. -/
theorem C10_kept_object_write_read {hs : HState} (hr : HReachable hs) {h1 h2 pid : Nat} {inp : Input}
    (hwf : inp.WF = true) (hl1 : lookupH hs.handles h1 = some pid) (hl2 : lookupH hs.handles h2 = some pid)
    (hok : (hstep hs (.hset h1 inp)).2 = .ok .unit) :
    ∃ p cells, p ∈ hs.st.props ∧ p.id = pid ∧ inp.assigned? = some cells ∧
      (hstep (hstep hs (.hset h1 inp)).1 (.hget h2)).2 = .ok (.prop { p with vals := cells }) ∧
      (hstep (hstep hs (.hset h1 inp)).1 (.plain (.get (.key (.name p.name))))).2 =
        .ok (.prop { p with vals := cells }) := by
  have hs1 : hstep hs (.hset h1 inp) =
      ({ hs with st := (step hs.st (.set (.key (.id pid)) inp)).1 }, (step hs.st (.set (.key (.id pid)) inp)).2) := by
    simp only [hstep, viaHandle, hl1]
  rw [hs1] at hok ⊢
  obtain ⟨p, cells, hf, hcells, hf', _⟩ := C10_read_last_stored hr.reachable hwf hok
  have hr' : Reachable (step hs.st (.set (.key (.id pid)) inp)).1 := hr.reachable.step (by simpa [Op.WF] using hwf)
  have hp' := findProp_mem hf'
  have hfn := findProp_name_of_mem hr'.inv hp'
  refine ⟨p, cells, findProp_mem hf, findProp_id_eq hf, hcells, ?_, ?_⟩
  · rw [hget_of (hs := { hs with st := (step hs.st (.set (.key (.id pid)) inp)).1 }) hl2 hf']
  · exact plain_get_of (hs := { hs with st := (step hs.st (.set (.key (.id pid)) inp)).1 }) hfn

/-- **Written through a fresh lookup, read through a kept object.**  After a successful assignment
through any key (`section.props[k].values = …`, and likewise `section[name] = …`, which is the same
call on the property found by name), a kept object of that property returns the new values. -/
theorem C10_kept_object_sees_lookup_write {hs : HState} (hr : HReachable hs) {k : PKey} {h : Nat} {p : PropRec}
    {inp : Input} (hwf : inp.WF = true) (hf : findProp hs.st k = .ok p) (hl : lookupH hs.handles h = some p.id)
    (hok : (hstep hs (.plain (.set k inp))).2 = .ok .unit) :
    ∃ cells, inp.assigned? = some cells ∧
      (hstep (hstep hs (.plain (.set k inp))).1 (.hget h)).2 = .ok (.prop { p with vals := cells }) := by
  have hok' : (step hs.st (.set k inp)).2 = .ok .unit := hok
  obtain ⟨p0, cells, hf0, hcells, hf', _⟩ := C10_read_last_stored hr.reachable hwf hok'
  have hpp : p0 = p := by rw [hf] at hf0; injection hf0 with h; exact h.symm
  subst hpp
  have hr' : Reachable (step hs.st (.set k inp)).1 := hr.reachable.step (by simpa [Op.WF] using hwf)
  have hp' := findProp_mem hf'
  have hfid := findProp_id_of_mem hr'.inv hp'
  have hl' : lookupH (hstep hs (.plain (.set k inp))).1.handles h = some p0.id :=
    lookupH_prune hl ⟨_, hp', rfl⟩
  refine ⟨cells, hcells, ?_⟩
  have hst : (hstep hs (.plain (.set k inp))).1.st = (step hs.st (.set k inp)).1 := rfl
  rw [hget_of hl' (by rw [hst]; exact hfid)]

/-- **Extending through a kept object appends after what is stored now** — not after what the
object saw when it was obtained or last read: after `extend_values` through `h1`, every kept object
`h2` of the property reads the values stored immediately before the call followed by the new ones. -/
theorem C10_kept_object_extend_appends {hs : HState} (hr : HReachable hs) {h1 h2 pid : Nat} {inp : Input}
    (hwf : inp.WF = true) (hl1 : lookupH hs.handles h1 = some pid) (hl2 : lookupH hs.handles h2 = some pid)
    (hok : (hstep hs (.hextend h1 inp)).2 = .ok .unit) :
    ∃ p cells, p ∈ hs.st.props ∧ p.id = pid ∧ inp.appended? = some cells ∧
      (hstep (hstep hs (.hextend h1 inp)).1 (.hget h2)).2 = .ok (.prop { p with vals := p.vals ++ cells }) := by
  have hs1 : hstep hs (.hextend h1 inp) =
      ({ hs with st := (step hs.st (.extend (.key (.id pid)) inp)).1 },
       (step hs.st (.extend (.key (.id pid)) inp)).2) := by
    simp only [hstep, viaHandle, hl1]
  rw [hs1] at hok ⊢
  obtain ⟨p, cells, hf, hcells, hf'⟩ := C10_extend_appends hr.reachable hwf hok
  refine ⟨p, cells, findProp_mem hf, findProp_id_eq hf, hcells, ?_⟩
  rw [hget_of (hs := { hs with st := (step hs.st (.extend (.key (.id pid)) inp)).1 }) hl2 hf']

/-- A kept object stays bound to its property across every call that does not delete that property,
close the file or rebind the program variable: calls through any kept object, and calls through
fresh lookups after which the property still exists. -/
theorem C10_kept_object_stays_bound {hs : HState} {h pid : Nat} (hl : lookupH hs.handles h = some pid) :
    (∀ h' inp, lookupH (hstep hs (.hset h' inp)).1.handles h = some pid) ∧
    (∀ h' inp, lookupH (hstep hs (.hextend h' inp)).1.handles h = some pid) ∧
    (∀ h', lookupH (hstep hs (.hclear h')).1.handles h = some pid) ∧
    (∀ h', lookupH (hstep hs (.hget h')).1.handles h = some pid) ∧
    (∀ op, op ≠ .reopen → (∃ p ∈ (step hs.st op).1.props, p.id = pid) →
      lookupH (hstep hs (.plain op)).1.handles h = some pid) := by
  have via : ∀ h' mk, lookupH (viaHandle hs h' mk).1.handles h = some pid := by
    intro h' mk
    unfold viaHandle
    cases lookupH hs.handles h' <;> exact hl
  refine ⟨fun h' inp => via h' _, fun h' inp => via h' _, fun h' => via h' _, fun h' => via h' _, ?_⟩
  intro op hne hlive
  have : (hstep hs (.plain op)).1.handles = prune (step hs.st op).1 hs.handles := by
    cases op <;> first | rfl | exact absurd rfl hne
  rw [this]
  exact lookupH_prune hl hlive

/-- Refusals through kept objects: a refused call through a kept `Property` object changes nothing
either (neither the section nor the table of kept objects). -/
theorem C10_kept_object_refusal_unchanged {hs : HState} (hr : HReachable hs) {op : HOp} (hwf : op.WF = true)
    {e : Err} (herr : (hstep hs op).2 = .error e) : (hstep hs op).1.st = hs.st := by
  have hR := hr.reachable
  have via : ∀ h (mk : PKey → Op), (∀ k, (mk k).WF = true) → (viaHandle hs h mk).2 = .error e →
      (viaHandle hs h mk).1.st = hs.st := by
    intro h mk hmk
    unfold viaHandle
    cases lookupH hs.handles h with
    | none => intro _; rfl
    | some pid => intro h2; exact C10_refused_unchanged hR (hmk _) h2
  cases op with
  | plain op => exact C10_refused_unchanged hR (by simpa [HOp.WF] using hwf) herr
  | hold h k =>
    simp only [hstep] at herr ⊢
    cases findProp hs.st k <;> rfl
  | createHold h name inp =>
    simp only [hstep] at herr ⊢
    cases h2 : (step hs.st (.create name inp)).2 with
    | ok x => simp [h2] at herr
    | error e' =>
      simp only [h2] at herr ⊢
      exact C10_refused_unchanged hR (by simpa [HOp.WF, Op.WF] using hwf) h2
  | hset h inp => exact via h _ (fun k => by simpa [HOp.WF, Op.WF] using hwf) herr
  | hextend h inp => exact via h _ (fun k => by simpa [HOp.WF, Op.WF] using hwf) herr
  | hclear h => exact via h _ (fun k => rfl) herr
  | hsetAttr h a v => exact via h _ (fun k => rfl) herr
  | hsetOdml h o => exact via h _ (fun k => rfl) herr
  | hget h => exact via h _ (fun k => rfl) herr
  | drop h => rfl

/-! ## non-vacuity -/

/-- a concrete history: create, refuse `True` into the int property, clear, extend, reopen, extend -/
def demoOps : List Op :=
  [.create ['i'] (.list [.pyInt 1, .pyInt 2]),
   .set (.key (.name ['i'])) (.list [.pyInt 5, .pyBool true]),
   .clear (.key (.name ['i'])),
   .extend (.key (.name ['i'])) (.list [.pyInt 7]),
   .reopen,
   .extend (.idx 0) (.scalar (.npInt 9)),
   .setitem ['k'] (.val (.scalar (.pyStr ['ä']))),
   .mksec ['k'] ['t']]

example : Reachable (run State.init demoOps) := ⟨demoOps, by decide, rfl⟩
example : (run State.init demoOps).props.map (fun p => (p.name, p.dtype, p.vals)) =
    [(['i'], .int64, [.i 7, .i 9]), (['k'], .string, [.s ['ä']])] := by decide
example : (step (run State.init (demoOps.take 1)) (demoOps.getD 1 .len)).2 = .error .typeError := by rfl
example : getitem (run State.init demoOps) (.name ['k']) = .ok (.scalar (.s ['ä'])) := by rfl
example : (step (run State.init demoOps) (.set (.idx 0) (.list [.pyInt 9223372036854775808]))) =
    (run State.init demoOps, .error .overflowError) := by rfl
example : (step State.init (.create ['p'] (.ndarray (.num .int32) [2] [.i 1, .i 2]))) =
    (State.init, .error .typeError) := by rfl
example : ((step State.init (.create ['p'] (.ndarray (.num .int64) [2] [.i 1, .i 2]))).1.props.map (·.vals)) =
    [[.i 1, .i 2]] := by rfl

-- text containing NUL (embedded or trailing) and a bare numpy integer beyond int64: refused, nothing changed
example : (step (run State.init demoOps) (.set (.key (.name ['k'])) (.list [.pyStr ['a', Char.ofNat 0, 'b']]))) =
    (run State.init demoOps, .error .valueError) := by rfl
example : (step (run State.init demoOps) (.extend (.key (.name ['k'])) (.scalar (.pyStr ['a', Char.ofNat 0])))) =
    (run State.init demoOps, .error .valueError) := by rfl
example : (step (run State.init demoOps) (.extend (.idx 0) (.scalar (.npInt 18446744073709551615)))) =
    (run State.init demoOps, .error .overflowError) := by rfl

/-- two objects of one property: `0` is what `create_property` returned, `1` a later lookup; the
property is assigned through the dictionary view, extended through `0`, cleared through `1`, extended
through `0` again -/
def demoHOps : List HOp :=
  [.createHold 0 ['p'] (.list [.pyInt 1, .pyInt 2]),
   .hold 1 (.idx 0),
   .plain (.setitem ['p'] (.val (.list [.pyInt 3]))),
   .hextend 0 (.list [.pyInt 4, .pyInt 5]),
   .hclear 1,
   .hextend 0 (.scalar (.pyInt 6)),
   .plain (.create ['q'] (.scalar (.pyStr ['x']))),
   .hold 2 (.key (.name ['q'])),
   .plain (.delitem (.key (.name ['q'])))]

example : HReachable (hrun HState.init demoHOps) := ⟨demoHOps, by decide, rfl⟩
example : (hrun HState.init (demoHOps.take 4)).st.props.map (·.vals) = [[.i 3, .i 4, .i 5]] := by decide
example : (hrun HState.init demoHOps).st.props.map (·.vals) = [[.i 6]] := by decide
example : (hrun HState.init demoHOps).handles = [(1, 0), (0, 0)] := by decide
example : lookupH (hrun HState.init (demoHOps.take 2)).handles 0 = some 0 ∧
    lookupH (hrun HState.init (demoHOps.take 2)).handles 1 = some 0 := by decide
example : eraseAll HState.init (demoHOps.take 4) =
    [.create ['p'] (.list [.pyInt 1, .pyInt 2]), .get (.idx 0), .setitem ['p'] (.val (.list [.pyInt 3])),
     .extend (.key (.id 0)) (.list [.pyInt 4, .pyInt 5])] := by rfl

end Nix.C10
