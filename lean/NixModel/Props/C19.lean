import NixModel.Pure.Stamps
import NixModel.Pure.StampsCreate
import NixModel.Lemmas.C19Time
import NixModel.Lemmas.C19Stamps
import NixModel.Lemmas.C19TimeFormat

/-!
# C19 — time stamps: creation time is fixed, update time follows attribute changes

Property theorems only; helper lemmas live in `NixModel/Lemmas/C19*.lean`.  The statements are
about `Pure.Time` (`time_to_str` / `str_to_time` with `Py.Civil` standing in for CPython's
`datetime`) and the time stamp machine `Pure.Stamps`, whose setter behaviour is read from
`Generated/Setters.lean` (regenerated from the nixio sources by AST on every run).

A state stores, per entity, the *text* of `created_at` / `updated_at`; reading is `readStamp`.
"For all histories" is induction over the list of operations given to `run`.
-/
namespace Nix.C19
open Nix.Time Nix.Stamps Nix.Stamps.Gen Nix.Stamps.Lemmas Nix.Time.Lemmas Nix.Time.Gen Nix.Civil

/-! ## the string conversion -/

/-- forcing / writing any whole second between 1970-01-01T00:00:00 and 2099-12-31T23:59:59 and
parsing the stored text returns that second -/
theorem C19_roundtrip (t : Int) (h : InRange t) :
    ∃ v, timeToStr t = .ok v ∧ strToTime v = .ok t :=
  timeToStr_ok_of_inRange t h

example : InRange 951868799 ∧ timeToStr 951868799 = .ok "20000229T235959".toList := by decide +kernel

/-! ## the conversions follow the format strings and the epoch of the source -/

/-- `time_to_str` has its canonical body, and formatting `datetime.utcfromtimestamp(t)` with the format string
the source hands to `strftime` (generated: `strftimeFormat`) is the model's `timeToStr` — for every `t` -/
theorem C19_time_to_str_follows_source (t : Int) :
    timeToStrCanonical = true ∧ timeToStrWith strftimeFormat t = timeToStr t := by
  refine ⟨by decide, ?_⟩
  rw [timeToStr_fields]
  unfold timeToStrWith
  cases fieldsOf t with
  | error e => rfl
  | ok f => simp only [formatWith_source]

/-- the date the source subtracts in `str_to_time` is the model's epoch (1970-01-01) -/
theorem C19_epoch_is_source : dayOfCivil epoch.1 epoch.2.1 epoch.2.2 = epochShift := by decide


set_option linter.unusedVariables false in
/-- `str_to_time` has its canonical body, and parsing with the format string the source hands to `strptime`
(generated: `strptimeFormat`; fixed-width fields) and subtracting the generated epoch is the model's `strToTime`
— for every string -/
theorem C19_str_to_time_follows_source (s : Str) :
    strToTimeCanonical = true ∧ strToTimeWith strptimeFormat epoch s = strToTime s := by
  refine ⟨by decide, ?_⟩
  by_cases hlen : s.length = 15
  · match s, hlen with
    | [], h => exact absurd h (by simp)
    | [a1], h => exact absurd h (by simp)
    | [a1, a2], h => exact absurd h (by simp)
    | [a1, a2, a3], h => exact absurd h (by simp)
    | [a1, a2, a3, a4], h => exact absurd h (by simp)
    | [a1, a2, a3, a4, a5], h => exact absurd h (by simp)
    | [a1, a2, a3, a4, a5, a6], h => exact absurd h (by simp)
    | [a1, a2, a3, a4, a5, a6, a7], h => exact absurd h (by simp)
    | [a1, a2, a3, a4, a5, a6, a7, a8], h => exact absurd h (by simp)
    | [a1, a2, a3, a4, a5, a6, a7, a8, a9], h => exact absurd h (by simp)
    | [a1, a2, a3, a4, a5, a6, a7, a8, a9, a10], h => exact absurd h (by simp)
    | [a1, a2, a3, a4, a5, a6, a7, a8, a9, a10, a11], h => exact absurd h (by simp)
    | [a1, a2, a3, a4, a5, a6, a7, a8, a9, a10, a11, a12], h => exact absurd h (by simp)
    | [a1, a2, a3, a4, a5, a6, a7, a8, a9, a10, a11, a12, a13], h => exact absurd h (by simp)
    | [a1, a2, a3, a4, a5, a6, a7, a8, a9, a10, a11, a12, a13, a14], h => exact absurd h (by simp)
    | [a1, a2, a3, a4, a5, a6, a7, a8, a9, a10, a11, a12, a13, a14, a15], _ => exact str15 a1 a2 a3 a4 a5 a6 a7 a8 a9 a10 a11 a12 a13 a14 a15
    | a1 :: a2 :: a3 :: a4 :: a5 :: a6 :: a7 :: a8 :: a9 :: a10 :: a11 :: a12 :: a13 :: a14 :: a15 :: a16 :: rest, h => exact absurd h (by simp)
  · rw [strToTime_length s hlen]
    unfold strToTimeWith
    split
    · rfl
    · rename_i f hf
      have := parseWith_length strptimeFormat _ f s hf
      exact absurd this (by simpa [strptimeFormat, pieceWidth] using hlen)


/-- hence the round trip holds for the source's own format strings: every whole second of 1970…2100, written
with the `strftime` format of `time_to_str` and parsed with the `strptime` format and epoch of `str_to_time`,
comes back -/
theorem C19_roundtrip_source_formats (t : Int) (h : InRange t) :
    ∃ v, timeToStrWith strftimeFormat t = .ok v ∧ strToTimeWith strptimeFormat epoch v = .ok t := by
  obtain ⟨v, h1, h2⟩ := C19_roundtrip t h
  exact ⟨v, by rw [(C19_time_to_str_follows_source t).2]; exact h1,
    by rw [(C19_str_to_time_follows_source v).2]; exact h2⟩

example : timeToStrWith strftimeFormat 951868799 = .ok "20000229T235959".toList ∧
    -- another format gives another text, an unknown directive is refused, a text of another layout is refused
    timeToStrWith [.year, .lit '-', .month] 0 = .ok "1970-01".toList ∧
    timeToStrWith [.year, .other 'y'] 0 = .error .valueError ∧
    strToTimeWith strptimeFormat epoch "2000-02-29T23:59".toList = .error .valueError ∧
    strToTimeWith strptimeFormat epoch "20000229t235959".toList = .ok 951868799 := by
  decide +kernel

/-! ## no time stamp is written outside the test of the switch

`Generated/Setters.lean` records, for every method and setter of every class of nixio/*.py, the
touch state in which each path of its body ends.  `always` = the path ran `self.force_updated_at()`
as a statement of its own, not under `if self.file.auto_update_timestamps:` — the object's
`updated_at` would be written although the user switched the automatic time stamps off (the model's
`step` does exactly that for such an outcome, see the `example` below).  The source has no such path,
in any member of any class; every theorem about histories below rests on this fact. -/

def noUnguardedOk : Bool :=
  members.all fun mb => mb.outcomes.all fun o => o.touch != .always

theorem C19_no_unguarded_stamp : Nix.Stamps.Lemmas.NoUnguarded := by
  have hall : noUnguardedOk = true := by decide +kernel
  intro mb hmb o ho
  have h1 := (List.all_eq_true.mp hall) mb hmb
  have h2 := (List.all_eq_true.mp h1) o ho
  simpa using h2

/-- what the model does with an unguarded path, had the source one: the call writes the entity's
`updated_at` whatever the switch says (the hypotheses cannot be met by the table as it is - that is
`C19_no_unguarded_stamp` - so this describes the model, and says why the fact above is needed: an edit
of the source that adds such a path makes the model follow it and breaks `C19_no_unguarded_stamp`) -/
theorem C19_unguarded_would_stamp (s : State) (e : Nat) (ent : Ent) (via : Option Cls) (m : Mem)
    (mb : Member) (o : Outcome) (v : Str) (hal : aliveAt s e = some ent)
    (hres : resolve (via.getD ent.kind.cls) m = some mb)
    (hk : mb.kind = .setter ∨ mb.kind = .method) (ho : o ∈ mb.outcomes) (ht : o.touch = .always)
    (hv : timeToStr s.clock = .ok v) :
    (step s (.call e via m o)).1.ents = setUpdated s.ents e v := by
  have hc : mb.outcomes.contains o = true := List.contains_iff_mem.mpr ho
  cases via <;> simp only [Option.getD] at hres <;>
    rcases hk with hk | hk <;> simp only [step, hal, hres, hk, hc, ht, hv] <;> cases s.auto <;> simp

/-- the second sentence of the property, call by call: with the switch off, a call of ANY member of
any class (any entry of the generated table, any of its paths, accepted or refused, made directly or
through a helper object) leaves the whole state as it is - no stamp of any entity moves.  Rests on
`C19_no_unguarded_stamp`: for a path that stamps outside the switch test the model would write
(`C19_unguarded_would_stamp`). -/
theorem C19_switch_off_call_unchanged (s : State) (hoff : s.auto = false) (e : Nat) (via : Option Cls)
    (m : Mem) (o : Outcome) : (step s (.call e via m o)).1 = s := by
  simp only [step]
  split
  · rfl
  · split
    · rfl
    · rename_i mb hres
      split
      · rfl
      · rfl
      · split
        · rfl
        · rename_i hin
          simp only [hoff, Bool.false_eq_true, if_false]
          split
          · rename_i htouch
            exact absurd htouch (Nix.Stamps.Lemmas.not_always C19_no_unguarded_stamp hres hin)
          · rfl

/-- the File object's own members - `close`, `flush`, `validate`, `open`, `__enter__` / `__exit__`, the
creating functions, `copy_section`, the header helpers - have no path that stamps anything and invoke no
stamping member of another object: ending a session, flushing or validating writes no time stamp; the
File's own stamps are written by `File.__init__` on a file that lacks them (`C19_file_init_effect`) and
by its `force_*_at` methods, nothing else.  (The model's `reopen` = `close` + `File.open` therefore
keeps every stored stamp: it changes the switch only.) -/
def fileMembersOk : Bool :=
  members.all fun mb => mb.cls != .File || ((mb.outcomes.all fun o => o.touch == .none) && mb.foreign.isEmpty)

theorem C19_file_members_never_stamp (mb : Member) (hmb : mb ∈ members) (hc : mb.cls = .File) :
    (∀ o ∈ mb.outcomes, o.touch = .none) ∧ mb.foreign = [] := by
  have hall : fileMembersOk = true := by decide +kernel
  have h := (List.all_eq_true.mp hall) mb hmb
  simp only [hc, bne_self_eq_false, Bool.false_or, Bool.and_eq_true, List.all_eq_true, beq_iff_eq,
    List.isEmpty_iff] at h
  exact h

theorem C19_reopen_keeps_stamps (s : State) (a : Bool) :
    (step s (.reopen a)).1.ents = s.ents ∧ (step s (.reopen a)).1.clock = s.clock ∧
    (step s (.reopen a)).1.auto = a := ⟨rfl, rfl, rfl⟩

example : ((resolve .File .m_close).map (·.outcomes)) = some [⟨.returns, .none⟩, ⟨.raises, .none⟩] := by
  decide +kernel

/-! ## where the machinery is named at all

`stampSites` lists every place of nixio/**/*.py (the test suite excluded) that names `created_at`,
`updated_at`, `force_created_at`, `force_updated_at`, `now_int`, `time_to_str` or the switch, by file and
scope.  All of them stand in methods of the classes the member table analyses (where the flow
analysis and the creator / force / getter renderings account for each one), in util's own
definitions and export list, in the format converter `nixio/cmd/upgrade.py` (which builds objects
with h5py, outside the object model), or are plain reads of a getter (validator, explore tool).
Nothing else: no module-level code or plain function of an entity module, nothing in the HDF5 layer
`nixio/hdf5/**` - where a write would bypass every table above. -/

def sitesOk : Bool :=
  stampSites.all fun s => s.kind != .stray &&
    (s.kind != .member || !(s.file.startsWith "hdf5/" || s.file.startsWith "util/" || s.file.startsWith "cmd/"))

theorem C19_stamp_sites (s : StampSite) (hs : s ∈ stampSites) :
    s.kind ≠ .stray ∧ (s.kind = .member → ¬ (s.file.startsWith "hdf5/" = true)) := by
  have hall : sitesOk = true := by decide +kernel
  have h := (List.all_eq_true.mp hall) s hs
  simp only [Bool.and_eq_true, bne_iff_ne, ne_eq, Bool.or_eq_true, Bool.not_eq_true',
    Bool.not_eq_eq_eq_not, Bool.not_true] at h
  refine ⟨h.1, fun hm => ?_⟩
  rcases h.2 with h2 | h2
  · exact absurd hm h2
  · intro hf; simp [hf] at h2

example : (stampSites.filter fun s => s.kind == .tool).map (·.file) = ["cmd/upgrade.py", "cmd/upgrade.py"] ∧
    (stampSites.filter fun s => s.kind == .definition).map (·.file) = ["util/util.py"] ∧
    (stampSites.any fun s => s.kind == .member && s.scope == "DataFrame.units") = true := by decide +kernel

/-! ## which members hand a change on to another object

A call stamps its own object (`outcomes`), or it invokes a stamping member of ANOTHER object, which
then stamps that object by its own entry of the table: `section[name] = v` for a name in use is
`property.values = v`; `dim.label = …` / `dim.unit = …` of a linked `RangeDimension` is the
`DimensionLink` setter (the linked data object); the creating functions run setters on the entity
they have just made.  `Member.foreign` lists, for every member, the stamping member names its body
invokes on anything but the bare `self` (by name - an over-approximation).  The members that do so
are exactly these; every other member of every class can write no stored time stamp but its own
object's.  (`S.__setattr__`, the `setattr(section, name, value)` of the section builder, may reach
any setter of a section.) -/

def delegating : List (Cls × Mem × List Mem) := [
  (.Block, .m_create_multi_tag, [.m_extents, .m_label, .m_unit]),
  (.Block, .m_create_data_array, [.m_label, .m_unit]),
  (.Block, .m_create_data_frame, [.m_values]),
  (.DataArray, .m_append_sampled_dimension, [.m_label, .m_unit]),
  (.DataArray, .m_append_range_dimension, [.m_label, .m_unit]),
  (.RangeDimension, .m_label, [.m_label]),
  (.RangeDimension, .m_unit, [.m_unit]),
  (.Feature, .m_create_new, [.m_data, .m_link_type]),
  (.MultiTag, .m_create_new, [.m_positions]),
  (.Section, .m_create_property, [.m_values]),
  (.Section, .m___setitem__, [.m_values]),
  (.Tag, .m_create_new, [.m_position])]

def stampingNames : List Mem :=
  ((members.filter fun mb => mb.outcomes.any fun o => o.touch != .none).map (·.mem)).eraseDups

def foreignOk : Bool :=
  ((members.filter fun mb => !mb.foreign.isEmpty && mb.cls != .S).map
      fun mb => (mb.cls, mb.mem, mb.foreign)) == delegating &&
  members.all fun mb => mb.foreign.all fun f => stampingNames.contains f

/-- the members (outside the section builder `S`) whose body invokes a stamping member of another
object are exactly `delegating`, with exactly these names; every name listed anywhere is one that
stamps in some class -/
theorem C19_foreign_calls :
    ((members.filter fun mb => !mb.foreign.isEmpty && mb.cls != .S).map
      fun mb => (mb.cls, mb.mem, mb.foreign)) = delegating ∧
    ∀ mb ∈ members, ∀ f ∈ mb.foreign, f ∈ stampingNames := by
  have hall : foreignOk = true := by decide +kernel
  simp only [foreignOk, Bool.and_eq_true, List.all_eq_true, beq_iff_eq] at hall
  refine ⟨hall.1, fun mb hmb f hf => ?_⟩
  exact List.contains_iff_mem.mp (hall.2 mb hmb f hf)

/-- every other member invokes no stamping member of any other object -/
theorem C19_no_foreign_elsewhere (mb : Member) (hmb : mb ∈ members) (hS : mb.cls ≠ .S)
    (hnot : (mb.cls, mb.mem, mb.foreign) ∉ delegating) : mb.foreign = [] := by
  cases hf : mb.foreign with
  | nil => rfl
  | cons a l =>
    exfalso
    apply hnot
    rw [← C19_foreign_calls.1]
    refine List.mem_map.mpr ⟨mb, List.mem_filter.mpr ⟨hmb, ?_⟩, rfl⟩
    simp [hf, hS]

example : (resolve .Section .m___setitem__).map (·.foreign) = some [.m_values] ∧
    (resolve .DataFrame .m_append_column).map (·.foreign) = some [] ∧
    (resolve .Group .m_definition).map (·.foreign) = some [] := by decide +kernel

/-! ## creation time is fixed -/

/-- over any history, the stored creation time of an existing entity is unchanged unless the
history contains `force_created_at` on that very entity (the entity may have been deleted
meanwhile; its index stays) -/
theorem C19_created_fixed (ops : List Op) : ∀ (s : State) (j : Nat) (e : Ent),
    s.ents[j]? = some e → (∀ op ∈ ops, ∀ t, op ≠ .forceCreated j t) →
    ∃ e', (run s ops).ents[j]? = some e' ∧ e'.created = e.created := by
  induction ops with
  | nil => intro s j e h _; exact ⟨e, h, rfl⟩
  | cons op ops ih =>
    intro s j e h hops
    obtain ⟨e1, h1, hstep⟩ := step_ent C19_no_unguarded_stamp s op j e h
    have hc : e1.created = e.created := by
      cases hstep with
      | same => rfl
      | dead => rfl
      | touched v _ _ _ _ => rfl
      | forcedU t v _ _ => rfl
      | forcedC t v hop _ => exact absurd hop (hops op (List.mem_cons_self ..) t)
    obtain ⟨e', h', hc'⟩ := ih (step s op).1 j e1 h1
      (fun o ho t => hops o (List.mem_cons_of_mem _ ho) t)
    exact ⟨e', h', hc'.trans hc⟩

example : ∃ s, State.open 1000 true = .ok s ∧
    (run s [.create .block 0 .good, .setClock 2000, .call 1 none .m_definition ⟨.returns, .self⟩]).ents[1]?.map
      (fun e => (readStamp e.created, readStamp e.updated)) = some (.ok (some 1000), .ok (some 2000)) :=
  ⟨_, rfl, by decide +kernel⟩

/-! ## the update time never moves backwards while the clock does not -/

/-- every stored update time parses to a second that is not after the clock, and the clock is a
whole second of 1970…2100 -/
def Inv (s : State) : Prop :=
  InRange s.clock ∧ ∀ (j : Nat) (e : Ent) (v : Str), s.ents[j]? = some e → e.updated = some v →
    ∃ u, strToTime v = .ok u ∧ u ≤ s.clock

/-- histories without force calls in which the clock is only set forwards (within 1970…2100) -/
def Admissible : State → List Op → Prop
  | _, [] => True
  | s, op :: ops => op.isForce = false ∧
      (match op with | .setClock t => s.clock ≤ t ∧ InRange t | _ => True) ∧
      Admissible (step s op).1 ops

theorem inv_open (clock : Int) (auto : Bool) (s : State) (hc : InRange clock)
    (h : State.open clock auto = .ok s) : Inv s := by
  obtain ⟨v, hv, hr⟩ := timeToStr_ok_of_inRange clock hc
  simp only [State.open, hv] at h
  cases h
  refine ⟨hc, ?_⟩
  intro j e w hj hu
  cases j with
  | zero =>
    simp at hj
    subst hj
    simp at hu
    subst hu
    exact ⟨clock, hr, Int.le_refl _⟩
  | succ n => simp at hj

theorem inv_step (s : State) (op : Op) (hinv : Inv s)
    (hclk : match op with | .setClock t => s.clock ≤ t ∧ InRange t | _ => True)
    (hf : op.isForce = false) : Inv (step s op).1 := by
  obtain ⟨hr, hall⟩ := hinv
  have hclock : s.clock ≤ (step s op).1.clock ∧ InRange (step s op).1.clock := by
    rw [step_clock]
    cases op with
    | setClock t => exact hclk
    | _ => exact ⟨Int.le_refl _, hr⟩
  refine ⟨hclock.2, ?_⟩
  intro j e' v hj hu
  rcases Nat.lt_or_ge j s.ents.length with hlt | hge
  · have hsome : ∃ e, s.ents[j]? = some e := ⟨s.ents[j], by simp [hlt]⟩
    obtain ⟨e, he⟩ := hsome
    obtain ⟨e1, h1, hstep⟩ := step_ent C19_no_unguarded_stamp s op j e he
    rw [h1] at hj
    cases hj
    cases hstep with
    | same =>
      obtain ⟨u, hu1, hu2⟩ := hall j _ v he hu
      exact ⟨u, hu1, Int.le_trans hu2 hclock.1⟩
    | dead =>
      obtain ⟨u, hu1, hu2⟩ := hall j _ v he hu
      exact ⟨u, hu1, Int.le_trans hu2 hclock.1⟩
    | touched w _ _ _ hw =>
      simp at hu
      subst hu
      obtain ⟨w', hw', hrt⟩ := timeToStr_ok_of_inRange s.clock hr
      rw [hw] at hw'
      cases hw'
      exact ⟨s.clock, hrt, hclock.1⟩
    | forcedU t w hop _ => subst hop; simp [Op.isForce] at hf
    | forcedC t w hop _ => subst hop; simp [Op.isForce] at hf
  · rcases step_new s op j e' hge hj with ⟨w, hw, _, hwu⟩ | ⟨src, se, hsrc, _, hsu⟩
    · rw [hwu] at hu
      cases hu
      obtain ⟨w', hw', hrt⟩ := timeToStr_ok_of_inRange s.clock hr
      rw [hw] at hw'
      cases hw'
      exact ⟨s.clock, hrt, hclock.1⟩
    · -- a copy carries the update time of its source, which is not after the clock
      rw [hsu] at hu
      obtain ⟨u, hu1, hu2⟩ := hall src se v hsrc hu
      exact ⟨u, hu1, Int.le_trans hu2 hclock.1⟩

/-- with a non-decreasing clock and no force calls, the update time every entity reports is
non-decreasing along any history (from any state in which no stored update time lies in the
future — in particular from a freshly created file, `inv_open`) -/
theorem C19_monotone (ops : List Op) : ∀ (s : State), Inv s → Admissible s ops →
    ∀ (j : Nat) (e : Ent) (u : Int), s.ents[j]? = some e → readStamp e.updated = .ok (some u) →
    ∃ e' u', (run s ops).ents[j]? = some e' ∧ readStamp e'.updated = .ok (some u') ∧ u ≤ u' := by
  induction ops with
  | nil => intro s _ _ j e u h hu; exact ⟨e, u, h, hu, Int.le_refl _⟩
  | cons op ops ih =>
    intro s hinv hadm j e u h hu
    obtain ⟨hf, hclk, hrest⟩ := hadm
    have hinv' := inv_step s op hinv hclk hf
    obtain ⟨e1, h1, hstep⟩ := step_ent C19_no_unguarded_stamp s op j e h
    have hmid : ∃ u1, readStamp e1.updated = .ok (some u1) ∧ u ≤ u1 := by
      cases hstep with
      | same => exact ⟨u, hu, Int.le_refl _⟩
      | dead => exact ⟨u, hu, Int.le_refl _⟩
      | touched w _ _ _ hw =>
        refine ⟨s.clock, readStamp_written s.clock hinv.1 w hw, ?_⟩
        cases hupd : e.updated with
        | none => rw [hupd] at hu; simp [readStamp] at hu
        | some v0 =>
          obtain ⟨u0, hu0, hle⟩ := hinv.2 j e v0 h hupd
          rw [hupd] at hu
          simp [readStamp, hu0] at hu
          omega
      | forcedU t w hop _ => subst hop; simp [Op.isForce] at hf
      | forcedC t w hop _ => subst hop; simp [Op.isForce] at hf
    obtain ⟨u1, hu1, hle1⟩ := hmid
    obtain ⟨e', u', h', hu', hle'⟩ := ih (step s op).1 hinv' hrest j e1 u1 h1 hu1
    exact ⟨e', u', h', hu', Int.le_trans hle1 hle'⟩

/-- the same from a freshly created file: every history without force calls and with a forward
clock keeps every entity's reported update time non-decreasing from the moment it is first seen -/
theorem C19_monotone_from_open (clock : Int) (auto : Bool) (s0 : State) (hc : InRange clock)
    (hopen : State.open clock auto = .ok s0) (pre ops : List Op) (hadm : Admissible s0 (pre ++ ops))
    (j : Nat) (e : Ent) (u : Int) (h : (run s0 pre).ents[j]? = some e)
    (hu : readStamp e.updated = .ok (some u)) :
    ∃ e' u', (run s0 (pre ++ ops)).ents[j]? = some e' ∧ readStamp e'.updated = .ok (some u') ∧
      u ≤ u' := by
  have key : ∀ (pre : List Op) (s : State), Inv s → Admissible s (pre ++ ops) →
      Inv (run s pre) ∧ Admissible (run s pre) ops ∧ run s (pre ++ ops) = run (run s pre) ops := by
    intro pre
    induction pre with
    | nil => intro s hi ha; exact ⟨hi, ha, rfl⟩
    | cons op pre ih =>
      intro s hi ha
      obtain ⟨hf, hclk, hrest⟩ := ha
      exact ih (step s op).1 (inv_step s op hi hclk hf) hrest
  obtain ⟨hi, ha, hrun⟩ := key pre s0 (inv_open clock auto s0 hc hopen) hadm
  rw [hrun]
  exact C19_monotone ops (run s0 pre) hi ha j e u h hu

example : ∃ s, State.open 1000 true = .ok s ∧
    Admissible s [.create .block 0 .good, .setClock 2000, .call 1 none .m_type ⟨.returns, .self⟩] :=
  ⟨_, rfl, rfl, trivial, rfl, ⟨by decide +kernel, by decide +kernel⟩, rfl, trivial, trivial⟩

/-! ## switch off: only force calls change a time stamp -/

/-- with `auto_update_timestamps` off, over any history that contains no force call and does not
switch it on again (by assignment or by re-opening), both stored stamps of every existing entity
are unchanged -/
theorem C19_auto_off (ops : List Op) : ∀ (s : State), s.auto = false →
    (∀ op ∈ ops, op.isForce = false ∧ op ≠ .setAuto true ∧ op ≠ .reopen true) →
    ∀ (j : Nat) (e : Ent), s.ents[j]? = some e →
    ∃ e', (run s ops).ents[j]? = some e' ∧ e'.created = e.created ∧ e'.updated = e.updated := by
  induction ops with
  | nil => intro s _ _ j e h; exact ⟨e, h, rfl, rfl⟩
  | cons op ops ih =>
    intro s hoff hops j e h
    obtain ⟨hf, hna, hnr⟩ := hops op (List.mem_cons_self ..)
    have hoff' : (step s op).1.auto = false := by
      rw [step_auto]
      cases op with
      | setAuto b => cases b with
        | true => exact absurd rfl hna
        | false => rfl
      | reopen b => cases b with
        | true => exact absurd rfl hnr
        | false => rfl
      | _ => exact hoff
    obtain ⟨e1, h1, hstep⟩ := step_ent C19_no_unguarded_stamp s op j e h
    have hsame : e1.created = e.created ∧ e1.updated = e.updated := by
      cases hstep with
      | same => exact ⟨rfl, rfl⟩
      | dead => exact ⟨rfl, rfl⟩
      | touched w hauto _ _ _ => rw [hoff] at hauto; cases hauto
      | forcedU t w hop _ => subst hop; simp [Op.isForce] at hf
      | forcedC t w hop _ => subst hop; simp [Op.isForce] at hf
    obtain ⟨e', h', hc, hu⟩ := ih (step s op).1 hoff'
      (fun o ho => hops o (List.mem_cons_of_mem _ ho)) j e1 h1
    exact ⟨e', h', hc.trans hsame.1, hu.trans hsame.2⟩

example : ∃ s, State.open 1000 false = .ok s ∧
    (run s [.create .block 0 .good, .setClock 2000, .call 1 none .m_definition ⟨.returns, .self⟩]).ents[1]?.map
      (fun e => readStamp e.updated) = some (.ok (some 1000)) :=
  ⟨_, rfl, by decide +kernel⟩

/-! ## switch on: a listed attribute sets that entity's update time, and no other entity's -/

def Kind.all : List Kind :=
  [.file, .block, .group, .dataArray, .dataFrame, .tag, .multiTag, .source, .section, .property,
   .feature]

theorem Kind.mem_all (k : Kind) : k ∈ Kind.all := by cases k <;> decide

/-- the attribute list of the property text as member names: type, definition, label, unit,
calibration (polynomial coefficients, expansion origin), position, extent, units, positions,
extents, reference, repository, link type, feature data, adding a dimension -/
def listed : List Mem :=
  [.m_type, .m_definition, .m_label, .m_unit, .m_polynom_coefficients, .m_expansion_origin,
   .m_position, .m_extent, .m_units, .m_positions, .m_extents, .m_reference, .m_repository,
   .m_link_type, .m_data, .m_append_set_dimension, .m_append_sampled_dimension,
   .m_append_range_dimension, .m_append_range_dimension_using_self]

/-- decidable form of `C19_listed_setters_touch_self` / `C19_listed_refusal_unstamped`: over the
path-sensitive outcome lists regenerated from the source -/
def listedOk : Bool :=
  Kind.all.all fun k => listed.all fun m =>
    match resolve k.cls m with
    | none => true
    | some mb => (mb.kind == .setter || mb.kind == .method) &&
        mb.outcomes.all (fun o => match o.exit with
          | .returns => o.touch == .self
          | .raises => o.touch == .none) &&
        mb.outcomes.any (fun o => o.exit == .returns)

/-- (table, path-sensitive) for every entity kind and every listed attribute that the kind has, the
definition Python resolves is a setter / method in which **every path that returns normally has run
the auto-update idiom on the object itself** — an early `return` that skips the idiom, or an idiom
under a condition, is an outcome `⟨.returns, .none⟩` and breaks this theorem — and it has a
returning path at all.  Evaluated on the outcome lists regenerated from the source by
`harness/extract/setters.py`. -/
theorem C19_listed_setters_touch_self (k : Kind) (m : Mem) (hm : m ∈ listed) (mb : Member)
    (h : resolve k.cls m = some mb) :
    (mb.kind = .setter ∨ mb.kind = .method) ∧
    (∀ o ∈ mb.outcomes, o.exit = .returns → o.touch = .self) ∧
    (∃ o ∈ mb.outcomes, o.exit = .returns) := by
  have hall : listedOk = true := by decide +kernel
  simp only [listedOk, List.all_eq_true] at hall
  have := hall k (Kind.mem_all k) m hm
  rw [h] at this
  simp only [Bool.and_eq_true, Bool.or_eq_true, beq_iff_eq, List.all_eq_true, List.any_eq_true] at this
  obtain ⟨⟨hk, hout⟩, hex⟩ := this
  refine ⟨hk, ?_, hex⟩
  intro o ho hret
  have := hout o ho
  rw [hret] at this
  simpa using this

/-- (table, path-sensitive) a listed setter that refuses its argument — any path that ends in an
exception — has not run the idiom before: nothing after the idiom can still refuse the call -/
theorem C19_listed_refusal_unstamped (k : Kind) (m : Mem) (hm : m ∈ listed) (mb : Member)
    (h : resolve k.cls m = some mb) :
    ∀ o ∈ mb.outcomes, o.exit = .raises → o.touch = .none := by
  have hall : listedOk = true := by decide +kernel
  simp only [listedOk, List.all_eq_true] at hall
  have := hall k (Kind.mem_all k) m hm
  rw [h] at this
  simp only [Bool.and_eq_true, List.all_eq_true] at this
  intro o ho hr
  have := this.1.2 o ho
  rw [hr] at this
  simpa using this

/-- every listed attribute exists on some entity kind (the table theorem is not vacuous), and
every entity kind except the file has at least one listed attribute -/
example : listed.all (fun m => Kind.all.any fun k => (resolve k.cls m).isSome) = true := by
  decide +kernel
example : (Kind.all.filter fun k => !(listed.any fun m => (resolve k.cls m).isSome)) = [.file] := by
  decide +kernel

/-- with the switch on, assigning a listed attribute of a live entity (clock within 1970…2100),
**whichever returning path of the setter the call takes**, makes that entity report the current
time as its update time, leaves its creation time alone, and leaves every other entity exactly as
it was -/
theorem C19_auto_on_local (s : State) (e : Nat) (ent : Ent) (m : Mem) (mb : Member) (o : Outcome)
    (he : s.ents[e]? = some ent) (halive : ent.alive = true) (hauto : s.auto = true)
    (hm : m ∈ listed) (hres : resolve ent.kind.cls m = some mb) (ho : o ∈ mb.outcomes)
    (hret : o.exit = .returns) (hclock : InRange s.clock) :
    (step s (.call e none m o)).2 = .done ∧
    (∃ e', (step s (.call e none m o)).1.ents[e]? = some e' ∧
        readStamp e'.updated = .ok (some s.clock) ∧ e'.created = ent.created) ∧
    (∀ j, j ≠ e → (step s (.call e none m o)).1.ents[j]? = s.ents[j]?) := by
  obtain ⟨hkind, htouch, _⟩ := C19_listed_setters_touch_self ent.kind m hm mb hres
  have htouch := htouch o ho hret
  obtain ⟨v, hv, _⟩ := timeToStr_ok_of_inRange s.clock hclock
  have hal : aliveAt s e = some ent := by simp [aliveAt, he, halive]
  have hstep : step s (.call e none m o) = ({ s with ents := setUpdated s.ents e v }, .done) := by
    rcases hkind with hk | hk <;> simp [step, hal, hres, hk, hauto, htouch, hv, ho, hret]
  rw [hstep]
  refine ⟨rfl, ?_, ?_⟩
  · refine ⟨{ ent with updated := some v }, by simp [getElem?_setUpdated, he], ?_, rfl⟩
    exact readStamp_written s.clock hclock v hv
  · intro j hj
    simp only [getElem?_setUpdated]
    cases s.ents[j]? with
    | none => rfl
    | some x => simp [Ne.symm hj]

example : resolve Kind.property.cls .m_unit =
      some ⟨.Property, .m_unit, .setter, [⟨.returns, .self⟩, ⟨.raises, .none⟩], []⟩ ∧
    resolve Kind.multiTag.cls .m_definition =
      some ⟨.Entity, .m_definition, .setter, [⟨.returns, .self⟩, ⟨.raises, .none⟩], []⟩ ∧
    resolve Kind.multiTag.cls .m_extents =
      some ⟨.MultiTag, .m_extents, .setter, [⟨.returns, .self⟩, ⟨.raises, .none⟩], []⟩ ∧
    resolve Kind.feature.cls .m_data =
      some ⟨.Feature, .m_data, .setter, [⟨.returns, .self⟩, ⟨.raises, .none⟩], []⟩ := by
  decide +kernel

/-- when the model predicts the outcome of an accepted call (`Member.acceptedOutcome`, used by the
driver for harness histories, which say "accepted" without naming a path), that outcome is one the
source has, it returns, and every other returning path of the member ends in the same touch state:
the prediction does not depend on the path the implementation takes -/
theorem C19_accepted_outcome_determined (mb : Member) (o : Outcome)
    (h : mb.acceptedOutcome = some o) :
    o.exit = .returns ∧ o ∈ mb.outcomes ∧
    ∀ o' ∈ mb.outcomes, o'.exit = .returns → o'.touch = o.touch := by
  unfold Member.acceptedOutcome at h
  split at h
  · rename_i t ht
    cases h
    have hall : ∀ x ∈ mb.returnTouches, x = t := by
      intro x hx
      have : x ∈ mb.returnTouches.eraseDups := List.mem_eraseDups.mpr hx
      rw [ht] at this
      simpa using this
    have ht_mem : t ∈ mb.returnTouches := by
      have : t ∈ mb.returnTouches.eraseDups := by rw [ht]; simp
      exact List.mem_eraseDups.mp this
    refine ⟨rfl, ?_, ?_⟩
    · simp only [Member.returnTouches, List.mem_map, List.mem_filter] at ht_mem
      obtain ⟨o', ⟨ho', hr⟩, htt⟩ := ht_mem
      have : o' = ⟨.returns, t⟩ := by
        cases o' with
        | mk e tt => simp at hr htt; subst hr; subst htt; rfl
      rw [← this]; exact ho'
    · intro o' ho' hr
      apply hall
      simp only [Member.returnTouches, List.mem_map, List.mem_filter]
      exact ⟨o', ⟨ho', by simp [hr]⟩, rfl⟩
  · cases h

/-- a member whose returning paths disagree has no predicted outcome (`DataFrame.append_column`
stamps only when the frame has units), a listed setter always has: the touching one -/
example : (resolve .DataFrame .m_append_column).map (·.acceptedOutcome) = some none ∧
    (resolve .MultiTag .m_extents).map (·.acceptedOutcome) = some (some ⟨.returns, .self⟩) := by
  decide +kernel

/-- no operation of any kind (listed or not, accepted or refused, switch on or off) changes a
stored time stamp of an entity other than the one it is directed at -/
theorem C19_only_target (s : State) (op : Op) (j : Nat) (e : Ent) (h : s.ents[j]? = some e)
    (hne : Op.target s op ≠ some j) :
    ∃ e', (step s op).1.ents[j]? = some e' ∧ e'.created = e.created ∧ e'.updated = e.updated := by
  obtain ⟨e1, h1, hstep⟩ := step_ent C19_no_unguarded_stamp s op j e h
  refine ⟨e1, h1, ?_⟩
  cases hstep with
  | same => exact ⟨rfl, rfl⟩
  | dead => exact ⟨rfl, rfl⟩
  | touched w _ _ ht _ => exact absurd ht hne
  | forcedU t w hop _ => subst hop; simp [Op.target] at hne
  | forcedC t w hop _ => subst hop; simp [Op.target] at hne

/-- histories in which no operation is directed at entity `j` -/
def NotTargeted (j : Nat) : State → List Op → Prop
  | _, [] => True
  | s, op :: ops => Op.target s op ≠ some j ∧ NotTargeted j (step s op).1 ops

/-- over any history, whatever happens to other entities (attribute changes with the switch on,
force calls, creations, deletions, re-opening): an entity at which no operation is directed keeps
both stored time stamps -/
theorem C19_untargeted_history (ops : List Op) : ∀ (s : State) (j : Nat) (e : Ent),
    s.ents[j]? = some e → NotTargeted j s ops →
    ∃ e', (run s ops).ents[j]? = some e' ∧ e'.created = e.created ∧ e'.updated = e.updated := by
  induction ops with
  | nil => intro s j e h _; exact ⟨e, h, rfl, rfl⟩
  | cons op ops ih =>
    intro s j e h hnt
    obtain ⟨e1, h1, hc1, hu1⟩ := C19_only_target s op j e h hnt.1
    obtain ⟨e', h', hc, hu⟩ := ih (step s op).1 j e1 h1 hnt.2
    exact ⟨e', h', hc.trans hc1, hu.trans hu1⟩

example : ∃ s, State.open 1000 true = .ok s ∧
    NotTargeted 1 (run s [.create .block 0 .good, .create .block 0 .good])
      [.setClock 2000, .call 2 none .m_type ⟨.returns, .self⟩, .forceCreated 2 (.at 5), .delete 2] :=
  ⟨_, rfl, by decide +kernel, by decide +kernel, by decide +kernel, by decide +kernel, trivial⟩

/-- the update time a listed setter wrote stays: after the call of `C19_auto_on_local`, over any
further history in which no operation is directed at that entity (other entities may be changed,
created, deleted, forced; the file may be re-opened; the clock may move either way), the entity
still reports the time of that call -/
theorem C19_listed_update_persists (s : State) (e : Nat) (ent : Ent) (m : Mem) (mb : Member)
    (o : Outcome) (ops : List Op)
    (he : s.ents[e]? = some ent) (halive : ent.alive = true) (hauto : s.auto = true)
    (hm : m ∈ listed) (hres : resolve ent.kind.cls m = some mb) (ho : o ∈ mb.outcomes)
    (hret : o.exit = .returns) (hclock : InRange s.clock)
    (hnt : NotTargeted e (step s (.call e none m o)).1 ops) :
    ∃ e', (run (step s (.call e none m o)).1 ops).ents[e]? = some e' ∧
      readStamp e'.updated = .ok (some s.clock) ∧ e'.created = ent.created := by
  obtain ⟨_, ⟨e1, h1, hu1, hc1⟩, _⟩ :=
    C19_auto_on_local s e ent m mb o he halive hauto hm hres ho hret hclock
  obtain ⟨e', h', hc, hu⟩ := C19_untargeted_history ops _ e e1 h1 hnt
  exact ⟨e', h', by rw [hu]; exact hu1, hc.trans hc1⟩

/-- a call that ends — by an exception or a `return` — on a path on which the idiom has not run,
and a refused creation, leave the whole state as it was (whatever the switch says) -/
theorem C19_refused_unchanged (s : State) (e : Nat) (via : Option Cls) (m : Mem) (k : Kind)
    (o : Outcome) (ho : o.touch = .none) :
    (step s (.call e via m o)).1 = s ∧ (step s (.create k e .refusedEarly)).1 = s := by
  constructor
  · simp only [step, ho]
    repeat' split
    all_goals rfl
  · simp only [step]
    repeat' split
    all_goals rfl

/-- a listed setter that refuses its argument (any raising path the source has) leaves every time
stamp as it was: the refusal comes before the idiom on every path -/
theorem C19_listed_refused_unchanged (s : State) (e : Nat) (k : Kind) (m : Mem) (mb : Member)
    (o : Outcome) (hm : m ∈ listed) (hres : resolve k.cls m = some mb) (ho : o ∈ mb.outcomes)
    (hr : o.exit = .raises) :
    (step s (.call e none m o)).1 = s :=
  (C19_refused_unchanged s e none m .block o
    (C19_listed_refusal_unstamped k m hm mb hres o ho hr)).1

example : ∃ s, State.open 1000 true = .ok s ∧
    (step (run s [.create .block 0 .good, .setClock 2000])
        (.call 1 none .m_type ⟨.raises, .none⟩)).2 = .refused ∧
    (step (run s [.create .block 0 .good, .setClock 2000])
        (.call 1 none .m_type ⟨.returns, .none⟩)).2 = .bad :=
  ⟨_, rfl, by decide +kernel, by decide +kernel⟩

/-! ## reading a time stamp does not depend on the object through which it is read -/

/-- (table) for every entity kind, the `created_at` / `updated_at` getter Python resolves is exactly
`return util.str_to_time(<that stored attribute>)`: a getter that keeps a copy in the Python object,
or reads the other attribute, breaks this theorem -/
theorem C19_getters_read_store (k : Kind) :
    getterBody k.cls .created = some (.parsesStored .created) ∧
    getterBody k.cls .updated = some (.parsesStored .updated) := by
  cases k <;> exact ⟨by decide +kernel, by decide +kernel⟩

/-- hence what any handle reports is the parsed stored attribute of the file — in every state, for
every entity -/
theorem C19_observe_is_stored (s : State) (i : Nat) :
    observe s i .created = readCreated s i ∧ observe s i .updated = readUpdated s i := by
  simp only [observe, readCreated, readUpdated]
  cases h : s.ents[i]? with
  | none => exact ⟨rfl, rfl⟩
  | some e =>
    obtain ⟨hc, hu⟩ := C19_getters_read_store e.kind
    simp [hc, hu, Ent.stored]

/-- a created entity starts with both time stamps equal to the current time (clock within
1970…2100), and creating it leaves every existing entity as it was -/
theorem C19_create_stamps_now (s : State) (k : Kind) (p : Nat) (pe : Ent)
    (hp : s.ents[p]? = some pe) (halive : pe.alive = true) (hv : validParent k pe.kind = true)
    (hclock : InRange s.clock) :
    (step s (.create k p .good)).2 = .done ∧
    observe (step s (.create k p .good)).1 s.ents.length .created = some (.ok (some s.clock)) ∧
    observe (step s (.create k p .good)).1 s.ents.length .updated = some (.ok (some s.clock)) ∧
    (∀ j, j < s.ents.length → (step s (.create k p .good)).1.ents[j]? = s.ents[j]?) := by
  obtain ⟨v, hts, _⟩ := timeToStr_ok_of_inRange s.clock hclock
  have hal : aliveAt s p = some pe := by simp [aliveAt, hp, halive]
  have hstep : step s (.create k p .good) =
      ({ s with ents := s.ents ++ [{ kind := k, parent := p, alive := true, created := some v,
                                     updated := some v }] }, .done) := by
    simp [step, hal, hv, hts]
  rw [hstep]
  have hr := readStamp_written s.clock hclock v hts
  obtain ⟨hgc, hgu⟩ := C19_getters_read_store k
  refine ⟨rfl, ?_, ?_, ?_⟩
  · simp [observe, hgc, Ent.stored, hr]
  · simp [observe, hgu, Ent.stored, hr]
  · intro j hj
    simp [List.getElem?_append_left hj]

example : ∃ s, State.open 1000 true = .ok s ∧
    observe (step s (.create .block 0 .good)).1 1 .created = some (.ok (some 1000)) :=
  ⟨_, rfl, by decide +kernel⟩

/-- `create_*(copy_from=src)` / `copy_section(src)` of a live entity of a copyable kind inside a live owner:
the entities that exist stay as they are; appended are the copies of `src` and of every live entity `src`
owns (`subtree`), in order, and the `k`-th of them carries the kind and the stored creation and update time
of the `k`-th member of the subtree (`H5Group.copy` duplicates the attributes; whether or not the ids are
kept); `src` is itself a member, so it has a copy -/
theorem C19_copy_keeps_source_stamps (s : State) (src p : Nat) (se pe : Ent)
    (hs : s.ents[src]? = some se) (hsa : se.alive = true) (hp : s.ents[p]? = some pe)
    (hpa : pe.alive = true) (hv : validParent se.kind pe.kind = true) (hc : copyable se.kind = true) :
    (step s (.copy src p)).2 = .done ∧
    (step s (.copy src p)).1.ents = s.ents ++ copies s.ents src p ∧
    (∀ j, j < s.ents.length → (step s (.copy src p)).1.ents[j]? = s.ents[j]?) ∧
    (∀ k x, (subtree s.ents src)[k]? = some x →
       ∃ e', (step s (.copy src p)).1.ents[s.ents.length + k]? = some e' ∧ e'.kind = x.1.kind ∧
         e'.created = x.1.created ∧ e'.updated = x.1.updated ∧ e'.alive = true ∧
         s.ents[x.2]? = some x.1) ∧
    (se, src) ∈ subtree s.ents src := by
  have h1 : aliveAt s src = some se := by simp [aliveAt, hs, hsa]
  have h2 : aliveAt s p = some pe := by simp [aliveAt, hp, hpa]
  have hstep : step s (.copy src p) = ({ s with ents := s.ents ++ copies s.ents src p }, .done) := by
    simp [step, h1, h2, hv, hc]
  have hlt : src < s.ents.length := by
    rcases Nat.lt_or_ge src s.ents.length with h | h
    · exact h
    · rw [List.getElem?_eq_none h] at hs; cases hs
  rw [hstep]
  refine ⟨rfl, rfl, ?_, ?_, ?_⟩
  · intro j hj
    simp [List.getElem?_append_left hj]
  · intro k x hk
    have hx : x ∈ subtree s.ents src := List.mem_of_getElem? hk
    have hxz : x ∈ s.ents.zipIdx := (List.mem_filter.mp hx).1
    have hal : x.1.alive = true := by
      have := (List.mem_filter.mp hx).2
      simp only [Bool.and_eq_true] at this
      exact this.1
    have hget : s.ents[x.2]? = some x.1 := by
      have := List.mem_zipIdx hxz
      simp only [Nat.zero_le, Nat.zero_add, Nat.sub_zero, true_and] at this
      obtain ⟨hl, heq⟩ := this
      rw [List.getElem?_eq_getElem hl, heq]
    refine ⟨copyOf s.ents (subtree s.ents src) src p x, ?_, rfl, rfl, rfl, hal, hget⟩
    simp only
    rw [List.getElem?_append_right (Nat.le_add_right _ _), Nat.add_sub_cancel_left]
    simp [copies, hk]
  · refine List.mem_filter.mpr ⟨?_, ?_⟩
    · have hget : s.ents[src] = se := by
        rw [List.getElem?_eq_getElem hlt] at hs
        exact Option.some.inj hs
      rw [← hget]
      exact List.mem_zipIdx_iff_getElem?.mpr (by simp [hlt])
    · simp only [hsa, Bool.true_and]
      cases hn : s.ents.length with
      | zero => omega
      | succ n => simp [ownedBy]

example : ∃ s, State.open 1000 true = .ok s ∧
    (run s [.create .block 0 .good, .create .dataArray 1 .good, .setClock 2000,
            .call 2 none .m_label ⟨.returns, .self⟩, .setClock 3000, .copy 2 1]).ents.map
      (fun e => (readStamp e.created, readStamp e.updated)) =
      [(.ok (some 1000), .ok (some 1000)), (.ok (some 1000), .ok (some 1000)),
       (.ok (some 1000), .ok (some 2000)), (.ok (some 1000), .ok (some 2000))] :=
  ⟨_, rfl, by decide +kernel⟩

/-- a tag with a feature, copied: the copy of the tag is owned by the block, the copy of the feature by
the copy of the tag, each with the stamps of its source (created at 2000 / 3000, copied at 4000) -/
example : ∃ s, State.open 1000 true = .ok s ∧
    ((run s [.create .block 0 .good, .create .dataArray 1 .good, .setClock 2000, .create .tag 1 .good,
             .setClock 3000, .create .feature 3 .good, .setClock 4000, .copy 3 1]).ents.drop 5).map
      (fun e => (e.kind, e.parent, readStamp e.created, readStamp e.updated)) =
      [(.tag, 1, .ok (some 2000), .ok (some 2000)), (.feature, 5, .ok (some 3000), .ok (some 3000))] :=
  ⟨_, rfl, by decide +kernel⟩

/-! ## forcing a time stamp and reading it back, also after re-opening -/

/-- operations that only concern the session: re-opening, the switch, the clock -/
def Op.isSession : Op → Bool
  | .reopen _ => true
  | .setAuto _ => true
  | .setClock _ => true
  | _ => false

def forceOk : Bool :=
  Kind.all.all fun k => k == .feature ||
    ((match resolve k.cls .m_force_created_at with
      | some mb => mb.kind == .forceCreated | none => false) &&
     (match resolve k.cls .m_force_updated_at with
      | some mb => mb.kind == .forceUpdated | none => false) &&
     forceCanonical k.cls .created && forceCanonical k.cls .updated)

theorem run_session (ops : List Op) : ∀ (s : State), (∀ op ∈ ops, Op.isSession op = true) →
    (run s ops).ents = s.ents := by
  induction ops with
  | nil => intro s _; rfl
  | cons op ops ih =>
    intro s h
    have h1 : (step s op).1.ents = s.ents := by
      have := h op (List.mem_cons_self ..)
      cases op <;> simp [Op.isSession] at this <;> rfl
    simp only [run]
    rw [ih _ (fun o ho => h o (List.mem_cons_of_mem _ ho)), h1]

/-- forcing `created_at` / `updated_at` of a live entity (of any kind that has the force methods:
all but `Feature`) to a whole second of 1970…2100 is accepted and the entity then reports that
second — also after any sequence of close/re-open, switch and clock changes -/
theorem force_roundtrip_stored (s : State) (e : Nat) (ent : Ent) (t : Int) (sess : List Op)
    (he : s.ents[e]? = some ent) (halive : ent.alive = true) (hk : ent.kind ≠ .feature)
    (ht : InRange t) (hsess : ∀ op ∈ sess, Op.isSession op = true) :
    ((step s (.forceUpdated e (.at t))).2 = .done ∧
      readUpdated (run (step s (.forceUpdated e (.at t))).1 sess) e = some (.ok (some t))) ∧
    ((step s (.forceCreated e (.at t))).2 = .done ∧
      readCreated (run (step s (.forceCreated e (.at t))).1 sess) e = some (.ok (some t))) := by
  have hall : forceOk = true := by decide +kernel
  simp only [forceOk, List.all_eq_true] at hall
  have hkk := hall ent.kind (Kind.mem_all _)
  have hkf : (ent.kind == Kind.feature) = false := by simpa using hk
  simp only [hkf, Bool.false_or, Bool.and_eq_true] at hkk
  obtain ⟨⟨⟨hc, hu⟩, hcc⟩, hcu⟩ := hkk
  obtain ⟨v, hv, hr⟩ := timeToStr_ok_of_inRange t ht
  have hal : aliveAt s e = some ent := by simp [aliveAt, he, halive]
  constructor
  · cases hres : resolve ent.kind.cls .m_force_updated_at with
    | none => rw [hres] at hu; cases hu
    | some mb =>
      rw [hres] at hu
      have hmk : (mb.kind != .forceUpdated) = false := by simpa using hu
      have hstep : step s (.forceUpdated e (.at t)) =
          ({ s with ents := setUpdated s.ents e v }, .done) := by
        simp [step, hal, hres, hmk, hcu, timeArgStr, hv]
      rw [hstep]
      refine ⟨rfl, ?_⟩
      simp only [readUpdated, run_session sess _ hsess, getElem?_setUpdated, he, Option.map_some,
        if_true]
      simp [readStamp, hr]
  · cases hres : resolve ent.kind.cls .m_force_created_at with
    | none => rw [hres] at hc; cases hc
    | some mb =>
      rw [hres] at hc
      have hmk : (mb.kind != .forceCreated) = false := by simpa using hc
      have hstep : step s (.forceCreated e (.at t)) =
          ({ s with ents := setCreated s.ents e v }, .done) := by
        simp [step, hal, hres, hmk, hcc, timeArgStr, hv]
      rw [hstep]
      refine ⟨rfl, ?_⟩
      simp only [readCreated, run_session sess _ hsess, getElem?_setCreated, he, Option.map_some,
        if_true]
      simp [readStamp, hr]

/-- forcing `created_at` / `updated_at` of a live entity (of any kind that has the force methods:
all but `Feature`) to a whole second of 1970…2100 is accepted and the entity's getter then returns
that second — through whatever object it is read, also after any sequence of close/re-open, switch
and clock changes -/
theorem C19_force_roundtrip (s : State) (e : Nat) (ent : Ent) (t : Int) (sess : List Op)
    (he : s.ents[e]? = some ent) (halive : ent.alive = true) (hk : ent.kind ≠ .feature)
    (ht : InRange t) (hsess : ∀ op ∈ sess, Op.isSession op = true) :
    ((step s (.forceUpdated e (.at t))).2 = .done ∧
      observe (run (step s (.forceUpdated e (.at t))).1 sess) e .updated = some (.ok (some t))) ∧
    ((step s (.forceCreated e (.at t))).2 = .done ∧
      observe (run (step s (.forceCreated e (.at t))).1 sess) e .created = some (.ok (some t))) := by
  have h := force_roundtrip_stored s e ent t sess he halive hk ht hsess
  rw [(C19_observe_is_stored _ e).2, (C19_observe_is_stored _ e).1]
  exact h

/-- a force call that does not succeed (argument of another type: TypeError; a second `datetime`
cannot represent: ValueError; `Feature`, which has no force methods: AttributeError) leaves the
whole state as it was — for every argument, also outside 1970…2100 -/
theorem C19_force_refused_unchanged (s : State) (e : Nat) (t : TimeArg) :
    ((step s (.forceCreated e t)).2 ≠ .done → (step s (.forceCreated e t)).1 = s) ∧
    ((step s (.forceUpdated e t)).2 ≠ .done → (step s (.forceUpdated e t)).1 = s) := by
  constructor
  · simp only [step]
    repeat' split
    all_goals simp
  · simp only [step]
    repeat' split
    all_goals simp

/-- forcing one stamp never alters the other one: `force_created_at` leaves every stored
`updated_at` alone and `force_updated_at` every stored `created_at` (any argument, any entity) -/
theorem C19_force_only_own_stamp (s : State) (e : Nat) (t : TimeArg) (j : Nat) (x : Ent)
    (h : s.ents[j]? = some x) :
    (∃ x', (step s (.forceCreated e t)).1.ents[j]? = some x' ∧ x'.updated = x.updated) ∧
    (∃ x', (step s (.forceUpdated e t)).1.ents[j]? = some x' ∧ x'.created = x.created) := by
  constructor
  · obtain ⟨x', h', hs⟩ := step_ent C19_no_unguarded_stamp s (.forceCreated e t) j x h
    refine ⟨x', h', ?_⟩
    cases hs with
    | same => rfl
    | dead => rfl
    | touched v _ hc _ _ => simp [Lemmas.Op.isCall] at hc
    | forcedU t' v hop _ => cases hop
    | forcedC t' v _ _ => rfl
  · obtain ⟨x', h', hs⟩ := step_ent C19_no_unguarded_stamp s (.forceUpdated e t) j x h
    refine ⟨x', h', ?_⟩
    cases hs with
    | same => rfl
    | dead => rfl
    | touched v _ hc _ _ => simp [Lemmas.Op.isCall] at hc
    | forcedU t' v _ _ => rfl
    | forcedC t' v hop _ => cases hop

/-- outside 1970…2100 the model follows the code: a negative second within the four-digit years
reads back, the first second of year 10000 is refused (ValueError), a value that is not an `int`
is refused (TypeError), `Feature` has no force methods (AttributeError) -/
example : ∃ s, State.open 1000 true = .ok s ∧
    observe (step s (.forceUpdated 0 (.at (-1)))).1 0 .updated = some (.ok (some (-1))) ∧
    (step s (.forceUpdated 0 (.at 253402300800))).2 = .err .valueError ∧
    (step s (.forceCreated 0 .badType)).2 = .err .typeError :=
  ⟨_, rfl, by decide +kernel, by decide +kernel, by decide +kernel⟩

example : ∃ s, State.open 1000 true = .ok s ∧
    readUpdated (run (step s (.forceUpdated 0 (.at 4102444799))).1 [.reopen false, .setClock 5]) 0
      = some (.ok (some 4102444799)) :=
  ⟨_, rfl, by decide +kernel⟩

/-! ## a dimension linked to a data object: its label / unit are that object's -/

/-- the attributes a `DimensionLink` writes into the data object it points to: `dim.label = …` / `dim.unit = …`
on a linked dimension change the linked array's `label` / `unit` (a linked frame's `units`) -/
def linkWritten : List Mem := [.m_label, .m_unit]

def linkOk : Bool :=
  linkWritten.all fun m =>
    match resolve .DimensionLink m with
    | none => false
    | some mb => mb.kind == .setter &&
        mb.outcomes.all (fun o => match o.exit with
          | .returns => o.touch == .linked
          | .raises => o.touch == .none) &&
        mb.outcomes.any (fun o => o.exit == .returns)

/-- (table, path-sensitive) the `label` and `unit` setters of `DimensionLink` run the auto-update idiom on the
LINKED data object on every returning path, on no raising path, and have a returning path (repaired in /repo:
they used to change the linked array's label / unit without touching its `updated_at`) -/
theorem C19_link_setters_touch_linked (m : Mem) (hm : m ∈ linkWritten) :
    ∃ mb, resolve .DimensionLink m = some mb ∧ mb.kind = .setter ∧
      (∀ o ∈ mb.outcomes, o.exit = .returns → o.touch = .linked) ∧
      (∀ o ∈ mb.outcomes, o.exit = .raises → o.touch = .none) ∧
      (∃ o ∈ mb.outcomes, o.exit = .returns) := by
  have hall : linkOk = true := by decide +kernel
  simp only [linkOk, List.all_eq_true] at hall
  have := hall m hm
  cases hres : resolve .DimensionLink m with
  | none => rw [hres] at this; cases this
  | some mb =>
    rw [hres] at this
    simp only [Bool.and_eq_true, beq_iff_eq, List.all_eq_true, List.any_eq_true] at this
    obtain ⟨⟨hk, hout⟩, hex⟩ := this
    refine ⟨mb, rfl, hk, ?_, ?_, hex⟩
    · intro o ho hr
      have := hout o ho
      rw [hr] at this
      simpa using this
    · intro o ho hr
      have := hout o ho
      rw [hr] at this
      simpa using this

/-- with the switch on, `dim.label = …` / `dim.unit = …` on a dimension linked to the live data object `e`
(clock within 1970…2100), whichever returning path the setter takes: that object reports the current time as
its update time, keeps its creation time, and every other entity (the array that owns the dimension included,
unless it is `e` itself) stays exactly as it was -/
theorem C19_link_setter_local (s : State) (e : Nat) (ent : Ent) (m : Mem) (mb : Member) (o : Outcome)
    (he : s.ents[e]? = some ent) (halive : ent.alive = true) (hauto : s.auto = true)
    (hm : m ∈ linkWritten) (hres : resolve .DimensionLink m = some mb) (ho : o ∈ mb.outcomes)
    (hret : o.exit = .returns) (hclock : InRange s.clock) :
    (step s (.call e (some .DimensionLink) m o)).2 = .done ∧
    (∃ e', (step s (.call e (some .DimensionLink) m o)).1.ents[e]? = some e' ∧
        readStamp e'.updated = .ok (some s.clock) ∧ e'.created = ent.created) ∧
    (∀ j, j ≠ e → (step s (.call e (some .DimensionLink) m o)).1.ents[j]? = s.ents[j]?) := by
  obtain ⟨mb', hres', hkind, htouch, _, _⟩ := C19_link_setters_touch_linked m hm
  rw [hres] at hres'
  cases hres'
  have htouch := htouch o ho hret
  obtain ⟨v, hv, _⟩ := timeToStr_ok_of_inRange s.clock hclock
  have hal : aliveAt s e = some ent := by simp [aliveAt, he, halive]
  have hstep : step s (.call e (some .DimensionLink) m o) =
      ({ s with ents := setUpdated s.ents e v }, .done) := by
    simp [step, hal, hres, hkind, hauto, htouch, hv, ho, hret]
  rw [hstep]
  refine ⟨rfl, ?_, ?_⟩
  · refine ⟨{ ent with updated := some v }, by simp [getElem?_setUpdated, he], ?_, rfl⟩
    exact readStamp_written s.clock hclock v hv
  · intro j hj
    simp only [getElem?_setUpdated]
    cases s.ents[j]? with
    | none => rfl
    | some x => simp [Ne.symm hj]

def touchTargetsOk : Bool :=
  members.all fun mb => mb.outcomes.all fun o =>
    o.touch == .none || o.touch == .self ||
    (o.touch == .linked && mb.cls == .DimensionLink && linkWritten.contains mb.mem)

/-- (table over EVERY method and setter of every class of nixio/*.py) the auto-update idiom never acts on
anything but the object itself — or, in the two link setters above, the linked data object: no method stamps
its owner, a sibling or any third entity -/
theorem C19_touch_targets (mb : Member) (hmb : mb ∈ members) (o : Outcome) (ho : o ∈ mb.outcomes) :
    o.touch = .none ∨ o.touch = .self ∨
    (o.touch = .linked ∧ mb.cls = .DimensionLink ∧ mb.mem ∈ linkWritten) := by
  have hall : touchTargetsOk = true := by decide +kernel
  simp only [touchTargetsOk, List.all_eq_true, Bool.or_eq_true, Bool.and_eq_true, beq_iff_eq,
    List.contains_iff_mem] at hall
  rcases hall mb hmb o ho with (h | h) | ⟨⟨h1, h2⟩, h3⟩
  · exact .inl h
  · exact .inr (.inl h)
  · exact .inr (.inr ⟨h1, h2, h3⟩)

example : ∃ s, State.open 1000 true = .ok s ∧
    (run s [.create .block 0 .good, .create .dataArray 1 .good, .create .dataArray 1 .good, .setClock 2000,
            .call 3 (some .DimensionLink) .m_label ⟨.returns, .linked⟩]).ents.map
      (fun e => readStamp e.updated) =
      [.ok (some 1000), .ok (some 1000), .ok (some 1000), .ok (some 2000)] :=
  ⟨_, rfl, by decide +kernel⟩

/-! ## helper objects (containers, link lists, dimension descriptors) never stamp -/

/-- the classes that stand for an entity kind -/
def entityClasses : List Cls := Kind.all.map Kind.cls

def helpersOk : Bool :=
  members.all fun mb =>
    entityClasses.any (fun c => (mro c).contains mb.cls) || mb.cls == .DimensionLink ||
    mb.outcomes.all (fun o => o.touch == .none)

/-- (table) the classes that are no entity kind, no base class of one and not `DimensionLink` — the containers,
link lists, dimension descriptors, data views … — never run the auto-update idiom: none of their methods has a
path that stamps anything -/
theorem C19_helpers_never_stamp (mb : Member) (hmb : mb ∈ members)
    (hne : ∀ k : Kind, mb.cls ∉ mro k.cls) (hnl : mb.cls ≠ .DimensionLink) :
    ∀ o ∈ mb.outcomes, o.touch = .none := by
  have hall : helpersOk = true := by decide +kernel
  simp only [helpersOk, List.all_eq_true, Bool.or_eq_true, List.any_eq_true, beq_iff_eq,
    List.contains_iff_mem, entityClasses, List.mem_map] at hall
  rcases hall mb hmb with (⟨c, ⟨k, _, rfl⟩, hc⟩ | h) | h
  · exact absurd hc (hne k)
  · exact absurd h hnl
  · exact h

/-- hence an operation performed through such a helper object on behalf of an entity (appending to or deleting
from a link list, a setter or link method of a dimension descriptor, …), whichever way it ends, leaves every
time stamp in the file as it was — under either switch setting -/
theorem C19_helper_call_unchanged (s : State) (e : Nat) (c : Cls) (m : Mem) (o : Outcome)
    (h : ∀ mb, resolve c m = some mb → ∀ o' ∈ mb.outcomes, o'.touch = .none) :
    (step s (.call e (some c) m o)).1 = s := by
  by_cases ht : o.touch = .none
  · exact (C19_refused_unchanged s e (some c) m .block o ht).1
  · simp only [step]
    split
    · rfl
    · split
      · rfl
      · rename_i mb hres
        have hno : o ∉ mb.outcomes := fun hin => ht (h mb hres o hin)
        split <;> simp [hno]

example : (resolve .LinkContainer .m_append).isSome = true ∧ (resolve .RangeDimension .m_ticks).isSome = true ∧
    (∀ k : Kind, Cls.LinkContainer ∉ mro k.cls) := by
  refine ⟨by decide +kernel, by decide +kernel, ?_⟩
  intro k; cases k <;> decide +kernel


/-! ## creation, read from the source -/

/-- (generated creator shapes) for every entity kind, `C.create_new(...)` — the chain of `create_new` class
methods along Python's MRO, with the setters it runs on the half-built entity (`newentity.position =
position`, `newfeature.data = data`, …) — returns an entity whose `created_at` AND `updated_at` have both
been written with the current time, under either switch setting.  A creator that names the switch, writes
a stamp under a condition or with an argument, or returns early makes `createNew` `none` and breaks this
theorem. -/
theorem C19_creators_stamp_both (k : Kind) (hk : k ≠ .file) (auto : Bool) :
    createNew k.cls auto = some ⟨true, true⟩ := by
  cases k <;> cases auto <;> first | exact absurd rfl hk | decide +kernel

def factoriesOk : Bool :=
  factories.all fun f => factoryResult f true == some ⟨true, true⟩ &&
    factoryResult f false == some ⟨true, true⟩

/-- (generated factory shapes) the same for every `create_*` method (`Block.create_data_array` runs
`write_direct`, `unit =`, `label =` on the new array; `Block.create_multi_tag` `extents =`;
`Section.create_property` `values =`): when it returns, both stamps of the new entity are the current time -/
theorem C19_factories_stamp_both (f : Factory) (hf : f ∈ factories) (auto : Bool) :
    factoryResult f auto = some ⟨true, true⟩ := by
  have hall : factoriesOk = true := by decide +kernel
  simp only [factoriesOk, List.all_eq_true, Bool.and_eq_true, beq_iff_eq] at hall
  cases auto
  · exact (hall f hf).2
  · exact (hall f hf).1

def factoriesCover : Bool :=
  (Kind.all.all fun k => k == .file || factories.any fun f => f.creates == k.cls) &&
  (factories.all fun f => Kind.all.any fun k => Kind.all.any fun p =>
    f.creates == k.cls && validParent k p && (mro p.cls).contains f.owner)

/-- every entity kind except the file has a factory, and every factory makes an entity kind inside an
owner the model allows (`validParent`): the model's `create` covers exactly the source's creating methods -/
theorem C19_factories_cover_kinds :
    (∀ k : Kind, k ≠ .file → ∃ f ∈ factories, f.creates = k.cls) ∧
    (∀ f ∈ factories, ∃ k p : Kind, f.creates = k.cls ∧ validParent k p = true ∧
      f.owner ∈ mro p.cls) := by
  have hall : factoriesCover = true := by decide +kernel
  simp only [factoriesCover, Bool.and_eq_true, List.all_eq_true, List.any_eq_true, Bool.or_eq_true,
    beq_iff_eq, List.contains_iff_mem] at hall
  refine ⟨?_, ?_⟩
  · intro k hk
    rcases hall.1 k (Kind.mem_all k) with h | h
    · exact absurd h hk
    · exact h
  · intro f hf
    obtain ⟨k, _, p, _, ⟨h1, h2⟩, h3⟩ := hall.2 f hf
    exact ⟨k, p, h1, h2, h3⟩

/-- the hand-written creation of `Pure.Stamps.step` is what the source's factory computes: the new entity's
stored stamps are the current time's text exactly where `factoryResult` says they were written -/
theorem C19_create_refines_source (s : State) (k : Kind) (p : Nat) (pe : Ent) (f : Factory) (v : Str)
    (hp : s.ents[p]? = some pe) (halive : pe.alive = true) (hv : validParent k pe.kind = true)
    (hf : f ∈ factories) (_hfk : f.creates = k.cls) (hts : timeToStr s.clock = .ok v) :
    ∃ r, factoryResult f s.auto = some r ∧
      (step s (.create k p .good)).1.ents[s.ents.length]? =
        some { kind := k, parent := p, alive := true, created := stampText r.created v,
               updated := stampText r.updated v } := by
  refine ⟨⟨true, true⟩, C19_factories_stamp_both f hf s.auto, ?_⟩
  have hal : aliveAt s p = some pe := by simp [aliveAt, hp, halive]
  simp [step, hal, hv, hts, stampText]

example : creatorOf .Tag = some ⟨.Tag, [.super, .assign .m_position false]⟩ ∧
    createNew .Tag false = some ⟨true, true⟩ ∧
    -- a creator step that names the switch, or an unrecognised use of the machinery: no result
    runCSteps .Tag true ⟨true, true⟩ [.switchUse] = none ∧
    runCSteps .Tag true ⟨true, true⟩ [.unknown] = none ∧
    -- a setter run before the stamps are written leaves them for the force calls
    runCSteps .Feature true ⟨false, false⟩ [.assign .m_data false] = some ⟨false, true⟩ := by
  decide +kernel

/-- (generated shape of `File.__init__`) creating a file writes both of its stamps with the current time,
opening an existing one (both attributes present) writes neither; either way the switch of the new `File`
object is the `auto_update_timestamps` argument.  An unconditional `force_updated_at()` in `__init__`, or a
switch not taken from the argument, breaks this theorem. -/
theorem C19_file_init_effect :
    fileInitEffect ⟨false, false⟩ = some ⟨true, true, true⟩ ∧
    fileInitEffect ⟨true, true⟩ = some ⟨false, false, true⟩ := by
  decide +kernel

/-- the model's `open` and `reopen` are what `File.__init__` does: a new file starts with both stamps = the
clock and the switch = the argument; re-opening changes no stored stamp of any entity and takes the switch
from the argument -/
theorem C19_open_refines_source (clock : Int) (auto : Bool) (s0 : State)
    (h : State.open clock auto = .ok s0) (s : State) (a : Bool) :
    (∃ eff v, fileInitEffect ⟨false, false⟩ = some eff ∧ timeToStr clock = .ok v ∧
      s0.ents = [{ kind := .file, parent := 0, alive := true, created := stampText eff.writesCreated v,
                   updated := stampText eff.writesUpdated v }] ∧
      eff.switchFromArg = true ∧ s0.auto = auto) ∧
    (∃ eff, fileInitEffect ⟨true, true⟩ = some eff ∧ eff.writesCreated = false ∧
      eff.writesUpdated = false ∧ eff.switchFromArg = true ∧
      (step s (.reopen a)).1 = { s with auto := a }) := by
  obtain ⟨h1, h2⟩ := C19_file_init_effect
  constructor
  · cases hv : timeToStr clock with
    | error e => simp [State.open, hv] at h
    | ok v =>
      simp only [State.open, hv] at h
      cases h
      exact ⟨_, v, h1, rfl, rfl, rfl, rfl⟩
  · exact ⟨_, h2, rfl, rfl, rfl, rfl⟩

/-! ## the switch -/

def switchOk : Bool :=
  switchUses.all (fun u => u.use != .strayRead && u.use != .strayWrite) &&
  (switchUses.filter (fun u => u.use == .initFromParam)).length == 1 &&
  (switchUses.filter (fun u => u.use == .setterFromParam)).length == 1 &&
  (switchUses.filter (fun u => u.use == .getterReturns)).length == 1

/-- (table over nixio/**/*.py) the switch is named only by `File.__init__` (one unconditional assignment from
its parameter), by the property's own getter and setter, by `File.open` handing its parameter on, and by the
tests of the recognised idiom: no other function assigns it, keeps a copy of it, or reaches it by name.
A creator that saves / clears / restores the switch around a setter breaks this theorem. -/
theorem C19_switch_written_only_by_assignment :
    (∀ u ∈ switchUses, u.use ≠ .strayWrite ∧ u.use ≠ .strayRead) ∧
    (switchUses.filter (fun u => u.use == .initFromParam)).length = 1 ∧
    (switchUses.filter (fun u => u.use == .setterFromParam)).length = 1 ∧
    (switchUses.filter (fun u => u.use == .getterReturns)).length = 1 := by
  have hall : switchOk = true := by decide +kernel
  simp only [switchOk, Bool.and_eq_true, List.all_eq_true, bne_iff_ne, ne_eq, beq_iff_eq] at hall
  obtain ⟨⟨⟨h1, h2⟩, h3⟩, h4⟩ := hall
  exact ⟨fun u hu => ⟨(h1 u hu).2, (h1 u hu).1⟩, h2, h3, h4⟩

/-- over any history the switch is what the user assigned last (`file.auto_update_timestamps = b`, or
re-opening with `auto_update_timestamps=b`): no call, creation, deletion or force call — accepted or
refused — changes it -/
theorem C19_switch_follows_assignments (ops : List Op) : ∀ (s : State),
    (run s ops).auto = lastSwitch s.auto ops := by
  induction ops with
  | nil => intro s; rfl
  | cons op ops ih =>
    intro s
    simp only [run, lastSwitch]
    rw [ih, step_auto]
    cases op <;> rfl

/-- in particular a history without such an assignment leaves the switch as it was -/
theorem C19_calls_keep_switch (ops : List Op) (s : State)
    (h : ∀ op ∈ ops, op.setsSwitch = none) : (run s ops).auto = s.auto := by
  rw [C19_switch_follows_assignments]
  induction ops generalizing s with
  | nil => rfl
  | cons op ops ih =>
    simp only [lastSwitch, h op (List.mem_cons_self ..)]
    exact ih s (fun o ho => h o (List.mem_cons_of_mem _ ho))

/-- with the switch on, after ANY history that does not assign the switch (refused creations, refused and
accepted calls, deletions, force calls, clock changes …), assigning a listed attribute of a live entity still
sets that entity's update time to the current time and leaves every other entity as it was -/
theorem C19_listed_stamped_after_any_history (s : State) (ops : List Op) (hauto : s.auto = true)
    (hno : ∀ op ∈ ops, op.setsSwitch = none)
    (e : Nat) (ent : Ent) (m : Mem) (mb : Member) (o : Outcome)
    (he : (run s ops).ents[e]? = some ent) (halive : ent.alive = true)
    (hm : m ∈ listed) (hres : resolve ent.kind.cls m = some mb) (ho : o ∈ mb.outcomes)
    (hret : o.exit = .returns) (hclock : InRange (run s ops).clock) :
    (step (run s ops) (.call e none m o)).2 = .done ∧
    (∃ e', (step (run s ops) (.call e none m o)).1.ents[e]? = some e' ∧
        readStamp e'.updated = .ok (some (run s ops).clock) ∧ e'.created = ent.created) ∧
    (∀ j, j ≠ e → (step (run s ops) (.call e none m o)).1.ents[j]? = (run s ops).ents[j]?) :=
  C19_auto_on_local (run s ops) e ent m mb o he halive
    ((C19_calls_keep_switch ops s hno).trans hauto) hm hres ho hret hclock

example : lastSwitch true [.create .tag 1 .refusedEarly, .setClock 5, .call 1 none .m_type ⟨.raises, .none⟩] = true ∧
    lastSwitch true [.setAuto false, .create .tag 1 .refusedEarly, .reopen true, .delete 1] = true ∧
    (switchUses.filter (fun u => u.use == .idiomTest)).length > 30 := by
  decide +kernel


/-! ## what a delegated stamp can reach -/

/-- the classes in which a member name stamps (some path with a touch) -/
def stampersOf (f : Mem) : List Cls :=
  (members.filter fun mb => mb.mem == f && mb.outcomes.any fun o => o.touch != .none).map (·.cls)

def delegatesOk : Bool :=
  members.all fun mb => mb.foreign.all fun f =>
    (stampersOf f).all fun c => entityClasses.contains c || c == .Entity || c == .BaseTag ||
      c == .DimensionLink

/-- whatever a body hands on to another object by one of the names in `foreign` ends in a setter /
method of an entity class (`Entity` and `BaseTag` are the bases the kinds inherit from) or of the
`DimensionLink`: a delegated stamp is that object's OWN entry of the table (`C19_touch_targets`: it
stamps itself, the link the data object it points to) - e.g. `section[name] = v` can stamp a Property
only, a linked dimension's `label` a DataArray or, through the link, the linked data object -/
theorem C19_delegates_are_entity_members (mb : Member) (hmb : mb ∈ members) (f : Mem) (hf : f ∈ mb.foreign)
    (c : Cls) (hc : c ∈ stampersOf f) :
    c ∈ entityClasses ∨ c = .Entity ∨ c = .BaseTag ∨ c = .DimensionLink := by
  have hall : delegatesOk = true := by decide +kernel
  have h := (List.all_eq_true.mp ((List.all_eq_true.mp ((List.all_eq_true.mp hall) mb hmb)) f hf)) c hc
  simp only [Bool.or_eq_true, beq_iff_eq, List.contains_iff_mem] at h
  rcases h with ((h | h) | h) | h
  · exact .inl h
  · exact .inr (.inl h)
  · exact .inr (.inr (.inl h))
  · exact .inr (.inr (.inr h))

example : stampersOf .m_values = [.Property] ∧ stampersOf .m_label = [.DataArray, .DimensionLink] ∧
    stampersOf .m_position = [.Tag] := by decide +kernel

/-! ## calls that hand work to another object: the two-step reading is the model

The harness runs `dim.label = v` on a linked dimension as a call "on behalf of" the linked data object
(via `DimensionLink`), and `section[name] = v` as `property.values = v`.  `callDelegating` is the call as
the program makes it; it is admitted only through a name in the generated `foreign` list of the outer
member, and then it IS the history "inner call, outer call" - so every theorem about histories above
speaks about it. -/

theorem C19_delegating_is_two_calls (s : State) (e : Nat) (via : Option Cls) (m : Mem) (o : Outcome)
    (d : Nat) (dvia : Option Cls) (f : Mem) (fo : Outcome)
    (h : (callDelegating s e via m o d dvia f fo).2 ≠ .bad) :
    (callDelegating s e via m o d dvia f fo).1 = run s [.call d dvia f fo, .call e via m o] ∧
    ∃ ent mb, aliveAt s e = some ent ∧ resolve (via.getD ent.kind.cls) m = some mb ∧ f ∈ mb.foreign := by
  cases hal : aliveAt s e with
  | none => simp [callDelegating, hal] at h
  | some ent =>
    cases hres : resolve (via.getD ent.kind.cls) m with
    | none => simp [callDelegating, hal, hres] at h
    | some mb =>
      by_cases hin : mb.foreign.contains f = true
      · have hf : f ∈ mb.foreign := List.contains_iff_mem.mp hin
        cases hr : (step s (.call d dvia f fo)).2 with
        | bad => simp [callDelegating, hal, hres, hin, hr] at h
        | done => exact ⟨by simp [callDelegating, hal, hres, hf, hr, run], ent, mb, rfl, hres, hf⟩
        | refused => exact ⟨by simp [callDelegating, hal, hres, hf, hr, run], ent, mb, rfl, hres, hf⟩
        | err er => exact ⟨by simp [callDelegating, hal, hres, hf, hr, run], ent, mb, rfl, hres, hf⟩
      · have hnf : f ∉ mb.foreign := fun hm => hin (List.contains_iff_mem.mpr hm)
        simp [callDelegating, hal, hres, hnf] at h

/-- a member whose body invokes no stamping member of another object admits no nested call -/
theorem C19_no_delegation_without_foreign (s : State) (e : Nat) (ent : Ent) (via : Option Cls) (m : Mem)
    (mb : Member) (o : Outcome) (d : Nat) (dvia : Option Cls) (f : Mem) (fo : Outcome)
    (hal : aliveAt s e = some ent) (hres : resolve (via.getD ent.kind.cls) m = some mb)
    (hno : mb.foreign = []) : callDelegating s e via m o d dvia f fo = (s, .bad) := by
  simp [callDelegating, hal, hres, hno]

/-- with the switch off a delegating call changes nothing either -/
theorem C19_delegating_switch_off (s : State) (hoff : s.auto = false) (e : Nat) (via : Option Cls) (m : Mem)
    (o : Outcome) (d : Nat) (dvia : Option Cls) (f : Mem) (fo : Outcome) :
    (callDelegating s e via m o d dvia f fo).1 = s := by
  have h1 := C19_switch_off_call_unchanged s hoff d dvia f fo
  have h2 := C19_switch_off_call_unchanged s hoff e via m o
  cases hal : aliveAt s e with
  | none => simp [callDelegating, hal]
  | some ent =>
    cases hres : resolve (via.getD ent.kind.cls) m with
    | none => simp [callDelegating, hal, hres]
    | some mb =>
      by_cases hin : mb.foreign.contains f = true
      · have hf : f ∈ mb.foreign := List.contains_iff_mem.mp hin
        cases hr : (step s (.call d dvia f fo)).2 <;> simp [callDelegating, hal, hres, hf, hr, h1, h2]
      · have hnf : f ∉ mb.foreign := fun hm => hin (List.contains_iff_mem.mpr hm)
        simp [callDelegating, hal, hres, hnf]

/-- `section[name] = v` for a name in use, switch on: the property is stamped, the section is not -/
example : ∃ s, State.open 1000 true = .ok s ∧
    (let s1 := run s [.create .section 0 .good, .create .property 1 .good, .setClock 2000]
     ((callDelegating s1 1 none .m___setitem__ ⟨.returns, .none⟩ 2 none .m_values ⟨.returns, .self⟩).1.ents.map
        fun e => readStamp e.updated)) = [.ok (some 1000), .ok (some 1000), .ok (some 2000)] :=
  ⟨_, rfl, by decide +kernel⟩

end Nix.C19
