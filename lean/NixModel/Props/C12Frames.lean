import NixModel.Props.C16

/-!
# C12 — data frames: a refused write leaves the table exactly as it was

C16 models `DataFrame` (`Pure/Frame*.lean`; guards, calls and storage path regenerated from `data_frame.py` into
`Generated/FrameShape.lean` and tied by `C16_guards_as_modelled` / `C16_calls_as_modelled`).  C12's reading of that
model: every refused write — `append_rows`, `append_column`, `write_rows`, `write_column`, `write_cell` (by position
or by name), `units =` — after any history, whatever the cause of the refusal.
-/
namespace Nix.C12
open Nix Nix.Frame

/-- every writing call of `DataFrame`, after every history of such calls: refused ⇒ the table (columns, types,
units, every cell) is what it was -/
theorem frame_write_refused_unchanged (f0 : Frame) (hist : List Op) (op : Op) (e : Err)
    (h : (step (run f0 hist) op).2 = some e) : (step (run f0 hist) op).1 = run f0 hist :=
  Nix.C16.C16_refused_unchanged f0 hist op e h

/-- … and a history is the history of its accepted calls: refused calls can be dropped -/
theorem frame_history_skips_refused (f0 : Frame) (hist : List Op) (op : Op) (e : Err) (rest : List Op)
    (h : (step (run f0 hist) op).2 = some e) : run f0 (hist ++ op :: rest) = run f0 (hist ++ rest) := by
  have hu := Nix.C16.C16_refused_unchanged f0 hist op e h
  have key : ∀ (l : List Op) (f : Frame), run f (l ++ op :: rest) = run (step (run f l) op).1 rest ∧
      run f (l ++ rest) = run (run f l) rest := by
    intro l
    induction l with
    | nil => intro f; simp [run]
    | cons a t _ => intro f; simp [run]
  rw [(key hist f0).1, (key hist f0).2, hu]

end Nix.C12
