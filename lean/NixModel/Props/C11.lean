import NixModel.Pure.Version
import NixModel.Generated.H5Handlers
import NixModel.Lemmas.C11
import NixModel.Lemmas.C11Path
import NixModel.Lemmas.C11Uuid

/-!
# C11 — open modes and format-version gating protect existing files

Property theorems only; helper lemmas live in `NixModel/Lemmas/C11.lean`.  All statements are about
the model `NixModel/Pure/Version.lean`, instantiated with the constants, the `map_file_mode` chain,
the `can_write` / `can_read` conditions, the `_check_header` dispatch and the id threshold that are
regenerated from `nixio/file.py` into `Generated/FormatConst.lean` on every run.  The library
version `(libX, libY, libZ)` is never unfolded: the theorems hold for whatever `HDF_FF_VERSION` is.
The id threshold `1.2.0` and the rule "same major, minor not newer" are the property's own text and
are written out literally here, so an edit of the source that changes them breaks these proofs.
-/
namespace Nix.C11
open Nix Nix.Version Nix.Version.Lemmas Nix.Gen.Format

/-! ## vocabulary of the property statement -/

/-- "the same major version and a minor version not newer than the library's" -/
def Readable (x y : Int) : Prop := x = libX ∧ y ≤ libY
/-- "differs from the library's" — negated -/
def SameVersion (x y z : Int) : Prop := x = libX ∧ y = libY ∧ z = libZ
/-- "from format 1.2.0 on": `(x,y,z) ≥ (1,2,0)` lexicographically -/
def From120 (x y z : Int) : Prop := x > 1 ∨ (x = 1 ∧ (y > 2 ∨ (y = 2 ∧ z ≥ 0)))
/-- "(and, from format 1.2.0 on, carries a valid file id)" -/
def IdOk (x y z : Int) (id : Option Str) : Prop := From120 x y z → isUuid id = true

instance (x y : Int) : Decidable (Readable x y) := by unfold Readable; infer_instance
instance (x y z : Int) : Decidable (SameVersion x y z) := by unfold SameVersion; infer_instance
instance (x y z : Int) : Decidable (From120 x y z) := by unfold From120; infer_instance
instance (x y z : Int) (id : Option Str) : Decidable (IdOk x y z id) := by unfold IdOk; infer_instance

/-- a file that has everything `File.__init__` would otherwise have to create -/
def Disk.complete (d : Disk) : Prop :=
  d.hasData = true ∧ d.hasMeta = true ∧ d.hasCreated = true ∧ d.hasUpdated = true

instance (d : Disk) : Decidable (Disk.complete d) := by unfold Disk.complete; infer_instance

/-- the state of a path after a successful create / overwrite -/
def freshFile (freshId : Str) : Disk :=
  { header := { fmt := some fileFormat, version := some libVersion, id := some freshId },
    hasData := true, hasMeta := true, hasCreated := true, hasUpdated := true, content := [] }

/-! ## the header decision -/

/-- `_check_header` on a three-component version, for the three modes, as the table of the
property statement -/
theorem C11_check_header (x y z : Int) (fmt id : Option Str) :
    checkHeader modeReadOnly ⟨fmt, some [x, y, z], id⟩
      = (if fmt ≠ some fileFormat then .error .invalidFile
         else if ¬ Readable x y then .error .runtimeError
         else if ¬ IdOk x y z id then .error .runtimeError
         else .ok ())
    ∧ checkHeader modeReadWrite ⟨fmt, some [x, y, z], id⟩
      = (if fmt ≠ some fileFormat then .error .invalidFile
         else if ¬ SameVersion x y z then .error .runtimeError
         else if ¬ IdOk x y z id then .error .runtimeError
         else .ok ())
    ∧ checkHeader modeOverwrite ⟨fmt, some [x, y, z], id⟩
      = (if fmt ≠ some fileFormat then .error .invalidFile
         else if ¬ IdOk x y z id then .error .runtimeError
         else .ok ()) := by
  refine ⟨?_, ?_, ?_⟩
  · by_cases hf : fmt = some fileFormat
    · by_cases hr : Readable x y <;> by_cases ht : From120 x y z <;> by_cases hu : isUuid id = true <;>
        simp [checkHeader, hf, gate_ro, runGate, canRead_triple, threshold_triple, IdOk, hr, ht, hu,
          show (x = libX ∧ y ≤ libY) = Readable x y from rfl,
          show (x > 1 ∨ (x = 1 ∧ (y > 2 ∨ (y = 2 ∧ z ≥ 0)))) = From120 x y z from rfl]
    · simp [checkHeader, hf]
  · by_cases hf : fmt = some fileFormat
    · by_cases hr : SameVersion x y z <;> by_cases ht : From120 x y z <;> by_cases hu : isUuid id = true <;>
        simp [checkHeader, hf, gate_rw, runGate, canWrite_triple, threshold_triple, IdOk, hr, ht, hu,
          show (x = libX ∧ y = libY ∧ z = libZ) = SameVersion x y z from rfl,
          show (x > 1 ∨ (x = 1 ∧ (y > 2 ∨ (y = 2 ∧ z ≥ 0)))) = From120 x y z from rfl]
    · simp [checkHeader, hf]
  · by_cases hf : fmt = some fileFormat
    · by_cases ht : From120 x y z <;> by_cases hu : isUuid id = true <;>
        simp [checkHeader, hf, gate_ow, threshold_triple, IdOk, ht, hu,
          show (x > 1 ∨ (x = 1 ∧ (y > 2 ∨ (y = 2 ∧ z ≥ 0)))) = From120 x y z from rfl]
    · simp [checkHeader, hf]

/-- **Format-version gating.** For every version triple, format tag, id state and every existing
complete file: the outcome of opening read-only and read-write is the table of the property
statement, and the path's content is what it was (for a successful open too). -/
theorem C11_decision (x y z : Int) (fmt id : Option Str) (d : Disk) (fid : Str)
    (hh : d.header = ⟨fmt, some [x, y, z], id⟩) (hc : Disk.complete d) :
    openFile modeReadOnly (some d) fid
      = (some d, if fmt ≠ some fileFormat then .error (.err .invalidFile)
                 else if ¬ Readable x y then .error (.err .runtimeError)
                 else if ¬ IdOk x y z id then .error (.err .runtimeError)
                 else .ok ⟨modeReadOnly, .rdonly⟩)
    ∧ openFile modeReadWrite (some d) fid
      = (some d, if fmt ≠ some fileFormat then .error (.err .invalidFile)
                 else if ¬ SameVersion x y z then .error (.err .runtimeError)
                 else if ¬ IdOk x y z id then .error (.err .runtimeError)
                 else .ok ⟨modeReadWrite, .rdwr⟩) := by
  obtain ⟨h1, h2, h3, h4⟩ := hc
  obtain ⟨hdr, a, b, c, e, ct⟩ := d
  simp only at hh h1 h2 h3 h4
  subst hh h1 h2 h3 h4
  constructor
  · simp only [openFile, ro_ne_ow, if_false, mapFileMode_ro, checkAndFinish, (C11_check_header x y z fmt id).1]
    by_cases hf : fmt = some fileFormat <;> by_cases hr : Readable x y <;> by_cases hi : IdOk x y z id <;>
      simp [hf, hr, hi, finishOpen]
  · simp only [openFile, rw_ne_ow, if_false, mapFileMode_rw, checkAndFinish, (C11_check_header x y z fmt id).2.1]
    by_cases hf : fmt = some fileFormat <;> by_cases hr : SameVersion x y z <;> by_cases hi : IdOk x y z id <;>
      simp [hf, hr, hi, finishOpen]

/-- a format tag other than `nix` (or none at all) is refused with `InvalidFile`, whatever the
version, id and mode letter, and the file stays as it was -/
theorem C11_wrong_tag (h : Header) (hf : h.fmt ≠ some fileFormat) (mode : Str) :
    checkHeader mode h = .error .invalidFile := by
  simp [checkHeader, hf]

theorem C11_wrong_tag_open (d : Disk) (hf : d.header.fmt ≠ some fileFormat) (fid : Str) :
    openFile modeReadOnly (some d) fid = (some d, .error (.err .invalidFile))
    ∧ openFile modeReadWrite (some d) fid = (some d, .error (.err .invalidFile)) := by
  constructor
  · simp [openFile, ro_ne_ow, mapFileMode_ro, checkAndFinish, C11_wrong_tag _ hf]
  · simp [openFile, rw_ne_ow, mapFileMode_rw, checkAndFinish, C11_wrong_tag _ hf]

/-- a `nix` file whose version does not have three components is refused with RuntimeError in
both modes (before the id is looked at); one without a version attribute with TypeError -/
theorem C11_bad_version (d : Disk) (hf : d.header.fmt = some fileFormat) (fid : Str) :
    (∀ v, d.header.version = some v → v.length ≠ 3 →
      openFile modeReadOnly (some d) fid = (some d, .error (.err .runtimeError))
      ∧ openFile modeReadWrite (some d) fid = (some d, .error (.err .runtimeError)))
    ∧ (d.header.version = none →
      openFile modeReadOnly (some d) fid = (some d, .error (.err .typeError))
      ∧ openFile modeReadWrite (some d) fid = (some d, .error (.err .typeError))) := by
  obtain ⟨⟨f, ver, id⟩, a, b, c, e, ct⟩ := d
  simp only at hf
  subst hf
  refine ⟨?_, ?_⟩
  · intro v hv hl
    simp only at hv
    subst hv
    constructor
    · simp [openFile, ro_ne_ow, mapFileMode_ro, checkAndFinish, checkHeader, gate_ro, runGate,
        canRead_badlen _ _ v hl]
    · simp [openFile, rw_ne_ow, mapFileMode_rw, checkAndFinish, checkHeader, gate_rw, runGate,
        canWrite_badlen _ _ v hl]
  · intro hv
    simp only at hv
    subst hv
    constructor
    · simp [openFile, ro_ne_ow, mapFileMode_ro, checkAndFinish, checkHeader, gate_ro, runGate, canRead]
    · simp [openFile, rw_ne_ow, mapFileMode_rw, checkAndFinish, checkHeader, gate_rw, runGate, canWrite]

/-! ## missing paths, overwrite, read-write -/

/-- opening a missing path read-only is an error and creates nothing -/
theorem C11_missing_readonly (fid : Str) :
    openFile modeReadOnly none fid = (none, .error (.err .runtimeError)) := by
  simp [openFile]

/-- the fresh header passes `_check_header(Overwrite)` when the drawn id is a UUID -/
theorem fresh_header_ok (fid : Str) (hu : uuidAccepts fid = true) :
    checkHeader modeOverwrite (freshDisk fid).header = .ok () := by
  have hu' : isUuid (some fid) = true := hu
  simp only [checkHeader, freshDisk, gate_ow]
  cases cmpTuple idThresholdCmp libVersion idThreshold <;> simp [hu']

/-- **The fresh header is what `_create_header` writes** on the just created (attribute-less) file:
the `_set_<x>` calls regenerated from the source produce the NIX tag, the library's version and the
drawn id — the header `openFile` / `openPath` give a created file -/
theorem C11_create_header_fresh (fid : Str) :
    createHeader ⟨none, none, none⟩ fid = .ok (freshDisk fid).header
    ∧ (freshDisk fid).header = ⟨some fileFormat, some libVersion, some fid⟩ := ⟨rfl, rfl⟩

/-- `_create_header` never replaces an existing file id (format upgrades rely on it) and always
writes the NIX tag -/
theorem C11_create_header_keeps_id (h : Header) (fid : Str) (h' : Header)
    (hid : truthyStr h.id = true) (hc : createHeader h fid = .ok h') :
    h'.id = h.id ∧ h'.fmt = some fileFormat := by
  obtain ⟨f, v, i⟩ := h
  simp only [createHeader, createHeaderSteps, createHeaderFrom, headerStep] at hc
  simp only at hid
  match v, hc with
  | none, hc => simp [hid] at hc; subst hc; exact ⟨rfl, rfl⟩
  | some [], hc => simp at hc
  | some [x], hc =>
    by_cases hx : x = 0
    · simp [hid, hx] at hc; subst hc; exact ⟨rfl, rfl⟩
    · simp [hid, hx] at hc; subst hc; exact ⟨rfl, rfl⟩
  | some (_ :: _ :: _), hc => simp at hc

/-- **Overwrite.** Whatever the path held (nothing, a NIX file of any version, any other HDF5
file), opening with overwrite succeeds and leaves an empty file with a fresh header; the session
is writable.  (`fid` is the `uuid4()` drawn; `uuid4` yields UUIDs.) -/
theorem C11_overwrite_fresh (disk : Option Disk) (fid : Str) (hu : uuidAccepts fid = true) :
    openFile modeOverwrite disk fid = (some (freshFile fid), .ok ⟨modeOverwrite, .trunc⟩)
    ∧ (freshFile fid).content = []
    ∧ (freshFile fid).header = ⟨some fileFormat, some libVersion, some fid⟩
    ∧ Session.writable ⟨modeOverwrite, .trunc⟩ = true := by
  refine ⟨?_, rfl, rfl, by decide⟩
  cases disk with
  | none =>
    simp [openFile, ow_ne_ro, mapFileMode_ow, checkAndFinish, fresh_header_ok fid hu, finishOpen]
    rfl
  | some d =>
    simp [openFile, mapFileMode_ow, checkAndFinish, fresh_header_ok fid hu, finishOpen]
    rfl

/-- **Read-write creates the file only if it is missing** (and so does any other letter that is
not the read-only one: `__init__` tests existence before it validates the mode) -/
theorem C11_missing_creates (mode fid : Str) (hm : mode ≠ modeReadOnly) (hu : uuidAccepts fid = true) :
    openFile mode none fid = (some (freshFile fid), .ok ⟨modeOverwrite, .trunc⟩) := by
  simp [openFile, hm, mapFileMode_ow, checkAndFinish, fresh_header_ok fid hu, finishOpen]
  rfl

/-- **Read-write keeps all existing content.** Opening an existing file read-write never changes
header or content; when it is refused the file is exactly as before; when it succeeds the session
is writable and at most the two top-level groups and the two timestamps were added. -/
theorem C11_readwrite_preserves (d : Disk) (fid : Str) :
    ∃ d' r, openFile modeReadWrite (some d) fid = (some d', r)
      ∧ d'.content = d.content ∧ d'.header = d.header
      ∧ (∀ e, r = .error e → d' = d)
      ∧ (∀ s, r = .ok s → s = ⟨modeReadWrite, .rdwr⟩ ∧ s.writable = true
           ∧ d' = { d with hasData := true, hasMeta := true, hasCreated := true, hasUpdated := true }) := by
  simp only [openFile, rw_ne_ow, if_false, mapFileMode_rw, checkAndFinish]
  cases hch : checkHeader modeReadWrite d.header with
  | error e => exact ⟨d, _, rfl, rfl, rfl, fun _ _ => rfl, fun s hs => by simp at hs⟩
  | ok u =>
    refine ⟨{ d with hasData := true, hasMeta := true, hasCreated := true, hasUpdated := true },
      .ok ⟨modeReadWrite, .rdwr⟩, by simp [finishOpen], rfl, rfl, fun e he => by simp at he, fun s hs => ?_⟩
    simp at hs
    subst hs
    exact ⟨rfl, by decide, rfl⟩

/-- an invalid mode letter on an existing file is a ValueError and changes nothing -/
theorem C11_invalid_mode (mode : Str) (d : Disk) (fid : Str)
    (h1 : mode ≠ modeReadOnly) (h2 : mode ≠ modeReadWrite) (h3 : mode ≠ modeOverwrite) :
    openFile mode (some d) fid = (some d, .error (.err .valueError)) := by
  simp [openFile, h3, mapFileMode, modeTable, chainLookup, h1, h2]

/-! ## read-only -/

/-- **Opening read-only never changes the file**, whatever it holds and whether or not the open
succeeds; a successful open yields a handle with the read-only flag. -/
theorem C11_readonly_open (d : Disk) (fid : Str) :
    (openFile modeReadOnly (some d) fid).1 = some d
    ∧ ∀ s, (openFile modeReadOnly (some d) fid).2 = .ok s → s = ⟨modeReadOnly, .rdonly⟩ := by
  simp only [openFile, ro_ne_ow, if_false, mapFileMode_ro, checkAndFinish]
  cases hch : checkHeader modeReadOnly d.header with
  | error e => exact ⟨rfl, fun s hs => by simp at hs⟩
  | ok u =>
    by_cases hc : (d.hasData && d.hasMeta && d.hasCreated && d.hasUpdated) = true
    · simp [finishOpen, hc]
    · simp [finishOpen, hc]

/-- only the read-only letter yields a read-only handle, and it never yields a writable one -/
theorem C11_session_flag (mode : Str) (disk : Option Disk) (fid : Str) (s : Session)
    (h : (openFile mode disk fid).2 = .ok s) :
    (s.writable = false ↔ mode = modeReadOnly) := by
  have key : ∀ (m : Str) (a : Acc) (d : Disk) (od : Option Disk × Except Refusal Session),
      checkAndFinish m a d = od → od.2 = .ok s → s = ⟨m, a⟩ := by
    intro m a d od hod hs
    subst hod
    unfold checkAndFinish at hs
    cases hch : checkHeader m d.header with
    | error e => simp [hch] at hs
    | ok u =>
      simp only [hch] at hs
      cases hfo : finishOpen a d with
      | mk d' r =>
        cases r with
        | error e => simp [hfo] at hs
        | ok u => simp [hfo] at hs; exact hs.symm
  have wr : ∀ a : Acc, (Session.writable ⟨mode, a⟩ = false ↔ a = .rdonly) := by
    intro a; cases a <;> simp [Session.writable]
  cases disk with
  | none =>
    by_cases hm : mode = modeReadOnly
    · simp [openFile, hm] at h
    · simp only [openFile, hm, if_false, mapFileMode_ow, ne_eq, not_true_eq_false] at h
      have := key _ _ _ _ rfl h
      subst this
      simp [Session.writable, hm]
  | some d =>
    by_cases hm : mode = modeOverwrite
    · simp only [openFile, hm, if_true, mapFileMode_ow, ne_eq, not_true_eq_false, if_false] at h
      have := key _ _ _ _ rfl h
      subst this
      simp [Session.writable, hm, ow_ne_ro]
    · simp only [openFile, hm, if_false] at h
      cases hmm : mapFileMode mode with
      | error e => simp [hmm] at h
      | ok a =>
        simp only [hmm] at h
        by_cases ht : a = .trunc
        · simp [ht] at h
        · simp only [ht, if_false] at h
          have := key _ _ _ _ rfl h
          subst this
          have := mapFileMode_rdonly_iff mode a hmm
          cases a <;> simp_all [Session.writable]

/-- **A read-only session is a frame.** For every list of calls — reads and mutators, the mutators
being arbitrary functions on the content — run through a handle opened with the read-only flag:
the file is exactly as before; every mutator is refused; every read returns what the same read
returns on that file in any other (in particular a writable) session. -/
theorem C11_readonly_frame (ro rw : Session) (hro : ro.acc = .rdonly) (d : Disk) (ops : List Op) :
    (run ro d ops).1 = d
    ∧ (run ro d ops).2.length = ops.length
    ∧ (∀ (i : Nat) (f : Content → Except Err Content), ops[i]? = some (Op.mutate f) →
        (run ro d ops).2[i]? = some (Out.refused .h5ReadOnly))
    ∧ (∀ (i : Nat) (r : Read), ops[i]? = some (Op.read r) →
        (run ro d ops).2[i]? = some (step rw d (Op.read r)).2) := by
  refine ⟨run_rdonly_disk ro hro d ops, run_length ro d ops, ?_, ?_⟩
  · intro i f h
    rw [run_rdonly_out ro hro d ops i _ h, step_mut_rdonly ro hro]
  · intro i r h
    rw [run_rdonly_out ro hro d ops i _ h, step_read, step_read]

/-- opening an existing file with any letter but the overwrite one — read-only, read-write or an
invalid one — keeps header and content, whatever the outcome -/
theorem C11_open_keeps (mode : Str) (hm : mode ≠ modeOverwrite) (d : Disk) (fid : Str) :
    ∃ d', (openFile mode (some d) fid).1 = some d' ∧ d'.header = d.header ∧ d'.content = d.content := by
  simp only [openFile, hm, if_false]
  cases hmm : mapFileMode mode with
  | error e => exact ⟨d, rfl, rfl, rfl⟩
  | ok a =>
    by_cases ht : a = .trunc
    · simp only [ht, if_true]; exact ⟨d, rfl, rfl, rfl⟩
    · simp only [ht, if_false, checkAndFinish]
      cases checkHeader mode d.header with
      | error e => exact ⟨d, rfl, rfl, rfl⟩
      | ok u =>
        by_cases hro : a = .rdonly
        · by_cases hc : (d.hasData && d.hasMeta && d.hasCreated && d.hasUpdated) = true
          · simp only [finishOpen, hro, if_true, hc]; exact ⟨d, rfl, rfl, rfl⟩
          · simp only [finishOpen, hro, if_true, hc]; exact ⟨d, rfl, rfl, rfl⟩
        · simp only [finishOpen, hro, if_false]; exact ⟨_, rfl, rfl, rfl⟩

/-! ## paths in every condition: `File.__init__` over the shape regenerated from the source -/

/-- **The shape of `File.__init__`.** The guards, the create-or-open condition, the rebound mode and
the ordered tail regenerated from the source make `File.__init__`, on a missing path and on every
HDF5 file, exactly the function `openFile` the theorems above are about — for every mode string. -/
theorem C11_init_shape (mode : Str) (disk : Option Disk) (fid : Str) :
    openPath mode (Node.ofDisk disk) fid
      = (Node.ofDisk (openFile mode disk fid).1, (openFile mode disk fid).2) :=
  openPath_ofDisk mode disk fid

/-- **The default mode is read-write**: `File(path)` and `File.open(path)` without a mode are the
read-write open, on every path -/
theorem C11_default_mode (n : Node) (fid : Str) :
    defaultModeInit = modeReadWrite ∧ defaultModeOpen = modeReadWrite
    ∧ openDefault n fid = openPath modeReadWrite n fid := ⟨rfl, rfl, rfl⟩

/-- **An existing path that libhdf5 cannot open** — a file that is not HDF5, a truncated copy, an
empty file, a directory — is refused in every mode but Overwrite (read-only, the default read-write
mode, any invalid letter) and keeps exactly what it held: it is never taken for a missing file. -/
theorem C11_unopenable_kept (mode : Str) (hm : mode ≠ modeOverwrite) (n : Node) (hn : Node.unopenable n) (fid : Str) :
    ∃ r, openPath mode n fid = (n, .error r) :=
  openPath_unopenable mode hm n hn fid

/-- **Overwrite** replaces whatever file the path holds (NIX, other HDF5, not HDF5, truncated,
empty) by an empty file with a fresh header; a directory is refused and left alone -/
theorem C11_overwrite_any (n : Node) (fid : Str) (hu : uuidAccepts fid = true) :
    (∀ t, n ≠ .dir t) → openPath modeOverwrite n fid = (.hdf (freshFile fid), .ok ⟨modeOverwrite, .trunc⟩) := by
  intro hd
  have fresh : checkAndFinishT modeOverwrite .trunc (freshDisk fid)
      = (.hdf (freshFile fid), .ok ⟨modeOverwrite, .trunc⟩) := by
    rw [checkAndFinishT_eq]
    simp [checkAndFinish, fresh_header_ok fid hu, finishOpen, liftR, Node.ofDisk]
    rfl
  cases n with
  | missing =>
    have := C11_init_shape modeOverwrite none fid
    simp only [Node.ofDisk] at this
    rw [this, (C11_overwrite_fresh none fid hu).1]
  | hdf d =>
    have := C11_init_shape modeOverwrite (some d) fid
    simp only [Node.ofDisk] at this
    rw [this, (C11_overwrite_fresh (some d) fid hu).1]
  | dir t => exact absurd rfl (hd t)
  | blob t e =>
    cases e with
    | true =>
      simp only [openPath, guards_empty, if_true, createCond_exists modeOverwrite (.blob t true) (by simp),
        decide_true, createMode, mapFileMode_ow, ne_eq, not_true_eq_false, if_false, fresh]
    | false =>
      simp only [openPath, guards_blob, createCond_exists modeOverwrite (.blob t false) (by simp),
        decide_true, if_true, createMode, mapFileMode_ow, ne_eq, not_true_eq_false, if_false, fresh]

theorem C11_overwrite_dir (t fid : Str) :
    openPath modeOverwrite (.dir t) fid = (.dir t, .error .osError) := by
  simp only [openPath, guards_dir, createCond_exists modeOverwrite (.dir t) (by simp), decide_true, if_true,
    createMode, mapFileMode_ow, ne_eq, not_true_eq_false, if_false]

/-- **A refused open changes nothing** — for every path condition and every mode string: whenever
`File.__init__` raises, the path holds exactly what it held (`_check_header` runs before the first
write of the tail; an empty file is refused before libhdf5 initialises it). -/
theorem C11_refused_unchanged (mode : Str) (n : Node) (fid : Str) (hu : uuidAccepts fid = true) (r : Refusal)
    (h : (openPath mode n fid).2 = .error r) : (openPath mode n fid).1 = n := by
  have hfile : ∀ disk : Option Disk, (openFile mode disk fid).2 = .error r → (openFile mode disk fid).1 = disk := by
    intro disk hr
    cases disk with
    | none =>
      by_cases hm : mode = modeReadOnly
      · subst hm; rw [C11_missing_readonly]
      · rw [C11_missing_creates mode fid hm hu] at hr; simp at hr
    | some d =>
      by_cases hm : mode = modeOverwrite
      · subst hm; rw [(C11_overwrite_fresh (some d) fid hu).1] at hr; simp at hr
      · simp only [openFile, hm, if_false] at hr ⊢
        cases hmm : mapFileMode mode with
        | error e => rfl
        | ok a =>
          simp only [hmm] at hr ⊢
          by_cases ht : a = .trunc
          · simp [ht]
          · simp only [ht, if_false, checkAndFinish] at hr ⊢
            cases hch : checkHeader mode d.header with
            | error e => rfl
            | ok u =>
              simp only [hch] at hr ⊢
              by_cases hro : a = .rdonly
              · by_cases hc : (d.hasData && d.hasMeta && d.hasCreated && d.hasUpdated) = true
                · simp [finishOpen, hro, hc] at hr
                · simp [finishOpen, hro, hc]
              · simp [finishOpen, hro] at hr
  cases n with
  | missing =>
    have e := C11_init_shape mode none fid
    simp only [Node.ofDisk] at e
    rw [e] at h ⊢
    simp only at h ⊢
    rw [hfile none h]
  | hdf d =>
    have e := C11_init_shape mode (some d) fid
    simp only [Node.ofDisk] at e
    rw [e] at h ⊢
    simp only at h ⊢
    rw [hfile (some d) h]
  | dir t =>
    by_cases hm : mode = modeOverwrite
    · subst hm; rw [C11_overwrite_dir]
    · obtain ⟨r', hr'⟩ := C11_unopenable_kept mode hm (.dir t) trivial fid
      rw [hr']
  | blob t e =>
    by_cases hm : mode = modeOverwrite
    · subst hm
      rw [C11_overwrite_any (.blob t e) fid hu (by intro t'; simp)] at h
      simp at h
    · obtain ⟨r', hr'⟩ := C11_unopenable_kept mode hm (.blob t e) trivial fid
      rw [hr']

/-- the path still holds what it held: an HDF5 file keeps header and content (an open may have
added the two top-level groups / timestamps), anything else is the same byte for byte -/
def Node.keeps : Node → Node → Prop
  | .hdf d, .hdf d' => d'.header = d.header ∧ d'.content = d.content
  | .hdf _, _ => False
  | n, n' => n' = n

theorem Node.keeps_refl (n : Node) : Node.keeps n n := by cases n <;> simp [Node.keeps]

theorem Node.keeps_trans {a b c : Node} (h1 : Node.keeps a b) (h2 : Node.keeps b c) : Node.keeps a c := by
  cases a <;> cases b <;> cases c <;> simp_all [Node.keeps]

/-- **Only Overwrite replaces what exists.** Opening an EXISTING path — in whatever condition — with
any letter but the Overwrite one (read-only, read-write, the default, an invalid one), accepted or
refused, keeps what the path holds. -/
theorem C11_existing_kept (mode : Str) (hm : mode ≠ modeOverwrite) (n : Node) (hn : n ≠ .missing) (fid : Str) :
    Node.keeps n (openPath mode n fid).1 := by
  cases n with
  | missing => exact absurd rfl hn
  | hdf d =>
    have e := C11_init_shape mode (some d) fid
    simp only [Node.ofDisk] at e
    rw [e]
    obtain ⟨d', h1, h2, h3⟩ := C11_open_keeps mode hm d fid
    simp only [h1, Node.keeps]
    exact ⟨h2, h3⟩
  | dir t =>
    obtain ⟨r', hr'⟩ := C11_unopenable_kept mode hm (.dir t) trivial fid
    rw [hr']; exact Node.keeps_refl _
  | blob t e =>
    obtain ⟨r', hr'⟩ := C11_unopenable_kept mode hm (.blob t e) trivial fid
    rw [hr']; exact Node.keeps_refl _

/-- **Read-only never changes a path**, whatever it holds, and yields only read-only handles -/
theorem C11_readonly_path (n : Node) (fid : Str) :
    (openPath modeReadOnly n fid).1 = n
    ∧ ∀ s, (openPath modeReadOnly n fid).2 = .ok s → s = ⟨modeReadOnly, .rdonly⟩ := by
  cases n with
  | missing =>
    have e := C11_init_shape modeReadOnly none fid
    simp only [Node.ofDisk] at e
    rw [e, C11_missing_readonly]
    exact ⟨rfl, fun s hs => by simp at hs⟩
  | hdf d =>
    have e := C11_init_shape modeReadOnly (some d) fid
    simp only [Node.ofDisk] at e
    rw [e]
    have h := C11_readonly_open d fid
    exact ⟨by simp [h.1], h.2⟩
  | dir t =>
    obtain ⟨r', hr'⟩ := C11_unopenable_kept modeReadOnly ro_ne_ow (.dir t) trivial fid
    rw [hr']; exact ⟨rfl, fun s hs => by simp at hs⟩
  | blob t e =>
    obtain ⟨r', hr'⟩ := C11_unopenable_kept modeReadOnly ro_ne_ow (.blob t e) trivial fid
    rw [hr']; exact ⟨rfl, fun s hs => by simp at hs⟩

/-! ## consequences across modes -/

/-- **Whatever may be written may be read**: a header accepted for read-write is accepted read-only —
for every header (any version vector, tag, id) -/
theorem C11_write_implies_read (h : Header) (hw : checkHeader modeReadWrite h = .ok ()) :
    checkHeader modeReadOnly h = .ok () := by
  obtain ⟨fmt, ver, id⟩ := h
  by_cases hf : fmt = some fileFormat
  · cases ver with
    | none => simp [checkHeader, hf, gate_rw, runGate, canWrite] at hw
    | some v =>
      by_cases hl : v.length = 3
      · match v, hl with
        | [x, y, z], _ =>
          have h1 := (C11_check_header x y z fmt id).1
          have h2 := (C11_check_header x y z fmt id).2.1
          rw [h2] at hw
          rw [h1]
          by_cases hs : SameVersion x y z
          · have hr : Readable x y := ⟨hs.1, by rw [hs.2.1]; exact Int.le_refl _⟩
            by_cases hi : IdOk x y z id
            · simp [hf, hr, hi]
            · simp [hf, hs, hi] at hw
          · simp [hf, hs] at hw
      · simp [checkHeader, hf, gate_rw, runGate, canWrite_badlen _ _ v hl] at hw
  · simp [checkHeader, hf] at hw

/-- **A file the library created is a file the library accepts**: what create / overwrite leaves
behind opens read-only and read-write, unchanged (the fresh header carries the library's version,
the NIX tag and — from 1.2.0 on required — a valid id) -/
theorem C11_fresh_reopens (fid fid' : Str) (hu : uuidAccepts fid = true) :
    openFile modeReadOnly (some (freshFile fid)) fid' = (some (freshFile fid), .ok ⟨modeReadOnly, .rdonly⟩)
    ∧ openFile modeReadWrite (some (freshFile fid)) fid' = (some (freshFile fid), .ok ⟨modeReadWrite, .rdwr⟩) := by
  have hd := C11_decision libX libY libZ (some fileFormat) (some fid) (freshFile fid) fid' rfl ⟨rfl, rfl, rfl, rfl⟩
  have hr : Readable libX libY := ⟨rfl, Int.le_refl _⟩
  have hs : SameVersion libX libY libZ := ⟨rfl, rfl, rfl⟩
  have hi : IdOk libX libY libZ (some fid) := fun _ => hu
  constructor
  · rw [hd.1]; simp [hr, hi]
  · rw [hd.2]; simp [hs, hi]

/-- **After a successful read-write open the file opens read-only**, with exactly the state the
read-write open left (a read-write open completes the file; a read-only open never has to write) -/
theorem C11_rw_then_ro (d d' : Disk) (fid fid' : Str) (s : Session)
    (h : openFile modeReadWrite (some d) fid = (some d', .ok s)) :
    openFile modeReadOnly (some d') fid' = (some d', .ok ⟨modeReadOnly, .rdonly⟩) := by
  simp only [openFile, rw_ne_ow, if_false, mapFileMode_rw, checkAndFinish] at h
  cases hch : checkHeader modeReadWrite d.header with
  | error e => simp [hch] at h
  | ok u =>
    simp only [hch, finishOpen] at h
    simp at h
    obtain ⟨hd, _⟩ := h
    subst hd
    have hro := C11_write_implies_read d.header hch
    simp [openFile, ro_ne_ow, mapFileMode_ro, checkAndFinish, hro, finishOpen]

/-- **The default mode decides like read-write**: `File.open(path)` on an existing complete file is
the read-write row of the table, for every version triple, tag and id -/
theorem C11_default_decision (x y z : Int) (fmt id : Option Str) (d : Disk) (fid : Str)
    (hh : d.header = ⟨fmt, some [x, y, z], id⟩) (hc : Disk.complete d) :
    openDefault (.hdf d) fid
      = (.hdf d, if fmt ≠ some fileFormat then .error (.err .invalidFile)
                 else if ¬ SameVersion x y z then .error (.err .runtimeError)
                 else if ¬ IdOk x y z id then .error (.err .runtimeError)
                 else .ok ⟨modeReadWrite, .rdwr⟩) := by
  have e := C11_init_shape modeReadWrite (some d) fid
  simp only [Node.ofDisk] at e
  rw [(C11_default_mode (.hdf d) fid).2.2, e, (C11_decision x y z fmt id d fid hh hc).2]

/-- **When the state of a path changes at all.** An open changes what a path holds only if it is an
Overwrite, or the path was missing (and the mode is not read-only), or an HDF5 file accepted for
writing lacked one of the top-level groups / timestamps — for every path condition and mode string. -/
theorem C11_changes_only (mode : Str) (n : Node) (fid : Str) (hc : (openPath mode n fid).1 ≠ n) :
    mode = modeOverwrite
    ∨ (n = .missing ∧ mode ≠ modeReadOnly)
    ∨ (∃ d, n = .hdf d ∧ ¬ Disk.complete d ∧ mapFileMode mode = .ok .rdwr ∧ checkHeader mode d.header = .ok ()) := by
  by_cases hm : mode = modeOverwrite
  · exact Or.inl hm
  · right
    cases n with
    | missing =>
      left
      refine ⟨rfl, fun hro => ?_⟩
      subst hro
      exact hc (C11_readonly_path .missing fid).1
    | dir t =>
      obtain ⟨r', hr'⟩ := C11_unopenable_kept mode hm (.dir t) trivial fid
      rw [hr'] at hc; exact absurd rfl hc
    | blob t e =>
      obtain ⟨r', hr'⟩ := C11_unopenable_kept mode hm (.blob t e) trivial fid
      rw [hr'] at hc; exact absurd rfl hc
    | hdf d =>
      right
      refine ⟨d, rfl, ?_⟩
      have e := C11_init_shape mode (some d) fid
      simp only [Node.ofDisk] at e
      rw [e] at hc
      simp only [openFile, hm, if_false] at hc
      cases hmm : mapFileMode mode with
      | error x => simp [hmm] at hc
      | ok a =>
        simp only [hmm] at hc
        by_cases ht : a = .trunc
        · simp [ht] at hc
        · simp only [ht, if_false, checkAndFinish] at hc
          cases hch : checkHeader mode d.header with
          | error x => simp [hch] at hc
          | ok u =>
            simp only [hch] at hc
            by_cases hro : a = .rdonly
            · by_cases hcp : (d.hasData && d.hasMeta && d.hasCreated && d.hasUpdated) = true
              · simp [finishOpen, hro, hcp] at hc
              · simp [finishOpen, hro, hcp] at hc
            · have ha : a = .rdwr := by cases a <;> simp_all
              subst ha
              refine ⟨?_, rfl, rfl⟩
              intro hcomp
              obtain ⟨h1, h2, h3, h4⟩ := hcomp
              apply hc
              obtain ⟨hdr, a1, a2, a3, a4, ct⟩ := d
              simp only at h1 h2 h3 h4
              subst h1 h2 h3 h4
              simp [finishOpen]

/-! ## histories -/

/-- **The layer that talks to libhdf5 passes write errors on.** The stand-in `step` (a mutator in a
read-only session is *refused*) presupposes that nixio does not swallow libhdf5's refusal: no
`except` clause in `nixio/hdf5/*.py` that never raises guards a block that writes to the file
(the list is regenerated from the source on every run). -/
theorem C11_h5_layer_passes_write_errors_on :
    ∀ h ∈ Nix.Gen.H5Handlers.swallowing, h.2.2.2 = false := by decide

/-- an event that a program confined to read-only access may issue -/
def Ev.passive : Ev → Prop
  | .open mode _ => mode = modeReadOnly
  | .op _ => True
  | .close => True
  | .remove => False

/-- **Histories.** Over any sequence of sessions on a path — in whatever condition — in which every
open is read-only (any number of sessions, any calls in them, opens of a missing, unreadable or
refused file included) the path's state never changes. -/
theorem C11_readonly_history (evs : List Ev) (hp : ∀ e ∈ evs, Ev.passive e) (w : World)
    (hw : ∀ s, w.sess = some s → s.acc = .rdonly) :
    (evRun w evs).1.node = w.node := by
  induction evs generalizing w with
  | nil => rfl
  | cons e evs ih =>
    have hstep : (evStep w e).1.node = w.node ∧ ∀ s, (evStep w e).1.sess = some s → s.acc = .rdonly := by
      have hpe := hp e (List.mem_cons_self ..)
      obtain ⟨node, sess⟩ := w
      cases e with
      | «open» mode fid =>
        simp only [Ev.passive] at hpe
        subst hpe
        cases sess with
        | some s0 => exact ⟨rfl, hw⟩
        | none =>
          have h := C11_readonly_path node fid
          cases hr : openPath modeReadOnly node fid with
          | mk n' r =>
            rw [hr] at h
            cases r with
            | error x => simp only [evStep, hr]; exact ⟨h.1, fun s hs => by simp at hs⟩
            | ok s1 =>
              simp only [evStep, hr]
              refine ⟨h.1, fun s hs => ?_⟩
              simp at hs
              subst hs
              rw [h.2 s1 rfl]
      | op o =>
        cases sess with
        | none => exact ⟨rfl, hw⟩
        | some s0 =>
          cases node with
          | hdf d =>
            simp only [evStep]
            exact ⟨by rw [step_rdonly_disk s0 (hw s0 rfl)], hw⟩
          | missing => exact ⟨rfl, hw⟩
          | blob t e => exact ⟨rfl, hw⟩
          | dir t => exact ⟨rfl, hw⟩
      | close =>
        cases sess with
        | none => exact ⟨rfl, hw⟩
        | some s0 => simp [evStep]
      | remove => simp [Ev.passive] at hpe
    have := ih (fun e he => hp e (List.mem_cons_of_mem _ he)) (evStep w e).1 hstep.2
    show (evRun (evStep w e).1 evs).1.node = w.node
    rw [this, hstep.1]

/-- an event that neither overwrites, nor removes, nor calls a mutator -/
def Ev.conservative : Ev → Prop
  | .open mode _ => mode ≠ modeOverwrite
  | .op (.read _) => True
  | .op (.mutate _) => False
  | .close => True
  | .remove => False

/-- **Histories, read-write.** Over any sequence of sessions on an existing path — a NIX file, any
other file, a directory — that never opens with overwrite, never removes the path and calls no
mutator, however often it is opened in the default read-write mode, read-only, or with a wrong
letter, accepted or refused: the path keeps what it held (header and content of an HDF5 file,
every byte of anything else). -/
theorem C11_conservative_history (evs : List Ev) (hp : ∀ e ∈ evs, Ev.conservative e) (sess : Option Session)
    (n : Node) (hn : n ≠ .missing) :
    Node.keeps n (evRun ⟨n, sess⟩ evs).1.node ∧ (evRun ⟨n, sess⟩ evs).1.node ≠ .missing := by
  induction evs generalizing sess n with
  | nil => exact ⟨Node.keeps_refl n, hn⟩
  | cons e evs ih =>
    have hpe := hp e (List.mem_cons_self ..)
    have keeps_ne : ∀ n' : Node, Node.keeps n n' → n' ≠ .missing := by
      intro n' hk
      cases n <;> cases n' <;> simp_all [Node.keeps]
    have hstep : Node.keeps n (evStep ⟨n, sess⟩ e).1.node := by
      cases e with
      | «open» mode fid =>
        simp only [Ev.conservative] at hpe
        cases sess with
        | some s0 => exact Node.keeps_refl n
        | none =>
          have hk := C11_existing_kept mode hpe n hn fid
          cases hr : openPath mode n fid with
          | mk n' r =>
            rw [hr] at hk
            cases r with
            | error x => simpa [evStep, hr] using hk
            | ok s1 => simpa [evStep, hr] using hk
      | op o =>
        cases o with
        | read r =>
          cases sess with
          | none => exact Node.keeps_refl n
          | some s0 => cases n <;> exact Node.keeps_refl _
        | mutate f => simp [Ev.conservative] at hpe
      | close =>
        cases sess with
        | none => exact Node.keeps_refl n
        | some s0 => exact Node.keeps_refl n
      | remove => simp [Ev.conservative] at hpe
    have hne := keeps_ne _ hstep
    obtain ⟨g1, g2⟩ := ih (fun e he => hp e (List.mem_cons_of_mem _ he)) (evStep ⟨n, sess⟩ e).1.sess
      (evStep ⟨n, sess⟩ e).1.node hne
    exact ⟨Node.keeps_trans hstep g1, g2⟩

/-- an event that can change what a path holds -/
def Ev.changing : Ev → Prop
  | .open mode _ => mode ≠ modeReadOnly
  | .op (.mutate _) => True
  | .op (.read _) => False
  | .close => False
  | .remove => True

/-- **What can change a path, one event at a time**: only an open that is not read-only, a removal,
or a mutator — and a mutator only through a session whose handle is writable. -/
theorem C11_step_changes_only (w : World) (e : Ev) (h : (evStep w e).1.node ≠ w.node) :
    Ev.changing e ∧ (∀ f, e = .op (.mutate f) → ∃ s, w.sess = some s ∧ s.writable = true) := by
  obtain ⟨node, sess⟩ := w
  cases e with
  | «open» mode fid =>
    refine ⟨?_, fun f hf => by simp at hf⟩
    intro hro
    subst hro
    cases sess with
    | some s0 => exact h rfl
    | none =>
      have hk := (C11_readonly_path node fid).1
      apply h
      cases hr : openPath modeReadOnly node fid with
      | mk n' r =>
        rw [hr] at hk
        cases r <;> simp [evStep, hr] <;> exact hk
  | op o =>
    cases o with
    | read r =>
      exfalso; apply h
      cases sess with
      | none => rfl
      | some s0 => cases node <;> rfl
    | mutate f =>
      refine ⟨trivial, fun f' _ => ?_⟩
      cases sess with
      | none => exact absurd rfl h
      | some s0 =>
        refine ⟨s0, rfl, ?_⟩
        cases node with
        | hdf d =>
          by_cases hro : s0.acc = .rdonly
          · exfalso; apply h
            simp only [evStep]
            rw [step_mut_rdonly s0 hro]
          · simp [Session.writable, hro]
        | missing => exact absurd rfl h
        | blob t e => exact absurd rfl h
        | dir t => exact absurd rfl h
  | close =>
    exfalso; apply h
    cases sess <;> rfl
  | remove => exact ⟨trivial, fun f hf => by simp at hf⟩

/-- **What can change a path, over histories**: whenever a history of sessions — any events, any
modes, any path condition — leaves the path holding something else than before, the history
contains an open that is not read-only, a removal or a mutator. -/
theorem C11_history_changes_only (evs : List Ev) (w : World) (h : (evRun w evs).1.node ≠ w.node) :
    ∃ e ∈ evs, Ev.changing e := by
  induction evs generalizing w with
  | nil => exact absurd rfl h
  | cons e evs ih =>
    by_cases hs : (evStep w e).1.node = w.node
    · have h' : (evRun (evStep w e).1 evs).1.node ≠ (evStep w e).1.node := by
        rw [hs]; exact h
      obtain ⟨e', he', hc⟩ := ih (evStep w e).1 h'
      exact ⟨e', List.mem_cons_of_mem _ he', hc⟩
    · exact ⟨e, List.mem_cons_self .., (C11_step_changes_only w e hs).1⟩

/-- **The id hypothesis is what `uuid4()` delivers.** Every string of the form `8-4-4-4-12` hex
digits (either case) is accepted as a file id; so `C11_overwrite_fresh` / `C11_missing_creates`
apply to every id `create_id()` can draw. -/
theorem C11_canonical_id_accepted (a b c e g : Str) (ha : a.length = 8) (hb : b.length = 4) (hc : c.length = 4)
    (he : e.length = 4) (hg : g.length = 12) (hx : ∀ ch ∈ a ++ b ++ c ++ e ++ g, isHex ch = true) :
    isUuid (some (a ++ '-' :: (b ++ '-' :: (c ++ '-' :: (e ++ '-' :: g))))) = true :=
  uuidAccepts_canonical a b c e g ha hb hc he hg hx

/-! ## non-vacuity: the hypotheses are met, and every row of the table occurs -/

def demoId : Str := "017d7764-173b-4716-a6c2-45f6d37ddb52".toList

example : uuidAccepts demoId = true := by decide +kernel
example : isUuid none = false := by decide +kernel
example : isUuid (some "xx".toList) = false := by decide +kernel
example : Disk.complete (freshFile demoId) := by decide
/-- the library's own version is readable, writable and needs an id -/
example : Readable libX libY ∧ SameVersion libX libY libZ ∧ From120 libX libY libZ := by decide
/-- an older minor is readable but not writable; a newer minor or another major is neither; 1.1.9
needs no id (all relative to the library version, so a version bump keeps them true) -/
example : Readable libX (libY - 1) ∧ ¬ SameVersion libX (libY - 1) 0 ∧ ¬ Readable libX (libY + 1)
    ∧ ¬ Readable (libX + 1) 0 ∧ ¬ Readable (libX - 1) libY ∧ ¬ SameVersion libX libY (libZ + 1)
    ∧ ¬ From120 1 1 9 ∧ From120 1 2 0 := by
  decide
def demoFile (v : List Int) (id : Option Str) : Disk :=
  { freshFile demoId with header := ⟨some fileFormat, some v, id⟩ }
example : openFile modeReadOnly (some (demoFile [libX, libY - 1, 0] (some demoId))) []
    = (some (demoFile [libX, libY - 1, 0] (some demoId)), .ok ⟨modeReadOnly, .rdonly⟩) := by rfl
example : (openFile modeReadOnly (some (demoFile libVersion none)) []).2 = .error (.err .runtimeError) := by rfl
example : (openFile modeReadWrite (some (demoFile [libX, libY, libZ + 1] (some demoId))) []).2
    = .error (.err .runtimeError) := by rfl
example : (openFile modeReadWrite (some (demoFile libVersion (some demoId))) []).2 = .ok ⟨modeReadWrite, .rdwr⟩ := by
  rfl
example : (openFile modeReadOnly (some (demoFile [1, 1, 9] none)) []).2
    = if Readable 1 1 then .ok ⟨modeReadOnly, .rdonly⟩ else .error (.err .runtimeError) := by rfl


/-! paths in other conditions -/
def demoText : Node := .blob "2cf6af".toList false
def demoEmpty : Node := .blob "e3b0c4".toList true
example : Node.unopenable demoText ∧ Node.unopenable demoEmpty ∧ Node.unopenable (.dir []) := ⟨trivial, trivial, trivial⟩
/-- the default mode on a text file, an empty file, a directory: refused, nothing changes; the
empty file is refused by nixio's own guard (InvalidFile), the others by libhdf5 (OSError) -/
example : openDefault demoText [] = (demoText, .error .osError) := by rfl
example : openDefault demoEmpty [] = (demoEmpty, .error (.err .invalidFile)) := by rfl
example : openPath modeReadOnly (.dir []) [] = (.dir [], .error .osError) := by rfl
/-- an invalid letter on an empty file is reported as such -/
example : openPath "x".toList demoEmpty [] = (demoEmpty, .error (.err .valueError)) := by rfl
/-- overwrite replaces the text file; the default mode creates only the missing one -/
example : openPath modeOverwrite demoText demoId = (.hdf (freshFile demoId), .ok ⟨modeOverwrite, .trunc⟩) := by rfl
example : openDefault .missing demoId = (.hdf (freshFile demoId), .ok ⟨modeOverwrite, .trunc⟩) := by rfl
/-- without the guard libhdf5 would initialise the empty file: `h5fOpen` models that, so
`C11_refused_unchanged` depends on the guard being there -/
example : h5fOpen .rdwr demoEmpty ≠ none := by decide
/-- `Node.keeps` is not trivially true -/
example : ¬ Node.keeps demoText (.hdf (freshFile demoId)) := by simp [Node.keeps, demoText]
example : ¬ Node.keeps (.hdf (demoFile libVersion (some demoId))) demoText := by simp [Node.keeps, demoText]

end Nix.C11
