import NixModel.Pure.Upgrade
import NixModel.Lemmas.C18Resume
import NixModel.Lemmas.C18Content
import NixModel.Lemmas.C18Repeat
import NixModel.Lemmas.C18History
import NixModel.Lemmas.C18Shape
import NixModel.Lemmas.C18Inside
import NixModel.Lemmas.C18Total
import NixModel.Lemmas.C18Names
import NixModel.Lemmas.C18NoLoss
import NixModel.Lemmas.C18Stale
import NixModel.Lemmas.C18Read

/-!
# C18 — format upgrade preserves content, is idempotent and resumable

Property theorems only; helper lemmas live in `NixModel/Lemmas/C18*.lean`.  All statements are about
the model `NixModel/Pure/Upgrade.lean` of `nixio/cmd/upgrade.py`, for every library version `lib`,
every file and every run tag (the invocation that makes fresh ids and timestamps).

`WF f` is the representation invariant of HDF5 (link names are unique inside a group).
-/
namespace Nix.C18
open Nix.Upgrade Nix.Upgrade.Lemmas

/-- The version bump is scheduled exactly when anything is scheduled, it is the last step, it occurs
once, and no other step changes the version. -/
theorem C18_bump_last (lib : List Nat) (r : Nat) (f : File) :
    (collect lib f = [] ∨ ∃ ss, collect lib f = ss ++ [Step.bump] ∧ Step.bump ∉ ss) ∧
    (∀ s, s ≠ Step.bump → (applyStep lib r f s).1.version = f.version) := by
  refine ⟨?_, fun s hs => applyStep_version hs⟩
  cases h : upToDate lib f with
  | true => exact Or.inl (collect_upToDate h)
  | false => exact Or.inr ⟨preSteps f, collect_old h, bump_not_mem_preSteps f⟩

/-- A run interrupted before any of its steps (`k` smaller than the number of steps) — whether or
not a step failed before — leaves the version untouched, so the file is still recognised as old:
the next `collect_tasks` schedules work again, ending with the bump. -/
theorem C18_version_old_while_interrupted (lib : List Nat) (r k : Nat) (f : File)
    (hk : k < (collect lib f).length) :
    (interrupt lib r k f).1.version = f.version ∧
    upToDate lib (interrupt lib r k f).1 = false ∧
    ∃ ss, collect lib (interrupt lib r k f).1 = ss ++ [Step.bump] := by
  cases hu : upToDate lib f with
  | true => rw [collect_upToDate hu] at hk; cases hk
  | false =>
    have hv : (interrupt lib r k f).1.version = f.version := by
      unfold interrupt
      apply runSteps_version
      intro s hs hb
      rw [collect_old hu] at hs hk
      simp only [List.length_append, List.length_cons, List.length_nil] at hk
      rw [List.take_append_of_le_length (by omega)] at hs
      exact bump_not_mem_preSteps f (hb ▸ List.mem_of_mem_take hs)
    have hu' : upToDate lib (interrupt lib r k f).1 = false := (upToDate_congr hv).trans hu
    exact ⟨hv, hu', _, collect_old hu'⟩

/-- Resumability, for every file, every interruption point `k` (any prefix of the flattened step
list, including none and all of it) and any three invocations `r1` (interrupted), `r2` (re-run),
`r3` (uninterrupted reference): if the interrupted run did not hit a failing step, re-running the
upgrade on what it left gives the same file and the same outcome as an uninterrupted run, up to
which invocation made the fresh ids and timestamps. -/
theorem C18_resumable (lib : List Nat) (r1 r2 r3 k : Nat) (f : File) (hwf : WF f)
    (hok : (interrupt lib r1 k f).2 = none) :
    (upgrade lib r2 (interrupt lib r1 k f).1).1.erase = (upgrade lib r3 f).1.erase ∧
    (upgrade lib r2 (interrupt lib r1 k f).1).2 = (upgrade lib r3 f).2 :=
  resume_erase k hwf hok

/-- Any number of interruptions: after a history of invocations `r, r+1, …` each interrupted before its
`kᵢ`-th step (none hitting a failing step), the next uninterrupted upgrade gives the same file and
outcome as an uninterrupted upgrade of the original file, up to fresh ids and timestamps. -/
theorem C18_resumable_history (lib : List Nat) (r r2 r3 : Nat) (ks : List Nat) (f g : File) (hwf : WF f)
    (hh : runHistory lib r f ks = (g, none)) :
    (upgrade lib r2 g).1.erase = (upgrade lib r3 f).1.erase ∧ (upgrade lib r2 g).2 = (upgrade lib r3 f).2 :=
  history_resume ks r hwf hh

/-- For a file in which no `<name>.<extra>` name is taken, no step can fail: every interruption
point is reached, the re-run succeeds and agrees with the uninterrupted run. -/
theorem C18_resumable_clean (lib : List Nat) (r1 r2 r3 k : Nat) (f : File) (hwf : WF f) (hclean : Clean f) :
    (interrupt lib r1 k f).2 = none ∧
    (upgrade lib r2 (interrupt lib r1 k f).1).2 = none ∧
    (upgrade lib r2 (interrupt lib r1 k f).1).1.erase = (upgrade lib r3 f).1.erase := by
  have hok : ∀ r, (upgrade lib r f).2 = none := fun r =>
    (run_induction (lib := lib) (r := r) (ContentInv r f) (content_step hclean) _ f rfl hwf
      ⟨Inv.refl r f.props, rfl, rfl⟩).1
  have hk := prefix_ok k (hok r1)
  obtain ⟨h1, h2⟩ := resume_erase (lib := lib) (r1 := r1) (r2 := r2) (r3 := r3) k hwf hk
  exact ⟨hk, h2.trans (hok r3), h1⟩

/-- What the interrupted run leaves to do is exactly the rest of the original step list. -/
theorem C18_resumable_steps (lib : List Nat) (r k : Nat) (f : File) (hwf : WF f)
    (hok : (interrupt lib r k f).2 = none) :
    collect lib (interrupt lib r k f).1 = (collect lib f).drop k := by
  unfold interrupt at *
  cases hi : runSteps lib r f ((collect lib f).take k) with
  | mk g e =>
    rw [hi] at hok
    simp only at hok
    subst hok
    exact (collect_after_prefix k hwf hi).2

/-- Idempotence: an up-to-date file is left exactly as it is (and the call succeeds); a successful
upgrade leaves nothing to collect, so a second upgrade is the identity. -/
theorem C18_idempotent (lib : List Nat) (r r' : Nat) (f : File) :
    (upToDate lib f = true → upgrade lib r f = (f, none)) ∧
    ((upgrade lib r f).2 = none →
      collect lib (upgrade lib r f).1 = [] ∧
      upgrade lib r' (upgrade lib r f).1 = ((upgrade lib r f).1, none)) := by
  have hA : ∀ g : File, upToDate lib g = true → ∀ q, upgrade lib q g = (g, none) := by
    intro g hg q
    unfold upgrade
    rw [collect_upToDate hg]
    rfl
  refine ⟨fun h => hA f h r, fun hok => ?_⟩
  have hup : upToDate lib (upgrade lib r f).1 = true := by
    cases hu : upToDate lib f with
    | true => rw [hA f hu r]; exact hu
    | false =>
      unfold upgrade at hok ⊢
      rw [collect_old hu, runSteps_append] at hok ⊢
      cases hp : runSteps lib r f (preSteps f) with
      | mk g e =>
        cases e with
        | some e => rw [hp] at hok; simp at hok
        | none => exact upToDate_refl lib _ rfl
  exact ⟨collect_upToDate hup, hA _ hup r'⟩

/-- Safe to repeat: a task list collected *before* a successful upgrade (the file named twice in one
call, a second instance of the tool) does nothing to the upgraded file and does not fail — every step
re-checks its precondition on the object it is about to convert. -/
theorem C18_safe_to_repeat (lib : List Nat) (r1 r2 : Nat) (f : File) (hwf : WF f)
    (hok : (upgrade lib r1 f).2 = none) :
    runSteps lib r2 (upgrade lib r1 f).1 (collect lib f) = ((upgrade lib r1 f).1, none) :=
  stale_list_safe hwf hok

/-- The upgraded file opens for writing (`File._check_header`): the version is the library's and,
where the library demands one, the id is valid. -/
theorem C18_writable (lib : List Nat) (r : Nat) (f : File) (hlib : lib.length = 3)
    (hold : upToDate lib f = false) (hok : (upgrade lib r f).2 = none) :
    openRW lib (upgrade lib r f).1 = .ok () := by
  have hv : hasValidId (upgrade lib r f).1 = true := upgrade_validId hold
  have hver : (upgrade lib r f).1.version = lib := by
    unfold upgrade at hok ⊢
    rw [collect_old hold, runSteps_append] at hok ⊢
    cases hp : runSteps lib r f (preSteps f) with
    | mk g e =>
      cases e with
      | some e => rw [hp] at hok; simp at hok
      | none => rfl
  unfold openRW
  simp [hver, hlib, hv]

/-- "makes it openable for writing", over the source of the open itself: `can_write` and `File._check_header` as
regenerated from nixio/file.py (`Generated/FormatConst.lean`, the translator of property C11: length test, the
comparison with `HDF_FF_VERSION`, the version from which an id is demanded) are the model's `openRW`; and with the
library's own `HDF_FF_VERSION` a successfully upgraded old file passes them. -/
theorem C18_shape_open (lib : List Nat) (r : Nat) (f : File) :
    Shape.openRWG lib f = openRW lib f ∧
    (upToDate Shape.libVersionNat f = false → (upgrade Shape.libVersionNat r f).2 = none →
      Shape.openRWG Shape.libVersionNat (upgrade Shape.libVersionNat r f).1 = .ok ()) := by
  refine ⟨shape_open lib f, fun hold hok => ?_⟩
  rw [shape_open]
  exact C18_writable Shape.libVersionNat r f (by decide) hold hok

/-! ## the tie to the source: the shape extracted from `nixio/cmd/upgrade.py` is the model

`NixModel/Generated/UpgradeShape.lean` is rewritten from the source on every run (`harness/extract/upgradeshape.py`).
The theorems below interpret it (`NixModel/Pure/UpgradeShape.lean`) and prove it equal to the hand-written model all
other theorems are about; an edit of the source that reorders the tasks, reverses the loop, changes a test, a suffix
or a rule for the per-value extras breaks one of them. -/

/-- `collect_tasks` as written (version test, order and conditionality of the task constructors), run in the
direction of the loop in `process_tasks`, is the model's flattened step list. -/
theorem C18_shape_collect (lib : List Nat) (f : File) :
    Shape.runOrder Gen.processOrder (Shape.collectG Gen.upToDateOp Gen.taskOrder Gen.idOuterTest lib f)
      = collect lib f := by
  rw [shape_process, shape_collect]

/-- The tests of the source — which objects are scheduled, and the re-check each step makes on the object it
is about to convert — evaluate to the model's: compound datasets, `isAliasDim`, the skip condition of
`convertDimObj`; `add_id` re-checks the id, `update_ver` writes the library version and nothing else. -/
theorem C18_shape_tests :
    (∀ o : PObj, Gen.propFind.eval (Shape.propEnv o) = some (match o with | .old _ => true | .new _ => false)) ∧
    (∀ o : PObj, Gen.propGoAhead.eval (Shape.propEnv o) = some (match o with | .old _ => true | .new _ => false)) ∧
    (∀ d : Dim, Gen.dimFind.eval (Shape.dimEnv d) = some (isAliasDim d)) ∧
    (∀ d : Dim, Gen.dimSkip.eval (Shape.dimEnv d) = some (d.ticks.isSome || (d.link.isSome && !d.alias))) ∧
    Gen.idRecheck = true ∧ Gen.bumpWritesLibVersion = true :=
  ⟨shape_prop_find, shape_prop_recheck, shape_dim_find, shape_dim_recheck, rfl, rfl⟩

/-- The rules of `update_props` for the per-value extras as written (field, test `len(set(x)) > 1` / `any(x)`,
`<name><suffix>` property or attribute, `if`/`elif` chaining, order) create exactly the model's objects. -/
theorem C18_shape_conversion (run : Nat) (p : Path) (o : OldProp) :
    Shape.convertedG Gen.extraRules run p o = some (converted run p o) :=
  shape_conversion run p o

/-- The refusal as written: the names tested before anything is changed (`needed`) are the names of the properties
the rules create — same suffix, field and test, in the same order — and the test evaluates to the model's
`nameTaken`, for every file. -/
theorem C18_shape_refusal (run : Nat) (ps : List (Path × PObj)) (p : Path) (o : OldProp) :
    Shape.nameTakenG Gen.refusal ps p o = some (nameTaken ps (converted run p o)) ∧
    Gen.refusal = Gen.extraRules.filterMap (fun r => match r.act with
      | .prop suf _ => some (suf, r.field, r.test)
      | .attrHead _ => none) :=
  ⟨shape_refusal run ps p o, by decide⟩

/-- The readers through which "reads as before" is stated (`nixio/dimensions.py`): `RangeDimension.is_alias` as
written evaluates to the model's `isAliasRead`; the getters `ticks`, `unit`, `label` as written choose the source
(`_redirgrp` / the `DimensionLink` / the dimension group) that the model's `readDim` reads. -/
theorem C18_shape_readers (a : Arr) (d : Dim) :
    Shape.firstMatch (Shape.readEnv d) Gen.isAliasRules Gen.isAliasDefault = some (isAliasRead d) ∧
    Shape.firstMatch (Shape.getterEnv (isAliasRead d) d) Gen.ticksSource.1 Gen.ticksSource.2 = some (Shape.sourceOf d) ∧
    Shape.firstMatch (Shape.getterEnv (isAliasRead d) d) Gen.unitSource.1 Gen.unitSource.2 = some (Shape.sourceOf d) ∧
    Shape.firstMatch (Shape.getterEnv (isAliasRead d) d) Gen.labelSource.1 Gen.labelSource.2 = some (Shape.sourceOf d) ∧
    readDim a d = (match Shape.sourceOf d with
      | .redirect => ⟨a.data, a.unit, a.label⟩
      | .link => ⟨a.data, a.unit, a.label⟩
      | .own => ⟨d.ticks.getD "[]", d.unit, d.label⟩) :=
  ⟨shape_is_alias d, (shape_sources d).1, (shape_sources d).2.1, (shape_sources d).2.2, readDim_source a d⟩

/-- Order of the writes of one conversion as written: the refusal comes before anything is changed, then the old
dataset is deleted, the main property is created next, then one operation per extras rule in rule order (`convertPropTake` cuts this sequence); a dimension
gets its link group first, the alias link is removed last (`Dim.halfConverted` is the state in between). -/
theorem C18_shape_ops :
    Gen.propOps = ["refuse", "delete", "create:main"] ++
      Gen.extraRules.map (fun r => (if r.elseOfPrev then "extra-else:" else "extra:") ++ r.field) ∧
    Gen.dimOps.head? = some "create:link" ∧ Gen.dimOps.getLast? = some "delete:alias" ∧
    (∀ x ∈ ["target", "attr:entity_id", "attr:data_object_type", "attr:index", "attr:created_at",
      "attr:updated_at"], x ∈ Gen.dimOps) ∧ Gen.dimOps.length = 8 := by
  decide

/-- `create_property` as written (the parameters reach `create_dataset` unchanged; attributes `name`, `entity_id`,
`created_at`, `updated_at`, then `definition` / `unit` under `if <parameter>:`) called with the arguments of the main
call as written (dtype and column of the values, the `definition` and the `unit` attribute of the old dataset, each a
variable bound once and passed on unmodified) makes the main property of the model's `converted` (the `uncertainty`
attribute aside, which the rules add); called with `dtype` and `data` only — the other parameters default to None —
it makes the model's extra property. -/
theorem C18_shape_create (run : Nat) (p : Path) (o : OldProp) (dt : String) (vals : List Val) :
    (∃ n, (converted run p o).head? = some (p, .new n) ∧
      (Shape.mainArgsG Gen.mainArgs o).bind (Shape.createG Gen.createDataset Gen.createAttrs run)
        = some { n with uncertainty := none }) ∧
    (Shape.defaultArgsG Gen.createParams dt vals).bind (Shape.createG Gen.createDataset Gen.createAttrs run)
      = some (freshProp run dt vals) := by
  refine ⟨⟨_, rfl, ?_⟩, ?_⟩
  · rw [shape_main_args, Option.bind_some, shape_create]
    rfl
  · rw [shape_default_args, Option.bind_some, shape_create]
    rfl

/-- `has_valid_file_id` as written (`fileid and nix.util.is_uuid(fileid)`, with `uuid.UUID`'s acceptance modelled
completely) is the model's `hasValidId`; `get_file_version` reads the header attribute; `file_upgrade` as written
collects the task list and then processes it, returning True exactly when no step raised: the model's `upgrade`. -/
theorem C18_shape_entry (lib : List Nat) (run : Nat) (f : File) :
    Gen.idValid.eval (Shape.idEnv f.id) = some (hasValidId f) ∧ Gen.versionIsHeaderAttr = true ∧
    Shape.entryG Gen.entryOps lib run f = some (upgrade lib run f) :=
  ⟨shape_id_valid f, rfl, shape_entry lib run f⟩

/-- The link group `update_alias_dims` writes as written (fresh id, `data_object_type`, `index`, both time stamps, the
member named like the array's id) is the model's `newLink`, which `RangeDimension`'s readers follow to the array. -/
theorem C18_shape_link (run : Nat) (daid : String) :
    Shape.newLinkG Gen.linkAttrs Gen.dimOps run daid = some (newLink run daid) ∧
    (newLink run daid).dataObjectType = "DataArray" ∧ (newLink run daid).index = [-1] :=
  ⟨shape_link run daid, rfl, rfl⟩

/-! ## content -/

/-- "the upgrade succeeds and the file reads as before": every compound property is now a plain one
with the same dtype, values, unit and definition, its per-value uncertainties and texts are
retrievable (the `uncertainty` attribute or the `<name>.<extra>` property); every plain property is
untouched; every array reads the same data, unit, label and dimensions (alias range dimensions keep
ticks, unit and label); nothing else changed. -/
def ContentPreserved (lib : List Nat) (r : Nat) (f : File) : Prop :=
  (upgrade lib r f).2 = none ∧
  (∀ p o, (p, PObj.old o) ∈ f.props →
    ∃ n, lookup (upgrade lib r f).1.props p = some (.new n) ∧
      (PObj.new n).view = (PObj.old o).view ∧
      extraUnc (upgrade lib r f).1.props p = some (o.rows.map (·.uncertainty)) ∧
      extraStr (upgrade lib r f).1.props p ".reference" = some (o.rows.map (·.reference)) ∧
      extraStr (upgrade lib r f).1.props p ".filename" = some (o.rows.map (·.filename)) ∧
      extraStr (upgrade lib r f).1.props p ".encoder" = some (o.rows.map (·.encoder)) ∧
      extraStr (upgrade lib r f).1.props p ".checksum" = some (o.rows.map (·.checksum))) ∧
  (∀ p n, (p, PObj.new n) ∈ f.props → lookup (upgrade lib r f).1.props p = some (.new n)) ∧
  (upgrade lib r f).1.arrays.map arrView = f.arrays.map arrView ∧
  (upgrade lib r f).1.other = f.other

/-- the full statement: every old file keeps its content -/
def C18_content : Prop :=
  ∀ (lib : List Nat) (r : Nat) (f : File), WF f → upToDate lib f = false → ContentPreserved lib r f

/-- Content is preserved for every old file in which no `<name>.<extra>` name is already taken
(`Clean`, decidable): by the invariant `ContentInv` carried along the whole run. -/
theorem C18_content_partial (lib : List Nat) (r : Nat) (f : File) (hwf : WF f) (hclean : Clean f)
    (hold : upToDate lib f = false) : ContentPreserved lib r f := by
  obtain ⟨hok, hP, hwfG⟩ := run_induction (lib := lib) (r := r) (ContentInv r f) (content_step hclean)
    _ f rfl hwf ⟨Inv.refl r f.props, rfl, rfl⟩
  have hno := upgrade_no_old hwf hold hok
  refine ⟨hok, ?_, ?_, hP.2.1, hP.2.2⟩
  · intro p o hp
    rcases hP.1.oldOrDone p o hp with h | hd
    · have := mem_oldPaths_of_mem h
      rw [hno] at this
      cases this
    · obtain ⟨h1, h2, h3, h4, h5, h6⟩ := decode_all hwfG.1 hd (clean_extras_nodup hclean hp)
      exact ⟨mainOf r o, h1, view_mainOf r o, h2, h3, h4, h5, h6⟩
  · intro p n hp
    exact lookup_of_mem hwfG.1 (hP.1.keepNew p n hp)

/-- The hypothesis of `C18_content_partial` in the terms of the finding. `Clean` asks that all paths and all
`<name>.<extra>` names be pairwise distinct; distinct (property, extra) pairs always give distinct names (the five
suffixes differ in their last two characters), so it is enough that no dataset already sits at a `<name>.<extra>`
name of a compound property (`NoNameTaken`, decidable): then the upgrade succeeds, every interruption point is
reached and resumed with the same result, and the whole content is preserved. -/
theorem C18_content_no_name_taken (lib : List Nat) (r1 r2 r3 k : Nat) (f : File) (hwf : WF f) (h : NoNameTaken f)
    (hold : upToDate lib f = false) :
    ContentPreserved lib r3 f ∧
    (interrupt lib r1 k f).2 = none ∧
    (upgrade lib r2 (interrupt lib r1 k f).1).2 = none ∧
    (upgrade lib r2 (interrupt lib r1 k f).1).1.erase = (upgrade lib r3 f).1.erase :=
  ⟨C18_content_partial lib r3 f hwf (clean_of_noNameTaken hwf.1 h) hold,
   C18_resumable_clean lib r1 r2 r3 k f hwf (clean_of_noNameTaken hwf.1 h)⟩

/-- The only way an upgrade can fail: a dataset sits at a `<name>.<extra>` name (the class of the open finding). -/
theorem C18_fails_only_on_taken_name (lib : List Nat) (r : Nat) (f : File) (hwf : WF f)
    (hfail : (upgrade lib r f).2 ≠ none) : ¬ NoNameTaken f := by
  intro h
  have := (C18_resumable_clean lib r r r 0 f hwf (clean_of_noNameTaken hwf.1 h)).2.1
  exact hfail (by simpa [interrupt, runSteps] using this)

/-- What no run loses — for every file (no hypothesis on names: the files of the open finding included), every
list of steps (the collected one, any prefix of it, a stale one) and whether or not a step fails: every
property is still there and reads the same dtype, values, unit and definition, and everything outside
properties and dimension groups is untouched. (What the name collision costs is the per-value extras only.) -/
theorem C18_values_never_lost (lib : List Nat) (r : Nat) (f : File) (hwf : WF f) (ss : List Step) :
    (∀ p x, (p, x) ∈ f.props →
      ∃ y, lookup (runSteps lib r f ss).1.props p = some y ∧ y.view = x.view) ∧
    (runSteps lib r f ss).1.other = f.other := by
  obtain ⟨h1, h2, h3⟩ := runSteps_kept lib r ss f hwf.1
  refine ⟨fun p x hx => ?_, h3⟩
  obtain ⟨y, hy, hv⟩ := h2 p x hx
  exact ⟨y, lookup_of_mem h1 hy, hv⟩

/-- A file interrupted between steps reads as before: at every interruption point `k` (any prefix of the step list,
also when the run was refused at an earlier step) every property is there with the same dtype, values, unit and
definition (a converted one in the new layout, the others in the old), every array reads the same data, unit, label
and dimensions (alias range dimensions: ticks, unit, label, converted or not), everything else is untouched; and
before the last step the version is still the old one. For every file. -/
theorem C18_interrupted_reads_same (lib : List Nat) (r k : Nat) (f : File) (hwf : WF f) :
    (∀ p x, (p, x) ∈ f.props → ∃ y, lookup (interrupt lib r k f).1.props p = some y ∧ y.view = x.view) ∧
    (interrupt lib r k f).1.arrays.map arrView = f.arrays.map arrView ∧
    (interrupt lib r k f).1.other = f.other ∧
    (k < (collect lib f).length → (interrupt lib r k f).1.version = f.version) :=
  ⟨(C18_values_never_lost lib r f hwf _).1, (interrupt_rest_kept k hwf).1, (interrupt_rest_kept k hwf).2,
   fun hk => (C18_version_old_while_interrupted lib r k f hk).1⟩

/-- An upgrade that fails (returns `False`) has not raised the version: the file is still recognised as old. -/
theorem C18_failed_stays_old (lib : List Nat) (r : Nat) (f : File) (h : (upgrade lib r f).2 ≠ none) :
    (upgrade lib r f).1.version = f.version ∧
    (upToDate lib f = false → upToDate lib (upgrade lib r f).1 = false) :=
  ⟨failed_keeps_version h, fun hu => (upToDate_congr (failed_keeps_version h)).trans hu⟩

/-- A failed upgrade is an interruption between two steps: the only step of a collected list that can fail is a
property conversion, and it is refused before its first write. So what a failed upgrade leaves is what an
interruption before the refused step leaves, and every further attempt gives the same file and the same outcome as
the first, up to fresh ids and timestamps. For every file. -/
theorem C18_failure_is_interruption (lib : List Nat) (r : Nat) (f : File) (hwf : WF f)
    (h : (upgrade lib r f).2 ≠ none) :
    ∃ k, k < (collect lib f).length ∧ interrupt lib r k f = ((upgrade lib r f).1, none) ∧
      ∀ r2 r3, (upgrade lib r2 (upgrade lib r f).1).1.erase = (upgrade lib r3 f).1.erase ∧
        (upgrade lib r2 (upgrade lib r f).1).2 = (upgrade lib r3 f).2 := by
  cases hu : upgrade lib r f with
  | mk g e =>
    cases e with
    | none => rw [hu] at h; exact absurd rfl h
    | some e =>
      obtain ⟨k, hk, hi⟩ := failure_is_interruption _ f g e rfl hwf hu
      refine ⟨k, hk, hi, fun r2 r3 => ?_⟩
      have := C18_resumable lib r r2 r3 k f hwf (by rw [hi])
      rw [hi] at this
      exact this

/-- No run loses a per-value extra. For every file whose datasets have names — no hypothesis on clashes: the files
of the open finding included —, every list of steps (the collected one, any prefix, a stale one) and whether or
not a step fails or is refused: a compound property of the original file is afterwards either still there exactly
as it was, or converted, and then its dtype, values, unit, definition and every per-value uncertainty, reference,
filename, encoder and checksum are retrievable. "Retrievable" as in `ContentPreserved`, read by someone who knows
the names of the original file (`visible`): a dataset that already sat at a `<name>.<extra>` name is somebody
else's. (Before the repair a9c126b this was false: `clash`.) -/
theorem C18_no_extra_lost (lib : List Nat) (r : Nat) (f : File) (hwf : WF f) (hnamed : ∀ e ∈ f.props, e.1 ≠ [])
    (ss : List Step) (p : Path) (o : OldProp) (hp : (p, PObj.old o) ∈ f.props) :
    (p, PObj.old o) ∈ (runSteps lib r f ss).1.props ∨
    (∃ n, lookup (runSteps lib r f ss).1.props p = some (.new n) ∧ (PObj.new n).view = (PObj.old o).view ∧
      extraUnc (visible f.props (runSteps lib r f ss).1.props p) p = some (o.rows.map (·.uncertainty)) ∧
      extraStr (visible f.props (runSteps lib r f ss).1.props p) p ".reference" = some (o.rows.map (·.reference)) ∧
      extraStr (visible f.props (runSteps lib r f ss).1.props p) p ".filename" = some (o.rows.map (·.filename)) ∧
      extraStr (visible f.props (runSteps lib r f ss).1.props p) p ".encoder" = some (o.rows.map (·.encoder)) ∧
      extraStr (visible f.props (runSteps lib r f ss).1.props p) p ".checksum" = some (o.rows.map (·.checksum))) := by
  have hinv := inv2_runSteps (lib := lib) (r := r) hwf.1 hnamed ss f (Inv2.refl r hwf.1)
  rcases hinv.oldOrDone p o hp with h | h
  · exact Or.inl h
  · obtain ⟨h1, h2, h3, h4, h5, h6⟩ := done2_decode hinv.nodup (hnamed _ hp) h
    exact Or.inr ⟨mainOf r o, h1, view_mainOf r o, h2, h3, h4, h5, h6⟩

/-- Resumability without a side condition: for every file, every interruption point `k` and any three
invocations — also when the interrupted run was refused at an earlier step — re-running the upgrade on what was
left gives the same file and the same outcome (success, or the same refusal) as an uninterrupted run, up to which
invocation made the fresh ids and timestamps. (`C18_resumable` needed `hok`; since the repair a9c126b a failing
step changes nothing, so a failed prefix is a shorter prefix.) -/
theorem C18_resumable_total (lib : List Nat) (r1 r2 r3 k : Nat) (f : File) (hwf : WF f) :
    (upgrade lib r2 (interrupt lib r1 k f).1).1.erase = (upgrade lib r3 f).1.erase ∧
    (upgrade lib r2 (interrupt lib r1 k f).1).2 = (upgrade lib r3 f).2 := by
  cases hi : interrupt lib r1 k f with
  | mk g e =>
    cases e with
    | none =>
      have := C18_resumable lib r1 r2 r3 k f hwf (by rw [hi])
      rw [hi] at this
      exact this
    | some e =>
      obtain ⟨j, _, hj⟩ := prefix_failure_is_interruption k f g e hwf hi
      have := C18_resumable lib r1 r2 r3 j f hwf (by rw [hj])
      rw [hj] at this
      exact this

/-- Any history, without a side condition: after any number of invocations `r, r+1, …`, each interrupted before
its `kᵢ`-th step or refused earlier, and each started on whatever the previous one left, the next uninterrupted
upgrade gives the same file and outcome as an uninterrupted upgrade of the original file. For every file. -/
theorem C18_resumable_history_total (lib : List Nat) (r r2 r3 : Nat) (ks : List Nat) (f : File) (hwf : WF f) :
    (upgrade lib r2 (runHistoryAny lib r f ks)).1.erase = (upgrade lib r3 f).1.erase ∧
    (upgrade lib r2 (runHistoryAny lib r f ks)).2 = (upgrade lib r3 f).2 :=
  history_any_resume ks r hwf

/-- A task list collected *before* an interrupted (or refused) run and processed afterwards on what that run left —
`nixio upgrade a.nix ./a.nix` collects both lists up front; a second instance of the tool —: every step the first run
completed is recognised as done by its re-check and changes nothing, the rest is exactly what a fresh `collect_tasks`
schedules; so the stale list gives the same file and outcome as an uninterrupted upgrade of the original file, up to
fresh ids and timestamps. For every file and every interruption point (`C18_safe_to_repeat` is the case where the
first run completed). -/
theorem C18_stale_list_resumes (lib : List Nat) (r1 r2 r3 k : Nat) (f : File) (hwf : WF f) :
    runSteps lib r2 (interrupt lib r1 k f).1 (collect lib f) = upgrade lib r2 (interrupt lib r1 k f).1 ∧
    (runSteps lib r2 (interrupt lib r1 k f).1 (collect lib f)).1.erase = (upgrade lib r3 f).1.erase ∧
    (runSteps lib r2 (interrupt lib r1 k f).1 (collect lib f)).2 = (upgrade lib r3 f).2 := by
  have key : runSteps lib r2 (interrupt lib r1 k f).1 (collect lib f) = upgrade lib r2 (interrupt lib r1 k f).1 := by
    cases hi : interrupt lib r1 k f with
    | mk g e =>
      cases e with
      | none => exact stale_after_prefix k hwf hi
      | some e =>
        obtain ⟨j, _, hj⟩ := prefix_failure_is_interruption k f g e hwf hi
        exact stale_after_prefix j hwf hj
  rw [key]
  exact ⟨rfl, C18_resumable_total lib r1 r2 r3 k f hwf⟩

/-- `ContentPreserved` with the per-value extras read by someone who knows the names of the original file
(`visible`: a dataset that already sat at a `<name>.<extra>` name is somebody else's) -/
def ContentPreservedRel (lib : List Nat) (r : Nat) (f : File) : Prop :=
  (∀ p o, (p, PObj.old o) ∈ f.props →
    ∃ n, lookup (upgrade lib r f).1.props p = some (.new n) ∧
      (PObj.new n).view = (PObj.old o).view ∧
      extraUnc (visible f.props (upgrade lib r f).1.props p) p = some (o.rows.map (·.uncertainty)) ∧
      extraStr (visible f.props (upgrade lib r f).1.props p) p ".reference" = some (o.rows.map (·.reference)) ∧
      extraStr (visible f.props (upgrade lib r f).1.props p) p ".filename" = some (o.rows.map (·.filename)) ∧
      extraStr (visible f.props (upgrade lib r f).1.props p) p ".encoder" = some (o.rows.map (·.encoder)) ∧
      extraStr (visible f.props (upgrade lib r f).1.props p) p ".checksum" = some (o.rows.map (·.checksum))) ∧
  (∀ p n, (p, PObj.new n) ∈ f.props → lookup (upgrade lib r f).1.props p = some (.new n)) ∧
  (upgrade lib r f).1.arrays.map arrView = f.arrays.map arrView ∧
  (upgrade lib r f).1.other = f.other

/-- The content statement at full strength, for every old file whose datasets have names — no hypothesis on name
clashes: whenever the upgrade succeeds (and it fails only by refusing a taken `<name>.<extra>` name,
`C18_fails_only_on_taken_name`, changing nothing, `C18_failure_is_interruption`), every compound property is
converted with dtype, values, unit, definition and every per-value extra retrievable, every plain property, every
array with its dimension readings and everything else is as before, and the file opens for writing. -/
theorem C18_content_full (lib : List Nat) (r : Nat) (f : File) (hwf : WF f) (hnamed : ∀ e ∈ f.props, e.1 ≠ [])
    (hold : upToDate lib f = false) (hok : (upgrade lib r f).2 = none) :
    ContentPreservedRel lib r f ∧ (lib.length = 3 → openRW lib (upgrade lib r f).1 = .ok ()) := by
  have hno := upgrade_no_old hwf hold hok
  have hinv := inv2_runSteps (lib := lib) (r := r) hwf.1 hnamed (collect lib f) f (Inv2.refl r hwf.1)
  obtain ⟨ha, ho⟩ := upgrade_rest_kept hwf hok
  refine ⟨⟨fun p o hp => ?_, fun p n hp => lookup_of_mem hinv.nodup (hinv.keepNew p n hp), ha, ho⟩,
    fun hlib => C18_writable lib r f hlib hold hok⟩
  rcases C18_no_extra_lost lib r f hwf hnamed (collect lib f) p o hp with h | h
  · have : p ∈ oldPaths (upgrade lib r f).1.props := mem_oldPaths_of_mem h
    rw [hno] at this
    cases this
  · exact h

/-- the unit / definition text as stored on a property dataset of either layout -/
def storedUnit : PObj → Option String
  | .old o => o.unit
  | .new n => n.unit

def storedDefinition : PObj → Option String
  | .old o => o.definition
  | .new n => n.definition

/-- Texts are carried verbatim. Whatever non-empty text a property of the original file holds as its unit or its
definition — any string at all: blanks inside or around it, a micro sign, Greek mu, the letters `mu`, a text the
`Property.unit` setter would rewrite or refuse — the file holds the identical string on that property after any list
of steps (the collected one, any prefix of it, a stale one; failing steps included), for every file. -/
theorem C18_texts_verbatim (lib : List Nat) (r : Nat) (f : File) (hwf : WF f) (ss : List Step) (p : Path) (x : PObj)
    (hx : (p, x) ∈ f.props) (t : String) (ht : t ≠ "") :
    (storedUnit x = some t →
      ∃ y, lookup (runSteps lib r f ss).1.props p = some y ∧ storedUnit y = some t) ∧
    (storedDefinition x = some t →
      ∃ y, lookup (runSteps lib r f ss).1.props p = some y ∧ storedDefinition y = some t) := by
  obtain ⟨y, hy, hv⟩ := (C18_values_never_lost lib r f hwf ss).1 p x hx
  have key : ∀ a b : Option String, nonEmpty a = nonEmpty b → a = some t → b = some t := by
    intro a b hab ha
    subst ha
    cases b with
    | none => simp [nonEmpty, Option.filter, ht] at hab
    | some u =>
      by_cases hu : u = ""
      · subst hu; simp [nonEmpty, Option.filter, ht] at hab
      · simpa [nonEmpty, Option.filter, ht, hu] using hab.symm
  have hun : nonEmpty (storedUnit x) = nonEmpty (storedUnit y) := by
    have := congrArg PropView.unit hv
    cases x <;> cases y <;> exact this.symm
  have hdf : nonEmpty (storedDefinition x) = nonEmpty (storedDefinition y) := by
    have := congrArg PropView.definition hv
    cases x <;> cases y <;> exact this.symm
  exact ⟨fun h => ⟨y, hy, key _ _ hun h⟩, fun h => ⟨y, hy, key _ _ hdf h⟩⟩

/-- nixio chooses the reader of property values by the *file's* header version (`Property.values`: `filever < (1, 1, 1)`
→ `_read_old_values`; the bound is regenerated from nixio/property.py), not by the layout of the dataset. For an old
file (version below the bound) and a library at or above it: every compound property reads its values through the
old-layout reader before the upgrade, and after a successful upgrade the converted property reads the same values
through the plain reader — the version has been raised by then. In between, the version bump being the last step has
a price that the property accepts ("still recognised as old"): a property that is already converted and holds values
cannot be read through nixio until the re-run has raised the version. -/
theorem C18_reader_follows_version (lib : List Nat) (r : Nat) (f : File) (hwf : WF f)
    (hnamed : ∀ e ∈ f.props, e.1 ≠ []) (hold : upToDate lib f = false)
    (hbelow : f.version < Gen.valuesOldBelow) (hlib : ¬ lib < Gen.valuesOldBelow) :
    ((upgrade lib r f).2 = none → ∀ p o, (p, PObj.old o) ∈ f.props →
      readValues Gen.valuesOldBelow f.version (.old o) = .values (o.rows.map (·.value)) ∧
      ∃ n, lookup (upgrade lib r f).1.props p = some (.new n) ∧
        readValues Gen.valuesOldBelow (upgrade lib r f).1.version (.new n) = .values (o.rows.map (·.value))) ∧
    (∀ k p n, k < (collect lib f).length → (p, PObj.new n) ∈ (interrupt lib r k f).1.props → n.values ≠ [] →
      readValues Gen.valuesOldBelow (interrupt lib r k f).1.version (.new n) = .raises) ∧
    Gen.uncertaintyOldBelow = Gen.valuesOldBelow := by
  refine ⟨fun hok p o hp => ⟨readValues_old_below hbelow o, ?_⟩, fun k p n hk _ hv => ?_, rfl⟩
  · obtain ⟨n, hl, hv, _⟩ := (C18_content_full lib r f hwf hnamed hold hok).1.1 p o hp
    refine ⟨n, hl, ?_⟩
    rw [upgrade_version hold hok, readValues_new_from hlib]
    exact congrArg ReadOut.values (congrArg PropView.values hv)
  · rw [(C18_version_old_while_interrupted lib r k f hk).1]
    exact readValues_new_below hbelow n hv

/-- a property `a` with a reference text next to a property named `a.reference` -/
def clash : File :=
  { version := [1, 1, 0], id := .absent,
    props := [(["s", "properties", "a"], .old ⟨"int64", [⟨.int 1, .fin 0, "ref", "", "", ""⟩], none, none⟩),
              (["s", "properties", "a.reference"], .old ⟨"int64", [⟨.int 5, .fin 0, "", "", "", ""⟩], none, none⟩)],
    arrays := [], other := "" }

theorem clash_collect : collect [1, 2, 1] clash =
    [.addId, .prop ["s", "properties", "a"], .prop ["s", "properties", "a.reference"], .bump] := by
  have h1 : propTasks clash = [["s", "properties", "a"], ["s", "properties", "a.reference"]] :=
    mergeSort_eq_of (by decide +kernel) (by decide +kernel)
  rw [collect_old (by decide +kernel)]
  unfold preSteps
  rw [h1]
  decide +kernel

/-- The full statement is false of the code: `create_property` for `a.reference` raises because the
name exists; `a` has already been replaced, its reference text is lost, and the upgrade reports
failure (open known finding `C18-extra-name-collision`). -/
theorem C18_content_counterexample : ¬ C18_content := by
  intro h
  have := (h [1, 2, 1] 1 clash (by decide) (by decide +kernel)).1
  unfold upgrade at this
  rw [clash_collect] at this
  revert this
  decide +kernel

example : ¬ Clean clash := by decide +kernel
example : ¬ NoNameTaken clash := by decide +kernel
/-- `clash` exercises the refused branch of `C18_resumable_total`: interrupted before step 3 the run is refused at step 1 -/
example : (interrupt [1, 2, 1] 1 3 clash).2 = some .valueError := by
  unfold interrupt
  rw [clash_collect]
  decide +kernel

/-- `a` without reference texts next to a foreign text property named `a.reference`: not `NoNameTaken`, yet the
upgrade succeeds and `C18_no_extra_lost` applies; the reader has to know that `a.reference` was there before -/
def foreign : File :=
  { version := [1, 1, 0], id := .absent,
    props := [(["s", "properties", "a"], .old ⟨"int64", [⟨.int 1, .fin 0, "", "", "", ""⟩], none, none⟩),
              (["s", "properties", "a.reference"], .old ⟨"str", [⟨.str "zzz", .fin 0, "", "", "", ""⟩], none, none⟩)],
    arrays := [], other := "" }

example : ¬ NoNameTaken foreign ∧ WF foreign ∧ (∀ e ∈ foreign.props, e.1 ≠ []) := by decide +kernel

theorem foreign_collect : collect [1, 2, 1] foreign =
    [.addId, .prop ["s", "properties", "a"], .prop ["s", "properties", "a.reference"], .bump] := by
  have h1 : propTasks foreign = [["s", "properties", "a"], ["s", "properties", "a.reference"]] :=
    mergeSort_eq_of (by decide +kernel) (by decide +kernel)
  rw [collect_old (by decide +kernel)]
  unfold preSteps
  rw [h1]
  decide +kernel

/-- the hypotheses of `C18_content_full` are met by `foreign`, which `C18_content_partial` does not cover -/
example : (upgrade [1, 2, 1] 1 foreign).2 = none ∧ upToDate [1, 2, 1] foreign = false ∧ ¬ Clean foreign := by
  unfold upgrade
  rw [foreign_collect]
  decide +kernel

example :
    let g := (runSteps [1, 2, 1] 1 foreign
      [.addId, .prop ["s", "properties", "a"], .prop ["s", "properties", "a.reference"], .bump]).1.props
    extraStr (visible foreign.props g ["s", "properties", "a"]) ["s", "properties", "a"] ".reference" = some [""] ∧
    extraStr g ["s", "properties", "a"] ".reference" = some ["zzz"] := by
  decide +kernel

/-- non-vacuity of `C18_failed_stays_old` / `C18_values_never_lost`: on `clash` the upgrade fails, the value of `a`
is still read, its reference text is not -/
example : (upgrade [1, 2, 1] 1 clash).2 ≠ none ∧
    ((lookup (upgrade [1, 2, 1] 1 clash).1.props ["s", "properties", "a"]).map PObj.view
      = some ⟨"int64", [.int 1], none, none⟩) ∧
    extraStr (upgrade [1, 2, 1] 1 clash).1.props ["s", "properties", "a"] ".reference" ≠ some ["ref"] := by
  unfold upgrade
  rw [clash_collect]
  decide +kernel

/-! ## non-vacuity: a concrete old file with an interrupted run -/

def sample : File :=
  { version := [1, 1, 0], id := .absent,
    props := [(["s", "properties", "b"], .old ⟨"int64", [⟨.int 1, .fin (1/2), "r", "", "", ""⟩, ⟨.int 2, .nan, "", "", "", ""⟩], some "d", none⟩),
              (["s", "properties", "a"], .old ⟨"str", [⟨.str "x", .fin 0, "", "", "", ""⟩], none, some "mV"⟩)],
    arrays := [⟨"/data/b/data_arrays/a", "id-a", "[1/1]", some "s", none,
                [⟨"1", "range", none, none, none, true, none⟩]⟩],
    other := "" }

example : WF sample := by decide
example : Clean sample := by decide +kernel
example : NoNameTaken sample := by decide +kernel

theorem sample_collect : collect [1, 2, 1] sample =
    [.addId, .prop ["s", "properties", "a"], .prop ["s", "properties", "b"],
     .dim "/data/b/data_arrays/a" "1", .bump] := by
  have h1 : propTasks sample = [["s", "properties", "a"], ["s", "properties", "b"]] :=
    mergeSort_eq_of (by decide +kernel) (by decide +kernel)
  rw [collect_old (by decide +kernel)]
  unfold preSteps
  rw [h1]
  decide +kernel

/-- the hypotheses of `C18_resumable` / `C18_writable` are met by a file that really changes -/
example : (interrupt [1, 2, 1] 1 2 sample).2 = none ∧ (interrupt [1, 2, 1] 1 2 sample).1 ≠ sample ∧
    2 < (collect [1, 2, 1] sample).length := by
  unfold interrupt
  rw [sample_collect]
  decide +kernel
/-- `C18_stale_list_resumes` on a run that really stopped half-way: the first two steps of the stale list change
nothing, the remaining three do the rest -/
example : (runSteps [1, 2, 1] 2 (interrupt [1, 2, 1] 1 2 sample).1 (collect [1, 2, 1] sample)).2 = none ∧
    (runSteps [1, 2, 1] 2 (interrupt [1, 2, 1] 1 2 sample).1 ((collect [1, 2, 1] sample).take 2)).1
      = (interrupt [1, 2, 1] 1 2 sample).1 ∧
    (runSteps [1, 2, 1] 2 (interrupt [1, 2, 1] 1 2 sample).1 (collect [1, 2, 1] sample)).1.version = [1, 2, 1] := by
  unfold interrupt
  rw [sample_collect]
  decide +kernel
/-- `C18_interrupted_reads_same` where something was converted: cut before the bump, the alias dimension of `sample`
has its link group and reads the array as before -/
example : ((interrupt [1, 2, 1] 1 4 sample).1.arrays.map fun a => a.dims.map fun d => (d.link.isSome, d.alias, readDim a d))
      = [[(true, false, ⟨"[1/1]", some "s", none⟩)]] ∧
    (sample.arrays.map fun a => a.dims.map fun d => (d.link.isSome, d.alias, readDim a d))
      = [[(false, true, ⟨"[1/1]", some "s", none⟩)]] := by
  unfold interrupt
  rw [sample_collect]
  decide +kernel
/-- `C18_reader_follows_version` on `sample` (version 1.1.0, library 1.2.1): interrupted before step 2 the converted
property `a` is a plain dataset in a file that is still old - `Property.values` raises; after the complete upgrade it
reads `x` again -/
example : sample.version < Gen.valuesOldBelow ∧ ¬ ([1, 2, 1] : List Nat) < Gen.valuesOldBelow ∧
    ((lookup (interrupt [1, 2, 1] 1 2 sample).1.props ["s", "properties", "a"]).map
      (readValues Gen.valuesOldBelow (interrupt [1, 2, 1] 1 2 sample).1.version)) = some .raises ∧
    ((lookup (upgrade [1, 2, 1] 1 sample).1.props ["s", "properties", "a"]).map
      (readValues Gen.valuesOldBelow (upgrade [1, 2, 1] 1 sample).1.version)) = some (.values [.str "x"]) := by
  unfold interrupt upgrade
  rw [sample_collect]
  decide +kernel
example : (upgrade [1, 2, 1] 1 sample).2 = none ∧ upToDate [1, 2, 1] sample = false := by
  unfold upgrade
  rw [sample_collect]
  decide +kernel

/-- a file whose units and definitions no setter of the current library would store as they are -/
def rawTexts : File :=
  { version := [1, 1, 0], id := .text " 16363698b524b4a97b750923ceb3ffd",
    props := [(["s", "properties", "a"], .old ⟨"float64", [⟨.flt (.fin 1), .fin 0, "", "", "", ""⟩], some " lead, trail ", some "µV"⟩),
              (["s", "properties", "b"], .old ⟨"int64", [⟨.int 2, .fin 0, "", "", "", ""⟩], some "", some "spikes / s"⟩)],
    arrays := [], other := "" }

theorem rawTexts_collect : collect [1, 2, 1] rawTexts =
    [.prop ["s", "properties", "a"], .prop ["s", "properties", "b"], .bump] := by
  have h1 : propTasks rawTexts = [["s", "properties", "a"], ["s", "properties", "b"]] :=
    mergeSort_eq_of (by decide +kernel) (by decide +kernel)
  have hv : hasValidId rawTexts = true := by decide +kernel
  unfold collect
  rw [show upToDate [1, 2, 1] rawTexts = false by decide +kernel, hv, h1]
  decide +kernel

/-- non-vacuity of `C18_texts_verbatim` (and of the complete `is_uuid`: a header id with a leading blank is valid, no id
step is scheduled): after the upgrade the unit texts are `µV` and `spikes / s`, not `uV` and `spikes/s` -/
example : WF rawTexts ∧ (upgrade [1, 2, 1] 1 rawTexts).2 = none ∧
    (lookup (upgrade [1, 2, 1] 1 rawTexts).1.props ["s", "properties", "a"]).map storedUnit = some (some "µV") ∧
    (lookup (upgrade [1, 2, 1] 1 rawTexts).1.props ["s", "properties", "b"]).map storedUnit = some (some "spikes / s") ∧
    (lookup (upgrade [1, 2, 1] 1 rawTexts).1.props ["s", "properties", "a"]).map storedDefinition
      = some (some " lead, trail ") := by
  unfold upgrade
  rw [rawTexts_collect]
  decide +kernel

/-! ## interruption *inside* one conversion

Outside the property's quantifier ("between conversion steps"), but stated and proved rather than assumed: the
re-check of a property conversion looks only at the main dataset, so a conversion cut after `del hfile[propname]`
is never taken up again. -/

/-- Whatever the point inside the conversion of a compound property `p` (past the refusal test, before its
`(c+1)`-th `create_property` call, any `c`): no later `collect_tasks` schedules `p` again; cut before the first call
the dataset is gone altogether; cut after the last call it is the complete conversion; and a conversion that is
refused (a needed name is taken) has changed nothing wherever it would have been cut. For every file. -/
theorem C18_inside_never_rescheduled (lib : List Nat) (run c : Nat) (f : File) (p : Path) (o : OldProp)
    (ho : lookup f.props p = some (.old o)) :
    (nameTaken f.props (converted run p o) = false →
      Step.prop p ∉ collect lib (convertPropTake run f p c).1 ∧
      hasPath (convertPropTake run f p 0).1.props p = false) ∧
    (nameTaken f.props (converted run p o) = true → convertPropTake run f p c = (f, some .valueError)) ∧
    ((converted run p o).length ≤ c → convertPropTake run f p c = convertProp run f p) :=
  ⟨fun hfree => ⟨inside_not_scheduled lib c ho hfree, (inside_zero_gone ho hfree).1⟩,
   fun ht => (inside_refused c ho ht).1,
   fun hc => inside_full c (fun o' ho' => by rw [ho] at ho'; cases ho'; exact hc)⟩

/-- A range dimension cut between the creation of its link group and the removal of the alias link holds both:
it is never scheduled again, a stale task list fails on it, and it reads like the converted dimension. -/
theorem C18_inside_dim (run : Nat) (daid : String) (a : Arr) (d : Dim) (h : d.halfConverted = true) :
    isAliasDim d = false ∧ convertDimObj run daid d = (d, some .valueError) ∧
    readDim a d = ⟨a.data, a.unit, a.label⟩ :=
  half_converted_dim run daid a d h

example : (⟨"1", "range", none, some "u", none, true, some (newLink 1 "id-a")⟩ : Dim).halfConverted = true := rfl

/-- the statement one might hope for: a run cut inside a conversion is completed by the re-run -/
def InsideRecoverable : Prop :=
  ∀ (lib : List Nat) (r1 r2 r3 k c : Nat) (f : File), WF f → Clean f →
    (interruptInside lib r1 k c f).2 = none →
    (upgrade lib r2 (interruptInside lib r1 k c f).1).1.erase = (upgrade lib r3 f).1.erase

/-- `sample` cut inside the conversion of `b`, after the main property was re-created -/
def cut : File :=
  (convertPropTake 1 (runSteps [1, 2, 1] 1 sample [.addId, .prop ["s", "properties", "a"]]).1
    ["s", "properties", "b"] 1).1

theorem cut_spec : interruptInside [1, 2, 1] 1 2 1 sample = (cut, none) := by
  unfold interruptInside
  rw [sample_collect]
  decide +kernel

theorem cut_collect : collect [1, 2, 1] cut = [.dim "/data/b/data_arrays/a" "1", .bump] := by
  have h0 : oldPaths cut.props = [] := by decide +kernel
  have h1 : propTasks cut = [] := by unfold propTasks; rw [h0]; simp
  rw [collect_old (by decide +kernel)]
  unfold preSteps
  rw [h1]
  decide +kernel

/-- It is false of the code: cut after the main property of `b` was re-created, the re-run succeeds, raises the
version — and the per-value uncertainties and the reference text of `b` are lost. -/
theorem C18_inside_counterexample : ¬ InsideRecoverable := by
  intro h
  have := h [1, 2, 1] 1 2 3 2 1 sample (by decide) (by decide +kernel) (by rw [cut_spec])
  rw [cut_spec] at this
  unfold upgrade at this
  rw [cut_collect, sample_collect] at this
  revert this
  decide +kernel

/-- the re-run of the cut file succeeds and leaves nothing to collect: the loss is silent -/
example : (runSteps [1, 2, 1] 2 cut (collect [1, 2, 1] cut)).2 = none ∧
    extraStr (runSteps [1, 2, 1] 2 cut (collect [1, 2, 1] cut)).1.props ["s", "properties", "b"] ".reference"
      = some ["", ""] := by
  rw [cut_collect]
  decide +kernel

end Nix.C18
