import NixModel.Pure.Dim
import NixModel.Pure.DimSpec
import NixModel.Lemmas.C07Sep

/-!
# C07 — dimension descriptors map positions to sample indices by order, exactly

Property theorems only; helper lemmas live in `NixModel/Lemmas/C07*.lean`, the order-theoretic
specification (`IsLastAtOrBefore`, `IsLastBefore`, `IsFirstAtOrAfter`, `Meets`, `MeetsRange`,
`SeparatedAt`) in `NixModel/Pure/DimSpec.lean`.

All statements are about the model `NixModel/Pure/Dim.lean` of `nixio/dimensions.py` instantiated
with what `Generated/Tolerances.lean` reads from the source on every run: the `rtol`/`atol` of each
`np.isclose` call, whether the first-sample guard tests the scaled position, the rounding functions,
the enum members and the `end_mode` choice of the three `range_indices`.

* `RangeDimension` (no tolerance): full strength, every ascending tick list (repeats allowed), every
  position, every mode — induction over the tick list.
* `SampledDimension`, `SetDimension`: every offset, positive interval, label count (0 = unbounded),
  position and mode, under `Separated` — the (scaled) position is on a sample or outside the
  `atol + rtol·|i|` band of every sample `i`.  The statement without that hypothesis is kept as a `Prop`
  and refuted (`…_full_counterexample`): inside the band the code reports a hit by design.
  `band_width` / `band_limit_generated` say for which indices the band is below half a sample.
* `sampling_interval ≤ 0` is outside the theorems (the validator rejects it; the code divides by it).
-/
namespace Nix.C07
open Nix Nix.Dim Nix.Dim.Gen Nix.Dim.Lemmas

/-! ## what the translator read -/

/-- the generated enum members, `to_index_mode` table, `end_mode` choices, rounding functions and
guard argument are the ones the model and the theorems below are about; tolerances are non-negative
and the guard's `atol` is below one sample -/
theorem generated_tables :
    indexModes = [("Less", "less"), ("LessOrEqual", "leq"), ("GreaterOrEqual", "geq"), ("LEQ", "leq"), ("GEQ", "geq")] ∧
    sliceModes = [("Exclusive", "exclusive"), ("Inclusive", "inclusive")] ∧
    (sliceToIndexMode .exclusive = some .less ∧ sliceToIndexMode .inclusive = some .leq) ∧
    (∀ m, endModeOf sampledEndMode m = endModeSpec m) ∧ (∀ m, endModeOf rangeEndMode m = endModeSpec m) ∧
    (∀ m, endModeOf setEndMode m = endModeSpec m) ∧
    sampledZeroOnScaled = true ∧ sampledRounding = "round" ∧ setRounding = "floor" ∧
    ((0 ≤ sampledZeroTol.rtol ∧ 0 ≤ sampledZeroTol.atol ∧ sampledZeroTol.atol < 1) ∧
     (0 ≤ sampledHitTol.rtol ∧ 0 ≤ sampledHitTol.atol) ∧ (0 ≤ setHitTol.rtol ∧ 0 ≤ setHitTol.atol)) := by
  refine ⟨by decide, by decide, by decide, ?_, ?_, ?_, rfl, by decide, by decide, gen_tol_facts⟩ <;>
    intro m <;> cases m <;> decide

/-! ## RangeDimension: full strength -/

/-- **index_of on ticks.** For every ascending tick list (repeats allowed, empty allowed), position and
mode the result is `ok i` with `i` the requested sample, or `IndexError` with no such sample. -/
theorem range_index (ticks : List Rat) (hasc : AscendingList ticks) (pos : Rat) (mode : IndexMode)
    (hm : mode ≠ .other) :
    Meets mode (tickCoord ticks) (some ticks.length) pos (rangeIndexOf ticks pos mode) :=
  rangeIndexOf_meets ticks hasc pos mode hm

/-- the same in "iff" form: `ok i` iff `i` is that sample; `IndexError` iff none exists; no other
error and no negative index ever -/
theorem range_index_iff (ticks : List Rat) (hasc : AscendingList ticks) (pos : Rat) (mode : IndexMode)
    (hm : mode ≠ .other) :
    (∀ k : Nat, rangeIndexOf ticks pos mode = .ok (k : Int) ↔
        IsSample mode (tickCoord ticks) (some ticks.length) pos k) ∧
    (rangeIndexOf ticks pos mode = .error .indexError ↔
        ∀ k, ¬ IsSample mode (tickCoord ticks) (some ticks.length) pos k) ∧
    (∀ e, rangeIndexOf ticks pos mode = .error e → e = .indexError) ∧
    (∀ i : Int, rangeIndexOf ticks pos mode = .ok i → 0 ≤ i) :=
  meets_iff (rangeIndexOf_meets ticks hasc pos mode hm)

/-- **range_indices on ticks**: `(a, b)` iff `a … b` are exactly the ticks inside `[s, e]` (`[s, e)`
when exclusive) and there is one; `None` / `IndexError` iff there is none. -/
theorem range_indices_range (ticks : List Rat) (hasc : AscendingList ticks) (s e : Rat) (m : SliceMode) :
    MeetsRange m (tickCoord ticks) (some ticks.length) s e (rangeRangeIndices ticks s e m) :=
  rangeRangeIndicesT_meets rangeEndMode generated_tables.2.2.2.2.1 ticks hasc s e m

/-! ## SampledDimension and SetDimension: under `Separated` -/

/-- the scaled position is on a sample or outside the tolerance band of every sample, for both
`np.isclose` calls of `SampledDimension.index_of` (with the generated tolerances) -/
def SeparatedSampled (off si pos : Rat) : Prop :=
  SeparatedAt sampledZeroTol ((pos - off) / si) ∧ SeparatedAt sampledHitTol ((pos - off) / si)

/-- **index_of on a sampled dimension**: any offset, any positive interval, any position, any mode -/
theorem sampled_index (off si pos : Rat) (mode : IndexMode) (hsi : 0 < si) (hm : mode ≠ .other)
    (hsep : SeparatedSampled off si pos) :
    Meets mode (sampledCoord off si) none pos (sampledIndexOf off si pos mode) :=
  sampledIndexOfT_meets sampledZeroTol sampledHitTol "round" (Or.inl rfl)
    gen_tol_facts.1.1 gen_tol_facts.1.2.1 gen_tol_facts.2.1.1 gen_tol_facts.2.1.2
    off si pos mode hsi hm hsep.1 hsep.2

/-- **index_of on a set dimension** with `n` labels (`n = 0`: none, unbounded) -/
theorem set_index (n : Nat) (pos : Rat) (mode : IndexMode) (hm : mode ≠ .other)
    (hsep : SeparatedAt setHitTol pos) :
    Meets mode setCoord (setDom n) pos (setIndexOf n pos mode) :=
  setIndexOfT_meets setHitTol gen_tol_facts.2.2.1 gen_tol_facts.2.2.2 n pos mode hm hsep

/-- "iff" forms: `ok i` iff `i` is the requested sample, `IndexError` iff there is none, never another
error, never a negative index -/
theorem sampled_index_iff (off si pos : Rat) (mode : IndexMode) (hsi : 0 < si) (hm : mode ≠ .other)
    (hsep : SeparatedSampled off si pos) :
    (∀ k : Nat, sampledIndexOf off si pos mode = .ok (k : Int) ↔ IsSample mode (sampledCoord off si) none pos k) ∧
    (sampledIndexOf off si pos mode = .error .indexError ↔ ∀ k, ¬ IsSample mode (sampledCoord off si) none pos k) ∧
    (∀ e, sampledIndexOf off si pos mode = .error e → e = .indexError) ∧
    (∀ i : Int, sampledIndexOf off si pos mode = .ok i → 0 ≤ i) :=
  meets_iff (sampled_index off si pos mode hsi hm hsep)

theorem set_index_iff (n : Nat) (pos : Rat) (mode : IndexMode) (hm : mode ≠ .other)
    (hsep : SeparatedAt setHitTol pos) :
    (∀ k : Nat, setIndexOf n pos mode = .ok (k : Int) ↔ IsSample mode setCoord (setDom n) pos k) ∧
    (setIndexOf n pos mode = .error .indexError ↔ ∀ k, ¬ IsSample mode setCoord (setDom n) pos k) ∧
    (∀ e, setIndexOf n pos mode = .error e → e = .indexError) ∧
    (∀ i : Int, setIndexOf n pos mode = .ok i → 0 ≤ i) :=
  meets_iff (set_index n pos mode hm hsep)

theorem range_indices_sampled (off si s e : Rat) (m : SliceMode) (hsi : 0 < si)
    (hs : SeparatedSampled off si s) (he : SeparatedSampled off si e) :
    MeetsRange m (sampledCoord off si) none s e (sampledRangeIndices off si s e m) :=
  sampledRangeIndicesT_meets sampledZeroTol sampledHitTol "round" (Or.inl rfl)
    gen_tol_facts.1.1 gen_tol_facts.1.2.1 gen_tol_facts.2.1.1 gen_tol_facts.2.1.2
    sampledEndMode generated_tables.2.2.2.1 off si s e m hsi hs.1 hs.2 he.1 he.2

theorem range_indices_set (n : Nat) (s e : Rat) (m : SliceMode)
    (hs : SeparatedAt setHitTol s) (he : SeparatedAt setHitTol e) :
    MeetsRange m setCoord (setDom n) s e (setRangeIndices n s e m) :=
  setRangeIndicesT_meets setHitTol gen_tol_facts.2.2.1 gen_tol_facts.2.2.2 setEndMode
    generated_tables.2.2.2.2.2.1 n s e m hs he

/-! ## `Separated` is the condition on the two neighbouring samples -/

/-- the scaled position `x ≥ 0` is on a sample, or outside the band of the sample below it and of
the sample above it -/
def OffBand (t : Tol) (x : Rat) : Prop :=
  x = (x.floor : Rat) ∨
    (band t (x.floor : Rat) < x - (x.floor : Rat) ∧ band t ((x.floor : Rat) + 1) < (x.floor : Rat) + 1 - x)

/-- for any tolerances: where the band is below half a sample, `OffBand` (two neighbours) gives
`SeparatedAt` (all samples) -/
theorem separated_of_neighbours (t : Tol) (hr : 0 ≤ t.rtol) (ha : 0 ≤ t.atol) (x : Rat) (h0 : 0 ≤ x)
    (hb : band t (x + 2) < 1 / 2) (h : OffBand t x) : SeparatedAt t x :=
  Lemmas.separated_of_neighbours t hr ha x h0 hb h

/-- with the generated tolerances, up to index 10¹¹ -/
theorem separated_sampled_of_neighbours (off si pos : Rat)
    (h0 : 0 ≤ (pos - off) / si) (hx : (pos - off) / si ≤ 100000000000)
    (hz : OffBand sampledZeroTol ((pos - off) / si)) (hh : OffBand sampledHitTol ((pos - off) / si)) :
    SeparatedSampled off si pos := by
  have hb := gen_band_limit_rat ((pos - off) / si + 2) (by linarith) (by linarith)
  exact ⟨Lemmas.separated_of_neighbours _ gen_tol_facts.1.1 gen_tol_facts.1.2.1 _ h0 hb.1 hz,
    Lemmas.separated_of_neighbours _ gen_tol_facts.2.1.1 gen_tol_facts.2.1.2 _ h0 hb.2.1 hh⟩

theorem separated_set_of_neighbours (pos : Rat) (h0 : 0 ≤ pos) (hx : pos ≤ 100000000000)
    (h : OffBand setHitTol pos) : SeparatedAt setHitTol pos := by
  have hb := gen_band_limit_rat (pos + 2) (by linarith) (by linarith)
  exact Lemmas.separated_of_neighbours _ gen_tol_facts.2.2.1 gen_tol_facts.2.2.2 _ h0 hb.2.2 h

/-! ## how wide the band is -/

/-- for any tolerances with `rtol > 0`: the band around sample `i` is below half a sample exactly up
to the index `(1/2 - atol) / rtol` — beyond it `Separated` admits only exact hits -/
theorem band_width (t : Tol) (hr : 0 < t.rtol) (i : Nat) :
    band t (i : Rat) < 1 / 2 ↔ (i : Rat) < (1 / 2 - t.atol) / t.rtol :=
  band_lt_half_iff t hr i

/-- with the tolerances read from the source the band stays below half a sample at least up to index
10¹¹ (numpy's defaults, as on the pinned tree, reach only 5·10⁴: defect D4) -/
theorem band_limit_generated (i : Nat) (hi : i ≤ 100000000000) :
    band sampledHitTol (i : Rat) < 1 / 2 ∧ band setHitTol (i : Rat) < 1 / 2 :=
  gen_band_limit i hi

/-! ## the statements without `Separated` are false (tolerance band, by design) -/

def sampled_index_full : Prop :=
  ∀ (off si pos : Rat) (mode : IndexMode), 0 < si → mode ≠ .other →
    Meets mode (sampledCoord off si) none pos (sampledIndexOf off si pos mode)

def set_index_full : Prop :=
  ∀ (n : Nat) (pos : Rat) (mode : IndexMode), mode ≠ .other →
    Meets mode setCoord (setDom n) pos (setIndexOf n pos mode)

/-- interval 1, offset 0, position 3 + 2⁻³⁰, mode GEQ: the code answers 3, the first sample at or after
the position is 4 -/
theorem sampled_index_full_counterexample : ¬ sampled_index_full := by
  intro h
  have h1 := h 0 1 (3 + 1 / 2 ^ 30) .geq (by norm_num) (by decide)
  have hv : sampledIndexOf 0 1 (3 + 1 / 2 ^ 30) .geq = .ok 3 := by decide +kernel
  rw [hv] at h1
  obtain ⟨k, hk, _, hle, _⟩ := h1
  have : k = 3 := by omega
  subst this
  rw [sampledCoord_eq] at hle
  norm_num at hle

/-- three labels, position 1 + 2⁻³⁰, mode GEQ: the code answers 1, the first label at or after is 2 -/
theorem set_index_full_counterexample : ¬ set_index_full := by
  intro h
  have h1 := h 3 (1 + 1 / 2 ^ 30) .geq (by decide)
  have hv : setIndexOf 3 (1 + 1 / 2 ^ 30) .geq = .ok 1 := by decide +kernel
  rw [hv] at h1
  obtain ⟨k, hk, _, hle, _⟩ := h1
  have : k = 1 := by omega
  subst this
  simp only [setCoord] at hle
  norm_num at hle

/-- defect D5 (repaired by `fix:` 2389173), as a statement about the model: had the first-sample guard
tested the raw position (`sampledZeroOnScaled = false`), offset −5 / interval 1 / position 0 / mode Less
would be refused although sample 4 (coordinate −1) is the last one before the position — a
failure no tolerance explains -/
theorem guard_on_raw_position_counterexample :
    ¬ Meets .less (sampledCoord (-5) 1) none 0
        (sampledIndexOfT sampledZeroTol false sampledHitTol sampledRounding (-5) 1 0 .less) := by
  have hv : sampledIndexOfT sampledZeroTol false sampledHitTol sampledRounding (-5) 1 0 .less
      = .error .indexError := by decide +kernel
  rw [hv]
  rintro ⟨_, hnone⟩
  apply hnone 4
  refine ⟨inDom_none 4, ?_, ?_⟩
  · rw [sampledCoord_eq]; norm_num
  · intro j _ hj
    rw [sampledCoord_eq] at hj
    have : (j : Rat) < 5 := by linarith
    have : j < 5 := by exact_mod_cast this
    omega

/-! ## round trips and axes -/

/-- `index_of (position_at i) = i` for LEQ and GEQ, `i - 1` for Less (`IndexError` at the first sample) -/
theorem roundtrip_sampled (off si : Rat) (hsi : 0 < si) (i : Nat) :
    sampledIndexOf off si (sampledPositionAt off si i) .leq = .ok (i : Int) ∧
    sampledIndexOf off si (sampledPositionAt off si i) .geq = .ok (i : Int) ∧
    sampledIndexOf off si (sampledPositionAt off si i) .less =
      (if i = 0 then .error .indexError else .ok ((i : Int) - 1)) :=
  sampled_roundtripT sampledZeroTol sampledHitTol "round" (Or.inl rfl)
    gen_tol_facts.1.1 gen_tol_facts.1.2.1 gen_tol_facts.1.2.2 gen_tol_facts.2.1.1 gen_tol_facts.2.1.2
    off si hsi i

/-- `tick_at i` is tick `i`; converting it back yields the last (LEQ) / first (GEQ) sample carrying
that tick — `i` itself when the ticks are strictly ascending -/
theorem roundtrip_range (ticks : List Rat) (hasc : AscendingList ticks) (i : Nat) (hi : i < ticks.length) :
    rangeTickAt ticks (i : Int) = .ok (tickCoord ticks i) ∧
    (∃ j : Nat, rangeIndexOf ticks (tickCoord ticks i) .leq = .ok (j : Int) ∧ i ≤ j ∧ j < ticks.length ∧
        tickCoord ticks j = tickCoord ticks i) ∧
    (∃ j : Nat, rangeIndexOf ticks (tickCoord ticks i) .geq = .ok (j : Int) ∧ j ≤ i ∧
        tickCoord ticks j = tickCoord ticks i) ∧
    (ticks.Pairwise (· < ·) →
      rangeIndexOf ticks (tickCoord ticks i) .leq = .ok (i : Int) ∧
      rangeIndexOf ticks (tickCoord ticks i) .geq = .ok (i : Int)) := by
  obtain ⟨h1, h2, h3⟩ := range_roundtrip ticks hasc i hi
  exact ⟨h1, h2, h3, fun hs => range_roundtrip_strict ticks hs i hi⟩

/-- the generated axis agrees with `position_at`: from a start index, by default, and from the
position of sample `j` -/
theorem axis_sampled (off si : Rat) (hsi : 0 < si) (count : Int) (j : Nat) (sp : Option Rat) :
    sampledAxis off si count (some (j : Int)) sp =
      .ok ((List.range count.toNat).map fun k => sampledPositionAt off si (((j + k : Nat)) : Int)) ∧
    sampledAxis off si count none none =
      .ok ((List.range count.toNat).map fun k => sampledPositionAt off si ((k : Nat) : Int)) ∧
    sampledAxis off si count none (some (sampledPositionAt off si (j : Int))) =
      .ok ((List.range count.toNat).map fun k => sampledPositionAt off si (((j + k : Nat)) : Int)) :=
  ⟨sampled_axis_start off si count j sp, sampled_axis_default off si count,
    sampled_axis_position off si hsi count j⟩

/-- the axis of a range dimension is the run of ticks `start … start+count-1`; reaching beyond the
ticks is an `IndexError` -/
theorem axis_range (ticks : List Rat) :
    (∀ start count : Nat, start + count ≤ ticks.length →
      rangeAxis ticks (count : Int) (start : Int) =
        .ok ((List.range count).map fun k => tickCoord ticks (start + k))) ∧
    (∀ start count : Int, start + count > ticks.length → rangeAxis ticks count start = .error .indexError) :=
  ⟨fun start count h => range_axis_eq ticks start count h, fun start count h => range_axis_beyond ticks start count h⟩

/-! ## non-vacuity: the hypotheses are met by concrete, non-trivial inputs -/

example : AscendingList [1, 2, 2, 3] := by unfold AscendingList; decide +kernel
example : rangeIndexOf [1, 2, 2, 3] 2 .less = .ok 0 ∧ rangeIndexOf [1, 2, 2, 3] 2 .leq = .ok 2 ∧
    rangeIndexOf [1, 2, 2, 3] 2 .geq = .ok 1 ∧ rangeIndexOf [1] 1 .less = .error .indexError := by
  decide +kernel
example : rangeRangeIndices [1, 2, 2, 3] 2 3 .exclusive = .ok (some (1, 2)) := by decide +kernel
/-- a position half-way between two samples is separated (offset −5, interval 2, position 0) -/
example : SeparatedSampled (-5) 2 0 := by
  have hx : ((0 : Rat) - (-5)) / 2 = 5 / 2 := by norm_num
  unfold SeparatedSampled
  rw [hx]
  have key : ∀ t : Tol, t.rtol = sampledHitTol.rtol → t.atol = sampledHitTol.atol → SeparatedAt t (5 / 2) := by
    intro t h1 h2 k
    right
    rw [band_eq, absR_eq, h1, h2]
    unfold sampledHitTol
    simp only []
    rcases le_or_gt k 2 with hk | hk
    · have hk' : (k : Rat) ≤ 2 := by exact_mod_cast hk
      have habs : |(k : Rat)| ≤ 5 / 2 + |(5 / 2 : Rat) - k| := by
        have := abs_sub_abs_le_abs_sub (k : Rat) (5 / 2)
        rw [abs_sub_comm (k : Rat)] at this
        have h52 : |(5 / 2 : Rat)| = 5 / 2 := abs_of_nonneg (by norm_num)
        linarith
      have hd : (1 / 2 : Rat) ≤ |(5 / 2 : Rat) - k| := by
        rw [abs_of_nonneg (by linarith)]; linarith
      nlinarith
    · have hk' : (3 : Rat) ≤ k := by exact_mod_cast hk
      have hd : |(5 / 2 : Rat) - k| = k - 5 / 2 := by
        rw [abs_of_nonpos (by linarith)]; ring
      rw [hd, abs_of_nonneg (by linarith)]
      nlinarith
  exact ⟨key _ rfl rfl, key _ rfl rfl⟩
example : sampledIndexOf (-5) 2 0 .less = .ok 2 ∧ sampledIndexOf (-5) 1 0 .less = .ok 4 ∧
    sampledIndexOf (-5) 1 (-5) .less = .error .indexError ∧
    sampledIndexOf 0 1 (1000004 / 10) .geq = .ok 100001 := by decide +kernel
example : setIndexOf 3 (5 / 2) .geq = .error .indexError ∧ setIndexOf 0 (5 / 2) .geq = .ok 3 := by
  decide +kernel

end Nix.C07
