import NixModel.Pure.Dim
import NixModel.Pure.DimSpec
import NixModel.Lemmas.C07Sep
import NixModel.Lemmas.C07Session
import NixModel.Generated.DimShape

/-!
# C07 — dimension descriptors map positions to sample indices by order, exactly

Property theorems only; helper lemmas live in `NixModel/Lemmas/C07*.lean`, the order-theoretic
specification (`IsLastAtOrBefore`, `IsLastBefore`, `IsFirstAtOrAfter`, `Meets`, `MeetsRange`,
`SeparatedAt`) in `NixModel/Pure/DimSpec.lean`.

All statements are about the model `NixModel/Pure/Dim.lean` of `nixio/dimensions.py` instantiated
with what `Generated/Tolerances.lean` reads from the source on every run: the `rtol`/`atol` of each
`np.isclose` call, whether the first-sample guard tests the scaled position, the rounding functions,
the enum members and the `end_mode` choice of the three `range_indices`.

* `RangeDimension` (no tolerance): full strength, every ascending tick list (repeats allowed), every
  position, every mode — induction over the tick list.
* `SampledDimension`, `SetDimension`: every offset, positive interval, label count (0 = unbounded),
  position and mode, under `Separated` — the (scaled) position is on a sample or outside the
  `atol + rtol·|i|` band of every sample `i`.  The statement without that hypothesis is kept as a `Prop`
  and refuted (`…_full_counterexample`): inside the band the code reports a hit by design.
  `band_width` / `band_limit_generated` say for which indices the band is below half a sample.
* `sampling_interval ≤ 0` is outside the theorems (the validator rejects it; the code divides by it).
-/
namespace Nix.C07
open Nix Nix.Dim Nix.Dim.Gen Nix.Dim.Lemmas

/-! ## what the translator read -/

/-- the generated enum members, `to_index_mode` table, `end_mode` choices, rounding functions and
guard argument are the ones the model and the theorems below are about; tolerances are non-negative
and the guard's `atol` is below one sample -/
theorem generated_tables :
    indexModes = [("Less", "less"), ("LessOrEqual", "leq"), ("GreaterOrEqual", "geq"), ("LEQ", "leq"), ("GEQ", "geq")] ∧
    sliceModes = [("Exclusive", "exclusive"), ("Inclusive", "inclusive")] ∧
    (sliceToIndexMode .exclusive = some .less ∧ sliceToIndexMode .inclusive = some .leq) ∧
    (∀ m, endModeOf sampledEndMode m = endModeSpec m) ∧ (∀ m, endModeOf rangeEndMode m = endModeSpec m) ∧
    (∀ m, endModeOf setEndMode m = endModeSpec m) ∧
    sampledZeroOnScaled = true ∧ sampledRounding = "round" ∧ setRounding = "floor" ∧
    ((0 ≤ sampledZeroTol.rtol ∧ 0 ≤ sampledZeroTol.atol ∧ sampledZeroTol.atol < 1) ∧
     (0 ≤ sampledHitTol.rtol ∧ 0 ≤ sampledHitTol.atol) ∧ (0 ≤ setHitTol.rtol ∧ 0 ≤ setHitTol.atol)) := by
  refine ⟨by decide, by decide, by decide, ?_, ?_, ?_, rfl, by decide, by decide, gen_tol_facts⟩ <;>
    intro m <;> cases m <;> decide

/-! ## RangeDimension: full strength -/

/-- **index_of on ticks.** For every ascending tick list (repeats allowed, empty allowed), position and
mode the result is `ok i` with `i` the requested sample, or `IndexError` with no such sample. -/
theorem range_index (ticks : List Rat) (hasc : AscendingList ticks) (pos : Rat) (mode : IndexMode)
    (hm : mode ≠ .other) :
    Meets mode (tickCoord ticks) (some ticks.length) pos (rangeIndexOf ticks pos mode) :=
  rangeIndexOf_meets ticks hasc pos mode hm

/-- the same in "iff" form: `ok i` iff `i` is that sample; `IndexError` iff none exists; no other
error and no negative index ever -/
theorem range_index_iff (ticks : List Rat) (hasc : AscendingList ticks) (pos : Rat) (mode : IndexMode)
    (hm : mode ≠ .other) :
    (∀ k : Nat, rangeIndexOf ticks pos mode = .ok (k : Int) ↔
        IsSample mode (tickCoord ticks) (some ticks.length) pos k) ∧
    (rangeIndexOf ticks pos mode = .error .indexError ↔
        ∀ k, ¬ IsSample mode (tickCoord ticks) (some ticks.length) pos k) ∧
    (∀ e, rangeIndexOf ticks pos mode = .error e → e = .indexError) ∧
    (∀ i : Int, rangeIndexOf ticks pos mode = .ok i → 0 ≤ i) :=
  meets_iff (rangeIndexOf_meets ticks hasc pos mode hm)

/-- **range_indices on ticks**: `(a, b)` iff `a … b` are exactly the ticks inside `[s, e]` (`[s, e)`
when exclusive) and there is one; `None` / `IndexError` iff there is none. -/
theorem range_indices_range (ticks : List Rat) (hasc : AscendingList ticks) (s e : Rat) (m : SliceMode) :
    MeetsRange m (tickCoord ticks) (some ticks.length) s e (rangeRangeIndices ticks s e m) :=
  rangeRangeIndicesT_meets rangeEndMode generated_tables.2.2.2.2.1 ticks hasc s e m

/-! ## SampledDimension and SetDimension: under `Separated` -/

/-- the scaled position is on a sample or outside the tolerance band of every sample, for both
`np.isclose` calls of `SampledDimension.index_of` (with the generated tolerances) -/
def SeparatedSampled (off si pos : Rat) : Prop :=
  SeparatedAt sampledZeroTol ((pos - off) / si) ∧ SeparatedAt sampledHitTol ((pos - off) / si)

/-- **index_of on a sampled dimension**: any offset, any positive interval, any position, any mode -/
theorem sampled_index (off si pos : Rat) (mode : IndexMode) (hsi : 0 < si) (hm : mode ≠ .other)
    (hsep : SeparatedSampled off si pos) :
    Meets mode (sampledCoord off si) none pos (sampledIndexOf off si pos mode) :=
  sampledIndexOfT_meets sampledZeroTol sampledHitTol "round" (Or.inl rfl)
    gen_tol_facts.1.1 gen_tol_facts.1.2.1 gen_tol_facts.2.1.1 gen_tol_facts.2.1.2
    off si pos mode hsi hm hsep.1 hsep.2

/-- **index_of on a set dimension** with `n` labels (`n = 0`: none, unbounded) -/
theorem set_index (n : Nat) (pos : Rat) (mode : IndexMode) (hm : mode ≠ .other)
    (hsep : SeparatedAt setHitTol pos) :
    Meets mode setCoord (setDom n) pos (setIndexOf n pos mode) :=
  setIndexOfT_meets setHitTol gen_tol_facts.2.2.1 gen_tol_facts.2.2.2 n pos mode hm hsep

/-- "iff" forms: `ok i` iff `i` is the requested sample, `IndexError` iff there is none, never another
error, never a negative index -/
theorem sampled_index_iff (off si pos : Rat) (mode : IndexMode) (hsi : 0 < si) (hm : mode ≠ .other)
    (hsep : SeparatedSampled off si pos) :
    (∀ k : Nat, sampledIndexOf off si pos mode = .ok (k : Int) ↔ IsSample mode (sampledCoord off si) none pos k) ∧
    (sampledIndexOf off si pos mode = .error .indexError ↔ ∀ k, ¬ IsSample mode (sampledCoord off si) none pos k) ∧
    (∀ e, sampledIndexOf off si pos mode = .error e → e = .indexError) ∧
    (∀ i : Int, sampledIndexOf off si pos mode = .ok i → 0 ≤ i) :=
  meets_iff (sampled_index off si pos mode hsi hm hsep)

theorem set_index_iff (n : Nat) (pos : Rat) (mode : IndexMode) (hm : mode ≠ .other)
    (hsep : SeparatedAt setHitTol pos) :
    (∀ k : Nat, setIndexOf n pos mode = .ok (k : Int) ↔ IsSample mode setCoord (setDom n) pos k) ∧
    (setIndexOf n pos mode = .error .indexError ↔ ∀ k, ¬ IsSample mode setCoord (setDom n) pos k) ∧
    (∀ e, setIndexOf n pos mode = .error e → e = .indexError) ∧
    (∀ i : Int, setIndexOf n pos mode = .ok i → 0 ≤ i) :=
  meets_iff (set_index n pos mode hm hsep)

theorem range_indices_sampled (off si s e : Rat) (m : SliceMode) (hsi : 0 < si)
    (hs : SeparatedSampled off si s) (he : SeparatedSampled off si e) :
    MeetsRange m (sampledCoord off si) none s e (sampledRangeIndices off si s e m) :=
  sampledRangeIndicesT_meets sampledZeroTol sampledHitTol "round" (Or.inl rfl)
    gen_tol_facts.1.1 gen_tol_facts.1.2.1 gen_tol_facts.2.1.1 gen_tol_facts.2.1.2
    sampledEndMode generated_tables.2.2.2.1 off si s e m hsi hs.1 hs.2 he.1 he.2

theorem range_indices_set (n : Nat) (s e : Rat) (m : SliceMode)
    (hs : SeparatedAt setHitTol s) (he : SeparatedAt setHitTol e) :
    MeetsRange m setCoord (setDom n) s e (setRangeIndices n s e m) :=
  setRangeIndicesT_meets setHitTol gen_tol_facts.2.2.1 gen_tol_facts.2.2.2 setEndMode
    generated_tables.2.2.2.2.2.1 n s e m hs he

/-! ## `Separated` is the condition on the two neighbouring samples -/

/-- the scaled position `x ≥ 0` is on a sample, or outside the band of the sample below it and of
the sample above it -/
def OffBand (t : Tol) (x : Rat) : Prop :=
  x = (x.floor : Rat) ∨
    (band t (x.floor : Rat) < x - (x.floor : Rat) ∧ band t ((x.floor : Rat) + 1) < (x.floor : Rat) + 1 - x)

/-- for any tolerances: where the band is below half a sample, `OffBand` (two neighbours) gives
`SeparatedAt` (all samples) -/
theorem separated_of_neighbours (t : Tol) (hr : 0 ≤ t.rtol) (ha : 0 ≤ t.atol) (x : Rat) (h0 : 0 ≤ x)
    (hb : band t (x + 2) < 1 / 2) (h : OffBand t x) : SeparatedAt t x :=
  Lemmas.separated_of_neighbours t hr ha x h0 hb h

/-- with the generated tolerances, up to index 10¹¹ -/
theorem separated_sampled_of_neighbours (off si pos : Rat)
    (h0 : 0 ≤ (pos - off) / si) (hx : (pos - off) / si ≤ 100000000000)
    (hz : OffBand sampledZeroTol ((pos - off) / si)) (hh : OffBand sampledHitTol ((pos - off) / si)) :
    SeparatedSampled off si pos := by
  have hb := gen_band_limit_rat ((pos - off) / si + 2) (by linarith) (by linarith)
  exact ⟨Lemmas.separated_of_neighbours _ gen_tol_facts.1.1 gen_tol_facts.1.2.1 _ h0 hb.1 hz,
    Lemmas.separated_of_neighbours _ gen_tol_facts.2.1.1 gen_tol_facts.2.1.2 _ h0 hb.2.1 hh⟩

theorem separated_set_of_neighbours (pos : Rat) (h0 : 0 ≤ pos) (hx : pos ≤ 100000000000)
    (h : OffBand setHitTol pos) : SeparatedAt setHitTol pos := by
  have hb := gen_band_limit_rat (pos + 2) (by linarith) (by linarith)
  exact Lemmas.separated_of_neighbours _ gen_tol_facts.2.2.1 gen_tol_facts.2.2.2 _ h0 hb.2.2 h

/-! ## how wide the band is -/

/-- for any tolerances with `rtol > 0`: the band around sample `i` is below half a sample exactly up
to the index `(1/2 - atol) / rtol` — beyond it `Separated` admits only exact hits -/
theorem band_width (t : Tol) (hr : 0 < t.rtol) (i : Nat) :
    band t (i : Rat) < 1 / 2 ↔ (i : Rat) < (1 / 2 - t.atol) / t.rtol :=
  band_lt_half_iff t hr i

/-- with the tolerances read from the source the band stays below half a sample at least up to index
10¹¹ (numpy's defaults, as on the pinned tree, reach only 5·10⁴: defect D4) -/
theorem band_limit_generated (i : Nat) (hi : i ≤ 100000000000) :
    band sampledHitTol (i : Rat) < 1 / 2 ∧ band setHitTol (i : Rat) < 1 / 2 :=
  gen_band_limit i hi

/-! ## the statements without `Separated` are false (tolerance band, by design) -/

def sampled_index_full : Prop :=
  ∀ (off si pos : Rat) (mode : IndexMode), 0 < si → mode ≠ .other →
    Meets mode (sampledCoord off si) none pos (sampledIndexOf off si pos mode)

def set_index_full : Prop :=
  ∀ (n : Nat) (pos : Rat) (mode : IndexMode), mode ≠ .other →
    Meets mode setCoord (setDom n) pos (setIndexOf n pos mode)

/-- interval 1, offset 0, position 3 + 2⁻³⁰, mode GEQ: the code answers 3, the first sample at or after
the position is 4 -/
theorem sampled_index_full_counterexample : ¬ sampled_index_full := by
  intro h
  have h1 := h 0 1 (3 + 1 / 2 ^ 30) .geq (by norm_num) (by decide)
  have hv : sampledIndexOf 0 1 (3 + 1 / 2 ^ 30) .geq = .ok 3 := by decide +kernel
  rw [hv] at h1
  obtain ⟨k, hk, _, hle, _⟩ := h1
  have : k = 3 := by omega
  subst this
  rw [sampledCoord_eq] at hle
  norm_num at hle

/-- three labels, position 1 + 2⁻³⁰, mode GEQ: the code answers 1, the first label at or after is 2 -/
theorem set_index_full_counterexample : ¬ set_index_full := by
  intro h
  have h1 := h 3 (1 + 1 / 2 ^ 30) .geq (by decide)
  have hv : setIndexOf 3 (1 + 1 / 2 ^ 30) .geq = .ok 1 := by decide +kernel
  rw [hv] at h1
  obtain ⟨k, hk, _, hle, _⟩ := h1
  have : k = 1 := by omega
  subst this
  simp only [setCoord] at hle
  norm_num at hle

/-- defect D5 (repaired by `fix:` 2389173), as a statement about the model: had the first-sample guard
tested the raw position (`sampledZeroOnScaled = false`), offset −5 / interval 1 / position 0 / mode Less
would be refused although sample 4 (coordinate −1) is the last one before the position — a
failure no tolerance explains -/
theorem guard_on_raw_position_counterexample :
    ¬ Meets .less (sampledCoord (-5) 1) none 0
        (sampledIndexOfT sampledZeroTol false sampledHitTol sampledRounding (-5) 1 0 .less) := by
  have hv : sampledIndexOfT sampledZeroTol false sampledHitTol sampledRounding (-5) 1 0 .less
      = .error .indexError := by decide +kernel
  rw [hv]
  rintro ⟨_, hnone⟩
  apply hnone 4
  refine ⟨inDom_none 4, ?_, ?_⟩
  · rw [sampledCoord_eq]; norm_num
  · intro j _ hj
    rw [sampledCoord_eq] at hj
    have : (j : Rat) < 5 := by linarith
    have : j < 5 := by exact_mod_cast this
    omega

/-! ## round trips and axes -/

/-- `index_of (position_at i) = i` for LEQ and GEQ, `i - 1` for Less (`IndexError` at the first sample) -/
theorem roundtrip_sampled (off si : Rat) (hsi : 0 < si) (i : Nat) :
    sampledIndexOf off si (sampledPositionAt off si i) .leq = .ok (i : Int) ∧
    sampledIndexOf off si (sampledPositionAt off si i) .geq = .ok (i : Int) ∧
    sampledIndexOf off si (sampledPositionAt off si i) .less =
      (if i = 0 then .error .indexError else .ok ((i : Int) - 1)) :=
  sampled_roundtripT sampledZeroTol sampledHitTol "round" (Or.inl rfl)
    gen_tol_facts.1.1 gen_tol_facts.1.2.1 gen_tol_facts.1.2.2 gen_tol_facts.2.1.1 gen_tol_facts.2.1.2
    off si hsi i

/-- `tick_at i` is tick `i`; converting it back yields the last (LEQ) / first (GEQ) sample carrying
that tick — `i` itself when the ticks are strictly ascending -/
theorem roundtrip_range (ticks : List Rat) (hasc : AscendingList ticks) (i : Nat) (hi : i < ticks.length) :
    rangeTickAt ticks (i : Int) = .ok (tickCoord ticks i) ∧
    (∃ j : Nat, rangeIndexOf ticks (tickCoord ticks i) .leq = .ok (j : Int) ∧ i ≤ j ∧ j < ticks.length ∧
        tickCoord ticks j = tickCoord ticks i) ∧
    (∃ j : Nat, rangeIndexOf ticks (tickCoord ticks i) .geq = .ok (j : Int) ∧ j ≤ i ∧
        tickCoord ticks j = tickCoord ticks i) ∧
    (ticks.Pairwise (· < ·) →
      rangeIndexOf ticks (tickCoord ticks i) .leq = .ok (i : Int) ∧
      rangeIndexOf ticks (tickCoord ticks i) .geq = .ok (i : Int)) := by
  obtain ⟨h1, h2, h3⟩ := range_roundtrip ticks hasc i hi
  exact ⟨h1, h2, h3, fun hs => range_roundtrip_strict ticks hs i hi⟩

/-- the generated axis agrees with `position_at`: from a start index, by default, and from the
position of sample `j` -/
theorem axis_sampled (off si : Rat) (hsi : 0 < si) (count : Int) (j : Nat) (sp : Option Rat) :
    sampledAxis off si count (some (j : Int)) sp =
      .ok ((List.range count.toNat).map fun k => sampledPositionAt off si (((j + k : Nat)) : Int)) ∧
    sampledAxis off si count none none =
      .ok ((List.range count.toNat).map fun k => sampledPositionAt off si ((k : Nat) : Int)) ∧
    sampledAxis off si count none (some (sampledPositionAt off si (j : Int))) =
      .ok ((List.range count.toNat).map fun k => sampledPositionAt off si (((j + k : Nat)) : Int)) :=
  ⟨sampled_axis_start off si count j sp, sampled_axis_default off si count,
    sampled_axis_position off si hsi count j⟩

/-- the axis of a range dimension is the run of ticks `start … start+count-1`; reaching beyond the
ticks is an `IndexError` -/
theorem axis_range (ticks : List Rat) :
    (∀ start count : Nat, start + count ≤ ticks.length →
      rangeAxis ticks (count : Int) (start : Int) =
        .ok ((List.range count).map fun k => tickCoord ticks (start + k))) ∧
    (∀ start count : Int, start + count > ticks.length → rangeAxis ticks count start = .error .indexError) :=
  ⟨fun start count h => range_axis_eq ticks start count h, fun start count h => range_axis_beyond ticks start count h⟩

/-! ## non-vacuity: the hypotheses are met by concrete, non-trivial inputs -/

example : AscendingList [1, 2, 2, 3] := by unfold AscendingList; decide +kernel
example : rangeIndexOf [1, 2, 2, 3] 2 .less = .ok 0 ∧ rangeIndexOf [1, 2, 2, 3] 2 .leq = .ok 2 ∧
    rangeIndexOf [1, 2, 2, 3] 2 .geq = .ok 1 ∧ rangeIndexOf [1] 1 .less = .error .indexError := by
  decide +kernel
example : rangeRangeIndices [1, 2, 2, 3] 2 3 .exclusive = .ok (some (1, 2)) := by decide +kernel
/-- a position half-way between two samples is separated (offset −5, interval 2, position 0) -/
example : SeparatedSampled (-5) 2 0 := by
  have hx : ((0 : Rat) - (-5)) / 2 = 5 / 2 := by norm_num
  unfold SeparatedSampled
  rw [hx]
  have key : ∀ t : Tol, t.rtol = sampledHitTol.rtol → t.atol = sampledHitTol.atol → SeparatedAt t (5 / 2) := by
    intro t h1 h2 k
    right
    rw [band_eq, absR_eq, h1, h2]
    unfold sampledHitTol
    simp only []
    rcases le_or_gt k 2 with hk | hk
    · have hk' : (k : Rat) ≤ 2 := by exact_mod_cast hk
      have habs : |(k : Rat)| ≤ 5 / 2 + |(5 / 2 : Rat) - k| := by
        have := abs_sub_abs_le_abs_sub (k : Rat) (5 / 2)
        rw [abs_sub_comm (k : Rat)] at this
        have h52 : |(5 / 2 : Rat)| = 5 / 2 := abs_of_nonneg (by norm_num)
        linarith
      have hd : (1 / 2 : Rat) ≤ |(5 / 2 : Rat) - k| := by
        rw [abs_of_nonneg (by linarith)]; linarith
      nlinarith
    · have hk' : (3 : Rat) ≤ k := by exact_mod_cast hk
      have hd : |(5 / 2 : Rat) - k| = k - 5 / 2 := by
        rw [abs_of_nonpos (by linarith)]; ring
      rw [hd, abs_of_nonneg (by linarith)]
      nlinarith
  exact ⟨key _ rfl rfl, key _ rfl rfl⟩
example : sampledIndexOf (-5) 2 0 .less = .ok 2 ∧ sampledIndexOf (-5) 1 0 .less = .ok 4 ∧
    sampledIndexOf (-5) 1 (-5) .less = .error .indexError ∧
    sampledIndexOf 0 1 (1000004 / 10) .geq = .ok 100001 := by decide +kernel
example : setIndexOf 3 (5 / 2) .geq = .error .indexError ∧ setIndexOf 0 (5 / 2) .geq = .ok 3 := by
  decide +kernel

/-! ## the decision shape of the three `index_of` methods is the one the translator reads from the source

`Generated/DimShape.lean` holds, per method, the tree of guards, rounding calls, `np.where` scans and
results / exceptions per mode that `harness/extract/dims.py` reads from the method body
(`Pure/DimShapeLang.lean` gives it meaning).  The hand-written model — the one all theorems above are
about — computes exactly what the generated tree computes, for all inputs: an edited comparison, a
reordered guard, another rounding call or result in the source breaks one of these three theorems. -/

section Shape
open Nix.Dim.Shape

theorem sampled_index_shape (off si pos : Rat) (mode : IndexMode) (hsi : si ≠ 0) :
    sampledIndexOf off si pos mode =
      eval { position := pos, scaled := (pos - off) / si, mode := mode, tols := [sampledZeroTol, sampledHitTol] }
        sampledIndexOfTree 0 := by
  unfold sampledIndexOf
  rw [show sampledRounding = "round" from rfl, show sampledZeroOnScaled = true from rfl]
  cases mode <;>
  simp [sampledIndexOfT, sampledIndexOfTree, eval, evalTest, evalVal, evalRes, hsi, errOf, IndexMode.ofName] <;>
  simp only [ltB, decide_eq_true_eq]

theorem range_index_shape (ticks : List Rat) (t0 tl pos : Rat) (mode : IndexMode)
    (h0 : ticks.head? = some t0) (hl : ticks.getLast? = some tl) :
    rangeIndexOf ticks pos mode =
      eval { position := pos, ticks := ticks, first := t0, last := tl, len := ticks.length, mode := mode }
        rangeIndexOfTree 0 := by
  cases mode <;>
  simp [rangeIndexOf, h0, hl, rangeIndexOfTree, eval, evalTest, evalVal, evalRes, errOf, IndexMode.ofName, cmpOf] <;>
  simp only [ltB, decide_eq_true_eq]

theorem set_index_shape (n : Nat) (pos : Rat) (mode : IndexMode) :
    setIndexOf n pos mode =
      eval { position := pos, len := n, mode := mode, tols := [setHitTol] } setIndexOfTree 0 := by
  unfold setIndexOf
  rw [show setRounding = "floor" from rfl]
  cases mode <;>
  simp [setIndexOfT, setIndexOfTree, eval, evalTest, evalVal, evalRes, errOf, IndexMode.ofName] <;>
  simp only [ltB, eqB, decide_eq_true_eq]

end Shape

/-! ## sessions: the configuration changes between the questions, descriptor objects stay alive

`NixModel/Pure/DimSession.lean`: the dimensions of one array, the sources links point to, handles
(descriptor objects) and histories of appends, changes (offset, interval, ticks, labels, link,
unlink, unit, label, rewriting a linked source) and questions.  Statements are for ALL histories. -/

section Sessions
open Nix.DimSession Nix.DimSession.Lemmas

/-- **a question is answered from the stored configuration of the dimension, whichever descriptor
object asks**: in the state any history reaches from any state, the answer through handle `h` is
`answer` of the record of `h`'s dimension — so two handles of one dimension always agree, and a
question never changes anything -/
theorem session_answer (st0 : State) (ops : List Op) (h d : Nat) (r : DimRec) (q : Query)
    (hh : (finalState st0 ops).handles[h]? = some d) (hd : (finalState st0 ops).dims[d]? = some r) :
    step (finalState st0 ops) (.query h q) = (finalState st0 ops, answer (finalState st0 ops).srcs r.cfg q) := by
  rw [step_query, (dimOfHandle_eq _ h d r).mpr ⟨hh, hd⟩]

/-- the answers a history prints are the answers of its single steps, each in the state the
preceding steps reached (what the driver prints for `["session", ops]` is `(run {} ops).2`) -/
theorem session_run_answer (st0 : State) (ops : List Op) (k : Nat) :
    (run st0 ops).2[k]? = ops[k]?.map fun op => (step (finalState st0 (ops.take k)) op).2 :=
  run_answer st0 ops k

/-- **a handle stands for the same dimension for ever, and a dimension keeps its kind**, whatever
happens later through this or any other handle -/
theorem session_handle_stable (st0 : State) (ops : List Op) (h d : Nat) (r : DimRec)
    (hh : st0.handles[h]? = some d) (hd : st0.dims[d]? = some r) :
    (finalState st0 ops).handles[h]? = some d ∧
    ∃ r', (finalState st0 ops).dims[d]? = some r' ∧ kindOf r'.cfg = kindOf r.cfg :=
  ⟨handle_kept (run_keeps st0 ops) h d hh, (run_keeps st0 ops).dims d r hd⟩

/-- **a change made through one descriptor object is what every other descriptor object of that
dimension converts with from then on** (the class of defect "state kept on the descriptor object"):
`op` is any of the nine configuration changes, issued through `h`; the next question through ANY
handle `h'` of the same dimension is answered for the record the change produced -/
theorem session_change_visible (st : State) (op : Op) (h h' d : Nat) (r r' : DimRec) (e : Option Err) (q : Query)
    (hc : IsCfgOp op) (hop : handleOf op = some h)
    (hh : st.handles[h]? = some d) (hh' : st.handles[h']? = some d) (hd : st.dims[d]? = some r)
    (ha : applyCfg st.srcs r op = some (r', e)) :
    (step (step st op).1 (.query h' q)).2 = answer st.srcs r'.cfg q := by
  have h1 : (step st op).1 = setDim st d r' := by
    rw [step_cfg st op h hc hop]
    unfold cfgStep
    rw [(dimOfHandle_eq st h d r).mpr ⟨hh, hd⟩]
    simp only [ha]
    cases e <;> rfl
  rw [h1, step_query]
  have h2 : dimOfHandle (setDim st d r') h' = some (d, r') := by
    rw [dimOfHandle_eq]
    refine ⟨hh', ?_⟩
    rw [setDim_get st d d r r' hd]
    simp
  rw [h2]
  rfl

/-- a change on ANOTHER dimension changes no answer of this one -/
theorem session_change_elsewhere (st : State) (op : Op) (h h' d d' : Nat) (r : DimRec) (q : Query)
    (hc : IsCfgOp op) (hop : handleOf op = some h)
    (hh : st.handles[h]? = some d) (hh' : st.handles[h']? = some d') (hne : d' ≠ d)
    (hd' : st.dims[d']? = some r) :
    (step (step st op).1 (.query h' q)).2 = (step st (.query h' q)).2 := by
  rw [step_cfg st op h hc hop]
  rcases cfgStep_cases st op h with he | ⟨d0, r0, r0', e, hh0, hd0, _, he⟩
  · rw [he]
  · rw [he, step_query, step_query]
    rw [hh] at hh0
    cases hh0
    have h2 : dimOfHandle (setDim st d r0') h' = some (d', r) := by
      rw [dimOfHandle_eq]
      refine ⟨hh', ?_⟩
      rw [setDim_get st d d' r0 r0' hd0]
      simp [hne, hd']
    rw [h2, (dimOfHandle_eq st h' d' r).mpr ⟨hh', hd'⟩]
    rfl

/-- **every history keeps the stored ticks ascending** (the `ticks` setter refuses anything else,
`append_range_dimension` stores none) — the invariant behind the next theorem -/
theorem session_ticks_ascending (ops : List Op) (d : Nat) (r : DimRec) (t : List Rat) (l : Option Link)
    (hd : (finalState {} ops).dims[d]? = some r) (hc : r.cfg = .range (some t) l) : AscendingList t := by
  have := reachable_wf ops r (List.mem_of_getElem? hd)
  rw [hc] at this
  exact this

/-- **index_of / range_indices on stored ticks, after any history, through any handle**: the answer
is the requested sample of the ticks stored NOW — no hypothesis on the ticks (the invariant supplies
"ascending"), none on who wrote them -/
theorem session_range_index (ops : List Op) (h d : Nat) (r : DimRec) (t : List Rat) (pos : Rat) (mode : IndexMode)
    (hm : mode ≠ .other)
    (hh : (finalState {} ops).handles[h]? = some d) (hd : (finalState {} ops).dims[d]? = some r)
    (hc : r.cfg = .range (some t) none) :
    (step (finalState {} ops) (.query h (.indexOf pos mode))).2 = .idx (rangeIndexOf t pos mode) ∧
    Meets mode (tickCoord t) (some t.length) pos (rangeIndexOf t pos mode) := by
  refine ⟨?_, range_index t (session_ticks_ascending ops d r t none hd hc) pos mode hm⟩
  rw [session_answer {} ops h d r _ hh hd, hc]
  rfl

theorem session_range_indices (ops : List Op) (h d : Nat) (r : DimRec) (t : List Rat) (s e : Rat) (m : SliceMode)
    (hh : (finalState {} ops).handles[h]? = some d) (hd : (finalState {} ops).dims[d]? = some r)
    (hc : r.cfg = .range (some t) none) :
    ∃ res, (step (finalState {} ops) (.query h (.rangeIndices s e m))).2 = .pair res ∧
      MeetsRange m (tickCoord t) (some t.length) s e res := by
  have hasc := session_ticks_ascending ops d r t none hd hc
  rw [session_answer {} ops h d r _ hh hd, hc]
  by_cases hse : e < s
  · refine ⟨.error .indexError, by simp [answer, hse], ?_⟩
    exact empty_interval m _ _ s e hse
  · refine ⟨rangeRangeIndices t s e m, by simp [answer, hse, ticksOf, Except.bind], ?_⟩
    exact range_indices_range t hasc s e m

/-- **linked ticks** (a vector of a 1-D / 2-D array, a column of a frame): the ticks are the values
the link reads NOW from the source as last rewritten; where that vector is ascending, `index_of` is
the requested sample of it; a link that cannot be read (index beyond the extent) is an `IndexError`
from every conversion -/
theorem session_linked_index (st : State) (h d : Nat) (r : DimRec) (st0 : Option (List Rat)) (l : Link)
    (pos : Rat) (mode : IndexMode) (hm : mode ≠ .other)
    (hh : st.handles[h]? = some d) (hd : st.dims[d]? = some r) (hc : r.cfg = .range st0 (some l)) :
    (∀ t, readLink st.srcs l = .ok t → AscendingList t →
      (step st (.query h (.indexOf pos mode))).2 = .idx (rangeIndexOf t pos mode) ∧
      Meets mode (tickCoord t) (some t.length) pos (rangeIndexOf t pos mode)) ∧
    (∀ err, readLink st.srcs l = .error err →
      (step st (.query h (.indexOf pos mode))).2 = .idx (.error err)) := by
  have hq : (step st (.query h (.indexOf pos mode))).2 =
      .idx ((readLink st.srcs l).bind fun t => rangeIndexOf t pos mode) := by
    rw [step_query, (dimOfHandle_eq st h d r).mpr ⟨hh, hd⟩]
    show answer st.srcs r.cfg _ = _
    rw [hc]
    rfl
  refine ⟨fun t ht hasc => ⟨?_, range_index t hasc pos mode hm⟩, fun err he => ?_⟩
  · rw [hq, ht]; rfl
  · rw [hq, he]; rfl

/-- what a link reads: the whole 1-D array, column `k` / row `k` of a 2-D array, column `k` of a frame -/
theorem link_values :
    (∀ v, linkValues (.vec v) (.array [-1]) = .ok v) ∧
    (∀ rows nc (k : Nat), k < nc → linkValues (.mat rows nc) (.array [-1, (k : Int)]) = colOf rows k) ∧
    (∀ rows nc (k : Nat) row, rows[k]? = some row → linkValues (.mat rows nc) (.array [(k : Int), -1]) = .ok row) ∧
    (∀ rows nc k, linkValues (.frame rows nc) (.column k) = colOf rows k) := by
  refine ⟨fun v => rfl, ?_, ?_, fun _ _ _ => rfl⟩
  · intro rows nc k hk
    simp [linkValues, hk]
  · intro rows nc k row hrow
    simp [linkValues, hrow]

/-- **sampled dimension after any history**: the conversions use the offset and interval stored
NOW (offset attribute absent = 0); for a positive interval and a separated position the answer is
the requested sample of the grid `offset + i * interval` -/
theorem session_sampled_index (st0 : State) (ops : List Op) (h d : Nat) (r : DimRec) (off : Option Rat) (si pos : Rat)
    (mode : IndexMode) (hsi : 0 < si) (hm : mode ≠ .other)
    (hh : (finalState st0 ops).handles[h]? = some d) (hd : (finalState st0 ops).dims[d]? = some r)
    (hc : r.cfg = .sampled off si) (hsep : SeparatedSampled (offOf off) si pos) :
    (step (finalState st0 ops) (.query h (.indexOf pos mode))).2 = .idx (sampledIndexOf (offOf off) si pos mode) ∧
    Meets mode (sampledCoord (offOf off) si) none pos (sampledIndexOf (offOf off) si pos mode) := by
  refine ⟨?_, sampled_index (offOf off) si pos mode hsi hm hsep⟩
  rw [session_answer st0 ops h d r _ hh hd, hc]
  simp [answer, sampledIndexOfZ, ne_of_gt hsi]

/-- **set dimension after any history**: the label count is the one stored (or linked) NOW -/
theorem session_set_index (st0 : State) (ops : List Op) (h d : Nat) (r : DimRec) (sn : Option Nat) (l : Option Link)
    (n : Nat) (pos : Rat) (mode : IndexMode) (hm : mode ≠ .other)
    (hh : (finalState st0 ops).handles[h]? = some d) (hd : (finalState st0 ops).dims[d]? = some r)
    (hc : r.cfg = .set sn l) (hn : labelCountOf (finalState st0 ops).srcs sn l = .ok n)
    (hsep : SeparatedAt setHitTol pos) :
    (step (finalState st0 ops) (.query h (.indexOf pos mode))).2 = .idx (setIndexOf n pos mode) ∧
    Meets mode setCoord (setDom n) pos (setIndexOf n pos mode) := by
  refine ⟨?_, set_index n pos mode hm hsep⟩
  rw [session_answer st0 ops h d r _ hh hd, hc]
  simp only [answer]
  rw [setIndexOfS_eq _ sn l n pos mode hn]

end Sessions

/-! ## `sampling_interval ≤ 0` — outside the property (the validator rejects it), stated exactly -/

/-- **a negative interval is converted as the mirror image**: the code computes with
`(position - offset) / interval`, which is the scaled position of `-position` on the grid
`-offset + i * (-interval)`; so for `interval < 0` the answer is the requested sample of THAT grid at
`-position` (e.g. LessOrEqual returns the last `i` with `offset + i * interval ≥ position`) — not
an error, and not what the property asks of a dimension with descending coordinates -/
theorem negative_interval_mirror (off si pos : Rat) (mode : IndexMode) (hsi : si ≠ 0) :
    sampledIndexOf off si pos mode = sampledIndexOf (-off) (-si) (-pos) mode := by
  have hx : (pos - off) / si = (-pos - -off) / -si := by
    rw [div_neg, ← neg_div]; congr 1; ring
  unfold sampledIndexOf sampledIndexOfT
  simp only [hsi, neg_eq_zero, if_false, hx]
  rfl

theorem negative_interval_meets (off si pos : Rat) (mode : IndexMode) (hsi : si < 0) (hm : mode ≠ .other)
    (hsep : SeparatedSampled (-off) (-si) (-pos)) :
    Meets mode (sampledCoord (-off) (-si)) none (-pos) (sampledIndexOf off si pos mode) := by
  rw [negative_interval_mirror off si pos mode (ne_of_lt hsi)]
  exact sampled_index (-off) (-si) (-pos) mode (by linarith) hm hsep

/-- **a zero interval** (the setter accepts it): left of the offset the "before the first sample"
branch answers (`-inf`), at the offset `ValueError` (`nan`), right of it `OverflowError` (`+inf`) -/
theorem zero_interval (off pos : Rat) (mode : IndexMode) :
    Nix.DimSession.sampledIndexOfZ off 0 pos mode =
      (if pos < off then (if mode = .geq then .ok 0 else .error .indexError)
       else if pos = off then .error .valueError else .error .overflowError) := by
  unfold Nix.DimSession.sampledIndexOfZ
  simp only [if_true]
  by_cases h1 : pos < off
  · simp [h1, sub_neg]
  · by_cases h2 : pos = off
    · simp [h2]
    · have : ¬ pos - off < 0 := by rw [sub_neg]; exact h1
      simp [h1, h2, this, sub_eq_zero]

/-- for every non-zero interval `sampledIndexOfZ` is `sampledIndexOf` -/
theorem nonzero_interval (off si pos : Rat) (mode : IndexMode) (h : si ≠ 0) :
    Nix.DimSession.sampledIndexOfZ off si pos mode = sampledIndexOf off si pos mode := by
  simp [Nix.DimSession.sampledIndexOfZ, h]

/-! non-vacuity of the session theorems: a history in which the offset and interval are changed
through handle 1 and handle 0 (opened before, and used) answers for the new grid -/
example :
    (Nix.DimSession.run {} [.appendSampled (1/2), .openH 0, .openH 0, .query 0 (.indexOf (5/4) .leq),
      .setOffset 1 (some (-5/2)), .setInterval 1 (1/4), .query 0 (.indexOf (-15/8) .geq)]).2 =
    [.unit, .unit, .unit, .idx (.ok 2), .unit, .unit, .idx (.ok 3)] := by decide +kernel
example :
    (Nix.DimSession.run {} [.appendRange, .newSrc (.mat [[0, 1, 2], [3, 4, 5]] 3), .openH 0, .openH 0,
      .linkArray 1 0 [-1, 2], .query 0 (.indexOf 3 .less), .writeSrc 0 (.mat [[0, 1, 0], [3, 4, 9]] 3),
      .query 0 (.indexOf 10 .less), .setTicks 1 [2, 1], .setTicks 1 [1, 2], .query 0 (.positionAt 1)]).2 =
    [.unit, .unit, .unit, .unit, .unit, .idx (.ok 0), .unit, .idx (.ok 1), .fail .valueError, .unit,
      .pos (.ok 2)] := by decide +kernel
example : sampledIndexOf 0 (-1) (-3/2) .leq = .ok 1 ∧ sampledIndexOf 0 (-1) (-3/2) .geq = .ok 2 := by
  decide +kernel

end Nix.C07
