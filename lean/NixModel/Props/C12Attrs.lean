import NixModel.Lemmas.C12Guarded
import NixModel.Generated.AttrOrder

/-!
# C12 — single-valued attributes: a refused assignment leaves the attribute (and `updated_at`) as it was

The 21 property setters of the anchored modules that end in `set_attr` are rendered from the source statement by
statement with `H5Group.set_attr` / `H5DataSet.set_attr` inlined (`Generated/AttrOrder.lean`: one list for `None`,
one for a value).  `attr_sound`: they form a system of `Pure/Guarded.lean` — the replacement of the attribute is the
only write that can refuse, and only for a value without HDF5 type or a text that cannot be stored;
`attr_setters_safe` evaluates the discipline on both paths of every setter; `attr_setter_refused_unchanged` is the
instance of the discipline theorem: every setter, every value (None, right or wrong type, normalisable or not, text
with NUL, a number h5py has no type for …), every previous state (attribute present or not).
-/
namespace Nix.C12
open Nix.Guarded Nix.AttrWrite Nix.Generated.AttrOrder

theorem attr_sound : AttrWrite.sys.Sound where
  exec_ok := by
    intro a f w hn
    cases w with
    | replaceAttr =>
      have h1 := hn .textStorable (by simp [AttrWrite.sys, AttrWrite.needs])
      have h2 := hn .hasH5Type (by simp [AttrWrite.sys, AttrWrite.needs])
      simp only [AttrWrite.sys, AttrWrite.check] at h1 h2
      cases ht : a.hasH5Type <;> simp [ht] at h2
      cases hx : a.isText <;> cases hs : a.textStorable <;> simp [hx, hs] at h1 <;>
        simp [AttrWrite.sys, AttrWrite.exec, ht, hx, hs]
    | _ => rfl
  invisible_obs := by
    intro a f w hi
    cases w <;> simp [AttrWrite.sys] at hi
    rfl
  implies_ok := by
    intro a g g' _ h
    simp [AttrWrite.sys] at h

/-- every attribute setter of nixio, as generated from the source, obeys the discipline on both paths -/
theorem attr_setters_safe : ∀ p ∈ Nix.Generated.AttrOrder.all, ∀ b : Bool, safe AttrWrite.sys (p.2 b) = true := by
  decide

/-- **single-valued attributes: refused ⇒ attribute and `updated_at` are what they were** -/
theorem attr_setter_refused_unchanged (p : String × AttrWrite.Setter) (hp : p ∈ Nix.Generated.AttrOrder.all) (a : Arg)
    (f : File) (e : Err) (he : (AttrWrite.runSetter p.2 a f).2 = some e) : (AttrWrite.runSetter p.2 a f).1 = f :=
  safe_refused_unchanged AttrWrite.sys attr_sound (p.2 a.storesNone) (attr_setters_safe p hp a.storesNone) a f e he

/-- `set_attr` itself (both classes): refused ⇒ unchanged, whatever the caller checked -/
theorem set_attr_refused_unchanged (st : AttrWrite.Setter) (hst : st = setAttr ∨ st = dataSetSetAttr) (a : Arg) (f : File)
    (e : Err) (he : (AttrWrite.runSetter st a f).2 = some e) : (AttrWrite.runSetter st a f).1 = f := by
  have hsafe : ∀ b : Bool, safe AttrWrite.sys (st b) = true := by
    rcases hst with h | h <;> subst h <;> decide
  exact safe_refused_unchanged AttrWrite.sys attr_sound (st a.storesNone) (hsafe a.storesNone) a f e he

/-- what an accepted assignment leaves: the value (or no attribute for `None`), the time stamp moved — here for
`DataArray.label`, for every value that passes the checks -/
theorem data_array_label_accepted (a : Arg) (f : File) (ht : a.isNone = true ∨ a.typeOk = true) :
    (a.storesNone = true → AttrWrite.runSetter dataArrayLabel a f = (⟨none, a.now⟩, none)) ∧
    (a.storesNone = false → (a.isText = false ∨ a.textStorable = true) → a.hasH5Type = true →
      AttrWrite.runSetter dataArrayLabel a f = (⟨some a.key, a.now⟩, none)) := by
  constructor
  · intro hs
    rcases ht with h1 | h1 <;>
      simp [AttrWrite.runSetter, dataArrayLabel, hs, run, step, AttrWrite.sys, AttrWrite.check, AttrWrite.exec, h1]
  · intro hs htx hh
    rcases ht with h1 | h1 <;> rcases htx with h2 | h2 <;>
      simp [AttrWrite.runSetter, dataArrayLabel, hs, run, step, AttrWrite.sys, AttrWrite.check, AttrWrite.exec, hh, h1, h2]

/-- `set_attr` as it was before nixio df56e57: the text is handed to h5py unchecked -/
def setAttrNoTextCheck : List AStep := (setAttr false).erase (.guard .textStorable)

def nulText : Arg := ⟨false, true, true, false, true, false, true, 9, 5⟩

/-- **the order matters**: h5py removes the previous value before it finds that a text with an embedded NUL cannot
be stored — without the check in front the refused assignment deletes the attribute; with it the attribute stands -/
theorem set_attr_text_check_counterexample :
    safe AttrWrite.sys setAttrNoTextCheck = false ∧
    run AttrWrite.sys nulText setAttrNoTextCheck ⟨some 3, 1⟩ = (⟨none, 1⟩, some .valueError) ∧
    AttrWrite.runSetter dataArrayLabel nulText ⟨some 3, 1⟩ = (⟨some 3, 1⟩, some .valueError) := by
  refine ⟨by decide, by decide, by decide⟩

/-- a history of assignments to one attribute (any of the 21 setters, any values, refusals injected at any point): attribute
and time stamp end as if the refused assignments had never been made -/
theorem attr_history_skips_refused (h : List (AttrWrite.Arg × String × AttrWrite.Setter))
    (hall : ∀ c ∈ h, c.2 ∈ Nix.Generated.AttrOrder.all) (f : AttrWrite.File) :
    runHistory AttrWrite.sys (h.map fun c => (c.1, c.2.2 c.1.storesNone)) f =
      runAccepted AttrWrite.sys (h.map fun c => (c.1, c.2.2 c.1.storesNone)) f := by
  apply history_skips_refused AttrWrite.sys attr_sound (fun _ => rfl)
  intro c hc
  obtain ⟨c0, hc0, rfl⟩ := List.mem_map.mp hc
  exact attr_setters_safe c0.2 (hall c0 hc0) c0.1.storesNone

/-! ## Non-vacuity -/

/-- `Entity.type = None` is refused, the type stands … -/
example : AttrWrite.runSetter entityType ⟨true, false, true, true, false, true, true, 9, 5⟩ ⟨some 3, 1⟩ =
    (⟨some 3, 1⟩, some .attributeError) := by decide

/-- … a number as `DataArray.label` is a type error … -/
example : AttrWrite.runSetter dataArrayLabel ⟨false, false, true, false, false, true, true, 9, 5⟩ ⟨some 3, 1⟩ =
    (⟨some 3, 1⟩, some .typeError) := by decide

/-- … a `Fraction` passes the type check of `expansion_origin` (it is a `Number`), h5py has no type for it: refused
before the attribute is touched -/
example : AttrWrite.runSetter dataArrayExpansionOrigin ⟨false, true, true, false, false, true, false, 9, 5⟩ ⟨some 3, 1⟩ =
    (⟨some 3, 1⟩, some .typeError) := by decide

end Nix.C12
