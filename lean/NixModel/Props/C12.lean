import NixModel.Lemmas.C12Agree
import NixModel.Lemmas.C12Ops
import NixModel.Lemmas.StoreWF
import NixModel.Lemmas.C12Avail
import NixModel.Lemmas.C12MultiTagFull
import NixModel.Lemmas.C12Extend
import NixModel.Lemmas.C12VecWrite
import NixModel.Lemmas.C12Order
import NixModel.Generated.MutatorOrder
import NixModel.Props.C12Links
import NixModel.Props.C12Data
import NixModel.Props.C12Copies
import NixModel.Props.C12Frames
import NixModel.Props.C12PropCreate
import NixModel.Props.C12Roles
import NixModel.Props.C12Attrs
import NixModel.Props.C12TextVec

/-!
# C12 — a refused operation leaves the file exactly as it was

The creating / mutating API is modelled twice: `Store/Api.lean` (`Except Err Graph`, the semantics
C03–C05 use) and `Store/ApiW.lean`, where every function is a *writer* that performs the primitive
HDF5 writes in the order of the Python code and returns the graph it has reached together with the
error. `writer_agrees` ties the two; `refused_unchanged` is the property: whatever the writer
wrote before it raised has been undone, up to what no public accessor can see (`Unch`, defined in
`Lemmas/C12Unch.lean`: every node keeps all attributes and its ordered links; entity nodes and the
root may have gained links to new *empty, attribute-less* container groups; other new nodes are
unlinked; the key / id supplies may have advanced).

The faults the structural model abstracts from (unsupported dtype, data that cannot be stored,
non-numeric position, invalid labels / ticks / sampling interval, unit, label) are a `Fault`:
stage in the Python function × error class; the theorems hold for every stage and every class.
-/
namespace Nix.C12
open Nix.Store Nix.Store.Lemmas

/-- the invariant of reachable states gives what the proofs use -/
theorem tidy_of_wf {g : Graph} (h : WF g) : Tidy g ∧ NamesNotFuture g := by
  refine ⟨⟨?_, ?_, ?_⟩, h.names_not_future⟩
  · intro k hk
    exact h.keys_lt k ((node?_isSome_iff g k).mp hk)
  · exact (node?_isSome_iff g 0).mpr h.root
  · intro k l hl
    exact (node?_isSome_iff g l.2).mpr (h.target_exists k l hl)

/-- the dimension descriptors of the array an `appendDim` addresses are named `1 … n` -/
def OpW.DimsDense (g : Graph) : OpW → Prop
  | .appendDim p _ _ _ => Lemmas.DimsDense g p
  | _ => True

/-- **writers and `Except` API agree**: on every operation of the structural model the writer
accepts exactly when `Api.lean` does, reaches the same graph, and refuses with the same class -/
theorem writer_agrees (g : Graph) (op : Op) (opw : OpW) (h : OpW.ofOp op = some opw) :
    (applyW g opw).map toExcept = apply g op := applyW_agrees g op opw h

/-- **C12, full statement**: for every operation (every creating / mutating call, every fault
stage and error class), in every tidy state: if the call is refused, the graph reached is
observationally the graph before the call. -/
theorem refused_unchanged {g : Graph} (hT : Tidy g) (hN : NamesNotFuture g) (op : OpW)
    (hD : OpW.DimsDense g op) (g' : Graph) (e : Err) (h : applyW g op = some (g', some e)) :
    Unch g g' := by
  cases op with
  | createBlock n t =>
    simp only [applyW, Option.some.injEq] at h
    have := createBlockW_unch hT n t e (by rw [h])
    rw [h] at this; exact this
  | createSection o n t =>
    simp only [applyW, Option.some.injEq] at h
    have := createSectionW_unch hT o n t e (by rw [h])
    rw [h] at this; exact this
  | createIn o w n t ex f =>
    cases ex with
    | none =>
      simp only [applyW, Option.some.injEq] at h
      have := createInW_unch hT o w n t none f e (by rw [h])
      rw [h] at this; exact this
    | some ep =>
      simp only [applyW, Option.map_eq_some_iff] at h
      obtain ⟨l, _, h⟩ := h
      have := createInW_unch hT o w n t (some l.key) f e (by rw [h])
      rw [h] at this; exact this
  | createProperty o n =>
    simp only [applyW, Option.some.injEq] at h
    have := createPropertyW_unch hT o n e (by rw [h])
    rw [h] at this; exact this
  | createFeature o d lt =>
    cases d with
    | none =>
      simp only [applyW, Option.some.injEq] at h
      have := createFeatureW_unch hT hN o none lt e (by rw [h])
      rw [h] at this; exact this
    | some dp =>
      simp only [applyW, Option.map_eq_some_iff] at h
      obtain ⟨l, _, h⟩ := h
      have := createFeatureW_unch hT hN o (some l.key) lt e (by rw [h])
      rw [h] at this; exact this
  | appendDim p kd wd f =>
    simp only [applyW, Option.some.injEq] at h
    have := appendDimW_unch hT p hD kd wd f e (by rw [h])
    rw [h] at this; exact this
  | del o c k =>
    simp only [applyW] at h
    split at h
    · simp only [Option.some.injEq] at h
      unfold checked at h
      split at h
      · simp at h
      · simp only [Prod.mk.injEq] at h; rw [← h.1]; exact Unch.refl g
    · simp at h
  | append o c k =>
    simp only [applyW] at h
    split at h
    · simp only [Option.some.injEq] at h
      unfold checked at h
      split at h
      · simp at h
      · simp only [Prod.mk.injEq] at h; rw [← h.1]; exact Unch.refl g
    · simp at h
  | setRole o r t =>
    cases t with
    | none =>
      simp only [applyW, Option.some.injEq] at h
      unfold checked at h
      split at h
      · simp at h
      · simp only [Prod.mk.injEq] at h; rw [← h.1]; exact Unch.refl g
    | some tp =>
      simp only [applyW, Option.map_eq_some_iff] at h
      obtain ⟨l, _, h⟩ := h
      unfold checked at h
      split at h
      · simp at h
      · simp only [Prod.mk.injEq] at h; rw [← h.1]; exact Unch.refl g
  | setAttr p a v =>
    simp only [applyW, Option.some.injEq] at h
    unfold checked at h
    split at h
    · simp at h
    · simp only [Prod.mk.injEq] at h; rw [← h.1]; exact Unch.refl g

/-- the same, for the states of histories (names never collide with ids still to be drawn) -/
theorem refused_unchanged_reachable {g : Graph} (hr : ReachableFresh g) (op : OpW)
    (hD : OpW.DimsDense g op) (g' : Graph) (e : Err) (h : applyW g op = some (g', some e)) :
    Unch g g' :=
  refused_unchanged (tidy_of_wf hr.wf).1 (tidy_of_wf hr.wf).2 op hD g' e h

/-- no partially created entity appears in any container: every old node lists exactly its old
links, then at most links to empty groups -/
theorem no_partial_entity {g g' : Graph} (h : Unch g g') (k : Nat) (hk : Has g k) (l : String × Nat)
    (hl : l ∈ g'.links k) : l ∈ g.links k ∨ EmptyGroup g' l.2 := by
  obtain ⟨extra, he, hx⟩ := h.links k hk
  rw [he] at hl
  rcases List.mem_append.mp hl with h1 | h1
  · exact .inl h1
  · exact .inr (hx l h1).2.1

/-- no attribute changes -/
theorem no_attribute_change {g g' : Graph} (h : Unch g g') (k : Nat) (hk : Has g k) (a : String) :
    g'.getAttr k a = g.getAttr k a := h.attrs k hk a

/-- no link of an existing container or link list is lost or reordered -/
theorem links_kept_in_order {g g' : Graph} (h : Unch g g') (k : Nat) (hk : Has g k) :
    g.links k <+: g'.links k := by
  obtain ⟨extra, he, _⟩ := h.links k hk
  exact ⟨extra, he.symm⟩

/-- **the rejected name remains available**: after *any* refused call, a `create_group / create_source /
create_data_array / create_tag` with valid arguments that would have been accepted before the refused
call is accepted after it — in particular the very call that was refused, with its argument corrected -/
theorem name_still_available {g : Graph} (hWF : WF g) (op : OpW) (hD : OpW.DimsDense g op) (g' : Graph) (e : Err)
    (h : applyW g op = some (g', some e)) (p : Path) (w n t : String) (ex : Option Nat)
    (hw : w ≠ "multi_tag") (hvalid : (createInW g p w n t ex none).2 = none) :
    (createInW g' p w n t ex none).2 = none := by
  have hT := tidy_of_wf hWF
  have hU := refused_unchanged hT.1 hT.2 op hD g' e h
  exact createInW_of_accepts (hU.keysLt hT.1.keysLt) ex hw
    (accepts_unch hWF hU (accepts_of_createInW hT.1.keysLt ex hvalid))

/-- the instance the property names: `create_*(name, …, <invalid argument>)` is refused, then
`create_*(name, …, <valid argument>)` succeeds, provided it would have succeeded in the first place -/
theorem rejected_name_available {g : Graph} (hWF : WF g) (p : Path) (w n t : String) (f : Fault) (e : Err)
    (hw : w ≠ "multi_tag") (href : (createInW g p w n t none (some f)).2 = some e)
    (hvalid : (createInW g p w n t none none).2 = none) :
    (createInW (createInW g p w n t none (some f)).1 p w n t none none).2 = none :=
  name_still_available hWF (.createIn p w n t none (some f)) trivial _ e
    (by simp only [applyW]; rw [← href]) p w n t none hw hvalid

/-- every address keeps its meaning: a path that led to a node before the refused call leads to the
same node after it -/
theorem paths_kept {g g' : Graph} (h : Unch g g') (p : Path) (r : Loc)
    (hr : resolve g rootLoc p = some r) : resolve g' rootLoc p = some r := h.resolve p hr

/-! ## `LinkContainer.extend` -/

/-- `extend(items)` checks every item before the first link is written: a refused `extend` has written nothing -/
theorem extend_refused_unchanged (g : Graph) (c : Cont) (keys : List Key) (e : Err)
    (h : (contExtendW g c keys).2 = some e) : (contExtendW g c keys).1 = g := contExtendW_refused g c keys e h

/-- the statement is not vacuous and not automatic: the loop of `append` calls the method used to be
(`contExtendLoopW`) links the leading item of `[own array, foreign array]` and then refuses -/
theorem extend_loop_counterexample :
    ¬ (∀ (g : Graph) (c : Cont) (keys : List Key) (e : Err),
        (contExtendLoopW g c keys).2 = some e → (contExtendLoopW g c keys).1 = g) := by
  intro hall
  exact loop_changes_file.2 (hall extDemo extCont [.ent 7, .ent 11] .runtimeError loop_changes_file.1)

example : contExtendW extDemo extCont [.ent 7, .ent 11] = (extDemo, some .runtimeError) := extend_refuses_cleanly

/-! ## `create_multi_tag` with positions / extents given as data

The writer `createMultiTagW` follows `Block.create_multi_tag`: auto-created arrays
`<name>-positions` / `<name>-extents`, and the `except` clause that deletes the half-built tag and
then those arrays through `delete_all([id])`. -/

/-- **`create_multi_tag`, full statement**: positions / extents given as existing objects (of any kind,
of any block), as valid data, as data of an invalid class, or not at all — if the call is refused, the
half-built tag and every auto-created array are gone again and the file is as it was. (`hnP`, `hnE`:
the names of the auto-created arrays are not ids of the supply — uuid4 freshness.) -/
theorem multi_tag_refused_unchanged {g : Graph} (hWF : WF g) (p : Path) (n t : String) (pos ext : ArrArg)
    (hnP : ∀ m, n ++ "-positions" ≠ idStr m) (hnE : ∀ m, n ++ "-extents" ≠ idStr m) (e : Err)
    (h : (createMultiTagW g p n t pos ext).2 = some e) : Unch g (createMultiTagW g p n t pos ext).1 :=
  createMultiTagW_unch hWF p n t pos ext hnP hnE e h

/-- deleting an auto-created array again through `delete_all([id])` undoes its creation, whatever
unobservable happened in between -/
theorem auto_array_life_cycle {g g1 : Graph} (hWF : WF g) {p : Path} {nm ty : String} {K : Nat}
    (h : autoArray g p nm ty none = (g1, .ok K)) (hh : Graph) (hu : Unch g1 hh) :
    Unch g (dropAuto hh (some K)) := auto_lifecycle hWF h hh hu

/-- the inner `create_data_array` of `create_multi_tag` refuses without a trace -/
theorem auto_array_refused_unchanged {g : Graph} (hT : Tidy g) (p : Path) (n t : String) (f : Option Fault)
    (e : Err) (h : (autoArray g p n t f).2 = .error e) : Unch g (autoArray g p n t f).1 :=
  autoArray_unch hT p n t f e h

/-! ## Vector-valued attributes: conversion, resize and write in the order of the source

`Tag.position`, `Tag.extent`, `DataArray.polynom_coefficients` and `Property.values` on the step lists that
`Generated/WriteOrder.lean` renders from the source (`H5Group.write_data` and the setters, statement by statement),
run by the machine of `Pure/VecWrite.lean`: the file here is the stored dataset and the entity's `updated_at`. -/
section vectors
open Nix.VecWrite Nix.Generated.WriteOrder

/-- **`H5Group.write_data` with a float dtype** refuses before it resizes or creates: for every spelling of the
data (list, tuple, ndarray of any element type, 0-d, n-d), every stored dataset or none -/
theorem write_data_refused_unchanged (m : M) (hdt : m.dt = some .double) (e : Err)
    (h : (runWith.runFlat writeDataSteps m).2 = some e) : (runWith.runFlat writeDataSteps m).1.file = m.file :=
  writeData_refused_unchanged m hdt e h

/-- an accepted `write_data` stores exactly the converted values and leaves the time stamp to its caller -/
theorem write_data_accepted (m : M) (hdt : m.dt = some .double) (h : (runWith.runFlat writeDataSteps m).2 = none) :
    (runWith.runFlat writeDataSteps m).1.file.ds = some { rank := m.x.rank, vals := m.x.elems.map (·.val) } ∧
    (runWith.runFlat writeDataSteps m).1.file.stamp = m.file.stamp := writeData_accepted m hdt h

/-- **`H5Group.write_data` with a text dtype** (`Tag.units`, `MultiTag.units`, `SetDimension.labels`): text that cannot
be stored (an embedded NUL) is refused before the dataset is resized or created; `hh5`: text passing the test is text
h5py writes -/
theorem write_data_text_refused_unchanged (m : M) (hdt : m.dt = some .string) (hconv : m.converted = false)
    (hh5 : ∀ y ∈ m.x.elems, y.typeOk = true → y.h5Ok = true) (e : Err)
    (h : (runWith.runFlat writeDataSteps m).2 = some e) : (runWith.runFlat writeDataSteps m).1.file = m.file :=
  writeData_text_refused_unchanged m hdt hconv hh5 e h

/-- non-vacuity: units `["s", "a\0b"]` offered to a stored one-element vector — refused, nothing resized -/
example : runWith.runFlat writeDataSteps
      { x := .seq false [{ val := 0, typeOk := true, convOk := false, h5Ok := true },
                         { val := 0, typeOk := false, convOk := false, h5Ok := false }],
        dt := some .string, file := { ds := some { rank := 1, vals := [0] }, stamp := 1 } } =
    ({ x := .seq false [{ val := 0, typeOk := true, convOk := false, h5Ok := true },
                        { val := 0, typeOk := false, convOk := false, h5Ok := false }],
       dt := some .string, file := { ds := some { rank := 1, vals := [0] }, stamp := 1 } }, some .valueError) := by
  decide +kernel

/-- **the float-vector setters**: a refused assignment leaves the stored vector and `updated_at` as they were -/
theorem vector_setters_refused_unchanged (nm : String) (s : Setter) (hs : (nm, s) ∈ floatSetters)
    (f : File) (now : Nat) (x : Arg) (e : Err) (h : (runSetter writeDataSteps s f now x).2 = some e) :
    (runSetter writeDataSteps s f now x).1 = f := float_setters_refused_unchanged nm s hs f now x e h

/-- **`Property.values`**: a refused assignment leaves the stored values and `updated_at` as they were -/
theorem property_values_refused_unchanged (f : File) (now : Nat) (x : Arg) (e : Err)
    (h : (runSetter writeDataSteps propertyValues f now x).2 = some e) :
    (runSetter writeDataSteps propertyValues f now x).1 = f :=
  Nix.VecWrite.property_values_refused_unchanged f now x e h

/-- **`RangeDimension.ticks`**: a refused assignment leaves the stored ticks *and the dimension's link* as they were
(`hinv`: a linked dimension holds no ticks dataset — `link_data_array` / `link_data_frame` drop it) -/
theorem ticks_refused_unchanged (f : File) (hinv : f.link = true → f.ds = none) (now : Nat) (x : Arg) (e : Err)
    (h : (runWith writeDataSteps rangeTicks { x := x, now := now, file := f }).2 = some e) :
    (runWith writeDataSteps rangeTicks { x := x, now := now, file := f }).1.file = f :=
  Nix.VecWrite.ticks_refused_unchanged f hinv now x e h

/-- the statements are about the order and the condition found in the source: with the conversion skipped for
ndarrays, or placed after the resize, the refused `position = np.array(['a','b','c'])` pads the stored `[3/2]` -/
theorem write_order_matters :
    ((runWith.runFlat skipForArrays demoM).2 = some .typeError ∧
      (runWith.runFlat skipForArrays demoM).1.file.ds = some { rank := 1, vals := [3/2, 0, 0] }) ∧
    ((runWith.runFlat resizeFirst demoM).2 = some .valueError ∧
      (runWith.runFlat resizeFirst demoM).1.file.ds = some { rank := 1, vals := [3/2, 0, 0] }) :=
  ⟨skipForArrays_changes_file, resizeFirst_changes_file⟩

/-- non-vacuity: the source's `write_data` refuses that very call and the file is what it was -/
example : runWith.runFlat writeDataSteps demoM = (demoM, some .valueError) := writeData_demo

/-- non-vacuity of the setter theorem: `tag.position = np.array(['a','b','c'])` is refused (`ValueError`) … -/
example : (runSetter writeDataSteps tagPosition demoM.file 9 demoM.x).2 = some .valueError := by decide +kernel
/-- … while `tag.position = [1/2, 5]` is accepted, stored, and stamped -/
example : runSetter writeDataSteps tagPosition demoM.file 9
    (.seq false [{ val := 1/2, typeOk := true, convOk := true, h5Ok := true },
                 { val := 5, typeOk := true, convOk := true, h5Ok := true }]) =
    ({ ds := some { rank := 1, vals := [1/2, 5] }, stamp := 9 }, none) := by decide +kernel

/-- non-vacuity: valid ticks on a linked dimension are accepted, the link goes, the ticks are stored -/
example : (runWith writeDataSteps rangeTicks
      { x := .seq false [{ val := 1, typeOk := true, convOk := true, h5Ok := true },
                         { val := 2, typeOk := true, convOk := true, h5Ok := true }],
        now := 3, file := { ds := none, stamp := 0, link := true } }).1.file =
    { ds := some { rank := 1, vals := [1, 2] }, stamp := 0, link := false } := by rw [ticks_demo]
/-- … descending ticks are refused (`ValueError`) with the link in place -/
example : (runWith writeDataSteps rangeTicks
      { x := .seq true [{ val := 2, typeOk := true, convOk := true, h5Ok := true },
                        { val := 1, typeOk := true, convOk := true, h5Ok := true }],
        now := 3, file := { ds := none, stamp := 0, link := true } }).2 = some .valueError := by decide +kernel

end vectors

/-! ## Validation before the first write, mutator by mutator

`Generated/MutatorOrder.lean` lists the events (validation, raise, primitive write, refusable call, protected
section) along every path through the body of every public mutator of the anchored modules, in source order.
`Order.safePath` is the discipline "no validation, raise or refusable call after an unprotected write";
`safePath_refused_unchanged` shows it sound for the abstract execution of a path (for every oracle of failures). -/
section order
open Nix.Order Nix.Generated.MutatorOrder

/-- the mutators that do *not* follow the discipline syntactically, one by one, and where their refusals are dealt with -/
def writesFirst : List String := [
  "Section.create_section", "Source.create_source", "Section.create_property", "Section.copy_section",
    -- `open_group(<container>, True)` precedes the duplicate test: an empty, invisible group (writer model: `Unch`;
    -- the copy paths: `Props/C12Copies.lean`, where that write is `invisible`)
  "Feature.create_new", "Tag.create_new",
    -- id / entity written first, the rest inside a protected section (writer model: `createFeatureW`, `createInW`)
  "MultiTag.create_new", "SampledDimension.create_new", "DimensionLink.create_new",
    -- building blocks called inside the protected sections of `create_multi_tag` / `append_*_dimension` /
    -- after the validations of `link_data_array` / `link_data_frame`
  "Dimension.link_data_array", "Dimension.link_data_frame", "DataArray.append_range_dimension_using_self",
    -- validate, then `remove_link()` followed by `DimensionLink.create_new`: theorems of their own over the inlined
    -- statements (`Props/C12Links.lean`: `link_functions_safe`, `*_refused_unchanged`)
  "DataFrame.append_column",
    -- builds the widened dataset beside the old one inside a protected section, then swaps (oracle)
  "Section.__setitem__",
    -- `create_property` or `values =`, then nothing else: the two refusable calls are on different paths merged by the loop rule
  "H5Group.delete"
    -- `del`, then removal of the emptied container group (structural model: `Api.delete`)
]

/-- **every other public mutator validates before it writes**, on every path through its body — proved by
evaluation of the table rendered from the source: a write placed before a validation, or a loop of refusable
calls, in any of them changes the table and breaks this theorem -/
theorem mutators_validate_first :
    ∀ m ∈ mutators, m.1 ∈ writesFirst ∨ ∀ p ∈ m.2, safePath p = true := by
  have h : (mutators.all fun m => writesFirst.contains m.1 || m.2.all safePath) = true := by decide +kernel
  intro m hm
  have := List.all_eq_true.mp h m hm
  rcases Bool.or_eq_true _ _ |>.mp this with h1 | h2
  · exact .inl (List.contains_iff_mem.mp h1)
  · exact .inr (fun p hp => List.all_eq_true.mp h2 p hp)

/-- … and therefore, in the abstract execution (validations and refusable calls fail as an arbitrary oracle says,
a protected section restores the file it found): a refused run of any path of such a mutator ends in the file
it started from -/
theorem mutator_paths_refused_unchanged (m : String × List (List Ev)) (hm : m ∈ mutators) (hw : m.1 ∉ writesFirst)
    (p : List Ev) (hp : p ∈ m.2) (orc : List Bool) (f0 : Nat) (hr : (run p orc f0 none).2 = true) :
    (run p orc f0 none).1 = f0 := by
  rcases mutators_validate_first m hm with h | h
  · exact absurd h hw
  · exact safePath_refused_unchanged p orc f0 (h p hp) hr

/-- the discipline is not vacuous: the loop of `append` calls `LinkContainer.extend` used to be is rejected -/
example : safePath [.atomic, .atomic] = false := by decide
/-- and its execution shows why: the second call refuses after the first has written -/
example : run [.atomic, .atomic] [false, true] 0 none = (1, true) := by decide
/-- a validation in front of the writes passes, and so does a protected section -/
example : safePath [.check, .check, .write, .write] = true := by decide
example : safePath [.check, .tryBegin, .atomic, .write, .atomic, .tryEnd, .write] = true := by decide
example : (mutators.length, writesFirst.length) = (115, 15) := by decide +kernel

end order

def demo : Graph := run init [.createBlock "b" "t", .createIn [.name "data", .name "b"] "data_array" "a" "t" none]

/-- the demo state is a state of a fresh history, hence satisfies every hypothesis used above (`WF`, so
`Tidy` and `NamesNotFuture`); the auto-array names of the demo call are not ids -/
theorem demo_reachable : ReachableFresh demo :=
  ⟨[.createBlock "b" "t", .createIn [.name "data", .name "b"] "data_array" "a" "t" none],
   ⟨fun n hn m _ => by cases hn; exact notId_of_head (by decide) m,
    fun n hn m _ => by cases hn; exact notId_of_head (by decide) m, trivial⟩, rfl⟩

example : WF demo := demo_reachable.wf
example : Tidy demo ∧ NamesNotFuture demo := tidy_of_wf demo_reachable.wf
example : ∀ m, "m" ++ "-positions" ≠ idStr m := notId_of_head (by decide)
example : ∀ m, "m" ++ "-extents" ≠ idStr m := notId_of_head (by decide)

/-- a refused `append_range_dimension([3,2,1])` on the demo array: the hypothesis `DimsDense` holds, the call
is refused after the descriptor and its ticks were written, and the array has no `dimensions` entry -/
def demoArray : Path := [.name "data", .name "b", .name "data_arrays", .name "a"]

example : Lemmas.DimsDense demo demoArray := by
  intro o d hr hc
  have h1 : resolve demo rootLoc demoArray = some { key := 5, parent := 4, lname := "a", depth := 4 } := by
    decide +kernel
  rw [h1] at hr
  cases hr
  have h2 : demo.child? 5 "dimensions" = none := by decide +kernel
  rw [h2] at hc
  cases hc

def demoDim : Option Reached := applyW demo (.appendDim demoArray "range" true (some ⟨.data, .valueError⟩))

example : demoDim.map (fun r => (r.2, (r.1.links 5).map (·.1), ((r.1.child? 5 "dimensions").map r.1.links))) =
    some (some .valueError, ["data", "dimensions"], some []) := by decide +kernel

/-- non-vacuity: valid positions data, extents of an invalid class — refused, and the auto-created
`m-positions` is gone again from the block's `data_arrays` -/
def demoMT : Reached :=
  createMultiTagW demo [.name "data", .name "b"] "m" "t" (.data none) (.data (some ⟨.entity, .typeError⟩))

example : (demoMT.2, (demoMT.1.links 4).map (·.1)) = (some .typeError, (demo.links 4).map (·.1)) := by
  decide +kernel

/-! ## Non-vacuity: a refused `create_data_array` that had already written, on a reachable state -/

def badDtype : OpW :=
  .createIn [.name "data", .name "b"] "data_array" "n" "t" none (some ⟨.entity, .typeError⟩)

example : ((applyW demo badDtype).map (·.2)) = some (some .typeError) := by decide +kernel
/-- the refused call has allocated a node (the rolled-back array): the graph is *not* equal … -/
example : ((applyW demo badDtype).map (fun r => r.1.nextKey)) = some (demo.nextKey + 1) := by decide +kernel
/-- … but the block's container lists what it listed before -/
example : ((applyW demo badDtype).map (fun r => (r.1.links 4).map (·.1))) = some ((demo.links 4).map (·.1)) := by
  decide +kernel
/-- and the rejected name is still available -/
example : (((applyW demo badDtype).bind fun r =>
    applyW r.1 (.createIn [.name "data", .name "b"] "data_array" "n" "t" none none)).map (·.2)) = some none := by
  decide +kernel

end Nix.C12
