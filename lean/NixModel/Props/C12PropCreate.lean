import NixModel.Lemmas.C12Guarded
import NixModel.Generated.PropCreateOrder

/-!
# C12 — `Section.create_property` / `Section[key] = values`: refused ⇒ the section's properties are what they were

`create_property` writes the property before its values can be refused; the `except` clause deletes it by name.
`create_property_refused_unchanged` is stated on the function as generated from the source
(`Generated/PropCreateOrder.lean`: `pre` / protected `body` / `handler`), for every argument class and every
section whose content agrees with what the duplicate test saw.
-/
namespace Nix.C12
open Nix.Guarded Nix.PropCreate Nix.Generated.PropCreateOrder

/-- removing a name that no item carries changes nothing; removing the name of an item appended to such a list
gives the list back -/
theorem filter_appended (items : List Item) (k : Nat) (x : Item) (hx : x.key = k)
    (hfree : items.any (fun i => i.key == k) = false) :
    (items ++ [x]).filter (fun i => i.key != k) = items := by
  rw [List.filter_append]
  have h1 : items.filter (fun i => i.key != k) = items := by
    apply List.filter_eq_self.mpr
    intro i hi
    have := List.any_eq_false.mp hfree i hi
    simpa using this
  have h2 : [x].filter (fun i => i.key != k) = [] := by simp [hx]
  rw [h1, h2, List.append_nil]

theorem mapLast_append (f : Item → Item) (items : List Item) (x : Item) :
    PropCreate.mapLast f (items ++ [x]) = items ++ [f x] := by
  induction items with
  | nil => rfl
  | cons a t ih =>
    cases t with
    | nil => simp [PropCreate.mapLast]
    | cons b r =>
      simp only [List.cons_append] at ih ⊢
      simp only [PropCreate.mapLast]
      rw [ih]

/-- the part before the protected section obeys the discipline: refused there ⇒ unchanged -/
theorem create_property_pre_safe : safe PropCreate.sys createProperty.pre = true := by decide

/-- **`create_property`, refused ⇒ unchanged**: whatever refuses — the duplicate test, the typing of the values,
the name check, the element type, or the assignment of the values after the property has been written — the
section lists the properties it listed, attribute for attribute -/
theorem create_property_refused_unchanged (c : Call) (f : File) (hc : Consistent c f) (e : Err)
    (he : (runFn PropCreate.sys c createProperty f).2 = some e) :
    (runFn PropCreate.sys c createProperty f).1.items = f.items := by
  unfold Consistent at hc
  cases hm : c.memberOk <;> cases ht : c.taken <;> cases hv : c.valuesOk <;> cases hn : c.nameValid <;>
    cases hd : c.dtypeOk <;> cases hs : c.valuesStorable <;>
    simp [runFn, createProperty, run, step, PropCreate.sys, PropCreate.check, PropCreate.exec, execAll, hm, ht, hv, hn, hd,
      hs] at he ⊢
  -- the one case left: everything passed, the values were refused, the handler has deleted the property by name
  all_goals
    rw [ht] at hc
    simp only [mapLast_append]
    exact filter_appended f.items c.key _ rfl hc.symm

/-- the general form, for every sound system and every function `pre; try: body except: handler; raise; post`:
discipline before the `try`, a handler that restores what readers saw, nothing refusable after the section ⇒
refused = unchanged for readers -/
theorem guarded_fn_refused_unchanged {A S O G W : Type} [DecidableEq G] (sys : Sys A S O G W) (hs : sys.Sound)
    (fn : Fn G W) (a : A) (s : S) (hpre : safe sys fn.pre = true)
    (hrest : ∀ s1 s2 e, run sys a fn.pre s = (s1, none) → run sys a fn.body s1 = (s2, some e) →
      sys.obs (execAll sys a fn.handler s2) = sys.obs s)
    (hpost : ∀ s1 s2, run sys a fn.pre s = (s1, none) → run sys a fn.body s1 = (s2, none) →
      (run sys a fn.post s2).2 = none)
    (e : Err) (he : (runFn sys a fn s).2 = some e) : sys.obs (runFn sys a fn s).1 = sys.obs s :=
  fn_refused_unchanged sys hs fn a s hpre hrest hpost e he

/-- an accepted call adds exactly one complete property at the end -/
theorem create_property_accepted (c : Call) (f : File)
    (h : c.memberOk = true ∧ c.taken = false ∧ c.valuesOk = true ∧ c.nameValid = true ∧ c.dtypeOk = true ∧
      c.valuesStorable = true) :
    runFn PropCreate.sys c createProperty f =
      (⟨true, f.items ++ [⟨c.key, true, true, some c.now, some c.now, true⟩]⟩, none) := by
  obtain ⟨h1, h2, h3, h4, h5, h6⟩ := h
  simp [runFn, createProperty, run, step, PropCreate.sys, PropCreate.check, PropCreate.exec, h1, h2, h3, h4, h5, h6,
    mapLast_append]

/-- **the duplicate test is what makes the clean-up right**: were the name taken (the test dropped), the `except`
clause would delete the *existing* property of that name together with the new one -/
theorem cleanup_needs_duplicate_test :
    let noTest : Fn Guard Write := { createProperty with pre := createProperty.pre.filter (· != .guard .nameFree) }
    let c : Call := ⟨true, true, true, true, true, false, 7, 5⟩
    let f : File := ⟨true, [⟨7, true, true, some 1, some 1, true⟩]⟩
    (runFn { PropCreate.sys with exec := fun c f w => match w with
        | .createDataset => ({ f with items := f.items ++ [{ key := c.key }] }, none)
        | w => PropCreate.exec c f w } c noTest f) = (⟨true, []⟩, some .typeError) := by
  decide +kernel

/-! ## Non-vacuity -/

example : runFn PropCreate.sys ⟨true, false, true, true, true, false, 7, 5⟩ createProperty ⟨false, [⟨3, true, true, some 1, some 1, true⟩]⟩ =
    (⟨true, [⟨3, true, true, some 1, some 1, true⟩]⟩, some .typeError) := by decide +kernel

example : Consistent ⟨true, false, true, true, true, false, 7, 5⟩ ⟨false, [⟨3, true, true, some 1, some 1, true⟩]⟩ := by
  unfold Consistent; decide

end Nix.C12
