import NixModel.Lemmas.StoreViews

/-!
# C03 — names unique per parent, ids unique, all lookups agree

Statements over the structural model (`Store/Graph`, `Store/Api`, `Store/Step`). A container's
`len`, iteration, positional indexing, lookup by name / id and membership tests are all
functions of one list — the creation-ordered links of the container's HDF5 group
(`contEntries`) — and the theorems say they denote exactly that list.
-/
namespace Nix.C03
open Nix.Store Nix.Store.Lemmas

/-- `c[i]` for `0 ≤ i < len(c)` is the i-th entry in iteration (creation) order -/
theorem index_nonneg (g : Graph) (c : Cont) (i : Nat) (h : i < contLen g c) :
    contGet g c (.pos i) = .ok ((contEntries g c)[i]'h) := contGet_pos_nonneg g c i h

/-- `c[-i]` for `1 ≤ i ≤ len(c)` counts from the end -/
theorem index_negative (g : Graph) (c : Cont) (i : Nat) (h1 : 0 < i) (h2 : i ≤ contLen g c) :
    contGet g c (.pos (-(i : Int))) =
      .ok ((contEntries g c)[contLen g c - i]'(by unfold contLen at *; omega)) :=
  contGet_pos_neg g c i h1 h2

/-- every other position is an IndexError -/
theorem index_out_of_range (g : Graph) (c : Cont) (i : Int)
    (h : i ≥ contLen g c ∨ i < -(contLen g c : Int)) :
    contGet g c (.pos i) = .error .indexError := contGet_pos_oob g c i h

/-- lookup by name yields exactly the entry created under that name (names are link names,
unique in the group), unless some entity of the container carries that text as its id -/
theorem lookup_by_name (g : Graph) (c : Cont) (hf : isPlainLike c.info.flavour = true)
    (n : String) (k : Nat) (hm : (n, k) ∈ contEntries g c)
    (hnd : ((contEntries g c).map (·.1)).Nodup)
    (hclash : isUuid n = true → ∀ l ∈ contEntries g c, g.entityId l.2 ≠ some n) :
    contGet g c (.str n) = .ok (n, k) := contGet_name g c hf n k hm hnd hclash

/-- lookup by id yields the (first) entry whose entity carries the id -/
theorem lookup_by_id (g : Graph) (c : Cont) (hf : isPlainLike c.info.flavour = true)
    (i : String) (hi : isUuid i = true) (j : Nat) (hj : j < (contEntries g c).length)
    (hid : g.entityId ((contEntries g c)[j]'hj).2 = some i)
    (hfirst : ∀ j' (h' : j' < j), g.entityId ((contEntries g c)[j']'(by omega)).2 ≠ some i) :
    contGet g c (.str i) = .ok ((contEntries g c)[j]'hj) := contGet_id g c hf i hi j hj hid hfirst

/-- `x in c` is true exactly when `c[x]` succeeds -/
theorem membership_iff_lookup (g : Graph) (c : Cont) (hf : isPlainLike c.info.flavour = true)
    (x : String) :
    contHas g c (.str x) = .ok (match contGet g c (.str x) with | .ok _ => true | .error _ => false) :=
  contHas_str_iff_get g c hf x

/-- a second entity under an existing name is refused with DuplicateName -/
theorem duplicate_refused_block (g : Graph) (name type : String) (hn : name ≠ "")
    (hex : (g.ensureGroup 0 "data").1.hasChild (g.ensureGroup 0 "data").2 name = true) :
    createBlock g name type = .error .duplicateName := by
  unfold createBlock
  simp [hn, hex]

/-! Non-vacuity: a concrete reachable state with two blocks, looked up in every way. -/
def demo : Graph := run init [.createBlock "b" "t", .createBlock "0f0f0f0f0f0f0f0f0f0f0f0f0f0f0f0f" "t"]

example : (openCont demo [] "data").map (fun c => (contEntries demo c).map (·.1)) =
    some ["b", "0f0f0f0f0f0f0f0f0f0f0f0f0f0f0f0f"] := by decide +kernel
example : (openCont demo [] "data").map (fun c => (contGet demo c (.str "0f0f0f0f0f0f0f0f0f0f0f0f0f0f0f0f")).toOption.map (·.1)) =
    some (some "0f0f0f0f0f0f0f0f0f0f0f0f0f0f0f0f") := by decide +kernel
example : (match createBlock demo "b" "t" with | .error .duplicateName => true | _ => false) = true := by
  decide +kernel

end Nix.C03
