import NixModel.Lemmas.StoreViews
import NixModel.Lemmas.StoreWFC03

/-!
# C03 — names unique per parent, ids unique, all lookups agree

Statements over the structural model (`Store/Graph`, `Store/Api`, `Store/Step`). A container's
`len`, iteration, positional indexing, lookup by name / id and membership tests are all
functions of one list — the creation-ordered links of the container's HDF5 group
(`contEntries`) — and the theorems say they denote exactly that list.
-/
namespace Nix.C03
open Nix.Store Nix.Store.Lemmas Nix.Store.Graph

/-- `c[i]` for `0 ≤ i < len(c)` is the i-th entry in iteration (creation) order -/
theorem index_nonneg (g : Graph) (c : Cont) (i : Nat) (h : i < contLen g c) :
    contGet g c (.pos i) = .ok ((contEntries g c)[i]'h) := contGet_pos_nonneg g c i h

/-- `c[-i]` for `1 ≤ i ≤ len(c)` counts from the end -/
theorem index_negative (g : Graph) (c : Cont) (i : Nat) (h1 : 0 < i) (h2 : i ≤ contLen g c) :
    contGet g c (.pos (-(i : Int))) =
      .ok ((contEntries g c)[contLen g c - i]'(by unfold contLen at *; omega)) :=
  contGet_pos_neg g c i h1 h2

/-- every other position is an IndexError -/
theorem index_out_of_range (g : Graph) (c : Cont) (i : Int)
    (h : i ≥ contLen g c ∨ i < -(contLen g c : Int)) :
    contGet g c (.pos i) = .error .indexError := contGet_pos_oob g c i h

/-- lookup by name yields exactly the entry created under that name (names are link names,
unique in the group), unless some entity of the container carries that text as its id -/
theorem lookup_by_name (g : Graph) (c : Cont) (hf : isPlainLike c.info.flavour = true)
    (n : String) (k : Nat) (hm : (n, k) ∈ contEntries g c)
    (hnd : ((contEntries g c).map (·.1)).Nodup)
    (hclash : isUuid n = true → ∀ l ∈ contEntries g c, g.entityId l.2 ≠ some n) :
    contGet g c (.str n) = .ok (n, k) := contGet_name g c hf n k hm hnd hclash

/-- lookup by id yields the (first) entry whose entity carries the id -/
theorem lookup_by_id (g : Graph) (c : Cont) (hf : isPlainLike c.info.flavour = true)
    (i : String) (hi : isUuid i = true) (j : Nat) (hj : j < (contEntries g c).length)
    (hid : g.entityId ((contEntries g c)[j]'hj).2 = some i)
    (hfirst : ∀ j' (h' : j' < j), g.entityId ((contEntries g c)[j']'(by omega)).2 ≠ some i) :
    contGet g c (.str i) = .ok ((contEntries g c)[j]'hj) := contGet_id g c hf i hi j hj hid hfirst

/-- `x in c` is true exactly when `c[x]` succeeds -/
theorem membership_iff_lookup (g : Graph) (c : Cont) (hf : isPlainLike c.info.flavour = true)
    (x : String) :
    contHas g c (.str x) = .ok (match contGet g c (.str x) with | .ok _ => true | .error _ => false) :=
  contHas_str_iff_get g c hf x

/-- a second entity under an existing name is refused with DuplicateName -/
theorem duplicate_refused_block (g : Graph) (name type : String) (hn : name ≠ "")
    (hex : (g.ensureGroup 0 "data").1.hasChild (g.ensureGroup 0 "data").2 name = true) :
    createBlock g name type = .error .duplicateName := by
  unfold createBlock
  simp [hn, hex]

/-! ## Full-strength statements over reachable graphs

`ReachableFresh g` = `g` is the state after some history of API calls from the empty file in which
no call names its new entity with an id the (abstract, `uuid4`) supply has not handed out yet.
Every such graph satisfies the invariant `WF` (`Lemmas/StoreWF.lean`): unique keys, link targets
exist, link names unique per group, ids `id:n` with `n < nextId` and pairwise distinct, and
container typing (entries of an owning container carry their link name as `name`, entries of link
lists their link name as `entity_id`). -/

/-- the invariant holds along every history -/
theorem reachable_wf {g : Graph} (hg : ReachableFresh g) : WF g := hg.wf

/-- and every API call keeps it (one lemma per `Op` constructor inside) -/
theorem step_wf {g : Graph} (h : WF g) (op : Op) (hf : Op.Fresh g op) : WF (step g op) := h.step hf

/-- **views agree** — for every owning container (blocks, groups, arrays, frames, tags,
multi-tags, sources and sections at any depth, properties) of every reachable graph and every
position `j`: positional indexing, the stored `name`, lookup by id, membership by id, lookup and
membership by name and membership by entity all address the `j`-th entry of the creation-ordered
link list. The hypotheses of `lookup_by_name` / `lookup_by_id` (names unique, the id is the
first with that id, ids are UUIDs) are discharged by `WF`; what remains is the documented clash:
the entry's *name* is the *id* of a sibling. -/
theorem views_agree_reachable {g : Graph} (hg : ReachableFresh g) {p : Path} {cn : String} {c : Cont}
    (hc : openCont g p cn = some c) (hpl : isPlainLike c.info.flavour = true)
    (j : Nat) (hj : j < contLen g c) :
    contGet g c (.pos j) = .ok ((contEntries g c)[j]'hj) ∧
    g.getAttr ((contEntries g c)[j]'hj).2 "name" = some ((contEntries g c)[j]'hj).1 ∧
    (∃ i, g.entityId ((contEntries g c)[j]'hj).2 = some i ∧ isUuid i = true ∧
      contGet g c (.str i) = .ok ((contEntries g c)[j]'hj) ∧ contHas g c (.str i) = .ok true) ∧
    ((isUuid ((contEntries g c)[j]'hj).1 = true →
        ∀ l ∈ contEntries g c, g.entityId l.2 ≠ some ((contEntries g c)[j]'hj).1) →
      contGet g c (.str ((contEntries g c)[j]'hj).1) = .ok ((contEntries g c)[j]'hj) ∧
      contHas g c (.str ((contEntries g c)[j]'hj).1) = .ok true) ∧
    contHas g c (.ent ((contEntries g c)[j]'hj).2) = .ok true :=
  hg.wf.views_agree hc hpl j hj

/-- names are unique within every container of a reachable graph -/
theorem names_unique_reachable {g : Graph} (hg : ReachableFresh g) (c : Cont) :
    ((contEntries g c).map (·.1)).Nodup := hg.wf.entries_nodup c

/-- ids are pairwise distinct file-wide, and each is an id the supply handed out -/
theorem ids_unique_reachable {g : Graph} (hg : ReachableFresh g) :
    (∀ k k' i, g.entityId k = some i → g.entityId k' = some i → k = k') ∧
    (∀ k i, g.entityId k = some i → ∃ n, n < g.nextId ∧ i = idStr n ∧ isUuid i = true) :=
  ⟨hg.wf.ids_distinct, fun k i h => by
    obtain ⟨n, hn, e⟩ := hg.wf.ids_wf k i h
    exact ⟨n, hn, e, e ▸ isUuid_idStr n⟩⟩

/-- **fresh ids** — the id the next create call will draw differs from every id in the file -/
theorem id_fresh {g : Graph} (hg : ReachableFresh g) (k : Nat) : g.entityId k ≠ some (g.freshId).2 := by
  intro e
  obtain ⟨n, hn, e'⟩ := hg.wf.ids_wf k _ e
  have := idStr_inj e'
  omega

/-- the full statement of id stability: no API call changes the `entity_id` of an existing node -/
def IdStable : Prop :=
  ∀ (g : Graph), ReachableFresh g → ∀ (op : Op), Op.Fresh g op → ∀ k ∈ keys g, (step g op).entityId k = g.entityId k

/-- whether the op is one of those for which `id_stable_partial` is proved; what is missing for
the remaining constructors (`createIn`, `createProperty`, `createFeature`, `setRole`) is the
attribute-frame lemma of the function (their `WF` lemmas show that `entity_id` is only ever
written on the node just made, but do not export it) -/
def Op.idStableProved : Op → Bool
  | .createBlock .. | .createSection .. | .del .. | .append .. | .setAttr .. | .reopen => true
  | _ => false

/-- **ids never change** (partial: create_block, create_section at any depth, every deletion and
unlinking, every link-list append, every attribute setter, reopen) -/
theorem id_stable_partial {g : Graph} (hg : ReachableFresh g) (op : Op) (hf : Op.Fresh g op)
    (hop : Op.idStableProved op = true) (k : Nat) (hk : k ∈ keys g) :
    (step g op).entityId k = g.entityId k := by
  unfold step
  split
  · rename_i g' ha
    cases op with
    | createBlock n t =>
      simp only [apply, Option.some.injEq] at ha
      exact hg.wf.createBlock_entityId (hf n rfl) ha k hk
    | createSection o n t =>
      simp only [apply, Option.some.injEq] at ha
      exact hg.wf.createSection_entityId (hf n rfl) ha k hk
    | del o c key =>
      simp only [apply] at ha
      split at ha
      · simp only [Option.some.injEq] at ha
        exact contDel_getAttr ha k _
      · cases ha
    | append o c key =>
      simp only [apply] at ha
      split at ha
      · simp only [Option.some.injEq] at ha
        exact contAppend_getAttr ha k _
      · cases ha
    | setAttr p a v =>
      simp only [apply, Option.some.injEq] at ha
      exact setAttrOp_entityId ha k
    | reopen =>
      simp only [apply, Option.some.injEq, Except.ok.injEq] at ha
      rw [← ha]
    | createIn o w n t e => cases hop
    | createProperty o n => cases hop
    | createFeature o d l => cases hop
    | setRole o r t => cases hop
  · rfl

/-- **order after delete** — `del c[key]` on a plain container (blocks, groups, arrays, frames,
tags, multi-tags, properties; key = name, id or position) succeeds whenever `c[key]` does, and
removes exactly the addressed entry: the others keep their relative order -/
theorem order_after_delete {g : Graph} (hg : ReachableFresh g) {p : Path} {cn : String} {c : Cont}
    (hc : openCont g p cn = some c) (hfl : c.info.flavour = .plain) {key : Key} {e : String × Nat}
    (hget : contGet g c key = .ok e) :
    ∃ g', contDel g c key = .ok g' ∧ cLinks g' c.node = (contEntries g c).filter (fun l => l != e) :=
  hg.wf.contDel_plain hc hfl hget

/-- **link lists: append** — a successful `append` leaves the list as the old entries without
the appended entity, followed by it (so a first append puts it last and a re-append moves it to
the end); entries of link lists are named by the id of their target -/
theorem link_append_last {g g' : Graph} (hg : ReachableFresh g) {p : Path} {cn : String} {c : Cont} {key : Key}
    (hc : openCont g p cn = some c) (hres : contAppend g c key = .ok g') :
    ∃ k id cg, g.entityId k = some id ∧ g'.child? c.owner.key cn = some cg ∧
      g'.links cg = (contEntries g c).filter (fun l => l.1 != id) ++ [(id, k)] :=
  hg.wf.contAppend_entries hc hres

/-- **link lists: unlink** — `del list[key]` (key = name, id, position or the entity) removes the
one entry named by the entity's id; the rest keep their order -/
theorem link_unlink_keeps_rest {g g' : Graph} (hg : ReachableFresh g) {p : Path} {cn : String} {c : Cont}
    {key : Key} (hc : openCont g p cn = some c)
    (hfl : c.info.flavour = .link ∨ c.info.flavour = .sourceLink) (hres : contDel g c key = .ok g') :
    ∃ id cg, c.node = some cg ∧ g'.links cg = (contEntries g c).filter (fun l => l.1 != id) :=
  hg.wf.contDel_link hc hfl hres

/-- **a legal name is accepted** (`File.create_block`) — in every reachable graph, a name that is
non-empty, has no '/', comes with a non-empty type, is not present among the blocks and is not an
id still to be drawn, is accepted: the call succeeds, keeps the invariant, `blocks` is the old
list followed by the new block, whose id is the freshly drawn one and differs from every id in
the file; lookup and membership by that id and membership by entity address exactly the new
block; and — unless the name is the id of a sibling, the documented clash — so do lookup and
membership by name, and deleting by name restores the old list. -/
theorem legal_name_accepted_block {g : Graph} (hg : ReachableFresh g) {name type : String} {c : Cont}
    (hc : openCont g [] "data" = some c)
    (hn : name ≠ "") (hs : hasSlash name = false) (ht : type ≠ "")
    (hfresh : ∀ m, g.nextId ≤ m → name ≠ idStr m)
    (hnew : ∀ l ∈ contEntries g c, l.1 ≠ name) :
    ∃ g' k c', createBlock g name type = .ok g' ∧ WF g' ∧ openCont g' [] "data" = some c' ∧
      contEntries g' c' = contEntries g c ++ [(name, k)] ∧
      g'.entityId k = some (g.freshId).2 ∧ (∀ k', g.entityId k' ≠ some (g.freshId).2) ∧
      contGet g' c' (.str (g.freshId).2) = .ok (name, k) ∧
      contHas g' c' (.str (g.freshId).2) = .ok true ∧
      contHas g' c' (.ent k) = .ok true ∧
      ((isUuid name = true → ∀ l ∈ contEntries g c, g.entityId l.2 ≠ some name) →
         contGet g' c' (.str name) = .ok (name, k) ∧ contHas g' c' (.str name) = .ok true ∧
         ∃ g'', contDel g' c' (.str name) = .ok g'' ∧ cLinks g'' c'.node = contEntries g c) :=
  hg.wf.legal_name_accepted_block hc hn hs ht hfresh hnew

/-- the full statement of `legal_name_accepted` for the other create functions (groups, arrays,
tags, multi-tags, sources, sections, properties): proved so far are acceptance-preserves-`WF`
(`step_wf`), the shape of the new container (`Lemmas.NewEnt.cont`: old entries ++ [new]) inside
`WF.createIn` / `WF.createSection_new`, and — for every container of the resulting reachable
graph — `views_agree_reachable` and `order_after_delete`; what is missing is the packaging of
these into one statement per function as done for blocks above. -/
def LegalNameAcceptedEverywhere : Prop :=
  ∀ (g : Graph), ReachableFresh g → ∀ (p : Path) (what name type cname kind : String) (o : Loc) (c : Cont),
    resolve g rootLoc p = some o → createSpec (kindOf g o.key) what = some (cname, kind) → kind ≠ "multi_tag" →
    openCont g p cname = some c → checkNameType name type = .ok () →
    (∀ m, g.nextId ≤ m → name ≠ idStr m) → (∀ l ∈ contEntries g c, l.1 ≠ name) →
    ∃ g' k, createIn g p what name type none = .ok g' ∧
      cLinks g' (g'.child? o.key cname) = contEntries g c ++ [(name, k)]

/-- the partial result available for every create function: the call keeps the invariant, so all
view theorems apply to the state after it -/
theorem legal_name_accepted_partial {g : Graph} (hg : ReachableFresh g) (op : Op) (hf : Op.Fresh g op) :
    ReachableFresh (step g op) ∧ WF (step g op) := ⟨hg.step hf, (hg.step hf).wf⟩

/-! ### duplicate names are refused by every create function -/

/-- `File.create_section` -/
theorem duplicate_refused_section_root (g : Graph) (name type : String) (k : Nat)
    (hex : g.child? 0 "metadata" = some k) (hin : g.hasChild k name = true) :
    createSection g [] name type = .error .duplicateName := by
  have hbn : (getByName g (some k) name).isSome = true := by
    rw [hasChild_eq, child?_eq] at hin
    unfold getByName cLinks
    cases hf : (g.links k).find? (fun l => l.1 == name) <;> simp_all
  have : (getByIdOrName g (some k) name).isSome = true := by
    unfold getByIdOrName
    split
    · split
      · rfl
      · exact hbn
    · exact hbn
  simp [createSection, openCont, resolve, ownerKindOf, rootLoc, containerInfo, contHas, hex, this]

/-- `Section.create_section` -/
theorem duplicate_refused_section (g : Graph) (p : Path) (o : Loc) (name type : String) (hp : p ≠ [])
    (hr : resolve g rootLoc p = some o) (hk : kindOf g o.key = "section")
    (hlegal : checkNameType name type = .ok ())
    (hin : (g.ensureGroup o.key "sections").1.hasChild (g.ensureGroup o.key "sections").2 name = true) :
    createSection g p name type = .error .duplicateName := by
  cases p with
  | nil => exact absurd rfl hp
  | cons s ps =>
    simp only [createSection, hr, hk, bne_self_eq_false, Bool.false_eq_true, ↓reduceIte, hlegal]
    simp [hin]

/-- `Block.create_group / create_data_array / create_tag / create_multi_tag / create_source`,
`Source.create_source` -/
theorem duplicate_refused_in (g : Graph) (p : Path) (o : Loc) (what name type cname kind : String)
    (extra : Option Nat) (c : Nat)
    (hr : resolve g rootLoc p = some o) (hspec : createSpec (kindOf g o.key) what = some (cname, kind))
    (hlegal : checkNameType name type = .ok ())
    (hc : g.child? o.key cname = some c) (hin : g.hasChild c name = true) :
    createIn g p what name type extra = .error .duplicateName := by
  unfold createIn
  simp only [hr]
  change (match createSpec (kindOf g o.key) what with
      | none => Except.error Err.attributeError
      | some (cname, kind) => _) = _
  simp only [hspec, hlegal]
  have e0 : (if (kindOf g o.key == "source") = true then (g.ensureGroup o.key cname).1 else g) = g := by
    split
    · rw [ensureGroup_of_some hc]
    · rfl
  rw [e0]
  simp [hc, hin]

/-- `Section.create_property` -/
theorem duplicate_refused_property (g : Graph) (p : Path) (o : Loc) (name : String) (hn : name ≠ "")
    (hr : resolve g rootLoc p = some o) (hk : kindOf g o.key = "section")
    (hin : (g.ensureGroup o.key "properties").1.hasChild (g.ensureGroup o.key "properties").2 name = true) :
    createProperty g p name = .error .duplicateName := by
  unfold createProperty
  simp only [hr, hk, bne_self_eq_false, Bool.false_eq_true, ↓reduceIte]
  have hn' : (name != "") = true := by simpa using hn
  simp [hn', hin]

/-! Non-vacuity: a concrete reachable state with two blocks, looked up in every way. -/
def demo : Graph := run init [.createBlock "b" "t", .createBlock "0f0f0f0f0f0f0f0f0f0f0f0f0f0f0f0f" "t"]

example : (openCont demo [] "data").map (fun c => (contEntries demo c).map (·.1)) =
    some ["b", "0f0f0f0f0f0f0f0f0f0f0f0f0f0f0f0f"] := by decide +kernel
example : (openCont demo [] "data").map (fun c => (contGet demo c (.str "0f0f0f0f0f0f0f0f0f0f0f0f0f0f0f0f")).toOption.map (·.1)) =
    some (some "0f0f0f0f0f0f0f0f0f0f0f0f0f0f0f0f") := by decide +kernel
example : (match createBlock demo "b" "t" with | .error .duplicateName => true | _ => false) = true := by
  decide +kernel

/-- the demo state is reachable by a history that respects id freshness, so every theorem above
applies to it (the hypotheses are satisfiable) -/
theorem demo_reachable : ReachableFresh demo :=
  ⟨[.createBlock "b" "t", .createBlock "0f0f0f0f0f0f0f0f0f0f0f0f0f0f0f0f" "t"],
    ⟨fun n hn m _ => by cases hn; exact notId_of_head (by decide) m,
     fun n hn m _ => by cases hn; exact notId_of_head (by decide) m, trivial⟩, rfl⟩

example : WF demo := reachable_wf demo_reachable
example : ∃ c, openCont demo [] "data" = some c ∧ hasSlash "new" = false ∧
    (∀ l ∈ contEntries demo c, l.1 ≠ "new") := by decide +kernel
example : ∃ c, openCont demo [] "data" = some c ∧ isPlainLike c.info.flavour = true ∧ contLen demo c = 2 ∧
    c.info.flavour = .plain := by decide +kernel

end Nix.C03
