import NixModel.Lemmas.StoreViews
import NixModel.Lemmas.C03Accept
import NixModel.Lemmas.C03Uuid
import NixModel.Lemmas.C03Handles
import NixModel.Lemmas.C03Succeeds
import NixModel.Lemmas.C03Property
import NixModel.Generated.CreateShape
import NixModel.Lemmas.C03ContShape

/-!
# C03 — names unique per parent, ids unique, all lookups agree

Statements over the structural model (`Store/Graph`, `Store/Api`, `Store/Step`). A container's
`len`, iteration, positional indexing, lookup by name / id and membership tests are all
functions of one list — the creation-ordered links of the container's HDF5 group
(`contEntries`) — and the theorems say they denote exactly that list.
-/
namespace Nix.C03
open Nix.Store Nix.Store.Lemmas Nix.Store.Graph

/-- `c[i]` for `0 ≤ i < len(c)` is the i-th entry in iteration (creation) order -/
theorem index_nonneg (g : Graph) (c : Cont) (i : Nat) (h : i < contLen g c) :
    contGet g c (.pos i) = .ok ((contEntries g c)[i]'h) := contGet_pos_nonneg g c i h

/-- `c[-i]` for `1 ≤ i ≤ len(c)` counts from the end -/
theorem index_negative (g : Graph) (c : Cont) (i : Nat) (h1 : 0 < i) (h2 : i ≤ contLen g c) :
    contGet g c (.pos (-(i : Int))) =
      .ok ((contEntries g c)[contLen g c - i]'(by unfold contLen at *; omega)) :=
  contGet_pos_neg g c i h1 h2

/-- every other position is an IndexError -/
theorem index_out_of_range (g : Graph) (c : Cont) (i : Int)
    (h : i ≥ contLen g c ∨ i < -(contLen g c : Int)) :
    contGet g c (.pos i) = .error .indexError := contGet_pos_oob g c i h

/-- lookup by name yields exactly the entry created under that name (names are link names,
unique in the group), unless some entity of the container carries that text as its id -/
theorem lookup_by_name (g : Graph) (c : Cont) (hf : isPlainLike c.info.flavour = true)
    (n : String) (k : Nat) (hm : (n, k) ∈ contEntries g c)
    (hnd : ((contEntries g c).map (·.1)).Nodup)
    (hclash : isUuid n = true → ∀ l ∈ contEntries g c, g.entityId l.2 ≠ some n) :
    contGet g c (.str n) = .ok (n, k) := contGet_name g c hf n k hm hnd hclash

/-- lookup by id yields the (first) entry whose entity carries the id -/
theorem lookup_by_id (g : Graph) (c : Cont) (hf : isPlainLike c.info.flavour = true)
    (i : String) (hi : isUuid i = true) (j : Nat) (hj : j < (contEntries g c).length)
    (hid : g.entityId ((contEntries g c)[j]'hj).2 = some i)
    (hfirst : ∀ j' (h' : j' < j), g.entityId ((contEntries g c)[j']'(by omega)).2 ≠ some i) :
    contGet g c (.str i) = .ok ((contEntries g c)[j]'hj) := contGet_id g c hf i hi j hj hid hfirst

/-- `x in c` is true exactly when `c[x]` succeeds -/
theorem membership_iff_lookup (g : Graph) (c : Cont) (hf : isPlainLike c.info.flavour = true)
    (x : String) :
    contHas g c (.str x) = .ok (match contGet g c (.str x) with | .ok _ => true | .error _ => false) :=
  contHas_str_iff_get g c hf x

/-- a second entity under an existing name is refused with DuplicateName -/
theorem duplicate_refused_block (g : Graph) (name type : String) (hn : name ≠ "")
    (hex : (g.ensureGroup 0 "data").1.hasChild (g.ensureGroup 0 "data").2 name = true) :
    createBlock g name type = .error .duplicateName := by
  unfold createBlock
  simp [hn, hex]

/-! ## Full-strength statements over reachable graphs

`ReachableFreshX g` = `g` is the state after some history of API calls (the operations of
`Store/Step.lean` and `create_data_frame`: `Store/Frames.lean`) from the empty file in which no call
names its new entity with an id the (abstract, `uuid4`) supply has not handed out yet; the histories
without data frames (`ReachableFresh`) are among them (`Lemmas.ReachableFresh.toX`).
Every such graph satisfies the invariant `WF` (`Lemmas/StoreWF.lean`): unique keys, link targets
exist, link names unique per group, ids `id:n` with `n < nextId` and pairwise distinct, and
container typing (entries of an owning container carry their link name as `name`, entries of link
lists their link name as `entity_id`). -/

/-- the invariant holds along every history -/
theorem reachable_wf {g : Graph} (hg : ReachableFreshX g) : WF g := hg.wf

/-- and every API call keeps it (one lemma per `Op` constructor inside) -/
theorem step_wf {g : Graph} (h : WF g) (op : OpX) (hf : OpX.Fresh g op) : WF (stepX g op) := h.stepX hf

/-- **views agree** — for every owning container (blocks, groups, arrays, frames, tags,
multi-tags, sources and sections at any depth, properties) of every reachable graph and every
position `j`: positional indexing, the stored `name`, lookup by id, membership by id, lookup and
membership by name and membership by entity all address the `j`-th entry of the creation-ordered
link list. The hypotheses of `lookup_by_name` / `lookup_by_id` (names unique, the id is the
first with that id, ids are UUIDs) are discharged by `WF`; what remains is the documented clash:
the entry's *name* is the *id* of a sibling. -/
theorem views_agree_reachable {g : Graph} (hg : ReachableFreshX g) {p : Path} {cn : String} {c : Cont}
    (hc : openCont g p cn = some c) (hpl : isPlainLike c.info.flavour = true)
    (j : Nat) (hj : j < contLen g c) :
    contGet g c (.pos j) = .ok ((contEntries g c)[j]'hj) ∧
    g.getAttr ((contEntries g c)[j]'hj).2 "name" = some ((contEntries g c)[j]'hj).1 ∧
    (∃ i, g.entityId ((contEntries g c)[j]'hj).2 = some i ∧ isUuid i = true ∧
      contGet g c (.str i) = .ok ((contEntries g c)[j]'hj) ∧ contHas g c (.str i) = .ok true) ∧
    ((isUuid ((contEntries g c)[j]'hj).1 = true →
        ∀ l ∈ contEntries g c, g.entityId l.2 ≠ some ((contEntries g c)[j]'hj).1) →
      contGet g c (.str ((contEntries g c)[j]'hj).1) = .ok ((contEntries g c)[j]'hj) ∧
      contHas g c (.str ((contEntries g c)[j]'hj).1) = .ok true) ∧
    contHas g c (.ent ((contEntries g c)[j]'hj).2) = .ok true :=
  hg.wf.views_agree hc hpl j hj

/-- names are unique within every container of a reachable graph -/
theorem names_unique_reachable {g : Graph} (hg : ReachableFreshX g) (c : Cont) :
    ((contEntries g c).map (·.1)).Nodup := hg.wf.entries_nodup c

/-- ids are pairwise distinct file-wide, and each is an id the supply handed out -/
theorem ids_unique_reachable {g : Graph} (hg : ReachableFreshX g) :
    (∀ k k' i, g.entityId k = some i → g.entityId k' = some i → k = k') ∧
    (∀ k i, g.entityId k = some i → ∃ n, n < g.nextId ∧ i = idStr n ∧ isUuid i = true) :=
  ⟨hg.wf.ids_distinct, fun k i h => by
    obtain ⟨n, hn, e⟩ := hg.wf.ids_wf k i h
    exact ⟨n, hn, e, e ▸ isUuid_idStr n⟩⟩

/-- **fresh ids** — the id the next create call will draw differs from every id in the file -/
theorem id_fresh {g : Graph} (hg : ReachableFreshX g) (k : Nat) : g.entityId k ≠ some (g.freshId).2 := by
  intro e
  obtain ⟨n, hn, e'⟩ := hg.wf.ids_wf k _ e
  have := idStr_inj e'
  omega

/-- the statement of id stability over the histories of `Store/Step.lean` -/
def IdStable : Prop :=
  ∀ (g : Graph), ReachableFresh g → ∀ (op : Op), Op.Fresh g op → ∀ k ∈ keys g, (step g op).entityId k = g.entityId k

/-- **ids never change**, for every operation: no API call (create in any container, delete,
unlink, append, role-link and attribute setters, reopen) changes the `entity_id` of an existing node -/
theorem id_stable_wf {g : Graph} (hw : WF g) (op : Op) (hf : Op.Fresh g op) (k : Nat) (hk : k ∈ keys g) :
    (step g op).entityId k = g.entityId k := by
  unfold step
  split
  · rename_i g' ha
    cases op with
    | createBlock n t =>
      simp only [apply, Option.some.injEq] at ha
      exact hw.createBlock_entityId (hf n rfl) ha k hk
    | createSection o n t =>
      simp only [apply, Option.some.injEq] at ha
      exact hw.createSection_entityId (hf n rfl) ha k hk
    | del o c key =>
      simp only [apply] at ha
      split at ha
      · simp only [Option.some.injEq] at ha
        exact contDel_getAttr ha k _
      · cases ha
    | append o c key =>
      simp only [apply] at ha
      split at ha
      · simp only [Option.some.injEq] at ha
        exact contAppend_getAttr ha k _
      · cases ha
    | setAttr p a v =>
      simp only [apply, Option.some.injEq] at ha
      exact setAttrOp_entityId ha k
    | reopen =>
      simp only [apply, Option.some.injEq, Except.ok.injEq] at ha
      rw [← ha]
    | createIn o w n t e =>
      cases e with
      | none =>
        simp only [apply, Option.some.injEq] at ha
        obtain ⟨_, _, _, _, _, _, hc⟩ := hw.createIn_created (hf n rfl) ha
        exact hc.entityId_old k hk
      | some ep =>
        simp only [apply, Option.map_eq_some_iff] at ha
        obtain ⟨l, _, ha⟩ := ha
        obtain ⟨_, _, _, _, _, _, hc⟩ := hw.createIn_created (hf n rfl) ha
        exact hc.entityId_old k hk
    | createProperty o n =>
      simp only [apply, Option.some.injEq] at ha
      exact hw.createProperty_entityId ha k hk
    | createFeature o d l =>
      cases d with
      | none =>
        simp only [apply, Option.some.injEq] at ha
        exact hw.createFeature_entityId ha k hk
      | some dp =>
        simp only [apply, Option.map_eq_some_iff] at ha
        obtain ⟨l', _, ha⟩ := ha
        exact hw.createFeature_entityId ha k hk
    | setRole o r t =>
      cases t with
      | none =>
        simp only [apply, Option.some.injEq] at ha
        exact setRole_entityId ha k
      | some tp =>
        simp only [apply, Option.map_eq_some_iff] at ha
        obtain ⟨l', _, ha⟩ := ha
        exact setRole_entityId ha k
  · rfl

/-- `IdStable` holds (the former `id_stable_partial`, now for every constructor of `Op`) -/
theorem id_stable : IdStable := fun _ hg op hf k hk => id_stable_wf hg.wf op hf k hk

/-- … and along the extended histories (data frames included) -/
theorem id_stable_x {g : Graph} (hg : ReachableFreshX g) (op : OpX) (hf : OpX.Fresh g op) (k : Nat)
    (hk : k ∈ keys g) : (stepX g op).entityId k = g.entityId k := by
  cases op with
  | base op => exact id_stable_wf hg.wf op hf k hk
  | createFrame o n t =>
    unfold stepX
    split
    · rename_i g' ha
      simp only [applyX, Option.some.injEq] at ha
      obtain ⟨_, _, _, _, hc⟩ := hg.wf.createFrame_created (hf n rfl) ha
      exact hc.entityId_old k hk
    · rfl

/-- **order after delete** — `del c[key]` on a plain container (blocks, groups, arrays, frames,
tags, multi-tags, properties; key = name, id or position) succeeds whenever `c[key]` does, and
removes exactly the addressed entry: the others keep their relative order -/
theorem order_after_delete {g : Graph} (hg : ReachableFreshX g) {p : Path} {cn : String} {c : Cont}
    (hc : openCont g p cn = some c) (hfl : c.info.flavour = .plain) {key : Key} {e : String × Nat}
    (hget : contGet g c key = .ok e) :
    ∃ g', contDel g c key = .ok g' ∧ cLinks g' c.node = (contEntries g c).filter (fun l => l != e) :=
  hg.wf.contDel_plain hc hfl hget

/-! ### entity objects (handles) as keys

A Python entity object enters the model as the node its HDF5 object is (`Key.ent`), resolved from ANY path that
leads to it (`KeyArg.obj q`: through the owning container, a link list of a group / tag / array, the `positions` /
`extents` / `metadata` / `link` / `data` links, …); the correspondence presents handles of every such provenance.
`holds g c k` = the node `k` is the target of an entry of `c`. -/

/-- **membership by entity object, owning containers** — in every reachable graph, for every owning container and
every entity object of the container's kind: `e in c` is True exactly when the object is (the target of) an entry of
`c`; an entity of the same name elsewhere is not a member, and the path the handle came by does not matter -/
theorem membership_by_entity {g : Graph} (hg : ReachableFreshX g) {p : Path} {cn : String} {c : Cont}
    (hc : openCont g p cn = some c) (hpl : isPlainLike c.info.flavour = true) (k : Nat)
    (hk : kindOf g k = c.info.item) :
    contHas g c (.ent k) = .ok (holds g c k) :=
  hg.wf.contHas_ent_plain (hg.wf.entries_ok hc) hpl k hk

/-- … and for link lists: True exactly when the object is linked there -/
theorem membership_by_entity_link {g : Graph} (hg : ReachableFreshX g) {p : Path} {cn : String} {c : Cont}
    (hc : openCont g p cn = some c) (hfl : c.info.flavour = .link ∨ c.info.flavour = .sourceLink) (k : Nat)
    (hk : kindOf g k = c.info.item) :
    contHas g c (.ent k) = .ok (holds g c k) :=
  hg.wf.contHas_ent_link (hg.wf.entries_ok hc) hfl k hk

/-- **handles of every provenance** — the entity object at the end of any path `q` (`KeyArg.obj q`) is a member of
an owning container or a link list iff its node is an entry; two paths to the same node get the same answer; and the
answer is True for the handle fetched from the `j`-th entry itself -/
theorem membership_by_handle {g : Graph} (hg : ReachableFreshX g) {p : Path} {cn : String} {c : Cont}
    (hc : openCont g p cn = some c)
    (hfl : isPlainLike c.info.flavour = true ∨ c.info.flavour = .link ∨ c.info.flavour = .sourceLink)
    {q : Path} {l : Loc} (hq : resolve g rootLoc q = some l) (hk : kindOf g l.key = c.info.item) :
    (∃ key, resolveKeyArg g (.obj q) = some key ∧ contHas g c key = .ok (holds g c l.key)) ∧
    (∀ q' l', resolve g rootLoc q' = some l' → l'.key = l.key →
      (resolveKeyArg g (.obj q')).map (contHas g c) = (resolveKeyArg g (.obj q)).map (contHas g c)) ∧
    (∀ (j : Nat) (hj : j < contLen g c), ((contEntries g c)[j]'hj).2 = l.key → holds g c l.key = true) := by
  refine ⟨⟨.ent l.key, by simp [resolveKeyArg, hq], ?_⟩, ?_, ?_⟩
  · rcases hfl with h | h
    · exact membership_by_entity hg hc h _ hk
    · exact membership_by_entity_link hg hc h _ hk
  · intro q' l' hq' e
    simp [resolveKeyArg, hq, hq', e]
  · intro j hj e
    exact holds_iff.mpr ⟨_, List.getElem_mem _, e⟩

/-- an entity object of another kind is refused with TypeError -/
theorem membership_by_entity_wrong_kind (g : Graph) (c : Cont) (k : Nat) (hk : kindOf g k ≠ c.info.item) :
    contHas g c (.ent k) = .error .typeError := contHas_ent_wrong_kind g c k hk

/-- **deletion by entity object** (`del c[e]`, plain containers) removes exactly the entry whose target is the
object — whatever path the handle came by — and keeps the order of the rest -/
theorem delete_by_entity {g : Graph} (hg : ReachableFreshX g) {p : Path} {cn : String} {c : Cont}
    (hc : openCont g p cn = some c) (hfl : c.info.flavour = .plain) {e : String × Nat}
    (hmem : e ∈ contEntries g c) :
    ∃ g', contDel g c (.ent e.2) = .ok g' ∧ cLinks g' c.node = (contEntries g c).filter (fun l => l != e) :=
  hg.wf.contDel_ent_plain (hg.wf.entries_ok hc) hfl hmem

/-- every key form (name, id, position, negative position) that addresses an entry deletes exactly what deleting by
that entry's entity object deletes — in every kind of container (subtree deletion of sections / sources and
unlinking from link lists included) -/
theorem delete_key_forms_agree {g : Graph} {c : Cont} {key : Key} {e : String × Nat}
    (hget : contGet g c key = .ok e) : contDel g c key = contDel g c (.ent e.2) := contDel_key_eq_ent hget

/-- **deletion from every owning container** (plain containers, and sections / sources at any depth, whose deletion
takes the subtree along; key = name, id, position, negative position or the entity object of any provenance): the call
succeeds for every key that addresses an entry `e`, the container afterwards holds exactly the old entries whose node
is not among the deleted objects `doomedKeys` (the node of `e` and, for sections / sources, its subtree) — in their
old order — and `e` is gone. (That no SIBLING lies in the subtree of `e` is not proved: it needs a single-owner
invariant the shared `WF` does not carry; for plain containers `order_after_delete` / `delete_by_entity` say it.) -/
theorem delete_from_owning_container {g : Graph} (hg : ReachableFreshX g) {p : Path} {cn : String} {c : Cont}
    (hc : openCont g p cn = some c) (hpl : isPlainLike c.info.flavour = true) {key : Key} {e : String × Nat}
    (hkey : contGet g c key = .ok e ∨ (key = .ent e.2 ∧ e ∈ contEntries g c)) :
    ∃ g', contDel g c key = .ok g' ∧
      cLinks g' c.node = (contEntries g c).filter (fun l => !(doomedKeys g c e.2).contains l.2) ∧
      e.2 ∈ doomedKeys g c e.2 ∧ e ∉ cLinks g' c.node ∧ (cLinks g' c.node).Sublist (contEntries g c) := by
  have hmem : e ∈ contEntries g c := by
    rcases hkey with h | ⟨_, h⟩
    · exact contGet_mem hpl h
    · exact h
  obtain ⟨g', hd, h1, h2, h3⟩ := hg.wf.contDel_owning (hg.wf.entries_ok hc) hpl hmem
  refine ⟨g', ?_, h1, mem_doomedKeys_self g c e.2, h2, h3⟩
  rcases hkey with h | ⟨h, _⟩
  · rw [delete_key_forms_agree h]; exact hd
  · rw [h]; exact hd

/-- **views agree, link lists** — for every link list (group.data_arrays / data_frames / tags / multi_tags / sources,
tag / multi-tag references, array / tag / multi-tag sources) of every reachable graph and every position `j`:
positional indexing, lookup and membership by the id (the link's name), membership by entity object address the `j`-th
entry of the append-ordered list; lookup and membership by the target's name do so when no other target of the list
carries that name (sources of different parents may) and the name is not the id of a linked entity -/
theorem views_agree_link_reachable {g : Graph} (hg : ReachableFreshX g) {p : Path} {cn : String} {c : Cont}
    (hc : openCont g p cn = some c) (hfl : c.info.flavour = .link ∨ c.info.flavour = .sourceLink)
    (j : Nat) (hj : j < contLen g c) :
    contGet g c (.pos j) = .ok ((contEntries g c)[j]'hj) ∧
    g.entityId ((contEntries g c)[j]'hj).2 = some ((contEntries g c)[j]'hj).1 ∧
    isUuid ((contEntries g c)[j]'hj).1 = true ∧
    contGet g c (.str ((contEntries g c)[j]'hj).1) = .ok ((contEntries g c)[j]'hj) ∧
    contHas g c (.str ((contEntries g c)[j]'hj).1) = .ok true ∧
    contHas g c (.ent ((contEntries g c)[j]'hj).2) = .ok true ∧
    (∀ nm, g.getAttr ((contEntries g c)[j]'hj).2 "name" = some nm →
      (∀ l ∈ contEntries g c, g.getAttr l.2 "name" = some nm → l = (contEntries g c)[j]'hj) →
      (isUuid nm = true → getByName g c.node nm = none) →
      contGet g c (.str nm) = .ok ((contEntries g c)[j]'hj) ∧ contHas g c (.str nm) = .ok true) :=
  hg.wf.views_agree_link (hg.wf.entries_ok hc) hfl j hj

/-- **link lists: append** — a successful `append` leaves the list as the old entries without
the appended entity, followed by it (so a first append puts it last and a re-append moves it to
the end); entries of link lists are named by the id of their target -/
theorem link_append_last {g g' : Graph} (hg : ReachableFreshX g) {p : Path} {cn : String} {c : Cont} {key : Key}
    (hc : openCont g p cn = some c) (hres : contAppend g c key = .ok g') :
    ∃ k id cg, g.entityId k = some id ∧ g'.child? c.owner.key cn = some cg ∧
      g'.links cg = (contEntries g c).filter (fun l => l.1 != id) ++ [(id, k)] :=
  hg.wf.contAppend_entries hc hres

/-- **link lists: unlink** — `del list[key]` (key = name, id, position or the entity) removes the
one entry named by the entity's id; the rest keep their order -/
theorem link_unlink_keeps_rest {g g' : Graph} (hg : ReachableFreshX g) {p : Path} {cn : String} {c : Cont}
    {key : Key} (hc : openCont g p cn = some c)
    (hfl : c.info.flavour = .link ∨ c.info.flavour = .sourceLink) (hres : contDel g c key = .ok g') :
    ∃ id cg, c.node = some cg ∧ g'.links cg = (contEntries g c).filter (fun l => l.1 != id) :=
  hg.wf.contDel_link hc hfl hres

/-- **a legal name is accepted** (`File.create_block`) — in every reachable graph, a name that is
non-empty, has no '/', comes with a non-empty type, is not present among the blocks and is not an
id still to be drawn, is accepted: the call succeeds, keeps the invariant, `blocks` is the old
list followed by the new block, whose id is the freshly drawn one and differs from every id in
the file; lookup and membership by that id and membership by entity address exactly the new
block; and — unless the name is the id of a sibling, the documented clash — so do lookup and
membership by name, and deleting by name restores the old list. -/
theorem legal_name_accepted_block {g : Graph} (hg : ReachableFreshX g) {name type : String} {c : Cont}
    (hc : openCont g [] "data" = some c)
    (hn : name ≠ "") (hs : hasSlash name = false) (ht : type ≠ "")
    (hfresh : ∀ m, g.nextId ≤ m → name ≠ idStr m)
    (hnew : ∀ l ∈ contEntries g c, l.1 ≠ name) :
    ∃ g' k c', createBlock g name type = .ok g' ∧ WF g' ∧ openCont g' [] "data" = some c' ∧
      contEntries g' c' = contEntries g c ++ [(name, k)] ∧
      g'.entityId k = some (g.freshId).2 ∧ (∀ k', g.entityId k' ≠ some (g.freshId).2) ∧
      contGet g' c' (.str (g.freshId).2) = .ok (name, k) ∧
      contHas g' c' (.str (g.freshId).2) = .ok true ∧
      contHas g' c' (.ent k) = .ok true ∧
      ((isUuid name = true → ∀ l ∈ contEntries g c, g.entityId l.2 ≠ some name) →
         contGet g' c' (.str name) = .ok (name, k) ∧ contHas g' c' (.str name) = .ok true ∧
         ∃ g'', contDel g' c' (.str name) = .ok g'' ∧ cLinks g'' c'.node = contEntries g c) :=
  hg.wf.legal_name_accepted_block hc hn hs ht hfresh hnew

/-! ### a legal name is accepted by every create function

`AcceptedAs g ok cn name c g'` packages what "accepted and afterwards usable" means for the
container `c` (= container `cn` of the owner node `ok`, opened in `g`): see `Lemmas.Created.accepted`.
Only the entries of `c` itself enter the hypotheses — a name taken by an entity of another kind of
the same parent does not matter (`other_kinds_untouched`). -/

/-- the conclusion shared by the acceptance theorems -/
def AcceptedAs (g : Graph) (ok : Nat) (cn name : String) (c : Cont) (g' : Graph) : Prop :=
  ∃ k cg, WF g' ∧ g'.child? ok cn = some cg ∧
    contEntries g' { c with node := some cg } = contEntries g c ++ [(name, k)] ∧
    g'.entityId k = some (g.freshId).2 ∧ (∀ k', g.entityId k' ≠ some (g.freshId).2) ∧
    (∀ x ∈ keys g, g'.entityId x = g.entityId x) ∧
    contGet g' { c with node := some cg } (.str (g.freshId).2) = .ok (name, k) ∧
    contHas g' { c with node := some cg } (.str (g.freshId).2) = .ok true ∧
    contHas g' { c with node := some cg } (.ent k) = .ok true ∧
    ((isUuid name = true → ∀ l ∈ contEntries g c, g.entityId l.2 ≠ some name) →
       contGet g' { c with node := some cg } (.str name) = .ok (name, k) ∧
       contHas g' { c with node := some cg } (.str name) = .ok true ∧
       (c.info.flavour = .plain →
         ∃ g'', contDel g' { c with node := some cg } (.str name) = .ok g'' ∧ cLinks g'' (some cg) = contEntries g c))

theorem acceptedAs_of_created {g g' : Graph} (h : WF g) {p : Path} {cn name : String} {c : Cont} {k : Nat}
    (hc : openCont g p cn = some c) (hpl : isPlainLike c.info.flavour = true)
    (hcr : Created g c.owner.key cn name g' k)
    (hfresh : ∀ m, g.nextId ≤ m → name ≠ idStr m) (hnew : ∀ l ∈ contEntries g c, l.1 ≠ name) :
    AcceptedAs g c.owner.key cn name c g' := by
  obtain ⟨o, hr, hci, ho, _, _, hnode⟩ := openCont_some hc
  subst ho
  obtain ⟨cg, h1, h2⟩ := hcr.accepted h hci hnode hpl (h.resolve_root_key hr) hfresh hnew
  exact ⟨k, cg, hcr.wf, h1, h2⟩

/-- **every create function of a block and of a source** (`create_group`, `create_data_array`,
`create_tag`, `create_multi_tag` with a positions array, `create_source` on blocks and on sources at
any depth): an accepted call appends the entity under its name, with a fresh id, addressable by
position, name, id and entity, and changes no other id -/
theorem legal_name_accepted_in {g g' : Graph} (hg : ReachableFreshX g) {p : Path} {what name type : String}
    {extra : Option Nat} (hfresh : ∀ m, g.nextId ≤ m → name ≠ idStr m)
    (hres : createIn g p what name type extra = .ok g') :
    ∃ o cname kind c, resolve g rootLoc p = some o ∧ createSpec (kindOf g o.key) what = some (cname, kind) ∧
      openCont g p cname = some c ∧ c.owner = o ∧ (∀ l ∈ contEntries g c, l.1 ≠ name) ∧
      AcceptedAs g o.key cname name c g' := by
  obtain ⟨o, k, cname, kind, hr, hsp, hcr⟩ := hg.wf.createIn_created hfresh hres
  obtain ⟨info, hci, hpl, _⟩ := createSpec_info hsp
  have hok : ownerKindOf g o = kindOf g o.key := by
    rw [ownerKindOf_eq, hg.wf.okind_of_kind]
    intro e; rw [e] at hci; simp [containerInfo_empty] at hci
  obtain ⟨c, hc⟩ : ∃ c, openCont g p cname = some c := by
    simp [openCont, hr, hok, hci]
  obtain ⟨o', hr', hci', ho, _, _, hnode⟩ := openCont_some hc
  have hoo : o' = o := by rw [hr] at hr'; exact (Option.some.inj hr').symm
  subst hoo
  have hinfo : c.info = info := by
    rw [hg.wf.okind_of_kind (by intro e; rw [e] at hci; simp [containerInfo_empty] at hci), hci] at hci'
    exact (Option.some.inj hci').symm
  have hnew : ∀ l ∈ contEntries g c, l.1 ≠ name := by
    intro l hl e
    obtain ⟨cg, _, _, hlinks⟩ := hcr.cont
    have hnd := hcr.wf.names_nodup cg
    have hl' : l ∈ cLinks g (g.child? o'.key cname) := by
      unfold contEntries at hl; rw [hnode] at hl; exact hl
    rw [hlinks, List.map_append, List.nodup_append] at hnd
    exact hnd.2.2 l.1 (List.mem_map.mpr ⟨l, hl', rfl⟩) name (by simp) e
  refine ⟨o', cname, kind, c, hr, hsp, hc, ho, hnew, ?_⟩
  have := acceptedAs_of_created hg.wf hc (by rw [hinfo]; exact hpl) (by rw [ho]; exact hcr) hfresh hnew
  rw [ho] at this
  exact this

/-- **data frames** (`Block.create_data_frame`): an accepted call appends the frame under its
name — whatever arrays, tags, groups … of the block are called (only the entries of `data_frames`
enter, see `duplicate_refused_frame` for the converse) — and afterwards the name, the id, the
position and the entity address exactly the new frame -/
theorem legal_name_accepted_frame {g g' : Graph} (hg : ReachableFreshX g) {p : Path} {name type : String} {c : Cont}
    (hc : openCont g p "data_frames" = some c) (hfresh : ∀ m, g.nextId ≤ m → name ≠ idStr m)
    (hnew : ∀ l ∈ contEntries g c, l.1 ≠ name) (hres : createFrame g p name type = .ok g') :
    AcceptedAs g c.owner.key "data_frames" name c g' := by
  obtain ⟨o, k, hr, hk, hcr⟩ := hg.wf.createFrame_created hfresh hres
  obtain ⟨o', hr', hci, ho, _, _, _⟩ := openCont_some hc
  have hoo : o' = o := by rw [hr] at hr'; exact (Option.some.inj hr').symm
  subst hoo
  have hpl : isPlainLike c.info.flavour = true := by
    have : containerInfo (okind g o'.key) "data_frames" = some { flavour := .plain, item := "data_frame" } := by
      rw [hg.wf.okind_of_kind (by rw [hk]; decide), hk]; rfl
    rw [this] at hci
    rw [← Option.some.inj hci]; rfl
  exact acceptedAs_of_created hg.wf hc hpl (by rw [ho]; exact hcr) hfresh hnew

/-- a second data frame under an existing name is refused with DuplicateName — the test looks into
`data_frames` (not into `data_arrays` or any other container of the block) -/
theorem duplicate_refused_frame (g : Graph) (p : Path) (o : Loc) (name type : String) (cf : Nat)
    (hr : resolve g rootLoc p = some o) (hk : kindOf g o.key = "block") (hlegal : checkNameType name type = .ok ())
    (hc : g.child? o.key "data_frames" = some cf) (hin : g.hasChild cf name = true) :
    createFrame g p name type = .error .duplicateName := by
  unfold createFrame
  simp [hr, hk, hlegal, hc, hin]

/-- **sections at any depth** (`File.create_section`, `Section.create_section`) -/
theorem legal_name_accepted_section {g g' : Graph} (hg : ReachableFreshX g) {p : Path} {name type : String}
    {c : Cont} (hn : name ≠ "") (hfresh : ∀ m, g.nextId ≤ m → name ≠ idStr m)
    (hc : openCont g p (if p = [] then "metadata" else "sections") = some c)
    (hnew : ∀ l ∈ contEntries g c, l.1 ≠ name)
    (hres : createSection g p name type = .ok g') :
    AcceptedAs g c.owner.key (if p = [] then "metadata" else "sections") name c g' := by
  obtain ⟨o, k, hr, hcr⟩ := hg.wf.createSection_created hfresh hn hres
  obtain ⟨o', hr', hci, ho, _, _, _⟩ := openCont_some hc
  have hoo : o' = o := by rw [hr] at hr'; exact (Option.some.inj hr').symm
  subst hoo
  have hpl : isPlainLike c.info.flavour = true := by
    by_cases hp : p = []
    · subst hp
      simp only [↓reduceIte] at hci
      have e : o' = rootLoc := by simpa [resolve] using hr.symm
      rw [e] at hci
      have : containerInfo (okind g rootLoc.key) "metadata" = some { flavour := .sections, item := "section" } := rfl
      rw [this] at hci; rw [← Option.some.inj hci]; rfl
    · simp only [hp, ↓reduceIte] at hci
      have hk : kindOf g o'.key = "section" := by
        cases p with
        | nil => exact absurd rfl hp
        | cons sg ps =>
          unfold createSection at hres
          simp only [hr] at hres
          by_cases hk : kindOf g o'.key = "section"
          · exact hk
          · have hk' : (kindOf g o'.key != "section") = true := by simpa using hk
            simp [hk'] at hres
      have : containerInfo (okind g o'.key) "sections" = some { flavour := .sections, item := "section" } := by
        rw [hg.wf.okind_of_kind (by rw [hk]; decide), hk]; rfl
      rw [this] at hci; rw [← Option.some.inj hci]; rfl
  exact acceptedAs_of_created hg.wf hc hpl (by rw [ho]; exact hcr) hfresh hnew

/-! ### … and the call itself succeeds

The acceptance theorems above take the success of the call as a hypothesis; here it is proved from what the property
text asks for: a legal name (non-empty, no slash), a type, and no entry of the function's OWN container under that
name (entities of other kinds of the same parent may carry it). -/

/-- `Block.create_group / create_data_array / create_tag / create_source`, `Source.create_source` at any depth: a
legal name that is free in the container is accepted — the call succeeds and the new entity is the last entry,
addressable by position, name, id and entity object (`AcceptedAs`) -/
theorem legal_name_accepted_in_full {g : Graph} (hg : ReachableFreshX g) {p : Path} {o : Loc}
    {what name type cname kind : String} {c : Cont}
    (hr : resolve g rootLoc p = some o) (hsp : createSpec (kindOf g o.key) what = some (cname, kind))
    (hmt : kind ≠ "multi_tag") (hn : name ≠ "") (hs : hasSlash name = false) (ht : type ≠ "")
    (hfresh : ∀ m, g.nextId ≤ m → name ≠ idStr m)
    (hc : openCont g p cname = some c) (hnew : ∀ l ∈ contEntries g c, l.1 ≠ name) :
    ∃ g', createIn g p what name type none = .ok g' ∧ AcceptedAs g o.key cname name c g' := by
  obtain ⟨o', hr', _, _, _, _, hnode⟩ := openCont_some hc
  have hoo : o' = o := by rw [hr] at hr'; exact (Option.some.inj hr').symm
  subst hoo
  have hnew' : ∀ l ∈ cLinks g (g.child? o'.key cname), l.1 ≠ name := by
    intro l hl; apply hnew; unfold contEntries; rw [hnode]; exact hl
  obtain ⟨g', hres⟩ := hg.wf.createIn_ok hr hsp hmt (checkNameType_of hn hs ht) hnew'
  refine ⟨g', hres, ?_⟩
  obtain ⟨o2, cname2, kind2, c2, hr2, hsp2, hc2, _, _, hacc⟩ := legal_name_accepted_in hg hfresh hres
  have e1 : o2 = o' := by rw [hr] at hr2; exact (Option.some.inj hr2).symm
  subst e1
  have e2 : cname2 = cname := by rw [hsp] at hsp2; exact (Prod.mk.inj (Option.some.inj hsp2)).1.symm
  subst e2
  have e3 : c2 = c := by rw [hc] at hc2; exact (Option.some.inj hc2).symm
  subst e3
  exact hacc

/-- `Block.create_multi_tag(name, type, positions=<an array of the block>)`: a legal name that no multi tag of the
block carries is accepted; the positions array is a member of the block's `data_arrays` by object (`inBlockStore`),
whatever handle presented it -/
theorem legal_name_accepted_multi_tag_full {g : Graph} (hg : ReachableFreshX g) {p : Path} {o : Loc}
    {name type : String} {pos : Nat} {c : Cont}
    (hr : resolve g rootLoc p = some o) (hk : kindOf g o.key = "block")
    (hn : name ≠ "") (hs : hasSlash name = false) (ht : type ≠ "")
    (hfresh : ∀ m, g.nextId ≤ m → name ≠ idStr m)
    (hc : openCont g p "multi_tags" = some c) (hnew : ∀ l ∈ contEntries g c, l.1 ≠ name)
    (hpk : isKind g pos "data_array" = true) (hps : inBlockStore g o.key "data_arrays" pos = true) :
    ∃ g', createIn g p "multi_tag" name type (some pos) = .ok g' ∧ AcceptedAs g o.key "multi_tags" name c g' := by
  obtain ⟨o', hr', _, _, _, _, hnode⟩ := openCont_some hc
  have hoo : o' = o := by rw [hr] at hr'; exact (Option.some.inj hr').symm
  subst hoo
  have hnew' : ∀ l ∈ cLinks g (g.child? o'.key "multi_tags"), l.1 ≠ name := by
    intro l hl; apply hnew; unfold contEntries; rw [hnode]; exact hl
  obtain ⟨g', hres⟩ := hg.wf.createIn_mtag_ok hr hk (checkNameType_of hn hs ht) hfresh hnew' hpk hps
  refine ⟨g', hres, ?_⟩
  obtain ⟨o2, cname2, kind2, c2, hr2, hsp2, hc2, _, _, hacc⟩ := legal_name_accepted_in hg hfresh hres
  have e1 : o2 = o' := by rw [hr] at hr2; exact (Option.some.inj hr2).symm
  subst e1
  have hsp : createSpec (kindOf g o2.key) "multi_tag" = some ("multi_tags", "multi_tag") := by rw [hk]; rfl
  have e2 : cname2 = "multi_tags" := by rw [hsp] at hsp2; exact (Prod.mk.inj (Option.some.inj hsp2)).1.symm
  subst e2
  have e3 : c2 = c := by rw [hc] at hc2; exact (Option.some.inj hc2).symm
  subst e3
  exact hacc

/-- `Block.create_data_frame`: a legal name that no data frame of the block carries is accepted (arrays, tags … of
that name do not matter) -/
theorem legal_name_accepted_frame_full {g : Graph} (hg : ReachableFreshX g) {p : Path} {o : Loc} {name type : String}
    {c : Cont} (hr : resolve g rootLoc p = some o) (hk : kindOf g o.key = "block")
    (hn : name ≠ "") (hs : hasSlash name = false) (ht : type ≠ "")
    (hfresh : ∀ m, g.nextId ≤ m → name ≠ idStr m)
    (hc : openCont g p "data_frames" = some c) (hnew : ∀ l ∈ contEntries g c, l.1 ≠ name) :
    ∃ g', createFrame g p name type = .ok g' ∧ AcceptedAs g c.owner.key "data_frames" name c g' := by
  obtain ⟨o', hr', _, _, _, _, hnode⟩ := openCont_some hc
  have hoo : o' = o := by rw [hr] at hr'; exact (Option.some.inj hr').symm
  subst hoo
  have hnew' : ∀ l ∈ cLinks g (g.child? o'.key "data_frames"), l.1 ≠ name := by
    intro l hl; apply hnew; unfold contEntries; rw [hnode]; exact hl
  obtain ⟨g', hres⟩ := createFrame_ok hr hk (checkNameType_of hn hs ht) hnew'
  exact ⟨g', hres, legal_name_accepted_frame hg hc hfresh hnew hres⟩

/-- `File.create_section` / `Section.create_section` at any depth: a legal name that no subsection of the same parent
carries is accepted. `File.create_section` tests `name in self.sections`, which tries ids first: for the top level
the name must not be the id of a top-level section (the documented clash, see the open finding) -/
theorem legal_name_accepted_section_full {g : Graph} (hg : ReachableFreshX g) {p : Path} {name type : String}
    {c : Cont} (hc : openCont g p (if p = [] then "metadata" else "sections") = some c)
    (hk : p ≠ [] → kindOf g c.owner.key = "section")
    (hn : name ≠ "") (hs : hasSlash name = false) (ht : type ≠ "")
    (hfresh : ∀ m, g.nextId ≤ m → name ≠ idStr m)
    (hnew : ∀ l ∈ contEntries g c, l.1 ≠ name)
    (hclash : p = [] → isUuid name = true → ∀ l ∈ contEntries g c, g.entityId l.2 ≠ some name) :
    ∃ g', createSection g p name type = .ok g' ∧
      AcceptedAs g c.owner.key (if p = [] then "metadata" else "sections") name c g' := by
  obtain ⟨g', hres⟩ := hg.wf.createSection_ok hc hk (checkNameType_of hn hs ht) hnew hclash
  exact ⟨g', hres, legal_name_accepted_section hg hn hfresh hc hnew hres⟩

/-- **properties** (`Section.create_property`, sections at any depth): an accepted call appends the property under its
name, with a fresh id, addressable by position, name, id and entity object; delete-by-name restores the list; no other
id changes -/
theorem legal_name_accepted_property {g g' : Graph} (hg : ReachableFreshX g) {p : Path} {name : String} {c : Cont}
    (hc : openCont g p "properties" = some c) (hfresh : ∀ m, g.nextId ≤ m → name ≠ idStr m)
    (hnew : ∀ l ∈ contEntries g c, l.1 ≠ name) (hres : createProperty g p name = .ok g') :
    AcceptedAs g c.owner.key "properties" name c g' := by
  obtain ⟨o, k, hr, hk, hcr⟩ := hg.wf.createProperty_created hfresh hres
  obtain ⟨o', hr', hci, ho, _, _, _⟩ := openCont_some hc
  have hoo : o' = o := by rw [hr] at hr'; exact (Option.some.inj hr').symm
  subst hoo
  have hpl : isPlainLike c.info.flavour = true := by
    have : containerInfo (okind g o'.key) "properties" = some { flavour := .plain, item := "property" } := by
      rw [hg.wf.okind_of_kind (by rw [hk]; decide), hk]; rfl
    rw [this] at hci
    rw [← Option.some.inj hci]; rfl
  exact acceptedAs_of_created hg.wf hc hpl (by rw [ho]; exact hcr) hfresh hnew

/-- … and the call succeeds for every legal name (non-empty, no slash) that no property of the section carries
(subsections of that name do not matter) -/
theorem legal_name_accepted_property_full {g : Graph} (hg : ReachableFreshX g) {p : Path} {o : Loc} {name : String}
    {c : Cont} (hr : resolve g rootLoc p = some o) (hk : kindOf g o.key = "section")
    (hn : name ≠ "") (hs : hasSlash name = false) (hfresh : ∀ m, g.nextId ≤ m → name ≠ idStr m)
    (hc : openCont g p "properties" = some c) (hnew : ∀ l ∈ contEntries g c, l.1 ≠ name) :
    ∃ g', createProperty g p name = .ok g' ∧ AcceptedAs g c.owner.key "properties" name c g' := by
  obtain ⟨o', hr', _, _, _, _, hnode⟩ := openCont_some hc
  have hoo : o' = o := by rw [hr] at hr'; exact (Option.some.inj hr').symm
  subst hoo
  have hnew' : ∀ l ∈ cLinks g (g.child? o'.key "properties"), l.1 ≠ name := by
    intro l hl; apply hnew; unfold contEntries; rw [hnode]; exact hl
  obtain ⟨g', hres⟩ := hg.wf.createProperty_ok hr hk hn hs hnew'
  exact ⟨g', hres, legal_name_accepted_property hg hc hfresh hnew hres⟩

/-- **the kinds of one parent do not see each other** — a successful create call in one container
(`create_data_frame`, any `create_*` of a block or source, `create_section`) leaves every other
container of the same parent as it was -/
theorem other_kinds_untouched_frame {g g' : Graph} (hg : ReachableFreshX g) {p : Path} {name type m : String}
    {info : CInfo} (hfresh : ∀ m, g.nextId ≤ m → name ≠ idStr m) (hres : createFrame g p name type = .ok g')
    (hm : m ≠ "data_frames") (hci : containerInfo "block" m = some info) :
    ∃ o, resolve g rootLoc p = some o ∧ cLinks g' (g'.child? o.key m) = cLinks g (g.child? o.key m) := by
  obtain ⟨o, k, hr, hk, hcr⟩ := hg.wf.createFrame_created hfresh hres
  refine ⟨o, hr, hcr.other_kinds_untouched (info := info) hg.wf hm ?_⟩
  rw [hg.wf.okind_of_kind (by rw [hk]; decide), hk]; exact hci

theorem other_kinds_untouched_in {g g' : Graph} (hg : ReachableFreshX g) {p : Path} {what name type m : String}
    {extra : Option Nat} {info : CInfo} (hfresh : ∀ m, g.nextId ≤ m → name ≠ idStr m)
    (hres : createIn g p what name type extra = .ok g') :
    ∃ o cname kind, resolve g rootLoc p = some o ∧ createSpec (kindOf g o.key) what = some (cname, kind) ∧
      (m ≠ cname → containerInfo (okind g o.key) m = some info →
        cLinks g' (g'.child? o.key m) = cLinks g (g.child? o.key m)) := by
  obtain ⟨o, k, cname, kind, hr, hsp, hcr⟩ := hg.wf.createIn_created hfresh hres
  exact ⟨o, cname, kind, hr, hsp, fun hm hci => hcr.other_kinds_untouched hg.wf hm hci⟩

/-- every create call keeps the invariant, so all view theorems apply to the state after it -/
theorem legal_name_accepted_partial {g : Graph} (hg : ReachableFreshX g) (op : OpX) (hf : OpX.Fresh g op) :
    ReachableFreshX (stepX g op) ∧ WF (stepX g op) := ⟨hg.step hf, (hg.step hf).wf⟩

/-! ### duplicate names are refused by every create function -/

/-- `File.create_section` -/
theorem duplicate_refused_section_root (g : Graph) (name type : String) (k : Nat)
    (hex : g.child? 0 "metadata" = some k) (hin : g.hasChild k name = true) :
    createSection g [] name type = .error .duplicateName := by
  have hbn : (getByName g (some k) name).isSome = true := by
    rw [hasChild_eq, child?_eq] at hin
    unfold getByName cLinks
    cases hf : (g.links k).find? (fun l => l.1 == name) <;> simp_all
  have : (getByIdOrName g (some k) name).isSome = true := by
    unfold getByIdOrName
    split
    · split
      · rfl
      · exact hbn
    · exact hbn
  simp [createSection, openCont, resolve, ownerKindOf, rootLoc, containerInfo, contHas, hex, this]

/-- `Section.create_section` -/
theorem duplicate_refused_section (g : Graph) (p : Path) (o : Loc) (name type : String) (hp : p ≠ [])
    (hr : resolve g rootLoc p = some o) (hk : kindOf g o.key = "section")
    (hlegal : checkNameType name type = .ok ())
    (hin : (g.ensureGroup o.key "sections").1.hasChild (g.ensureGroup o.key "sections").2 name = true) :
    createSection g p name type = .error .duplicateName := by
  cases p with
  | nil => exact absurd rfl hp
  | cons s ps =>
    simp only [createSection, hr, hk, bne_self_eq_false, Bool.false_eq_true, ↓reduceIte, hlegal]
    simp [hin]

/-- `Block.create_group / create_data_array / create_tag / create_multi_tag / create_source`,
`Source.create_source` -/
theorem duplicate_refused_in (g : Graph) (p : Path) (o : Loc) (what name type cname kind : String)
    (extra : Option Nat) (c : Nat)
    (hr : resolve g rootLoc p = some o) (hspec : createSpec (kindOf g o.key) what = some (cname, kind))
    (hlegal : checkNameType name type = .ok ())
    (hc : g.child? o.key cname = some c) (hin : g.hasChild c name = true) :
    createIn g p what name type extra = .error .duplicateName := by
  unfold createIn
  simp only [hr]
  change (match createSpec (kindOf g o.key) what with
      | none => Except.error Err.attributeError
      | some (cname, kind) => _) = _
  simp only [hspec, hlegal]
  have e0 : (if (kindOf g o.key == "source") = true then (g.ensureGroup o.key cname).1 else g) = g := by
    split
    · rw [ensureGroup_of_some hc]
    · rfl
  rw [e0]
  simp [hc, hin]

/-- `Section.create_property` -/
theorem duplicate_refused_property (g : Graph) (p : Path) (o : Loc) (name : String) (hn : name ≠ "")
    (hr : resolve g rootLoc p = some o) (hk : kindOf g o.key = "section")
    (hin : (g.ensureGroup o.key "properties").1.hasChild (g.ensureGroup o.key "properties").2 name = true) :
    createProperty g p name = .error .duplicateName := by
  unfold createProperty
  simp only [hr, hk, bne_self_eq_false, Bool.false_eq_true, ↓reduceIte]
  have hn' : (name != "") = true := by simpa using hn
  simp [hn', hin]

/-! ### the tie to the source: the shape of the create functions (`Generated/CreateShape.lean`,
regenerated from `block.py`, `section.py`, `source.py`, `file.py` on every run) -/

/-- model kind of a nixio class -/
def kindOfClass : String → String
  | "MultiTag" => "multi_tag" | "Tag" => "tag" | "Source" => "source" | "Group" => "group"
  | "DataArray" => "data_array" | "DataFrame" => "data_frame" | "Section" => "section" | "Block" => "block"
  | "File" => "file" | _ => ""

/-- every create function of a block, a section and a source raises DuplicateName on the membership
test of exactly the container it then creates into (names are unique per parent **and kind**) -/
theorem create_shape_tests_own_container :
    ∀ r ∈ Gen.createShape, r.1 ≠ "File" → r.2.2.1 = r.2.2.2.1 := by decide

/-- and that container is the model's container for the kind created (`containerInfo`): an owning
container whose items have the kind of the class handed to `create_new` -/
theorem create_shape_matches_model :
    ∀ r ∈ Gen.createShape, r.1 ≠ "File" →
      (containerInfo (kindOfClass r.1) r.2.2.2.1).map (fun i => (i.item, isPlainLike i.flavour)) =
        some (kindOfClass r.2.2.2.2, true) := by decide

/-- the functions covered: all six `Block.create_*`, `Section.create_section`, `Source.create_source`;
`File.create_block` tests and fills `self._data`, `File.create_section` tests `self.sections` (the
Container over `self._metadata`) and fills `self._metadata` — as `createBlock` / `createSection` -/
theorem create_shape_functions :
    Gen.createShape.map (fun r => (r.1, r.2.1)) =
      [("Block", "create_multi_tag"), ("Block", "create_tag"), ("Block", "create_source"), ("Block", "create_group"),
       ("Block", "create_data_array"), ("Block", "create_data_frame"), ("Section", "create_section"),
       ("Source", "create_source"), ("File", "create_block"), ("File", "create_section")] ∧
    Gen.createShape.filter (fun r => r.1 == "File") =
      [("File", "create_block", "self._data", "self._data", "Block"),
       ("File", "create_section", "self.sections", "self._metadata", "Section")] := by decide

/-! ### the tie to the source: the decision trees of the lookups (`Generated/ContShape.lean`, regenerated from
`container.py` and `hdf5/h5group.py` on every run: the tests and outcomes of `Container.__contains__`,
`LinkContainer.__contains__`, `Container.__getitem__`, `LinkContainer.__getitem__`, `H5Group.get_by_id_or_name` /
`get_by_name` / `get_by_id` / `__contains__` in the order of the code). Each atom has the meaning of its own Python expression (`Store/ContShape.lean`); the theorems say
that the code's decision trees compute the model's functions, for ALL graphs, containers and keys. -/

/-- `Container.__contains__` (owning containers; keys: entity objects of any provenance, names, ids) is `contHas`:
entity → class test → `name in backend` → HDF5 object identity; str → id first, then name -/
theorem contains_shape_plain (g : Graph) (c : Cont) (hpl : isPlainLike c.info.flavour = true) (key : Key)
    (hkey : ∀ i, key ≠ .pos i) :
    Gen.containerContains.evalHas g c key = some (contHas g c key) := containerContains_eq g c hpl key hkey

/-- `LinkContainer.__contains__` (link lists) is `contHas`: entity → class test → `id in backend`; str → link named by
the id, else scan by name attribute -/
theorem contains_shape_link (g : Graph) (c : Cont) (hfl : c.info.flavour = .link ∨ c.info.flavour = .sourceLink)
    (key : Key) (hkey : ∀ i, key ≠ .pos i) :
    Gen.linkContains.evalHas g c key = some (contHas g c key) := linkContains_eq g c hfl key hkey

/-- `Container.__getitem__` (keys: positions, names, ids) is `contGet` -/
theorem getitem_shape_plain (g : Graph) (c : Cont) (hpl : isPlainLike c.info.flavour = true) (key : Key)
    (hkey : ∀ k, key ≠ .ent k) :
    Gen.containerGetitem.evalGet g c key = some (contGet g c key) := containerGetitem_eq g c hpl key hkey

/-- `LinkContainer.__getitem__` is `contGet` -/
theorem getitem_shape_link (g : Graph) (c : Cont) (hfl : c.info.flavour = .link ∨ c.info.flavour = .sourceLink)
    (key : Key) (hkey : ∀ k, key ≠ .ent k) :
    Gen.linkGetitem.evalGet g c key = some (contGet g c key) := linkGetitem_eq g c hfl key hkey

/-- `H5Group.get_by_id_or_name` is `getByIdOrName`: the id is tried first, a name may look like an id -/
theorem h5_lookup_shape (g : Graph) (c : Cont) (x : String) :
    Gen.h5GetByIdOrName.evalLookup g c (.str x) = some (getByIdOrName g c.node x) := h5GetByIdOrName_eq g c x

/-- `H5Group.get_by_name`: the link of that name of the (existing) group, else KeyError — is `getByName` -/
theorem h5_get_by_name_shape (g : Graph) (c : Cont) (x : String) :
    Gen.h5GetByName.evalLookup g c (.str x) = some (getByName g c.node x) := h5GetByName_eq g c x

/-- `H5Group.get_by_id`: the first member in iteration order whose `entity_id` is the text, else KeyError — is
`getById` -/
theorem h5_get_by_id_shape (g : Graph) (c : Cont) (x : String) :
    Gen.h5GetById.evalLookup g c (.str x) = some (getById g c.node x) := h5GetById_eq g c x

/-- `H5Group.__contains__` -/
theorem h5_contains_shape (g : Graph) (c : Cont) (x : String) :
    Gen.h5Contains.evalHas g c (.str x) = some (.ok (getByName g c.node x).isSome) := h5Contains_eq g c x

/-- the backend atoms of the container trees (`item in self._backend`, "`self._backend.get_by_id(item)` does not
raise") mean what the code of `H5Group.__contains__` / `H5Group.get_by_id` computes -/
theorem backend_atoms_are_h5group (g : Graph) (c : Cont) (x : String) :
    Gen.h5Contains.evalHas g c (.str x) = some (.ok (testVal g c (.str x) .inBackend)) ∧
    (Gen.h5GetById.evalLookup g c (.str x)).map Option.isSome = some (testVal g c (.str x) .getByIdOk) := by
  rw [h5_contains_shape, h5_get_by_id_shape]
  exact ⟨rfl, rfl⟩

/-- so the generated tree of `Container.__contains__` itself answers, on every reachable graph and for the handle at
the end of ANY path, whether the node is an entry of the container -/
theorem contains_shape_by_handle {g : Graph} (hg : ReachableFreshX g) {p : Path} {cn : String} {c : Cont}
    (hc : openCont g p cn = some c) (hpl : isPlainLike c.info.flavour = true)
    {q : Path} {l : Loc} (_hq : resolve g rootLoc q = some l) (hk : kindOf g l.key = c.info.item) :
    Gen.containerContains.evalHas g c (.ent l.key) = some (.ok (holds g c l.key)) := by
  rw [contains_shape_plain g c hpl _ (by intro i e; cases e), membership_by_entity hg hc hpl _ hk]

/-! Non-vacuity: a concrete reachable state with two blocks, looked up in every way. -/
def demo : Graph := run init [.createBlock "b" "t", .createBlock "0f0f0f0f0f0f0f0f0f0f0f0f0f0f0f0f" "t"]

example : (openCont demo [] "data").map (fun c => (contEntries demo c).map (·.1)) =
    some ["b", "0f0f0f0f0f0f0f0f0f0f0f0f0f0f0f0f"] := by decide +kernel
example : (openCont demo [] "data").map (fun c => (contGet demo c (.str "0f0f0f0f0f0f0f0f0f0f0f0f0f0f0f0f")).toOption.map (·.1)) =
    some (some "0f0f0f0f0f0f0f0f0f0f0f0f0f0f0f0f") := by decide +kernel
example : (match createBlock demo "b" "t" with | .error .duplicateName => true | _ => false) = true := by
  decide +kernel

/-- the demo state is reachable by a history that respects id freshness, so every theorem above
applies to it (the hypotheses are satisfiable) -/
theorem demo_reachable : ReachableFreshX demo :=
  ReachableFresh.toX ⟨[.createBlock "b" "t", .createBlock "0f0f0f0f0f0f0f0f0f0f0f0f0f0f0f0f" "t"],
    ⟨fun n hn m _ => by cases hn; exact notId_of_head (by decide) m,
     fun n hn m _ => by cases hn; exact notId_of_head (by decide) m, trivial⟩, rfl⟩

/-- names are unique per kind: a block with a data frame `x`, a data array `x` and a tag `x` -/
def demoX : Graph := runX init [.base (.createBlock "b" "t"), .createFrame [.name "data", .name "b"] "x" "t",
  .base (.createIn [.name "data", .name "b"] "data_array" "x" "t" none),
  .base (.createIn [.name "data", .name "b"] "tag" "x" "t" none)]

theorem demoX_reachable : ReachableFreshX demoX :=
  ⟨[.base (.createBlock "b" "t"), .createFrame [.name "data", .name "b"] "x" "t",
    .base (.createIn [.name "data", .name "b"] "data_array" "x" "t" none),
    .base (.createIn [.name "data", .name "b"] "tag" "x" "t" none)],
   ⟨fun n hn m _ => by cases hn; exact notId_of_head (by decide) m,
       fun n hn m _ => by cases hn; exact notId_of_head (by decide) m,
       fun n hn m _ => by cases hn; exact notId_of_head (by decide) m,
       fun n hn m _ => by cases hn; exact notId_of_head (by decide) m, trivial⟩, rfl⟩

example : ((openCont demoX [.name "data", .name "b"] "data_frames").map fun c => (contEntries demoX c).map (·.1),
           (openCont demoX [.name "data", .name "b"] "data_arrays").map fun c => (contEntries demoX c).map (·.1),
           (openCont demoX [.name "data", .name "b"] "tags").map fun c => (contEntries demoX c).map (·.1)) =
    (some ["x"], some ["x"], some ["x"]) := by decide +kernel
example : (match createFrame demoX [.name "data", .name "b"] "x" "t" with | .error .duplicateName => true | _ => false)
    = true := by decide +kernel
example : (match createFrame demoX [.name "data", .name "b"] "y" "t" with | .ok _ => true | _ => false) = true := by
  decide +kernel

/-- an array reached through three paths: the block's container, the group's link list, the multi tag's positions -/
def demoLOps : List Op := [.createBlock "b" "t", .createBlock "c" "t",
  .createIn [.name "data", .name "b"] "data_array" "x" "t" none,
  .createIn [.name "data", .name "c"] "data_array" "x" "t" none,
  .createIn [.name "data", .name "b"] "group" "g" "t" none,
  .createIn [.name "data", .name "b"] "multi_tag" "m" "t" (some [.name "data", .name "b", .name "data_arrays", .name "x"]),
  .append [.name "data", .name "b", .name "groups", .name "g"] "data_arrays"
    (.obj [.name "data", .name "b", .name "multi_tags", .name "m", .name "positions"])]

def demoL : Graph := run init demoLOps

theorem demoL_reachable : ReachableFreshX demoL :=
  ReachableFresh.toX ⟨demoLOps, ⟨fun n hn m _ => by cases hn; exact notId_of_head (by decide) m,
    fun n hn m _ => by cases hn; exact notId_of_head (by decide) m,
    fun n hn m _ => by cases hn; exact notId_of_head (by decide) m,
    fun n hn m _ => by cases hn; exact notId_of_head (by decide) m,
    fun n hn m _ => by cases hn; exact notId_of_head (by decide) m,
    fun n hn m _ => by cases hn; exact notId_of_head (by decide) m,
    (fun n hn => by cases hn), trivial⟩, rfl⟩

/-- the three paths lead to one node; it is a member of `b.data_arrays` and of the link list, not of `c.data_arrays`
(which holds another array `x`) -/
example : ((resolve demoL rootLoc [.name "data", .name "b", .name "groups", .name "g", .name "data_arrays", .idx 0]).map (·.key),
           (resolve demoL rootLoc [.name "data", .name "b", .name "multi_tags", .name "m", .name "positions"]).map (·.key)) =
    ((resolve demoL rootLoc [.name "data", .name "b", .name "data_arrays", .name "x"]).map (·.key),
     (resolve demoL rootLoc [.name "data", .name "b", .name "data_arrays", .name "x"]).map (·.key)) := by decide +kernel
example : ((resolve demoL rootLoc [.name "data", .name "b", .name "groups", .name "g", .name "data_arrays", .idx 0]).bind fun l =>
      (openCont demoL [.name "data", .name "b"] "data_arrays").map fun c => (contHas demoL c (.ent l.key)).toOption) =
    some (some true) := by decide +kernel
example : ((resolve demoL rootLoc [.name "data", .name "b", .name "groups", .name "g", .name "data_arrays", .idx 0]).bind fun l =>
      (openCont demoL [.name "data", .name "c"] "data_arrays").map fun c => (contHas demoL c (.ent l.key)).toOption) =
    some (some false) := by decide +kernel
example : ((resolve demoL rootLoc [.name "data", .name "b", .name "multi_tags", .name "m", .name "positions"]).bind fun l =>
      (openCont demoL [.name "data", .name "b", .name "groups", .name "g"] "data_arrays").map fun c =>
        (contHas demoL c (.ent l.key)).toOption) = some (some true) := by decide +kernel

example : ((resolve demoL rootLoc [.name "data", .name "b", .name "groups", .name "g", .name "data_arrays", .idx 0]).bind fun l =>
      (openCont demoL [.name "data", .name "b"] "data_arrays").bind fun c =>
        (Gen.containerContains.evalHas demoL c (.ent l.key)).map (·.toOption)) = some (some true) := by decide +kernel
example : ((openCont demo [] "data").bind fun c =>
      (Gen.containerGetitem.evalGet demo c (.str "0f0f0f0f0f0f0f0f0f0f0f0f0f0f0f0f")).map fun r => r.toOption.map (·.1)) =
    some (some "0f0f0f0f0f0f0f0f0f0f0f0f0f0f0f0f") := by decide +kernel

example : ∃ c, openCont demoL [.name "data", .name "b", .name "groups", .name "g"] "data_arrays" = some c ∧
    c.info.flavour = .link ∧ contLen demoL c = 1 := by decide +kernel

example : WF demo := reachable_wf demo_reachable
example : ∃ c, openCont demo [] "data" = some c ∧ hasSlash "new" = false ∧
    (∀ l ∈ contEntries demo c, l.1 ≠ "new") := by decide +kernel
example : ∃ c, openCont demo [] "data" = some c ∧ isPlainLike c.info.flavour = true ∧ contLen demo c = 2 ∧
    c.info.flavour = .plain := by decide +kernel

end Nix.C03
