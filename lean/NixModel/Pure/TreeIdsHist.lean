import NixModel.Pure.TreeIds

/-!
# Histories whose sections may carry ids supplied by the caller  (property C13)

The operations of `Pure/Tree.lean` plus `create_section(name, type, oid=…)`.  The state keeps, beside the forest, the
id text `Section.create_new` stored for every supplied id (`storedId`, as extracted); every other entity has a
library-made id.  The driver of C13 runs `stepT`.
-/

namespace Nix.Tree.Ids
open Nix.Tree

inductive OpT where
  /-- an operation that supplies no id -/
  | plain (op : Op)
  /-- `parent.create_section(name, type, oid)` (`parent = none`: `File.create_section`) -/
  | createSectionOid (parent : Option Nat) (name type oid : String)
  deriving Repr

/-- the operation on the forest (what happens to the id text aside) -/
def OpT.toOp : OpT → Op
  | .plain op => op
  | .createSectionOid p n t _ => .createSection p n t

structure StT where
  f : File := {}
  /-- key ↦ the id text stored for the id the caller supplied -/
  given : List (Nat × String) := []

/-- one operation; as `step`, the `Nat` is the key of the created entity.  A supplied id is stored (as
`Section.create_new` does, `storedId`) only when the section is created. -/
def stepT (sh : IdLookup) (s : StT) : OpT → Except Err (StT × Option Nat)
  | .plain op => (step s.f op).map fun r => ({ s with f := r.1 }, r.2)
  | .createSectionOid p n t oid =>
    match step s.f (.createSection p n t) with
    | .ok (f', r) =>
      match storedId sh oid with
      | some tx => .ok ({ f := f', given := (s.f.next, tx) :: s.given }, r)
      | none => .ok ({ s with f := f' }, r)
    | .error e => .error e

/-- a refused operation leaves the state alone -/
def applyT (sh : IdLookup) (s : StT) (op : OpT) : StT :=
  match stepT sh s op with
  | .ok (s', _) => s'
  | .error _ => s

def runT (sh : IdLookup) (s : StT) (ops : List OpT) : StT := ops.foldl (applyT sh) s

/-- the id texts a history asks to store, in order (also those of refused calls) -/
def suppliedTexts (sh : IdLookup) : List OpT → List String
  | [] => []
  | .plain _ :: ops => suppliedTexts sh ops
  | .createSectionOid _ _ _ oid :: ops =>
    match storedId sh oid with
    | some tx => tx :: suppliedTexts sh ops
    | none => suppliedTexts sh ops

end Nix.Tree.Ids
