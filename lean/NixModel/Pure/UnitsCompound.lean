import NixModel.Pure.Units
import NixModel.Generated.UnitsCompound

/-!
# Model of `invert_power` and `split_compound` (`nixio/util/units.py`)

Follows the code after the `fix:` commits that made `invert_power` negate an explicit positive power
(`s^2` ↦ `s^-2`, `s^+2` ↦ `s^-2`; it used to return `s^^-2`) and gave the atom pattern of
`split_compound` the separator lookahead `(?= *(\*|/|$))` (without it the first alternative that matches a
head of the text wins: `mol*s` ↦ `m`, `l`, `s`).  The branch table of `invert_power`, the lookahead flag, the
clean-up of the remainder and the inverting separator come from `Generated/UnitsCompound.lean`.
(`Nix.Units.invertPower` / `splitCompound` in `Pure/Units.lean` describe the code before these commits and
are no longer used by the C09 driver.)
-/
namespace Nix.Units.Compound
open Nix.Units Nix.Units.Gen

/-- the `if power[0] == c … elif … else` chain of `invert_power` on a non-empty power text -/
def invertPowerText (w : Str) : Str :=
  match w with
  | [] => []
  | c :: _ =>
    match invertBranches.find? (fun b => b.1 == c) with
    | some b => b.2.1 ++ w.drop b.2.2
    | none => invertElse.1 ++ w.drop invertElse.2

/-- `invert_power(unit)` -/
def invertPower (u : Str) : Str :=
  let (p, b, w) := split u
  if w.isEmpty then p ++ b ++ invertNoPower
  else p ++ b ++ invertJoin ++ invertPowerText w

/-- the lookahead `(?= *(\*|/|$))` on what a match leaves -/
def sepAhead (r : Str) : Bool :=
  let r' := r.dropWhile (· == ' ')
  atEnd r' || (match r' with
    | '*' :: _ => true
    | '/' :: _ => true
    | _ => false)

/-- `opt_pup.match(s)`: first way of matching the atom pattern (that is followed by a separator or the end) -/
def matchAtom (s : Str) : Option M :=
  let ms := matchPieces compoundSplitShape.pieces { rest := s }
  let ms := if compoundSplitShape.endAnchor then ms.filter (fun m => atEnd m.rest) else ms
  (if compoundSplitLookahead then ms.filter (fun m => sepAhead m.rest) else ms).head?

/-- `split_compound`: `none` models the AttributeError / IndexError raised on text that is not a
`*`/`/`-separated sequence of atoms -/
def splitCompoundLoop : Nat → Str → Char → List Str → Option (List Str)
  | 0, _, _, _ => none
  | fuel + 1, s, sep, acc =>
    match matchAtom s with
    | none => none
    | some m =>
      let unit := if sep == compoundInvertSep then invertPower m.matched else m.matched
      if m.rest.isEmpty then some (acc ++ [unit])
      else
        let suffix := replace compoundSplitReplace.1 compoundSplitReplace.2 m.rest
        match suffix with
        | [] => none      -- `suffix[0]` IndexError: only blanks followed the atom
        | sp :: tl => splitCompoundLoop fuel tl sp (acc ++ [unit])

def splitCompound (s : Str) : Option (List Str) := splitCompoundLoop (s.length + 1) s ' ' []

/-- `scalable(units_a, units_b)` on two lists of unit strings: same length and pairwise scalable -/
def scalableList (as bs : List Str) : Bool :=
  if as.length != bs.length then false
  else (as.zip bs).all fun ab => scalable ab.1 ab.2

end Nix.Units.Compound
