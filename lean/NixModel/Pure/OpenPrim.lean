import NixModel.Pure.Flush

/-!
# C17 — vocabulary of the open path of `nixio.File` (file.py: `FileMode`, `map_file_mode`, `make_fapl`,
`File.__init__`)

The translator `harness/extract/flushopen.py` renders, into `NixModel/Generated/OpenShape.lean`,
the mode → access-flag map, the calls `make_fapl()` makes on the file-access property list, and the decision
table of `File.__init__` (obtained by running its statements symbolically for every state of the path and
every mode) in this vocabulary.
-/
namespace Nix.Flush

/-- HDF5 library version bounds (`h5py.h5f.LIBVER_*`); `latest` is the newest the library knows -/
inductive Libver where
  | earliest | v18 | v110 | v112 | v114 | v200 | latest
  deriving DecidableEq, Repr

def Libver.rank : Libver → Nat
  | .earliest => 0 | .v18 => 1 | .v110 => 2 | .v112 => 3 | .v114 => 4 | .v200 => 5 | .latest => 5

/-- one call on the file-access property list inside `make_fapl()` -/
inductive FaplCall where
  /-- `fapl.set_libver_bounds(low, high)` -/
  | libver (low high : Libver)
  /-- any other setter (driver, close degree, caches …): not modelled -/
  | other (name : String)
  deriving DecidableEq, Repr

/-- `h5py.h5f.ACC_RDONLY`, `ACC_RDWR`, `ACC_TRUNC` -/
inductive Flags where
  | rdonly | rdwr | trunc
  deriving DecidableEq, Repr

/-- what `os.path.exists / isfile / getsize` say about the path handed to `File.__init__` -/
inductive PathState where
  /-- nothing there -/
  | missing
  /-- a file of zero bytes -/
  | empty
  /-- a file with content -/
  | file
  deriving DecidableEq, Repr

/-- what `File.__init__` does with the path -/
inductive OpenAct where
  /-- `h5py.h5f.create(path, flags, make_fapl(), make_fcpl())`; `selfMode` is left in `self.mode` -/
  | create (flags : Flags) (selfMode : Mode)
  /-- `h5py.h5f.open(path, flags, make_fapl())` -/
  | openExisting (flags : Flags) (selfMode : Mode)
  /-- `raise RuntimeError("Cannot open non-existent file in ReadOnly mode!")` -/
  | refuseRuntime
  /-- `raise InvalidFile` (a zero-byte file is refused before libhdf5 touches it) -/
  | refuseInvalidFile
  deriving DecidableEq, Repr

end Nix.Flush
