import NixModel.Basic

/-!
# Vector-valued attributes: the order of conversion, resize and write   (C12)

`Tag.position`, `Tag.extent`, `DataArray.polynom_coefficients` (through `H5Group.write_data`) and
`Property.values` store a one-dimensional vector in an HDF5 dataset.  Whether a refused assignment leaves
the stored vector alone depends on the *order* of three things — conversion of the offered value by NumPy
(which may refuse), resize / creation of the dataset, the HDF5 write (which may refuse as well) — and on the
*spelling* of the value (a list is converted before anything else; an ndarray can be handed on as it is).

The functions are step lists (`Generated/WriteOrder.lean`, rendered from the source in statement order) run
by the small machine below.  Elements are abstract: what matters of a value offered for storage is whether
the type check accepts it, whether NumPy converts it to the dataset's element type, and whether h5py can
write it unconverted.
-/
namespace Nix.VecWrite

/-- one element of the offered value -/
structure Elem where
  val : Rat            -- the number it stands for, once converted
  typeOk : Bool        -- `Property._check_new_value_types` accepts it
  convOk : Bool        -- NumPy converts it to the element type of the dataset
  h5Ok : Bool          -- h5py writes it *unconverted* (e.g. an int64 array into a float64 dataset)
  deriving DecidableEq, Repr, Inhabited

/-- the spelling of the offered value -/
inductive Arg where
  | none
  | scalar (e : Elem)                              -- no `__getitem__`: a number, `object()`
  | seq (isArray : Bool) (es : List Elem)          -- list / tuple (`isArray = false`) or rank-1 ndarray
  | unsized (e : Elem)                             -- 0-d ndarray: subscriptable, `len()` raises TypeError
  | nested (isArray : Bool) (rank : Nat) (es : List Elem)   -- rank ≥ 2 (flattened elements)
  deriving DecidableEq, Repr, Inhabited

inductive DT where | double | string
  deriving DecidableEq, Repr, Inhabited

inductive Guard where
  | dtypeGiven         -- `dtype is not None`
  | dtypeFloat         -- `np.dtype(dtype).kind == "f"`
  | notNdarray         -- `not isinstance(data, np.ndarray)`
  | isListOrTuple      -- `isinstance(data, (list, tuple))`
  deriving DecidableEq, Repr, Inhabited

inductive Step where
  | wrapScalar
  | checkTypes
  | checkFlat
  | checkFlatNonEmpty
  | checkOrder
  | removeLink
  | checkText
  | convertIf (gs : List Guard)
  | takeShape
  | resizeOrCreate
  | write
  | callWriteData (dt : Option DT)
  | deleteIfPresent
  | deleteValues
  | touch
  deriving DecidableEq, Repr, Inhabited

/-- the test for "no value": `x is None or len(x) == 0` (`len` of a number or of a 0-d array raises), or
`x is None or (isinstance(x, (Sequence, Iterable)) and not len(x))` (a number is simply not empty) -/
inductive EmptyTest where | lenZero | iterableAndNotLen
  deriving DecidableEq, Repr, Inhabited

/-- a setter: `pre; if <value is None or empty> then whenEmpty else otherwise; post` -/
structure Setter where
  emptyTest : EmptyTest
  pre : List Step
  whenEmpty : List Step
  otherwise : List Step
  post : List Step
  deriving DecidableEq, Repr, Inhabited

/-- a stored dataset: rank and (flattened) values -/
structure Dataset where
  rank : Nat
  vals : List Rat
  deriving DecidableEq, Repr, Inhabited

/-- what the file holds of the attribute: the dataset, if any, and the entity's `updated_at` -/
structure File where
  ds : Option Dataset
  stamp : Nat
  link : Bool := false        -- a RangeDimension's link to a data object (replaces its ticks)
  deriving DecidableEq, Repr, Inhabited

/-- the machine: the Python variable holding the value, whether NumPy has converted it, the shape taken by
`np.shape`, the dtype parameter, the clock, the file -/
structure M where
  x : Arg
  converted : Bool := false
  shape : Option (Nat × Nat) := none          -- (rank, number of elements)
  dt : Option DT := none
  now : Nat := 0
  file : File
  deriving DecidableEq, Repr, Inhabited

def Arg.elems : Arg → List Elem
  | .none => []
  | .scalar e => [e]
  | .seq _ es => es
  | .unsized e => [e]
  | .nested _ _ es => es

def Arg.isArray : Arg → Bool
  | .seq a _ => a
  | .unsized _ => true
  | .nested a _ _ => a
  | _ => false

def Arg.rank : Arg → Nat
  | .none => 0
  | .scalar _ => 0
  | .seq _ _ => 1
  | .unsized _ => 0
  | .nested _ r _ => r

/-- `np.any(np.diff(v) < 0)` on a one-dimensional vector -/
def descends : List Rat → Bool
  | a :: b :: r => decide (b < a) || descends (b :: r)
  | _ => false

def guardHolds (m : M) : Guard → Bool
  | .dtypeGiven => m.dt.isSome
  | .dtypeFloat => m.dt == some .double
  | .notNdarray => !m.x.isArray
  | .isListOrTuple => match m.x with
    | .seq false _ => true
    | .nested false _ _ => true
    | _ => false

/-- `dataset.resize(shape)` on a one-dimensional dataset: truncation or zero padding -/
def resizeVals (vs : List Rat) (n : Nat) : List Rat :=
  vs.take n ++ List.replicate (n - vs.length) 0

/-- one statement. `none` = no error. An error leaves the machine as the statement found it, except for
`.write`, which is reached after the dataset has been resized or created. -/
def step (m : M) : Step → M × Option Nix.Err
  | .wrapScalar =>
    match m.x with
    | .scalar e => ({ m with x := .seq false [e] }, none)
    | _ => (m, none)
  | .checkTypes =>
    if m.x.elems.all (·.typeOk) then (m, none) else (m, some .typeError)
  | .checkFlat =>
    if m.x.rank == 1 then (m, none) else (m, some .valueError)   -- `if np.ndim(x) != 1: raise ValueError`
  | .checkFlatNonEmpty =>        -- `if x is not None and len(x) != 0 and np.ndim(x) != 1: raise ValueError`
    match m.x with
    | .none => (m, none)
    | .scalar _ => (m, some .typeError)          -- `len(5)`
    | .unsized _ => (m, some .typeError)         -- `len()` of a 0-d array
    | .seq _ _ => (m, none)
    | .nested _ _ es => if es.isEmpty then (m, none) else (m, some .valueError)
  | .checkOrder =>               -- `if np.any(np.diff(x) < 0): raise ValueError`; `np.diff` of a 0-d array raises too
    -- (for an n-d value NumPy takes the differences along the last axis; the flattened test used here agrees with it
    --  on the values the correspondence offers, and the step never touches the file)
    if m.x.rank == 0 then (m, some .valueError)
    else if descends (m.x.elems.map (·.val)) then (m, some .valueError) else (m, none)
  | .checkText =>                -- the `elif` of the float conversion in `write_data`: text with an embedded NUL
    -- (`typeOk` of an element offered as text: a `str` h5py can store; anything that is not a `str` passes this test)
    if m.dt == some .string && !m.converted && !(m.x.elems.all (·.typeOk)) then (m, some .valueError) else (m, none)
  | .removeLink => ({ m with file := { m.file with link := false } }, none)   -- `if self.has_link: self.remove_link()`
  | .convertIf gs =>
    if gs.all (guardHolds m) then
      if m.x.elems.all (·.convOk) then ({ m with converted := true }, none) else (m, some .valueError)
    else (m, none)
  | .takeShape => ({ m with shape := some (m.x.rank, m.x.elems.length) }, none)
  | .resizeOrCreate =>
    match m.shape with
    | none => (m, some .runtimeError)            -- `shape` unbound: a NameError of the Python function
    | some (r, n) =>
      match m.file.ds with
      | some d =>
        if d.rank != r then (m, some .typeError)   -- h5py refuses a resize to another rank, nothing changes
        else ({ m with file := { m.file with ds := some { rank := r, vals := resizeVals d.vals n } } }, none)
      | none => ({ m with file := { m.file with ds := some { rank := r, vals := List.replicate n 0 } } }, none)
  | .write =>
    match m.file.ds with
    | none => (m, some .keyError)
    | some d =>
      if m.converted || m.x.elems.all (·.h5Ok) then
        ({ m with file := { m.file with ds := some { d with vals := m.x.elems.map (·.val) } } }, none)
      else (m, some .typeError)
  | .callWriteData _ => (m, none)                 -- expanded by `run` (see `runWith`)
  | .deleteIfPresent => ({ m with file := { m.file with ds := none } }, none)
  | .deleteValues =>
    match m.file.ds with
    | some d => ({ m with file := { ds := some { d with vals := [] }, stamp := m.now } }, none)
    | none => (m, some .keyError)
  | .touch => ({ m with file := { m.file with stamp := m.now } }, none)

/-- run a step list; `.callWriteData dt` runs the body `wd` of `H5Group.write_data` with that dtype.
Stops at the first error and returns the machine reached. -/
def runWith (wd : List Step) : List Step → M → M × Option Nix.Err
  | [], m => (m, none)
  | .callWriteData dt :: rest, m =>
    match runFlat wd { m with dt := dt, converted := false, shape := none } with
    | (m', some e) => (m', some e)
    | (m', none) => runWith wd rest m'
  | s :: rest, m =>
    match step m s with
    | (m', some e) => (m', some e)
    | (m', none) => runWith wd rest m'
where
  runFlat : List Step → M → M × Option Nix.Err
    | [], m => (m, none)
    | s :: rest, m =>
      match step m s with
      | (m', some e) => (m', some e)
      | (m', none) => runFlat rest m'

/-- the test for "no value": `some true` empty, `some false` not empty, `none`: `len()` raises -/
def isEmpty? (t : EmptyTest) : Arg → Option Bool
  | .none => some true
  | .scalar _ => match t with
    | .lenZero => none                -- `len(5)`: TypeError
    | .iterableAndNotLen => some false
  | .seq _ es => some es.isEmpty
  | .unsized _ => none                -- `len(np.array(1.0))`: TypeError
  | .nested _ _ es => some es.isEmpty

/-- a setter call on a file: the file reached and the error, if refused -/
def runSetter (wd : List Step) (s : Setter) (f : File) (now : Nat) (x : Arg) : File × Option Nix.Err :=
  match runWith wd s.pre { x := x, now := now, file := f } with
  | (m, some e) => (m.file, some e)
  | (m, none) =>
    match isEmpty? s.emptyTest m.x with
    | none => (m.file, some .typeError)
    | some b =>
      match runWith wd (if b then s.whenEmpty else s.otherwise) m with
      | (m', some e) => (m'.file, some e)
      | (m', none) =>
        match runWith wd s.post m' with
        | (m'', e) => (m''.file, e)

end Nix.VecWrite
