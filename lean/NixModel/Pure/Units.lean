import NixModel.Basic
import NixModel.Generated.UnitsTables

/-!
# Model of `nixio/util/units.py`

Strings are `List Char` (kernel evaluation over `List Char` is several times faster than
over `String`). Python's backtracking `re` engine is modelled for exactly the regular
expressions `units.py` assembles: a matcher is a function returning *all* ways of matching a
prefix of the input, in the engine's priority order (`(captures, matched, rest)`); `re.match`
is the head of that list, `$` filters on the rest, `re.search` tries every start offset in
order.  The tables (`prefixes`, `units`, `prefixExp`) and the shape of every regular expression
(`atomicShape`, `pupShape`, …) come from `Generated/UnitsTables.lean`, which is regenerated from
the Python source on every run.
-/
namespace Nix.Units
open Nix.Units.Gen

abbrev Str := List Char

/-- one way of matching: captured groups (prefix, unit, power — `none` if the group did not
participate), the text consumed, and what is left -/
structure M where
  pre : Option Str := none
  unit : Option Str := none
  pow : Option Str := none
  matched : Str := []
  rest : Str
  deriving DecidableEq, Repr

/-- ordered alternation of literals `(a|b|c)` -/
def altM (alts : List Str) (s : Str) : List (Str × Str) :=
  alts.filterMap fun a => if a.isPrefixOf s then some (a, s.drop a.length) else none

def isDigit (c : Char) : Bool := decide ('0' ≤ c) && decide (c ≤ '9')
def isDigit19 (c : Char) : Bool := decide ('1' ≤ c) && decide (c ≤ '9')

/-- `\d*`, greedy: longest first -/
def digitsGreedy : Str → List (Str × Str)
  | [] => [([], [])]
  | c :: cs =>
    if isDigit c then (digitsGreedy cs).map (fun mr => (c :: mr.1, mr.2)) ++ [([], c :: cs)]
    else [([], c :: cs)]

/-- `(\^[+-]?[1-9]\d*)` -/
def powerM (s : Str) : List (Str × Str) :=
  match s with
  | '^' :: t =>
    let afterSign : List (Str × Str) :=
      match t with
      | '+' :: u => [(['+'], u), ([], t)]
      | '-' :: u => [(['-'], u), ([], t)]
      | _ => [([], t)]
    afterSign.flatMap fun su =>
      match su.2 with
      | d :: v =>
        if isDigit19 d then (digitsGreedy v).map fun mr => ('^' :: su.1 ++ d :: mr.1, mr.2)
        else []
      | [] => []
  | _ => []

/-- match one piece of a shape, continuing from a partial match -/
def stepPiece (p : Piece) (m : M) : List M :=
  match p with
  | .pre => (altM prefixes m.rest).map fun ar =>
      { m with pre := some ar.1, matched := m.matched ++ ar.1, rest := ar.2 }
  | .unit => (altM units m.rest).map fun ar =>
      { m with unit := some ar.1, matched := m.matched ++ ar.1, rest := ar.2 }
  | .pow => (powerM m.rest).map fun ar =>
      { m with pow := some ar.1, matched := m.matched ++ ar.1, rest := ar.2 }
  | .optPre => ((altM prefixes m.rest).map fun ar =>
      { m with pre := some ar.1, matched := m.matched ++ ar.1, rest := ar.2 }) ++ [m]
  | .optPow => ((powerM m.rest).map fun ar =>
      { m with pow := some ar.1, matched := m.matched ++ ar.1, rest := ar.2 }) ++ [m]

def matchPieces : List Piece → M → List M
  | [], m => [m]
  | p :: ps, m => (stepPiece p m).flatMap (matchPieces ps)

/-- Python's `$` (no MULTILINE): at the end, or just before a final newline -/
def atEnd (r : Str) : Bool := r == [] || r == ['\n']

/-- `re.compile(shape).match(s)` -/
def reMatch (sh : Shape) (s : Str) : Option M :=
  let ms := matchPieces sh.pieces { rest := s }
  (if sh.endAnchor then ms.filter (fun m => atEnd m.rest) else ms).head?

/-! ## is_atomic / is_compound / is_si -/

def isAtomic (s : Str) : Bool := (reMatch atomicShape s).isSome

/-- all matches of `({atomic}(\*|/))+{atomic}` starting at the head of `s`; `fuel` bounds the
number of iterations of the group (each consumes at least two characters) -/
def sepM (s : Str) : List (Str × Str) :=
  match s with
  | '*' :: t => [(['*'], t)]
  | '/' :: t => [(['/'], t)]
  | _ => []

def atomThenSep (s : Str) : List Str :=
  (matchPieces compoundAtomShape.pieces { rest := s }).flatMap fun m =>
    (sepM m.rest).map fun sr => sr.2

/-- rests after one or more `(atomic sep)` groups, greedy (more iterations first) -/
def plusGroups : Nat → Str → List Str
  | 0, _ => []
  | fuel + 1, s =>
    (atomThenSep s).flatMap fun r => plusGroups fuel r ++ [r]

def compoundAt (s : Str) : Bool :=
  (plusGroups s.length s).any fun r =>
    !(matchPieces compoundAtomShape.pieces { rest := r }).isEmpty

def tails : Str → List Str
  | [] => [[]]
  | c :: cs => (c :: cs) :: tails cs

/-- `unit and compound_unit.search(unit)` (truthiness) -/
def isCompound (s : Str) : Bool :=
  !s.isEmpty && (if compoundUsesSearch then (tails s).any compoundAt else compoundAt s)

/-- `unit and (is_atomic(unit) or is_compound(unit))` (truthiness) -/
def isSi (s : Str) : Bool := !s.isEmpty && (isAtomic s || isCompound s)

/-! ## split -/

def optStr : Option Str → Str
  | some s => s
  | none => []

/-- `split(combined_unit)`: the cascade pup → unit+power → prefix+unit → fallback -/
def split (s : Str) : Str × Str × Str :=
  match reMatch pupShape s with
  | some m => (optStr m.pre, optStr m.unit, (optStr m.pow).drop 1)
  | none =>
  match reMatch unitPowShape s with
  | some m => ([], optStr m.unit, (optStr m.pow).drop 1)
  | none =>
  match reMatch preUnitShape s with
  | some m => (optStr m.pre, optStr m.unit, [])
  | none => ([], s, [])

/-! ## scalable / scaling -/

def scalable (a b : Str) : Bool :=
  if !(isSi a && isSi b) then false
  else
    let sa := split a
    let sb := split b
    if sa.2.1 != sb.2.1 || sa.2.2 != sb.2.2 then false else true

/-- Python `int(text)` on the power texts the grammar lets through: optional sign, digits -/
def digitVal (c : Char) : Nat := c.toNat - '0'.toNat

def natOfDigits (ds : Str) : Nat := ds.foldl (fun acc c => acc * 10 + digitVal c) 0

def pyInt (s : Str) : Option Int :=
  let body := match s with
    | '+' :: t => t
    | '-' :: t => t
    | t => t
  if body.isEmpty || !body.all isDigit then none
  else
    let n : Int := natOfDigits body
    some (match s with | '-' :: _ => -n | _ => n)

/-- `PREFIX_FACTORS[p]` as an exact power of ten (KeyError ⇒ none) -/
def prefixExpOf (p : Str) : Option Int := (prefixExp.find? (fun kv => kv.1 == p)).map (·.2)

def tenPow (e : Int) : Rat := (10 : Rat) ^ e

/-- the `if / elif / elif` chain on the two prefixes (`none` = KeyError from PREFIX_FACTORS) -/
def prefixScale (op dp : Str) : Option Rat :=
  if dp.isEmpty && !op.isEmpty then (prefixExpOf op).map tenPow
  else if op.isEmpty && !dp.isEmpty then (prefixExpOf dp).map fun e => 1 / tenPow e
  else if bothPrefixedBranch op.isEmpty dp.isEmpty then
    match prefixExpOf op, prefixExpOf dp with
    | some eo, some ed => some (tenPow eo / tenPow ed)
    | _, _ => none
  else some 1

/-- `scaling` after the `scalable` test, as a function of the two split results -/
def scalingCore (op dp opow dpow : Str) : Except Err Rat :=
  if op == dp && opow == dpow then .ok 1
  else
    match prefixScale op dp with
    | none => .error .keyError
    | some sc =>
      if opow.isEmpty then .ok sc
      else match pyInt opow with
        | some w => .ok (sc ^ w)
        | none => .error .valueError

/-- `scaling(origin, destination)` -/
def scaling (a b : Str) : Except Err Rat :=
  if !scalable a b then .error .invalidUnit
  else scalingCore (split a).1 (split b).1 (split a).2.2 (split b).2.2

/-! ## invert_power / split_compound -/

def invertPower (u : Str) : Str :=
  let (p, b, w) := split u
  if w.isEmpty then p ++ b ++ "^-1".toList
  else
    let w' := match w with
      | '-' :: t => t
      | _ => "^-".toList ++ w
    p ++ b ++ ['^'] ++ w'

def removeBlanks (s : Str) : Str := s.filter (· != ' ')

/-- `split_compound`: `none` models the AttributeError raised when no atom matches -/
def splitCompoundLoop : Nat → Str → Char → List Str → Option (List Str)
  | 0, _, _, _ => none
  | fuel + 1, s, sep, acc =>
    match reMatch compoundSplitShape s with
    | none => none
    | some m =>
      let unit := if sep == '/' then invertPower m.matched else m.matched
      if m.rest.isEmpty then some (acc ++ [unit])
      else
        let suffix := removeBlanks m.rest
        match suffix with
        | [] => none      -- `suffix[0]` IndexError: only blanks followed the atom
        | sp :: tl => splitCompoundLoop fuel tl sp (acc ++ [unit])

def splitCompound (s : Str) : Option (List Str) := splitCompoundLoop (s.length + 1) s ' ' []

/-! ## sanitizer -/

/-- `str.replace(old, new)` for a non-empty `old`: left to right, non-overlapping -/
def replaceFuel : Nat → Str → Str → Str → Str
  | 0, _, _, s => s
  | _ + 1, _, _, [] => []
  | fuel + 1, old, new, c :: cs =>
    if old.isPrefixOf (c :: cs) && !old.isEmpty then new ++ replaceFuel fuel old new ((c :: cs).drop old.length)
    else c :: replaceFuel fuel old new cs

def replace (old new s : Str) : Str := replaceFuel (s.length + 1) old new s

def containsSub (pat : Str) (s : Str) : Bool := (tails s).any fun t => pat.isPrefixOf t

def replaceFix : Nat → Str → Str → Str → Str
  | 0, _, _, s => s
  | fuel + 1, old, new, s => if containsSub old s then replaceFix fuel old new (replace old new s) else s

/-- `sanitizer(unit)`: the chain of `.replace` calls, then (if the source has it) the
`while pat in unit: unit = unit.replace(pat, new)` loop; both read from the generated tables -/
def sanitizer (s : Str) : Str :=
  let t := sanitizerChain.foldl (fun acc on => replace on.1 on.2 acc) s
  match sanitizerLoop with
  | some (old, new) => replaceFix t.length old new t
  | none => t

end Nix.Units
