import NixModel.Basic
import NixModel.Py.Slice

/-!
# NumPy basic indexing on a shape

An index tuple is a list of `Ix` (integers, slices, `Ellipsis`).  `npSelect shape ix` is what
`numpy.ndarray.__getitem__` does with such a tuple on an array of that shape
(`prepare_index` / `get_view_from_index` in numpy/_core/src/multiarray/mapping.c):

* more than one ellipsis, or more integer/slice entries than dimensions ⇒ `IndexError`
  (found while the tuple is scanned, before any axis is looked at);
* the ellipsis — or, without one, the end of the tuple — is filled with full slices;
* per axis, left to right: an integer is taken relative to the end when negative and must then
  lie in `[0, len)` (`IndexError`), the axis is dropped from the result; a slice is normalised by
  `slice.indices(len)` (step 0 ⇒ `ValueError`) and selects `range(start, stop, step)`.

The result is one `AxisSel` per array axis.  `selShape` is the shape of the result,
`selIndices` the selected multi-indices of the array in the (row-major) order of the result's
elements, `flatIndex` their C-order offsets.  Array *content* is not modelled here (C01).
-/
namespace Nix.NdIndex
open Nix.Py

/-- one component of an index tuple -/
inductive Ix where
  | int (i : Int)
  | slice (s : PySlice)
  | ellipsis
  deriving DecidableEq, Repr, Inhabited

/-- what is selected along one array axis -/
inductive AxisSel where
  /-- a single index (the axis disappears from the result) -/
  | pick (i : Int)
  /-- `count` indices `start, start+step, …` (the axis stays, with length `count`) -/
  | range (start step : Int) (count : Nat)
  deriving DecidableEq, Repr, Inhabited

def Ix.isEllipsis : Ix → Bool
  | .ellipsis => true
  | _ => false

def countEllipsis (ix : List Ix) : Nat := (ix.filter Ix.isEllipsis).length

/-- number of components that consume an axis -/
def countAxes (ix : List Ix) : Nat := (ix.filter (fun i => !i.isEllipsis)).length

def fullSlices (n : Nat) : List Ix := List.replicate n (.slice PySlice.full)

/-- replace the (first) ellipsis by `n` full slices -/
def fillEllipsis (n : Nat) : List Ix → List Ix
  | [] => []
  | .ellipsis :: rest => fullSlices n ++ rest
  | i :: rest => i :: fillEllipsis n rest

/-- tuple → exactly `rank` components without ellipsis -/
def expandIx (rank : Nat) (ix : List Ix) : Except Err (List Ix) :=
  if countEllipsis ix > 1 then .error .indexError
  else if countAxes ix > rank then .error .indexError
  else if countEllipsis ix = 1 then .ok (fillEllipsis (rank - countAxes ix) ix)
  else .ok (ix ++ fullSlices (rank - countAxes ix))

/-- one integer or slice on one axis of length `len` -/
def axisSel (len : Nat) : Ix → Except Err AxisSel
  | .int i =>
    let j := if i < 0 then i + len else i
    if j < 0 ∨ j ≥ len then .error .indexError else .ok (.pick j)
  | .slice s =>
    match s.indices len with
    | .ok (a, b, k) => .ok (.range a k (rangeLen a b k))
    | .error e => .error e
  | .ellipsis => .error .indexError

/-- axis by axis, left to right, first error wins; surplus on either side is an error
(`expandIx` makes the lengths equal) -/
def selectAxes : List Nat → List Ix → Except Err (List AxisSel)
  | [], [] => .ok []
  | len :: shape, i :: ix =>
    match axisSel len i with
    | .error e => .error e
    | .ok a =>
      match selectAxes shape ix with
      | .error e => .error e
      | .ok rest => .ok (a :: rest)
  | _, _ => .error .indexError

/-- NumPy basic indexing of an array of shape `shape` with the tuple `ix` -/
def npSelect (shape : List Nat) (ix : List Ix) : Except Err (List AxisSel) :=
  match expandIx shape.length ix with
  | .error e => .error e
  | .ok full => selectAxes shape full

/-- shape of the result -/
def selShape : List AxisSel → List Nat
  | [] => []
  | .pick _ :: rest => selShape rest
  | .range _ _ n :: rest => n :: selShape rest

/-- indices selected along one axis, in result order -/
def AxisSel.indices : AxisSel → List Int
  | .pick i => [i]
  | .range a k n => progression a k n

/-- the selected multi-indices, in the row-major order of the result's elements -/
def selIndices : List AxisSel → List (List Int)
  | [] => [[]]
  | a :: rest => a.indices.flatMap fun i => (selIndices rest).map fun m => i :: m

/-- C-order offset of a multi-index in an array of shape `shape` (Horner form) -/
def flatIndexAux : Int → List Nat → List Int → Int
  | acc, len :: shape, i :: m => flatIndexAux (acc * len + i) shape m
  | acc, _, _ => acc

def flatIndex (shape : List Nat) (m : List Int) : Int := flatIndexAux 0 shape m

/-- translate a selection by a per-axis offset (the window start of a view) -/
def AxisSel.shift (a : Int) : AxisSel → AxisSel
  | .pick i => .pick (a + i)
  | .range s k n => .range (a + s) k n

def shiftSel : List Int → List AxisSel → List AxisSel
  | a :: offs, s :: sel => s.shift a :: shiftSel offs sel
  | _, _ => []

/-! ## h5py's selection of a dataset region (`Selector.apply_args` in `h5py/_selector.pyx`)

Stand-in for the runtime: same semantics as NumPy for integers, slices and one ellipsis, but a
slice must have `step ≥ 1`, and the tuple is scanned once, left to right, so the *class* of the
error for a tuple with several faults follows the scan: second ellipsis ⇒ `ValueError`; at an
ellipsis, more remaining arguments than dimensions ⇒ `ValueError`; an integer/slice when all
dimensions are used up ⇒ `ValueError`; integer out of range ⇒ `IndexError`; step 0 or
step < 1 ⇒ `ValueError`.  (On reads nixio maps `ValueError`/`TypeError` to `IndexError`.) -/

def fullSel (len : Nat) : AxisSel := .range 0 1 len

/-- one integer or slice on one axis, h5py rules -/
def h5Axis (len : Nat) : Ix → Except Err AxisSel
  | .int i =>
    let j := if i < 0 then i + len else i
    if j < 0 ∨ j ≥ len then .error .indexError else .ok (.pick j)
  | .slice s =>
    match s.indices len with
    | .ok (a, b, k) => if k < 1 then .error .valueError else .ok (.range a k (rangeLen a b k))
    | .error e => .error e
  | .ellipsis => .error .valueError

/-- the scan: `dims` = dimensions not yet consumed, `seen` = an ellipsis was seen,
`nargs` = `len(args)` minus the ellipses seen so far -/
def h5Scan (rank : Nat) : List Nat → Bool → Nat → List Ix → Except Err (List AxisSel)
  | dims, _, _, [] => .ok (dims.map fullSel)
  | dims, seen, nargs, .ellipsis :: rest =>
    if seen then .error .valueError
    else if nargs - 1 > rank then .error .valueError
    else
      let fill := rank - (nargs - 1)
      match h5Scan rank (dims.drop fill) true (nargs - 1) rest with
      | .error e => .error e
      | .ok sel => .ok ((dims.take fill).map fullSel ++ sel)
  | [], _, _, _ :: _ => .error .valueError
  | len :: dims, seen, nargs, i :: rest =>
    match h5Axis len i with
    | .error e => .error e
    | .ok a =>
      match h5Scan rank dims seen nargs rest with
      | .error e => .error e
      | .ok sel => .ok (a :: sel)

/-- `dataset[ix]` region selection with h5py's own error classes -/
def h5Select (shape : List Nat) (ix : List Ix) : Except Err (List AxisSel) :=
  h5Scan shape.length shape false ix.length ix

end Nix.NdIndex
