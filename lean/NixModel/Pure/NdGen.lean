import NixModel.Pure.NdConv
import NixModel.Py.Slice

/-!
# Vocabulary of the compiled nixio array code (C01)

`harness/extract/datasetshape.py` compiles `DataSet.append`, `DataSet.__getitem__/__setitem__/write_direct/len/
shape/size`, `H5DataSet.write_data/read_data`, `DataArray._read_data` and the argument rules of
`Block.create_data_array` from the Python source into Lean definitions (`Generated/DataSetShape.lean`) written in
the vocabulary of this file:

* Python values: `Int` for int, `List Int` for a tuple of ints (a shape), `IndexArg` for an index argument
  (`None`, a bare item, a tuple of items; items are integers, slices, `Ellipsis`), `Arr` for a numpy array
  (element type + content), `DArr` for the HDF5 dataset behind `self`;
* Python builtins and comprehensions (`pyLen`, `pyAny`, `compEnum`, `compZip`, `compEnumZip`, `pyGetItem`);
* the storage stand-in the nixio code calls into: h5py `Dataset.__setitem__` / `__getitem__` / `resize`
  (`h5SetItem`, `h5GetItem`, `h5Resize`) — selection normalisation incl. `Ellipsis`, source broadcasting, the
  conversion refusals of `NdConv`, hyperslab write / read over `NdArray`;
* control flow with exceptions in state-passing form (`Run`, `pyRaise`, `pyThen`, `pyTryExcept`).
-/
namespace Nix.NdGen
open Nix Nix.Nd

/-! ## index arguments -/

/-- one item of an index tuple -/
inductive IxE where
  | ix (i : Ix)
  | ellipsis
  deriving DecidableEq, Repr

/-- what `__getitem__` / `__setitem__` / `write_data(…, slc)` receive -/
inductive IndexArg where
  | none
  | one (i : IxE)
  | tuple (l : List IxE)
  deriving DecidableEq, Repr

/-- `x is None` -/
def IndexArg.isNone : IndexArg → Bool
  | .none => true
  | _ => false

/-- Python truthiness of an index argument: `None`, the integer 0 and the empty tuple are false -/
def IndexArg.truthy : IndexArg → Bool
  | .none => false
  | .one (.ix (.int i)) => decide (i ≠ 0)
  | .one _ => true
  | .tuple l => !l.isEmpty

/-- h5py: an index that is not a tuple is a 1-tuple -/
def IndexArg.items : IndexArg → List IxE
  | .none => []
  | .one i => [i]
  | .tuple l => l

/-- `slice(None, None, None)` / `:` -/
def fullSlice : IndexArg := .one (.ix (.slice none none none))

/-- `slc if slc is not None else slice(None)` -/
def IndexArg.orFull : IndexArg → IndexArg
  | .none => fullSlice
  | s => s

def fullSel (n : Nat) : AxisSel := ⟨0, 1, n, false⟩

/-- `h5py._selector.Selector.apply_args`, arguments consumed left to right.  `rank` is the rank of the dataset,
`nargs` the number of arguments (minus one once an Ellipsis was seen), `seen` whether an Ellipsis was seen.
An Ellipsis stands for `rank - nargs` full axes; a second one, more arguments than axes, a slice step < 1 are
ValueErrors, an integer outside the axis an IndexError — whichever is reached first. -/
def selectArgs (rank : Nat) : List Nat → List IxE → Bool → Nat → Except Err (List AxisSel)
  | sh, [], _, _ => .ok (sh.map fullSel)
  | sh, .ellipsis :: rest, seen, nargs =>
    if seen then .error .valueError
    else if nargs - 1 > rank then .error .valueError
    else
      match selectArgs rank (sh.drop (rank - (nargs - 1))) rest true (nargs - 1) with
      | .ok r => .ok ((sh.take (rank - (nargs - 1))).map fullSel ++ r)
      | .error e => .error e
  | [], .ix _ :: _, _, _ => .error .valueError
  | n :: ns, .ix i :: rest, seen, nargs =>
    match selectAxis n i with
    | .error e => .error e
    | .ok s =>
      match selectArgs rank ns rest seen nargs with
      | .ok r => .ok (s :: r)
      | .error e => .error e

def selectIndex (shape : List Nat) (ix : IndexArg) : Except Err (List AxisSel) :=
  selectArgs shape.length shape ix.items false ix.items.length

/-- number of selected elements -/
def selCount : List AxisSel → Nat
  | [] => 1
  | s :: ss => s.count * selCount ss

/-! ## numpy arrays and the dataset -/

/-- a numpy array: element type and content -/
structure Arr where
  dt : DType
  a : NdArray Elem

/-- `np.ascontiguousarray(data)`: a 0-d array comes back with shape (1,) -/
def npAscontiguousarray (d : Arr) : Arr := ⟨d.dt, contiguous d.a⟩

/-- `data.shape` -/
def arrShape (d : Arr) : List Int := d.a.shape.map Int.ofNat

/-- `self.shape` (= `self.data_extent` = `dataset.shape`) -/
def dsShape (A : DArr) : List Int := A.arr.shape.map Int.ofNat

/-- `data.shape` of the array a read returned -/
def ndShape (d : NdArray Elem) : List Int := d.shape.map Int.ofNat

/-- what can be handed to h5py as the element type of a new dataset: one of nixio's `DataType`s, or the numpy
dtype of text data (`<U…` / object), which has no HDF5 equivalent -/
inductive DTypeArg where
  | nix (t : DType)
  | numpyText
  deriving DecidableEq, Repr

/-- `data.dtype` -/
def npDtype (d : Arr) : DTypeArg := if d.dt = .string then .numpyText else .nix d.dt

/-- a numpy dtype given as a string literal in the source (`'f8'`) -/
def npDtypeOfStr (s : String) : Option DTypeArg :=
  if s = "f8" then some (.nix .float64) else if s = "f4" then some (.nix .float32) else none

/-- `data is None` for an array argument -/
def arrIsNone (_ : Arr) : Bool := false

/-! ## numpy basic indexing on a probe array (`H5DataSet._selected_count`) -/

/-- one index item against an axis of extent `n` in NumPy: the number of selected coordinates, `none` when NumPy
raises (integer out of range, slice step 0); negative steps are fine for NumPy -/
def npAxisCount (n : Nat) : Ix → Option Nat
  | .int i => if 0 ≤ wrapIndex n i ∧ wrapIndex n i < (n : Int) then some 1 else none
  | .slice a b c =>
    match (Nix.Py.PySlice.mk a b c).indices n with
    | .ok (lo, hi, st) => some (Nix.Py.rangeLen lo hi st)
    | .error _ => none

/-- size of `probe[items]` for plain items (missing trailing items are full slices; too many: IndexError) -/
def npCountPlain : List Nat → List Ix → Option Nat
  | [], [] => some 1
  | [], _ :: _ => none
  | n :: ns, [] => (npCountPlain ns []).map (n * ·)
  | n :: ns, i :: is =>
    match npAxisCount n i, npCountPlain ns is with
    | some a, some b => some (a * b)
    | _, _ => none

def ixePlain? : IxE → Option Ix
  | .ix i => some i
  | .ellipsis => none

/-- NumPy's expansion of `Ellipsis`: at most one, standing for the axes the other items do not cover -/
def npExpand (rank : Nat) (items : List IxE) : Option (List Ix) :=
  let plain := items.filterMap ixePlain?
  let nE := items.length - plain.length
  if nE > 1 then none
  else if plain.length > rank then none
  else if nE = 0 then some plain
  else
    let pre := (items.takeWhile fun i => i != .ellipsis).filterMap ixePlain?
    let post := (items.dropWhile fun i => i != .ellipsis).filterMap ixePlain?
    some (pre ++ List.replicate (rank - plain.length) (Ix.slice none none none) ++ post)

/-- `H5DataSet._selected_count(slc)`: `probe[slice(None) if slc is None else slc].size` on a NumPy array of the
dataset's shape, `None` when NumPy raises -/
def h5SelectedCount (A : DArr) (slc : IndexArg) : Option Nat :=
  match slc with
  | .none => npCountPlain A.arr.shape [Ix.slice none none none]
  | s => (npExpand A.arr.shape.length s.items).bind (npCountPlain A.arr.shape)

/-- truthiness of an `int or None` -/
def optTruthy : Option Nat → Bool
  | some (n + 1) => true
  | _ => false

/-- `H5DataSet._is_empty(data)` for a NumPy array: `data.size == 0` -/
def arrIsEmpty (d : Arr) : Bool := Nix.Nd.sizeOf d.a.shape == 0

/-! ## storage stand-in: h5py `Dataset` -/

/-- `dataset[ix] = data`: selection errors, then the broadcast test (TypeError), then — only if at least one
element is written — the conversion refusal, then the hyperslab write of the converted data -/
def h5SetItem (A : DArr) (ix : IndexArg) (data : Arr) : Except IoErr DArr :=
  match selectIndex A.arr.shape ix with
  | .error e => .error (.err e)
  | .ok sel =>
    if !bcastOk sel data.a.shape then .error (.err .typeError)
    else
      match (if selCount sel = 0 then none else convRefusal data.dt A.dtype) with
      | some e => .error e
      | none => .ok { A with arr := A.arr.setRegion sel (convArr A.dtype data.a) }

/-- `dataset[ix]`: selection errors, else the hyperslab (0-d when every axis is indexed by an integer) -/
def h5GetItem (A : DArr) (ix : IndexArg) : Except IoErr (NdArray Elem) :=
  match selectIndex A.arr.shape ix with
  | .error e => .error (.err e)
  | .ok sel => .ok (A.arr.gather sel)

/-- `dataset.resize(extent)` -/
def h5Resize (A : DArr) (extent : List Int) : Except IoErr DArr :=
  match setExtent A extent with
  | .ok B => .ok B
  | .error e => .error (.err e)

/-! ## Python builtins -/

def pyLen (l : List α) : Int := (l.length : Int)

def pyAny : List Bool → Bool
  | [] => false
  | b :: bs => b || pyAny bs

/-- `t[i]` for a tuple of ints: negative indices count from the end, out of range is an IndexError -/
def pyGetItem (l : List Int) (i : Int) : Except IoErr Int :=
  let j := if i < 0 then i + (l.length : Int) else i
  if j < 0 then .error (.err .indexError)
  else match l[j.toNat]? with
    | some v => .ok v
    | none => .error (.err .indexError)

/-- `np.prod(shape)` -/
def npProd : List Int → Int
  | [] => 1
  | x :: xs => x * npProd xs

/-- `slice(a, b)` as an index item -/
def pySlice2 (a b : Int) : IxE := .ix (.slice (some a) (some b) none)

/-- `[body(i, x) for i, x in enumerate(xs) if cond(i, x)]`, `i` counted from `i0` -/
def compEnumFrom (i0 : Int) (cond : Int → Int → Bool) (body : Int → Int → Except IoErr β) :
    List Int → Except IoErr (List β)
  | [] => .ok []
  | x :: xs =>
    if cond i0 x then
      match body i0 x with
      | .error e => .error e
      | .ok v =>
        match compEnumFrom (i0 + 1) cond body xs with
        | .ok r => .ok (v :: r)
        | .error e => .error e
    else compEnumFrom (i0 + 1) cond body xs

def compEnum (xs : List Int) (cond : Int → Int → Bool) (body : Int → Int → Except IoErr β) :
    Except IoErr (List β) := compEnumFrom 0 cond body xs

/-- `[body(a, b) for a, b in zip(xs, ys) if cond(a, b)]` -/
def compZip (cond : Int → Int → Bool) (body : Int → Int → Except IoErr β) :
    List Int → List Int → Except IoErr (List β)
  | x :: xs, y :: ys =>
    if cond x y then
      match body x y with
      | .error e => .error e
      | .ok v =>
        match compZip cond body xs ys with
        | .ok r => .ok (v :: r)
        | .error e => .error e
    else compZip cond body xs ys
  | _, _ => .ok []

/-- `[body(i, a, b) for i, (a, b) in enumerate(zip(xs, ys)) if cond(i, a, b)]`, `i` counted from `i0` -/
def compEnumZipFrom (i0 : Int) (cond : Int → Int → Int → Bool) (body : Int → Int → Int → Except IoErr β) :
    List Int → List Int → Except IoErr (List β)
  | x :: xs, y :: ys =>
    if cond i0 x y then
      match body i0 x y with
      | .error e => .error e
      | .ok v =>
        match compEnumZipFrom (i0 + 1) cond body xs ys with
        | .ok r => .ok (v :: r)
        | .error e => .error e
    else compEnumZipFrom (i0 + 1) cond body xs ys
  | _, _ => .ok []

def compEnumZip (xs ys : List Int) (cond : Int → Int → Int → Bool) (body : Int → Int → Int → Except IoErr β) :
    Except IoErr (List β) := compEnumZipFrom 0 cond body xs ys

/-! ## control flow: a method body runs on the dataset and ends with a value or an exception -/

/-- outcome of a method that may change the dataset: the dataset afterwards and the exception, if one escaped -/
abbrev Run := DArr × Option IoErr

/-- `raise E(...)` -/
def pyRaise (A : DArr) (e : IoErr) : Run := (A, some e)

/-- normal end of a method that returns nothing -/
def pyDone (A : DArr) : Run := (A, none)

/-- evaluate an expression that may raise; continue with its value -/
def pyBind (A : DArr) (x : Except IoErr β) (k : β → Run) : Run :=
  match x with
  | .ok v => k v
  | .error e => (A, some e)

/-- a statement that replaces the dataset (`self.data_extent = …`, `dataset[…] = …`) or raises, leaving the
dataset as it was; then the rest -/
def pyThen (A : DArr) (x : Except IoErr DArr) (k : DArr → Run) : Run :=
  match x with
  | .ok B => k B
  | .error e => (A, some e)

/-- `try: <stmt> except <classes>: <handler>; raise` — when the exception of the statement is one the clause
catches, the handler runs on the dataset as the failed statement left it and the exception is re-raised (an
exception of the handler takes its place); any other exception propagates past the handler -/
def pyTryReraise (A : DArr) (x : Except IoErr DArr) (catches : IoErr → Bool) (handler : DArr → Run) : Run :=
  match x with
  | .ok B => (B, none)
  | .error e =>
    if catches e then
      match handler A with
      | (B, none) => (B, some e)
      | (B, some e2) => (B, some e2)
    else (A, some e)

/-- `except Exception` -/
def anyException (_ : IoErr) : Bool := true

/-- `try: v = <expr> except E1: raise F1 except E2: raise F2` -/
def pyCatchMap (x : Except IoErr β) (handlers : List (IoErr × IoErr)) : Except IoErr β :=
  match x with
  | .ok v => .ok v
  | .error e =>
    match handlers.find? (fun h => h.1 = e) with
    | some h => .error h.2
    | none => .error e

/-- `data.shape = (1,)` for a 0-d array (in place; any other reshape of the model's arrays is not needed) -/
def npSetShape1 (d : NdArray Elem) : NdArray Elem := ⟨[1], fun _ => d.get []⟩

end Nix.NdGen
