import NixModel.Basic
/-!
# Pure.Frame — model of `nixio.DataFrame` (data_frame.py) and `Block.create_data_frame` (block.py)

The stored table is the 1-D HDF5 dataset `data` with a compound dtype plus the attribute `units`.
The model keeps exactly that: the ordered columns (name, type), the rows (one cell per column)
and the optional per-column units.  nixio's entity classes are stateless handles, so this *is* the whole
observable state; closing and reopening the file is the identity on it (tied by the correspondence runs).

The model follows the code that is in /repo now, i.e. after the `fix:` commits for
`write_column(index=0)`, the chunked rebuild in `append_column`, the units length, `read_cell` by
name, duplicate frame names, conversion-before-creation in `create_data_frame` and the all-or-nothing
`write_column`.

Modelled domain of cells: Python `int`, `float` (finite, as the exact rational it denotes), `bool`, `str`.
`conv` is NumPy's conversion of such a scalar into a field of the column type followed by h5py's
variable-length string conversion for text columns.  Deliberate simplifications (the driver answers `bad`
for such inputs, the generators never produce them — see ASSUMPTIONS in harness/props/c16.py):
 * a non-string cell offered to a text column by `append_rows`, `append_column` or at creation is refused
   by h5py only *after* the dataset was resized / rebuilt; the model refuses it up front;
 * numeric-literal strings offered to numeric columns (NumPy parses them) and integers beyond ±2^53
   offered to a float column (rounding) are outside the domain.
-/
namespace Nix.Frame

inductive ColType where
  | text | i8 | i16 | i32 | i64 | u8 | f64 | bool
  deriving DecidableEq, Repr, Inhabited

inductive Val where
  | int (n : Int)
  | flt (r : Rat)
  | bool (b : Bool)
  | str (s : String)
  deriving DecidableEq, Repr, Inhabited

abbrev Row := List Val

/-- inclusive range of the integer column types -/
def ColType.range : ColType → Option (Int × Int)
  | .i8 => some (-128, 127)
  | .i16 => some (-32768, 32767)
  | .i32 => some (-2147483648, 2147483647)
  | .i64 => some (-9223372036854775808, 9223372036854775807)
  | .u8 => some (0, 255)
  | _ => none

/-- a stored cell of a column of type `t` -/
def wellTyped : ColType → Val → Bool
  | .text, .str _ => true
  | .f64, .flt _ => true
  | .bool, .bool _ => true
  | .text, _ => false
  | .f64, _ => false
  | .bool, _ => false
  | t, .int n => match t.range with
    | some (lo, hi) => decide (lo ≤ n) && decide (n ≤ hi)
    | none => false
  | _, _ => false

/-- C cast of a double to an integer: truncation toward zero -/
def ratTrunc (r : Rat) : Int := if 0 ≤ r then r.floor else -((-r).floor)

def inRange (lo hi n : Int) : Except Err Val :=
  if lo ≤ n ∧ n ≤ hi then .ok (.int n) else .error .valueError   -- OverflowError, canonicalised

/-- NumPy's conversion of a Python scalar into a field of type `t` (then h5py's string conversion) -/
def conv (t : ColType) (v : Val) : Except Err Val :=
  match t with
  | .text => match v with
    | .str s => .ok (.str s)
    | _ => .error .typeError            -- h5py: Can't implicitly convert non-string objects to strings
  | .f64 => match v with
    | .int n => .ok (.flt (n : Rat))
    | .flt r => .ok (.flt r)
    | .bool b => .ok (.flt (if b then 1 else 0))
    | .str _ => .error .valueError
  | .bool => match v with
    | .int n => .ok (.bool (n != 0))
    | .flt r => .ok (.bool (r != 0))
    | .bool b => .ok (.bool b)
    | .str s => .ok (.bool (s != ""))
  | t => match t.range with
    | none => .error .typeError          -- unreachable: the remaining types are the integer types
    | some (lo, hi) => match v with
      | .int n => inRange lo hi n
      | .flt r => inRange lo hi (ratTrunc r)
      | .bool b => .ok (.int (if b then 1 else 0))
      | .str _ => .error .valueError

structure Frame where
  cols : List (String × ColType)
  rows : List Row
  units : Option (List (Option String))
  deriving DecidableEq, Repr, Inhabited

def Frame.names (f : Frame) : List String := f.cols.map (·.1)
def Frame.types (f : Frame) : List ColType := f.cols.map (·.2)
def Frame.nrows (f : Frame) : Nat := f.rows.length
def Frame.ncols (f : Frame) : Nat := f.cols.length

/-- Python index normalisation on a sequence of length `n` (`-n ≤ i < n`) -/
def normIdx (n : Nat) (i : Int) : Option Nat :=
  if 0 ≤ i then (if i < n then some i.toNat else none)
  else if -(n : Int) ≤ i then some (i + n).toNat else none

/-- cells of one row converted field by field (`np.array(tuple, dtype=compound)`) -/
def convCells : List ColType → List Val → Except Err Row
  | [], [] => .ok []
  | t :: ts, v :: vs =>
    match conv t v with
    | .error e => .error e
    | .ok w => match convCells ts vs with
      | .error e => .error e
      | .ok ws => .ok (w :: ws)
  | _, _ => .error .valueError

/-- "could not assign tuple of length k to structure with n fields" precedes the cell conversions -/
def convRow (ts : List ColType) (vs : List Val) : Except Err Row :=
  if vs.length ≠ ts.length then .error .valueError else convCells ts vs

def convRows (ts : List ColType) : List (List Val) → Except Err (List Row)
  | [] => .ok []
  | r :: rs =>
    match convRow ts r with
    | .error e => .error e
    | .ok w => match convRows ts rs with
      | .error e => .error e
      | .ok ws => .ok (w :: ws)

/-- one column converted cell by cell (`np.array(column, dtype=t)`) -/
def convCol (t : ColType) : List Val → Except Err (List Val)
  | [] => .ok []
  | v :: vs =>
    match conv t v with
    | .error e => .error e
    | .ok w => match convCol t vs with
      | .error e => .error e
      | .ok ws => .ok (w :: ws)

/-- position of the field called `name` (NumPy field lookup) -/
def findCol (cols : List (String × ColType)) (name : String) : Option Nat :=
  cols.findIdx? (fun c => c.1 == name)

/-- `np.dtype([...])` names an unnamed field `f<position>` -/
def normNamesFrom (i : Nat) : List (String × ColType) → List (String × ColType)
  | [] => []
  | (n, t) :: rest => ((if n = "" then "f" ++ toString i else n), t) :: normNamesFrom (i + 1) rest

def hasDup : List String → Bool
  | [] => false
  | n :: ns => ns.contains n || hasDup ns

/-- `np.dtype(list of (name, type))`: default names, then "field occurs more than once" -/
def mkDtype (cols : List (String × ColType)) : Except Err (List (String × ColType)) :=
  let c := normNamesFrom 0 cols
  if hasDup (c.map (·.1)) then .error .valueError else .ok c

/-- `DataType.get_dtype(value)` / `type(value)` mapped through the schema loop of create_data_frame -/
def typeOfVal : Val → ColType
  | .bool _ => .bool
  | .int _ => .i64
  | .flt _ => .f64
  | .str _ => .text

-- ---------------------------------------------------------------------------------------
-- creation (block.py create_data_frame, the part after name/type checks)

/-- shared tail: dtype, conversion of the data (before anything is created), dataset creation, write -/
def createWith (cols : List (String × ColType)) (data : Option (List (List Val))) : Except Err Frame :=
  match mkDtype cols with
  | .error e => .error e
  | .ok c =>
    match data with
    | none => if c.isEmpty then .error .valueError else .ok ⟨c, [], none⟩
    | some rows =>
      match convRows (c.map (·.2)) rows with
      | .error e => .error e
      | .ok rs => if c.isEmpty then .error .valueError else .ok ⟨c, rs, none⟩

/-- keys of `OrderedDict(zip(names, types))`: first occurrence keeps its position -/
def dedupNames : List String → List String
  | [] => []
  | n :: ns => n :: (dedupNames ns).filter (· != n)

/-- variant `col_dict=` (an ordered dict: keys are distinct by construction of the caller) -/
def createDict (cols : List (String × ColType)) (data : Option (List (List Val))) : Except Err Frame :=
  createWith cols data

/-- variant `col_names=, col_dtypes=`: `zip` truncates; a shorter dict than `col_names` is reported as
    DuplicateColumnName (also when `col_dtypes` is simply too short) -/
def createNamesTypes (names : List String) (types : List ColType) (data : Option (List (List Val))) :
    Except Err Frame :=
  let z := names.zip types
  if names.length ≠ (dedupNames (z.map (·.1))).length then .error .duplicateName
  else createWith z data

/-- variant `col_names=, data=` : column types are the Python types of the first row -/
def createNamesData (names : List String) (data : Option (List (List Val))) : Except Err Frame :=
  match data with
  | none => .error .valueError
  | some [] => .error .indexError
  | some (r :: rs) => createNamesTypes names (r.map typeOfVal) (some (r :: rs))

/-- variant structured array: names and types come from the array's dtype; `data[0]` needs a row -/
def createStruct (cols : List (String × ColType)) (data : List (List Val)) : Except Err Frame :=
  match data with
  | [] => .error .indexError
  | _ => createWith cols (some data)

-- ---------------------------------------------------------------------------------------
-- reads and reports

def Frame.cell (f : Frame) (r c : Nat) : Option Val := (f.rows[r]?).bind (·[c]?)

def dfShape (f : Frame) : Nat × Nat := (f.rows.length, f.cols.length)
def rowCount (f : Frame) : Nat := f.rows.length

/-- `units` getter: empty strings read as None -/
def unitsOf (f : Frame) : Option (List (Option String)) := f.units

def zip3 : List (String × ColType) → List (Option String) → List (String × ColType × Option String)
  | (n, t) :: cs, u :: us => (n, t, u) :: zip3 cs us
  | _, _ => []

/-- `columns`: zip of names, types and units when any unit is set, else all-None units -/
def columns (f : Frame) : List (String × ColType × Option String) :=
  match f.units with
  | some us => if us.any (·.isSome) then zip3 f.cols us else f.cols.map (fun c => (c.1, c.2, none))
  | none => f.cols.map (fun c => (c.1, c.2, none))

/-- `read_rows(i)` with an int -/
def readRow (f : Frame) (i : Int) : Except Err Row :=
  match normIdx f.rows.length i with
  | none => .error .indexError
  | some k => match f.rows[k]? with
    | some r => .ok r
    | none => .error .indexError

/-- h5py point/fancy selection on a list: every entry normalised (out of range ⇒ IndexError), then strictly
    increasing (else `orderErr`: TypeError on write, IndexError on read) -/
def normList (n : Nat) : List Int → Except Err (List Nat)
  | [] => .ok []
  | i :: is =>
    match normIdx n i with
    | none => .error .indexError
    | some k => match normList n is with
      | .error e => .error e
      | .ok ks => .ok (k :: ks)

def increasing : List Nat → Bool
  | a :: b :: rest => decide (a < b) && increasing (b :: rest)
  | _ => true

def selectList (n : Nat) (idx : List Int) (orderErr : Err) : Except Err (List Nat) :=
  match normList n idx with
  | .error e => .error e
  | .ok ks => if increasing ks then .ok ks else .error orderErr

def getRows (rows : List Row) : List Nat → Except Err (List Row)
  | [] => .ok []
  | k :: ks =>
    match rows[k]? with
    | none => .error .indexError
    | some r => match getRows rows ks with
      | .error e => .error e
      | .ok rs => .ok (r :: rs)

/-- `read_rows([i, j, …])` -/
def readRows (f : Frame) (idx : List Int) : Except Err (List Row) :=
  match selectList f.rows.length idx .indexError with
  | .error e => .error e
  | .ok ks => getRows f.rows ks

/-- Python `seq[lo:hi]` without step -/
def clampIdx (n : Nat) (i : Int) : Nat :=
  if i < 0 then (if i + n < 0 then 0 else (i + n).toNat) else (if i > n then n else i.toNat)

def sliceList {α : Type} (l : List α) (lo hi : Option Int) : List α :=
  let a := match lo with | none => 0 | some i => clampIdx l.length i
  let b := match hi with | none => l.length | some i => clampIdx l.length i
  (l.take b).drop a

/-- column positions named by `read_columns(index=…)` (tuple indexing) or `(name=…)` -/
def colsByIndex (m : Nat) : List Int → Except Err (List Nat)
  | [] => .ok []
  | i :: is =>
    match normIdx m i with
    | none => .error .indexError
    | some k => match colsByIndex m is with
      | .error e => .error e
      | .ok ks => .ok (k :: ks)

/-- an unknown name is a ValueError for a single field, a KeyError in a multi-field selection (NumPy) -/
def colsByName (cols : List (String × ColType)) (unknown : Err) : List String → Except Err (List Nat)
  | [] => .ok []
  | n :: ns =>
    match findCol cols n with
    | none => .error unknown
    | some k => match colsByName cols unknown ns with
      | .error e => .error e
      | .ok ks => .ok (k :: ks)

def pick (r : Row) : List Nat → Option Row
  | [] => some []
  | k :: ks => match r[k]?, pick r ks with
    | some v, some vs => some (v :: vs)
    | _, _ => none

def pickAll (rows : List Row) (ks : List Nat) : Except Err (List Row) :=
  match rows with
  | [] => .ok []
  | r :: rs => match pick r ks, pickAll rs ks with
    | some v, .ok vs => .ok (v :: vs)
    | _, .error e => .error e
    | none, _ => .error .indexError

def hasDupNat : List Nat → Bool
  | [] => false
  | n :: ns => ns.contains n || hasDupNat ns

/-- `read_columns`: the selected fields of every row of the slice, in the requested order
    (NumPy refuses a repeated field with ValueError) -/
def readColumns (f : Frame) (sel : Except Err (List Nat)) (lo hi : Option Int) : Except Err (List Row) :=
  match sel with
  | .error e => .error e
  | .ok ks => if hasDupNat ks then .error .valueError else pickAll (sliceList f.rows lo hi) ks

/-- `read_cell(position=[row, col])` = `self[row][col]` -/
def readCellPos (f : Frame) (pos : List Int) : Except Err Val :=
  match pos with
  | [ri, ci] =>
    match readRow f ri with
    | .error e => .error e
    | .ok row => match normIdx row.length ci with
      | none => .error .indexError
      | some c => match row[c]? with
        | some v => .ok v
        | none => .error .indexError
  | _ => .error .valueError

/-- `read_cell(col_name=, row_idx=)` = `self[row][name]` -/
def readCellName (f : Frame) (name : String) (ri : Int) : Except Err Val :=
  match readRow f ri with
  | .error e => .error e
  | .ok row => match findCol f.cols name with
    | none => .error .valueError
    | some c => match row[c]? with
      | some v => .ok v
      | none => .error .valueError

/-- field `c` of every row -/
def colOf : List Row → Nat → Except Err (List Val)
  | [], _ => .ok []
  | r :: rs, c =>
    match r[c]?, colOf rs c with
    | some v, .ok vs => .ok (v :: vs)
    | _, .error e => .error e
    | none, _ => .error .indexError

/-- `frame[name]` (`DataSet.__getitem__` with a field name): the column as a 1-D array; h5py's ValueError for an
    unknown field is turned into IndexError by `H5DataSet.read_data` -/
def getField (f : Frame) (name : String) : Except Err (List Val) :=
  match findCol f.cols name with
  | none => .error .indexError
  | some c => colOf f.rows c

/-- `frame[lo:hi]`: the rows of the slice (never refused: slices are clamped) -/
def getSlice (f : Frame) (lo hi : Option Int) : List Row := sliceList f.rows lo hi

def colsOf (rows : List Row) : List Nat → Except Err (List (List Val))
  | [] => .ok []
  | k :: ks =>
    match colOf rows k, colsOf rows ks with
    | .ok c, .ok cs => .ok (c :: cs)
    | .error e, _ => .error e
    | _, .error e => .error e

/-- `read_columns(..., group_by_cols=True)`: one name ⇒ as without grouping; else one list per requested column
    (a column may be requested twice); the caller gets them as one 2-D array — of the columns' type when they share
    one, else an object array that keeps every cell as it was read (fix: NumPy's common type turned numbers into text
    next to a text column and large integers into floats next to a float column) -/
def readColumnsGrouped (f : Frame) (sel : Except Err (List Nat)) (lo hi : Option Int) :
    Except Err (List (List Val)) :=
  match sel with
  | .error e => .error e
  | .ok [k] => pickAll (sliceList f.rows lo hi) [k]
  | .ok ks => colsOf (sliceList f.rows lo hi) ks

-- ---------------------------------------------------------------------------------------
-- writes.  Every write returns the frame afterwards and the error raised, if any.

inductive Op where
  | appendRows (rows : List (List Val))
  | appendColumn (col : List Val) (name : String) (dt : Option ColType)
  | writeRows (rows : List (List Val)) (idx : List Int)
  | writeRowFlat (row : List Val) (idx : List Int)
  | writeColumn (col : List Val) (index : Option Int) (name : Option String)
  | writeCellPos (cell : Val) (pos : List Int)
  | writeCellName (cell : Val) (name : String) (row : Int)
  | setUnits (us : List (Option String))
  deriving Repr

/-- `append_rows`: `np.array(rows, dtype)` (refuses wrong lengths / cells), resize, write -/
def appendRows (f : Frame) (rows : List (List Val)) : Frame × Option Err :=
  match convRows f.types rows with
  | .error e => (f, some e)
  | .ok rs => ({ f with rows := f.rows ++ rs }, none)

def appendCell : List Row → List Val → List Row
  | r :: rs, v :: vs => (r ++ [v]) :: appendCell rs vs
  | _, _ => []

/-- `append_column`: length test, type from the first cell when none is given, widened dtype (duplicate
    name ⇒ ValueError), conversion, rebuild of the dataset (chunked), one more (empty) unit when units are set -/
def appendColumn (f : Frame) (col : List Val) (name : String) (dt : Option ColType) : Frame × Option Err :=
  if col.length ≠ f.rows.length then (f, some .valueError) else
  let t? : Except Err ColType := match dt with
    | some t => .ok t
    | none => match col with
      | [] => .error .indexError
      | v :: _ => .ok (typeOfVal v)
  match t? with
  | .error e => (f, some e)
  | .ok t =>
    match mkDtype (f.cols ++ [(name, t)]) with
    | .error e => (f, some e)
    | .ok cols' =>
      match convCol t col with
      | .error e => (f, some e)
      | .ok ws =>
        ({ cols := cols', rows := appendCell f.rows ws,
           units := f.units.map (· ++ [none]) }, none)

def setMany : List Row → List Nat → List Row → List Row
  | rows, k :: ks, r :: rs => setMany (rows.set k r) ks rs
  | rows, _, _ => rows

def maxInt : List Int → Int
  | [] => 0
  | [a] => a
  | a :: rest => max a (maxInt rest)

/-- `write_rows(rows, index)` (nested form) -/
def writeRows (f : Frame) (rows : List (List Val)) (idx : List Int) : Frame × Option Err :=
  match rows with
  | [] => (f, some .indexError)                     -- rows[0]
  | _ =>
    if rows.length ≠ idx.length then (f, some .indexError) else
    if maxInt idx > (f.rows.length : Int) - 1 then (f, some .outOfBounds) else
    -- h5py: the value is converted to the dataset's dtype, then the selection is built
    match convRows f.types rows with
    | .error e => (f, some e)
    | .ok rs =>
      match selectList f.rows.length idx .typeError with
      | .error e => (f, some e)
      | .ok ks => ({ f with rows := setMany f.rows ks rs }, none)

/-- `write_rows(row, index)` with a flat row whose first cell is not iterable -/
def writeRowFlat (f : Frame) (row : List Val) (idx : List Int) : Frame × Option Err :=
  match row with
  | [] => (f, some .indexError)
  | _ => if idx.length ≠ 1 then (f, some .typeError) else writeRows f [row] idx

/-- the conversion loop of `write_column` over an in-memory copy of the table: row i gets its field replaced;
    a cell that cannot be converted stops the loop (nothing has been written to the file at that point) -/
def writeColLoop (t : ColType) (c : Nat) : List Row → List Val → List Row × Option Err
  | r :: rs, v :: vs =>
    match conv t v with
    | .error e => (r :: rs, some e)
    | .ok w =>
      let p := writeColLoop t c rs vs
      (r.set c w :: p.1, p.2)
  | rs, _ => (rs, none)

/-- the column name `write_column` works with: `name`, else `column_names[index]` (a tuple index) -/
def resolveColName (f : Frame) (index : Option Int) (name : Option String) : Except Err String :=
  match name with
  | some n => .ok n
  | none => match index with
    | none => .error .valueError
    | some i => match normIdx f.cols.length i with
      | none => .error .indexError
      | some k => match f.cols[k]? with
        | some c => .ok c.1
        | none => .error .indexError

def writeColumn (f : Frame) (col : List Val) (index : Option Int) (name : Option String) : Frame × Option Err :=
  if col.length ≠ f.rows.length then (f, some .valueError) else
  match resolveColName f index name with
  | .error e => (f, some e)
  | .ok nm =>
    match f.rows with
    | [] => (f, none)                                -- no iteration: even an unknown name passes
    | _ =>
      match findCol f.cols nm with
      | none => (f, some .valueError)                -- rows[name] in the first iteration
      | some c => match f.cols[c]? with
        | none => (f, some .valueError)
        | some ct =>
          -- every cell is converted first; the rows are written afterwards and put back if storing fails
          -- (h5py's refusal of a non-string cell for a text column), so a refused column changes nothing
          match writeColLoop ct.2 c f.rows col with
          | (rows', none) => ({ f with rows := rows' }, none)
          | (_, some e) => (f, some e)

/-- `write_cell(cell, position=[row, col])` -/
def writeCellPos (f : Frame) (cell : Val) (pos : List Int) : Frame × Option Err :=
  match pos with
  | [ri, ci] =>
    match normIdx f.rows.length ri with
    | none => (f, some .indexError)
    | some r => match f.rows[r]? with
      | none => (f, some .indexError)
      | some row => match normIdx f.cols.length ci with
        | none => (f, some .indexError)
        | some c => match f.cols[c]? with
          | none => (f, some .indexError)
          | some ct => match conv ct.2 cell with
            | .error e => (f, some e)
            | .ok w => ({ f with rows := f.rows.set r (row.set c w) }, none)
  | _ => (f, some .valueError)

/-- `write_cell(cell, col_name=, row_idx=)` -/
def writeCellName (f : Frame) (cell : Val) (name : String) (ri : Int) : Frame × Option Err :=
  match normIdx f.rows.length ri with
  | none => (f, some .indexError)
  | some r => match f.rows[r]? with
    | none => (f, some .indexError)
    | some row => match findCol f.cols name with
      | none => (f, some .valueError)
      | some c => match f.cols[c]? with
        | none => (f, some .valueError)
        | some ct => match conv ct.2 cell with
          | .error e => (f, some e)
          | .ok w => ({ f with rows := f.rows.set r (row.set c w) }, none)

/-- `units = [...]`: exactly one entry per column; "" is stored for None and reads back as None -/
def setUnits (f : Frame) (us : List (Option String)) : Frame × Option Err :=
  if us.length ≠ f.cols.length then (f, some .valueError)
  else ({ f with units := some (us.map (fun u => if u = some "" then none else u)) }, none)

def step (f : Frame) : Op → Frame × Option Err
  | .appendRows rows => appendRows f rows
  | .appendColumn col name dt => appendColumn f col name dt
  | .writeRows rows idx => writeRows f rows idx
  | .writeRowFlat row idx => writeRowFlat f row idx
  | .writeColumn col index name => writeColumn f col index name
  | .writeCellPos cell pos => writeCellPos f cell pos
  | .writeCellName cell name row => writeCellName f cell name row
  | .setUnits us => setUnits f us

/-- the frame after a history of operations (refused ones included: they leave whatever `step` says) -/
def run (f : Frame) (ops : List Op) : Frame := ops.foldl (fun g op => (step g op).1) f

end Nix.Frame
