import NixModel.Pure.Upgrade
import NixModel.Generated.FormatConst

/-!
# Opening the upgraded file for writing, over the constants regenerated from `nixio/file.py`

`Generated/FormatConst.lean` (translator of property C11, `harness/extract/fileconst.py`) holds the pieces of
`can_write` and `File._check_header`: the length test, the comparison `HDF_FF_VERSION <cmp> filever`, the version from
which a file id is demanded and its comparison, and `HDF_FF_VERSION` itself.  `openRWG` interprets them over the
upgrade model's file; `Nix.C18.C18_shape_open` proves it equal to the hand-written `openRW` the theorems use.
-/
namespace Nix.Upgrade.Shape
open Nix.Upgrade Nix.Gen

/-- a comparison of the generated vocabulary on version tuples (Python tuple order) -/
def cmpVersions : Format.Cmp → List Nat → List Nat → Bool
  | .eq, a, b => a == b
  | .ne, a, b => a != b
  | .lt, a, b => decide (a < b)
  | .le, a, b => decide (a ≤ b)
  | .gt, a, b => decide (b < a)
  | .ge, a, b => decide (b ≤ a)

/-- `File._check_header(FileMode.ReadWrite)` on a NIX file: `can_write` (length, then `lib <cmp> filever`), then the
id test from the threshold on (`util.is_uuid(self.id)`; an absent or empty id is not a UUID) -/
def openRWG (lib : List Nat) (f : File) : Except Err Unit :=
  if f.version.length != Format.versionLen then .error .runtimeError
  else if !cmpVersions Format.canWriteCmp lib f.version then .error .runtimeError
  else if cmpVersions Format.idThresholdCmp f.version (Format.idThreshold.map Int.toNat) && !hasValidId f then
    .error .runtimeError
  else .ok ()

/-- `HDF_FF_VERSION` -/
def libVersionNat : List Nat := Format.libVersion.map Int.toNat

end Nix.Upgrade.Shape
