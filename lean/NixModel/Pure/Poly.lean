import NixModel.Basic

/-!
# Model of the calibration read path (`nixio/data_array.py`, `nixio/util/util.py`, `nixio/data_view.py`)

What is modelled, branch for branch:

* `DataArray._read_data` (`data_array.py:51-65`): getters for the two calibration attributes, the raw
  (possibly sliced) read, the length-1 shape for a single value, the `len(coeff) or origin` test, the
  `origin` default, the conversion to double and `util.apply_polynomial`;
* `util.apply_polynomial` (`util/util.py:135-138`): subtract the origin, then — only when there are
  coefficients — `numpy.polynomial.polynomial.polyval`, written as NumPy's loop
  (`c0 = c[-1] + x*0; for i in 2..len: c0 = c[-i] + c0*x`);
* the setters `polynom_coefficients` / `expansion_origin` (`data_array.py:229-267`) with their validation
  and `None` handling, and the getters;
* `DataView.__init__`, `DataView._read_data`, `_transform_coordinates` and `_expand_user_slices` for
  integer and slice items (`data_view.py:21-67, 104-200`): every view read (and therefore every `tagged_data` / `feature_data` /
  `get_slice` read — all of them return a `DataView`) goes through the parent's `_read_data`.

Stand-ins (modelled, not verified; exercised by the correspondence runs): the h5py hyperslab read
`dataset[sel]` is `select` + `gather` (row-major positions of integer / slice items, CPython
`slice.indices`, h5py's `Step must be >= 1`, out-of-range integer ⇒ `IndexError`); numbers that are
doubles in Python are exact rationals here, so `astype(double)` is the identity (`toDouble`) and the
rounding of the float Horner evaluation is outside the model (DESIGN §5).
-/
namespace Nix.Poly

/-- element types a numeric DataArray can be stored with (`nixio.DataType` + bool) -/
inductive DType where
  | uint8 | uint16 | uint32 | uint64 | int8 | int16 | int32 | int64 | float32 | float64 | bool
  deriving DecidableEq, Repr, Inhabited

def DType.name : DType → String
  | .uint8 => "uint8" | .uint16 => "uint16" | .uint32 => "uint32" | .uint64 => "uint64"
  | .int8 => "int8" | .int16 => "int16" | .int32 => "int32" | .int64 => "int64"
  | .float32 => "float32" | .float64 => "float64" | .bool => "bool"

def DType.all : List DType :=
  [.uint8, .uint16, .uint32, .uint64, .int8, .int16, .int32, .int64, .float32, .float64, .bool]

def DType.ofName? (s : String) : Option DType := DType.all.find? (fun d => d.name == s)

/-! ## Index machinery (CPython `slice.indices`, h5py simple selections) -/

/-- CPython `slice(start, stop, step).indices(len)` (`PySlice_Unpack` + `PySlice_AdjustIndices`) -/
def sliceIndices (start stop step : Option Int) (len : Nat) : Except Err (Int × Int × Int) :=
  let st : Int := match step with | none => 1 | some s => s
  if st = 0 then .error .valueError
  else
    let n : Int := len
    let lower : Int := if st < 0 then -1 else 0
    let upper : Int := if st < 0 then n - 1 else n
    let clamp (v : Int) : Int :=
      if v < 0 then (if v + n < lower then lower else v + n)
      else (if v > upper then upper else v)
    let s := match start with
      | none => if st < 0 then upper else lower
      | some v => clamp v
    let e := match stop with
      | none => if st < 0 then lower else upper
      | some v => clamp v
    .ok (s, e, st)

/-- one item of an index expression -/
inductive AxisIx where
  | int (i : Int)
  | slice (start stop step : Option Int)
  deriving DecidableEq, Repr, Inhabited

/-- an index expression: `none` is `sl=None` (whole read), otherwise a tuple of items -/
abbrev Index := Option (List AxisIx)

def fullSlice : AxisIx := .slice none none none

/-- h5py: the indices one item selects along an axis of length `len`, and whether the axis is kept.
`H5DataSet.read_data` turns h5py's `ValueError`/`TypeError` into `IndexError`. -/
def axisSel (len : Nat) : AxisIx → Except Err (List Nat × Bool)
  | .int i =>
    let j : Int := if i < 0 then i + len else i
    if j < 0 ∨ j ≥ len then .error .indexError else .ok ([j.toNat], false)
  | .slice s e st =>
    match sliceIndices s e st len with
    | .error _ => .error .indexError            -- "slice step cannot be zero" (ValueError → IndexError)
    | .ok (s, e, st) =>
      if st < 1 then .error .indexError          -- h5py: "Step must be >= 1"
      else
        let e := if e < s then s else e
        let count : Nat := (1 + (e - s - 1) / st).toNat
        .ok ((List.range count).map (fun (k : Nat) => (s + (k : Int) * st).toNat), true)

/-- h5py pads a short tuple with full slices and refuses a long one -/
def padIndex (rank : Nat) (ixs : List AxisIx) : Except Err (List AxisIx) :=
  if ixs.length > rank then .error .indexError
  else .ok (ixs ++ List.replicate (rank - ixs.length) fullSlice)

/-- flat row-major positions of the cartesian product of per-axis index lists -/
def flatPositions : List Nat → List (List Nat) → List Nat
  | _ :: ds, ax :: axs =>
    let inner := flatPositions ds axs
    ax.flatMap fun i => inner.map (· + i * ds.prod)
  | _, _ => [0]

/-- the selection an index expression denotes on an array of shape `shape`:
shape of the result and flat positions of the selected elements, in result order -/
def select (shape : List Nat) (ix : Index) : Except Err (List Nat × List Nat) := do
  let items := match ix with
    | none => [fullSlice]                        -- `read_data(None)` reads `dataset[slice(None)]`
    | some l => l
  let items ← padIndex shape.length items
  let sels ← (List.zip shape items).mapM (fun di => axisSel di.1 di.2)
  let outShape := sels.filterMap fun s => if s.2 then some s.1.length else none
  .ok (outShape, flatPositions shape (sels.map (·.1)))

/-- pick the elements at the given flat positions -/
def gather {α : Type} (xs : List α) (pos : List Nat) : Except Err (List α) :=
  pos.mapM fun p => match xs[p]? with
    | some x => .ok x
    | none => .error .indexError

/-! ## The array, its calibration attributes and the read path -/

/-- a DataArray as far as C15 is concerned -/
structure Arr where
  dtype : DType
  shape : List Nat
  /-- stored elements, row-major -/
  raw : List Rat
  /-- the dataset `polynom_coefficients` (`none`: not present) -/
  coeffs : Option (List Rat)
  /-- the attribute `expansion_origin` (`none`: not present) -/
  origin : Option Rat
  deriving DecidableEq, Repr, Inhabited

/-- what a read returns -/
structure Result where
  dtype : DType
  shape : List Nat
  vals : List Rat
  deriving DecidableEq, Repr, Inhabited

/-- getter: `tuple(self._h5group.get_data("polynom_coefficients"))` — `()` when absent -/
def Arr.coeffsGet (a : Arr) : List Rat :=
  match a.coeffs with
  | none => []
  | some l => l

/-- getter: `self._h5group.get_attr("expansion_origin")` -/
def Arr.originGet (a : Arr) : Option Rat := a.origin

/-- Python truth value of the origin attribute (`None`, `0`, `0.0`, `False` are false) -/
def truthy (o : Option Rat) : Bool :=
  match o with
  | none => false
  | some x => x != 0

/-- `data.astype(DataType.Double)`; exact rationals stand for doubles, rounding is not modelled -/
def toDouble (x : Rat) : Rat := x

/-- the loop of `numpy.polynomial.polynomial.polyval`: `c0 = c[-i] + c0*x` over the remaining
coefficients in descending order -/
def polyvalLoop (x : Rat) : Rat → List Rat → Rat
  | c0, [] => c0
  | c0, a :: rest => polyvalLoop x (a + c0 * x) rest

/-- `numpy.polynomial.polynomial.polyval(x, c)` for one element; `c[-1]` on an empty `c` is an IndexError -/
def polyval (x : Rat) (c : List Rat) : Except Err Rat :=
  match c.reverse with
  | [] => .error .indexError
  | top :: rest => .ok (polyvalLoop x (top + x * 0) rest)

/-- `util.apply_polynomial(coefficients, origin, data)` -/
def applyPolynomial (coefficients : List Rat) (origin : Rat) (data : List Rat) : Except Err (List Rat) :=
  let data := data.map (· - origin)
  if coefficients.isEmpty then .ok data          -- `if coefficients:` is false
  else data.mapM (fun x => polyval x coefficients)

/-- `super()._read_data(sl)`: the raw hyperslab read -/
def rawRead (a : Arr) (ix : Index) : Except Err (List Nat × List Rat) := do
  let (shape, pos) ← select a.shape ix
  let vals ← gather a.raw pos
  .ok (shape, vals)

/-- `if not len(data.shape): data.shape = (1,)` -/
def fixShape (shape : List Nat) : List Nat := if shape.length = 0 then [1] else shape

/-- `DataArray._read_data(sl)` -/
def readData (a : Arr) (ix : Index) : Except Err Result := do
  let coeff := a.coeffsGet
  let origin := a.originGet
  let (shape, vals) ← rawRead a ix
  let shape := fixShape shape
  if coeff.length != 0 || truthy origin then
    let o : Rat := match origin with
      | none => 0
      | some x => if x = 0 then 0 else x           -- `if not origin: origin = 0.0`
    let vals ← applyPolynomial coeff o (vals.map toDouble)
    .ok ⟨.float64, shape, vals⟩
  else
    .ok ⟨a.dtype, shape, vals⟩

/-! ## Ticks of a range dimension linked to the array

`RangeDimension.link_data_array(array, index)` validates the index (`_check_link_dimensionality`, `_check_index`:
one entry per axis, exactly one `-1`, no other negative entry); `dimension.ticks` / `DimensionLink.values` then
read the linked vector as `linked_data[index with -1 ↦ :]`, where `linked_data` is the *HDF5 dataset* of the
array (`H5Group.get_data("data")`): NumPy basic indexing of the stored elements.  The calibration is not
applied on this path (it does not go through `_read_data`). -/

def linkValues (a : Arr) (index : List Int) : Except Err (List Rat) :=
  if index.length != a.shape.length then .error .valueError      -- `IncompatibleDimensions`, a `ValueError`
  else if index.count (-1) != 1 || (index.filter (· < 0)).length != 1 then .error .valueError
  else do
    let items := index.map fun i => if i = -1 then fullSlice else AxisIx.int i
    let (_, vals) ← rawRead a (some items)
    .ok vals

/-! ## Views -/

/-- a `DataView`: validity flag and, when valid, the simplified `(start, stop)` window per axis (step 1) -/
structure View where
  valid : Bool
  slices : List (Int × Int)
  deriving DecidableEq, Repr, Inhabited

/-- `DataView.__init__(da, slices)` with `slices` a tuple of `slice(start, stop)` or `None` -/
def mkView (shape : List Nat) (win : Option (List (Int × Int))) : View :=
  match win with
  | none => ⟨false, []⟩
  | some sl =>
    -- `all(slices)`: slice objects are always true
    if sl.length != shape.length then ⟨false, sl⟩
    else if (List.zip sl shape).any (fun se => se.1.2 > (se.2 : Int)) then ⟨false, sl⟩
    else if sl.any (fun se => se.1 < 0 || se.2 < se.1) then ⟨false, sl⟩    -- negative start / extent
    else
      let simp := (List.zip sl shape).map fun se =>
        match sliceIndices (some se.1.1) (some se.1.2) none se.2 with
        | .ok (s, e, _) => (s, e)
        | .error _ => se.1                       -- unreachable: the step is `None`
      ⟨true, simp⟩

/-- `transform_slice` + the bounds checks of `_transform_coordinates` for one axis -/
def transformAxis (dv : Int × Int) : AxisIx → Except Err AxisIx
  | .int u =>
    let t := if u < 0 then dv.2 + u else u + dv.1
    if t < dv.1 ∨ t ≥ dv.2 then .error .outOfBounds else .ok (.int t)
  | .slice s e st =>
    let dimlen := dv.2 - dv.1
    if dimlen < 0 then .error .valueError        -- `indices` refuses a negative length
    else
      match sliceIndices s e st dimlen.toNat with
      | .error err => .error err
      | .ok (us, ue, ustep) =>
        let ue := if ue < 0 then dimlen + ue else ue
        let tstart := dv.1 + us
        let tstop := dv.1 + ue
        if tstop > dv.2 then .error .outOfBounds
        else if ustep < 0 then .error .valueError
        else if tstart < dv.1 then .error .outOfBounds
        else .ok (.slice (some tstart) (some tstop) (some ustep))

/-- `_transform_coordinates(user_slices)` (no Ellipsis): more items than the view has dimensions is an
IndexError (`_expand_user_slices`); otherwise pad at the end and transform axis by axis -/
def transformCoordinates (dvslices : List (Int × Int)) (user : List AxisIx) : Except Err (List AxisIx) :=
  if user.length > dvslices.length then .error .indexError
  else
    let padded := user ++ List.replicate (dvslices.length - user.length) fullSlice
    (List.zip padded dvslices).mapM (fun ud => transformAxis ud.2 ud.1)

/-- `DataView._read_data(sl)` -/
def readView (a : Arr) (v : View) (uix : Index) : Except Err Result :=
  if !v.valid then .ok ⟨.float64, [0], []⟩        -- `np.array([])`
  else
    match uix with
    | none => readData a (some (v.slices.map fun se => AxisIx.slice (some se.1) (some se.2) (some 1)))
    | some l => do
      let tsl ← transformCoordinates v.slices l
      readData a (some tsl)

/-! ## Setters and histories -/

/-- what can be assigned to `polynom_coefficients` -/
inductive CoeffArg where
  | none                       -- `None`
  | seq (cs : List Rat)        -- list / tuple / 1-D ndarray of numbers
  | scalar (x : Rat)           -- a bare number (has no `len`)
  /-- something with a length that is not a flat sequence (`np.ndim ≠ 1`): nested list, 2-D ndarray, `str`,
  `dict` … ; `len` is what `len()` returns -/
  | notFlat (len : Nat)
  /-- a non-empty flat sequence with an element that cannot be stored as a double: text (`ValueError` of the
  conversion) or, with `cplx`, a complex number (`TypeError`) -/
  | badElems (cplx : Bool)
  deriving DecidableEq, Repr, Inhabited

/-- what can be assigned to `expansion_origin` -/
inductive OriginArg where
  | none                       -- `None`
  | num (x : Rat)              -- any `numbers.Number`
  | notNumber                  -- anything else (str, list, ndarray …)
  deriving DecidableEq, Repr, Inhabited

/-- `polynom_coefficients.setter` -/
def setCoeffs (a : Arr) : CoeffArg → Except Err Arr
  | .none => .ok { a with coeffs := none }                   -- delete the dataset if present
  | .scalar _ => .error .typeError                           -- `len(coeff)` of a number
  | .seq cs =>
    if cs.length = 0 then .ok { a with coeffs := none }
    else .ok { a with coeffs := some cs }                    -- (re)size the dataset and write doubles
  | .notFlat n =>
    if n = 0 then .ok { a with coeffs := none }              -- `""`, `{}`, an empty 2-D array: `len(coeff) == 0`
    else .error .valueError                                  -- `np.ndim(coeff) != 1`
  | .badElems cplx =>
    -- `write_data` converts to double before the dataset is created or resized
    .error (if cplx then .typeError else .valueError)

/-- `expansion_origin.setter`: `check_attr_type(origin, Number)` then `set_attr` (None deletes) -/
def setOrigin (a : Arr) : OriginArg → Except Err Arr
  | .notNumber => .error .typeError
  | .none => .ok { a with origin := none }
  | .num x => .ok { a with origin := some x }

inductive Op where
  | setCoeffs (c : CoeffArg)
  | setOrigin (o : OriginArg)
  | read (ix : Index)
  | readView (win : Option (List (Int × Int))) (uix : Index)
  | getCoeffs
  | getOrigin
  | rawDump
  /-- link a range dimension of another array to this one at `index` and read its `ticks` -/
  | linkTicks (index : List Int)
  /-- `da[:] = vals` with as many values as the array has elements -/
  | write (vals : List Rat)
  | reopen
  deriving DecidableEq, Repr, Inhabited

inductive Out where
  | unit
  | err (e : Err)
  | result (r : Result)
  | coeffs (l : List Rat)
  | origin (o : Option Rat)
  | raw (dtype : DType) (shape : List Nat) (vals : List Rat)
  deriving DecidableEq, Repr, Inhabited

def step (a : Arr) : Op → Arr × Out
  | .setCoeffs c =>
    match setCoeffs a c with
    | .ok a' => (a', .unit)
    | .error e => (a, .err e)
  | .setOrigin o =>
    match setOrigin a o with
    | .ok a' => (a', .unit)
    | .error e => (a, .err e)
  | .read ix =>
    match readData a ix with
    | .ok r => (a, .result r)
    | .error e => (a, .err e)
  | .readView win uix =>
    match readView a (mkView a.shape win) uix with
    | .ok r => (a, .result r)
    | .error e => (a, .err e)
  | .getCoeffs => (a, .coeffs a.coeffsGet)
  | .getOrigin => (a, .origin a.originGet)
  | .rawDump => (a, .raw a.dtype a.shape a.raw)
  | .linkTicks index =>
    match linkValues a index with
    | .ok vals => (a, .coeffs vals)
    | .error e => (a, .err e)
  | .write vals =>
    if vals.length = a.raw.length then ({ a with raw := vals }, .unit)
    else (a, .err .typeError)                                 -- h5py: "Can't broadcast"
  | .reopen => (a, .unit)

/-- run a history, collecting the outputs -/
def run (a : Arr) : List Op → Arr × List Out
  | [] => (a, [])
  | op :: ops =>
    let (a', o) := step a op
    let (a'', os) := run a' ops
    (a'', o :: os)

/-- the state after a history -/
def exec (a : Arr) (ops : List Op) : Arr := (run a ops).1

end Nix.Poly
