import NixModel.Basic
import NixModel.Pure.DataView
import NixModel.Pure.Dim

/-!
# Pure.ViewData — `DataArray.get_slice(positions, extents, DataSliceMode.Data)` (property C06)

`_get_slice_bydim` (`nixio/data_array.py`): positions and extents are in the units of the
dimension descriptors; per dimension they are converted to a start index and an extent in samples
through `index_of` (C07's functions, `Pure/Dim.lean`), the window `slice(start, start + extent)` is
handed to `DataView`:

* sampled dimension: `start = index_of(pos, GreaterOrEqual)`, `extent = index_of(pos + ext) - start`
  (default mode `LessOrEqual`); an `IndexError` of `index_of` propagates;
* range dimension: the same on the ticks, but an `IndexError` gives `start = extent = -1`;
* set dimension: `int(pos)`, `int(ext)` (truncation toward zero);
* a negative extent ends the loop at once with `DataView(self, None)`: invalid and empty — later
  dimensions are not looked at (so their errors do not surface);
* `zip(self.dimensions, positions, extents)` stops at the shortest: an array with fewer
  descriptors than dimensions gets fewer windows than dimensions ⇒ invalid view.

Floats are exact rationals (DESIGN §5); `pos + ext` is the exact sum.  No Mathlib.
-/
namespace Nix.ViewData
open Nix.Py Nix.NdIndex Nix.DataView Nix.Dim

/-- what `_get_slice_bydim` reads of a dimension descriptor -/
inductive DimDesc where
  /-- `SampledDimension`: offset (`None` ⇒ 0) and sampling interval -/
  | sampled (off si : Rat)
  /-- `RangeDimension`: its ticks -/
  | range (ticks : List Rat)
  /-- `SetDimension` (labels are not consulted) -/
  | set
  deriving Repr, Inhabited

/-- Python `int(x)` of a float: truncation toward zero -/
def truncRat (x : Rat) : Int := if x < 0 then x.ceil else x.floor

/-- `index_of(pos, GEQ)` and `index_of(pos + ext)` (default `LessOrEqual`) → `(start, extent)` -/
def startExtent (a b : Except Err Int) : Except Err (Int × Int) :=
  match a with
  | .error e => .error e
  | .ok s =>
    match b with
    | .error e => .error e
    | .ok l => .ok (s, l - s)

/-- one pass of the loop body: `(start_pos, extent)` -/
def bydimAxis : DimDesc → Rat → Rat → Except Err (Int × Int)
  | .sampled off si, pos, ext =>
    startExtent (sampledIndexOf off si pos .geq) (sampledIndexOf off si (pos + ext) .leq)
  | .range ticks, pos, ext =>
    match startExtent (rangeIndexOf ticks pos .geq) (rangeIndexOf ticks (pos + ext) .leq) with
    | .error .indexError => .ok (-1, -1)
    | r => r
  | .set, pos, ext => .ok (truncRat pos, truncRat ext)

/-- the loop: `none` = left through `return DataView(self, None)` -/
def bydimLoop : List DimDesc → List Rat → List Rat → Except Err (Option (List Win))
  | d :: ds, p :: ps, e :: es =>
    match bydimAxis d p e with
    | .error err => .error err
    | .ok (s, x) =>
      if x < 0 then .ok none
      else
        match bydimLoop ds ps es with
        | .error err => .error err
        | .ok none => .ok none
        | .ok (some ws) => .ok (some ((s, s + x) :: ws))
  | _, _, _ => .ok (some [])

/-- `get_slice(positions, extents, mode=DataSliceMode.Data)`: the guards of `get_slice`, then
`_get_slice_bydim` -/
def getSliceData (shape : List Nat) (dims : List DimDesc) (positions : List Rat)
    (extents : Option (List Rat)) : Except Err View :=
  if positions.length ≠ shape.length then .error .incompatibleDimensions
  else
    match extents with
    | none => .error .typeError              -- zip(self.dimensions, positions, None)
    | some ext =>
      if ext ≠ [] ∧ ext.length ≠ shape.length then .error .incompatibleDimensions
      else
        match bydimLoop dims positions ext with
        | .error e => .error e
        | .ok none => .ok (mkView shape none)
        | .ok (some ws) => .ok (mkView shape (some (ws.map some)))

end Nix.ViewData
