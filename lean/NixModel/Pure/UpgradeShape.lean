import NixModel.Pure.Upgrade

/-!
# Vocabulary and interpreters for the *shape* of `nixio/cmd/upgrade.py`

`harness/extract/upgradeshape.py` reads the source with `ast` and writes
`NixModel/Generated/UpgradeShape.lean` in this vocabulary: the version comparison and the order of the task
constructors in `collect_tasks`, the direction of the loop in `process_tasks`, the tests that find / re-check the
objects to convert (boolean expressions over atoms), and the rules for the per-value extras of one property
conversion.  The interpreters below give those constants a meaning over the model's file; the theorems
`Nix.C18.C18_shape_*` prove the interpreted source shape equal to the hand-written model
(`Nix.Upgrade.collect`, `converted`, the re-checked preconditions).
-/
namespace Nix.Upgrade.Shape
open Nix.Upgrade

inductive Cmp where
  | ge | gt | eq | le | lt | ne
  deriving DecidableEq, Repr

/-- Python tuple comparison `a <op> b` -/
def Cmp.eval : Cmp → List Nat → List Nat → Bool
  | .ge, a, b => decide (b ≤ a)
  | .gt, a, b => decide (b < a)
  | .eq, a, b => a == b
  | .le, a, b => decide (a ≤ b)
  | .lt, a, b => decide (a < b)
  | .ne, a, b => a != b

inductive Task where
  | fileId | props | aliasDims | version
  deriving DecidableEq, Repr

inductive Direction where
  | forward | backward
  deriving DecidableEq, Repr

inductive BExp where
  | atom (s : String)
  | not (e : BExp)
  | and (a b : BExp)
  | or (a b : BExp)
  deriving Repr

/-- evaluation with Python's `not` / `and` / `or` on truth values; an unknown atom has no value -/
def BExp.eval (env : String → Option Bool) : BExp → Option Bool
  | .atom s => env s
  | .not e => (e.eval env).map (!·)
  | .and a b => do let x ← a.eval env; let y ← b.eval env; pure (x && y)
  | .or a b => do let x ← a.eval env; let y ← b.eval env; pure (x || y)

inductive Test where
  | distinctGt1      -- `len(set(x)) > 1`
  | anyTruthy        -- `any(x)`
  deriving DecidableEq, Repr

inductive Act where
  | prop (suffix dtype : String)     -- `create_property(hfile, propname + suffix, dtype=…, data=x)`
  | attrHead (attr : String)         -- `newprop.attrs[attr] = x[0]`
  deriving DecidableEq, Repr

structure Rule where
  field : String
  test : Test
  act : Act
  /-- the rule is the `elif` of the rule before it -/
  elseOfPrev : Bool
  deriving DecidableEq, Repr

/-! ## `collect_tasks` -/

/-- the steps of the closure a task constructor returns -/
def taskSteps (f : File) : Task → List Step
  | .fileId => [Step.addId]
  | .props => (propTasks f).map Step.prop
  | .aliasDims => (aliasDims f.arrays).map fun ad => Step.dim ad.1 ad.2
  | .version => [Step.bump]

/-- does the constructor return a closure (`idOuter`: `add_file_id` tests `has_valid_file_id` first) -/
def taskNeeded (idOuter : Bool) (f : File) : Task → Bool
  | .fileId => !(idOuter && hasValidId f)
  | .props => !(propTasks f).isEmpty
  | .aliasDims => !(aliasDims f.arrays).isEmpty
  | .version => true

/-- `collect_tasks` read off the source shape: version test `op`, constructors in `order`
(`true`: appended only when a closure came back) -/
def collectG (op : Cmp) (order : List (Task × Bool)) (idOuter : Bool) (lib : List Nat) (f : File) : List Step :=
  if op.eval f.version lib then []
  else order.flatMap fun tc => if tc.2 && !taskNeeded idOuter f tc.1 then [] else taskSteps f tc.1

/-- the order in which `process_tasks` runs a list -/
def runOrder : Direction → List Step → List Step
  | .forward, l => l
  | .backward, l => l.reverse

/-! ## tests on objects -/

/-- a dataset below `/metadata`: it is a dataset, and compound iff it has the old layout -/
def propEnv (o : PObj) (s : String) : Option Bool :=
  if s == "dataset" then some true
  else if s == "compound" then some (match o with | .old _ => true | .new _ => false)
  else none

/-- members of a dimension group -/
def dimEnv (d : Dim) (s : String) : Option Bool :=
  if s == "has:ticks" then some d.ticks.isSome
  else if s == "has:link" then some d.link.isSome
  else if s == "has:<array id>" then some d.alias
  else none

/-! ## readers of a range dimension (`nixio/dimensions.py`) -/

/-- where a getter of `RangeDimension` takes its answer from -/
inductive Source where
  | redirect      -- the group behind the old alias link (`_redirgrp`)
  | link          -- the `DimensionLink`
  | own           -- the dimension group itself
  deriving DecidableEq, Repr

/-- first rule whose test holds -/
def firstMatch {α : Type} (env : String → Option Bool) : List (BExp × α) → α → Option α
  | [], d => some d
  | (t, a) :: rest, d => match t.eval env with
    | none => none
    | some true => some a
    | some false => firstMatch env rest d

/-- atoms of `is_alias`; `len(self._h5group) > 0`: the group's members are `ticks`, `link` and the alias link -/
def readEnv (d : Dim) (s : String) : Option Bool :=
  if s == "has:ticks" then some d.ticks.isSome
  else if s == "has:link" then some d.link.isSome
  else if s == "nonempty" then some (d.ticks.isSome || d.link.isSome || d.alias)
  else if s == "link:DataArray" then some (match d.link with | some l => l.dataObjectType == "DataArray" | none => false)
  else none

/-- atoms of the getters: `is_alias` as computed by the rules of the source -/
def getterEnv (isAlias : Bool) (d : Dim) (s : String) : Option Bool :=
  if s == "is_alias" then some isAlias
  else if s == "has:link" then some d.link.isSome
  else none

/-- the source `readDim` reads from -/
def sourceOf (d : Dim) : Source :=
  if isAliasRead d && d.link.isNone then .redirect
  else if d.link.isSome then .link
  else .own

/-! ## one property conversion -/

inductive Column where
  | flt (xs : List Flt)
  | str (xs : List String)
  deriving Repr

/-- `prop["<field>"]` of the compound dataset -/
def column (o : OldProp) (field : String) : Option Column :=
  if field == "uncertainty" then some (.flt (o.rows.map (·.uncertainty)))
  else if field == "reference" then some (.str (o.rows.map (·.reference)))
  else if field == "filename" then some (.str (o.rows.map (·.filename)))
  else if field == "encoder" then some (.str (o.rows.map (·.encoder)))
  else if field == "checksum" then some (.str (o.rows.map (·.checksum)))
  else none

def Test.eval : Test → Column → Bool
  | .distinctGt1, .flt xs => decide (distinctCount xs > 1)
  | .distinctGt1, .str xs => decide (xs.eraseDups.length > 1)
  | .anyTruthy, .flt xs => xs.any Flt.truthy
  | .anyTruthy, .str xs => xs.any (· != "")

def Column.vals : Column → List Val
  | .flt xs => xs.map Val.flt
  | .str xs => xs.map Val.str

/-- the refusal test read off the source: is a name that the conversion needs taken? -/
def nameTakenG (refusal : List (String × String × Test)) (ps : List (Path × PObj)) (p : Path) (o : OldProp) :
    Option Bool :=
  match refusal with
  | [] => some false
  | e :: rest =>
    match column o e.2.1, nameTakenG rest ps p o with
    | some col, some r => some ((e.2.2.eval col && hasPath ps (extraPath p e.1)) || r)
    | _, _ => none

structure Acc where
  main : NewProp
  extras : List (Path × PObj)
  prevFired : Bool

def applyRule (run : Nat) (p : Path) (o : OldProp) (acc : Acc) (r : Rule) : Option Acc :=
  match column o r.field with
  | none => none
  | some col =>
    if r.elseOfPrev && acc.prevFired then some acc
    else if !r.test.eval col then some { acc with prevFired := false }
    else match r.act, col with
      | .prop suf dt, col =>
        some { acc with extras := acc.extras ++ [(extraPath p suf, .new (freshProp run dt col.vals))],
                        prevFired := true }
      | .attrHead a, .flt xs =>
        if a == "uncertainty" then some { acc with main := { acc.main with uncertainty := xs.head? }, prevFired := true }
        else none
      | .attrHead _, .str _ => none

def applyRules (run : Nat) (p : Path) (o : OldProp) : Acc → List Rule → Option Acc
  | acc, [] => some acc
  | acc, r :: rs => match applyRule run p o acc r with
    | none => none
    | some acc' => applyRules run p o acc' rs

/-- the objects one property conversion creates, read off the rules of the source -/
def convertedG (rules : List Rule) (run : Nat) (p : Path) (o : OldProp) : Option (List (Path × PObj)) :=
  let main : NewProp := { freshProp run o.dtype (o.rows.map (·.value)) with
                          definition := nonEmpty o.definition, unit := nonEmpty o.unit }
  (applyRules run p o ⟨main, [], false⟩ rules).map fun acc => (p, PObj.new acc.main) :: acc.extras

/-! ## `create_property`, the arguments of the main call, `has_valid_file_id`, `file_upgrade` -/

/-- where the value of an attribute written by `create_property` comes from -/
inductive CreateSrc where
  | lastComponent            -- `name.split("/")[-1]`
  | freshId                  -- `nix.util.create_id()`
  | now                      -- `nix.util.time_to_str(nix.util.now_int())`
  | param (p : String)       -- a parameter, as it was handed in
  deriving DecidableEq, Repr

inductive CreateCond where
  | always
  | truthy (p : String)      -- `if <parameter>:`
  deriving DecidableEq, Repr

structure AttrWrite where
  attr : String
  src : CreateSrc
  cond : CreateCond
  deriving DecidableEq, Repr

/-- what an argument of the main `create_property` call was read from -/
inductive OldSrc where
  | field (f : String)        -- `prop["<f>"]`
  | fieldDtype (f : String)   -- `prop["<f>"].dtype`
  | attr (a : String)         -- `prop.attrs.get("<a>")`
  deriving DecidableEq, Repr

/-- the arguments of one `create_property` call (the file and the name aside) -/
structure CreateArgs where
  dtype : String
  data : List Val
  definition : Option String
  unit : Option String
  deriving DecidableEq, Repr

/-- a text parameter by name -/
def CreateArgs.text (a : CreateArgs) (p : String) : Option (Option String) :=
  if p == "definition" then some a.definition
  else if p == "unit" then some a.unit
  else none

/-- a text attribute of the old dataset by name -/
def oldAttr (o : OldProp) (a : String) : Option (Option String) :=
  if a == "definition" then some o.definition
  else if a == "unit" then some o.unit
  else none

def findArg (args : List (String × OldSrc)) (k : String) : Option OldSrc :=
  (args.find? (·.1 == k)).map (·.2)

/-- the arguments of the main call, read off the source: each keyword with what it was read from -/
def mainArgsG (args : List (String × OldSrc)) (o : OldProp) : Option CreateArgs :=
  match findArg args "dtype", findArg args "data", findArg args "definition", findArg args "unit" with
  | some (.fieldDtype fd), some (.field fv), some (.attr ad), some (.attr au) =>
    if fd == "value" && fv == "value" && args.length == 4 then
      match oldAttr o ad, oldAttr o au with
      | some d, some u => some ⟨o.dtype, o.rows.map (·.value), d, u⟩
      | _, _ => none
    else none
  | _, _, _, _ => none

/-- the arguments of a call that passes `dtype` and `data` only: the other parameters must default to None -/
def defaultArgsG (params : List (String × Bool)) (dt : String) (vals : List Val) : Option CreateArgs :=
  if params == [("hfile", false), ("name", false), ("dtype", false), ("data", false), ("definition", true),
                ("unit", true)] then some ⟨dt, vals, none, none⟩
  else none

/-- the new dataset while its attributes are being written -/
structure Draft where
  name : Bool
  id : Option Id
  created : Option Stamp
  updated : Option Stamp
  definition : Option String
  unit : Option String

/-- the text an attribute write stores: the parameter as handed in; under `if <q>:` only when `q` is a non-empty
text (`None` and `""` are falsy); an unconditional write of `None` is not modelled -/
def textWrite (a : CreateArgs) (p : String) (c : CreateCond) : Option (Option String) :=
  match a.text p, c with
  | some v, .truthy q => (a.text q).map fun t => if (nonEmpty t).isSome then v else none
  | some (some t), .always => some (some t)
  | _, _ => none

def writeAttr (run : Nat) (a : CreateArgs) (d : Draft) (w : AttrWrite) : Option Draft :=
  if w.attr == "name" then
    (if w.src == .lastComponent && w.cond == .always then some { d with name := true } else none)
  else if w.attr == "entity_id" then
    (if w.src == .freshId && w.cond == .always then some { d with id := some (.fresh run) } else none)
  else if w.attr == "created_at" then
    (if w.src == .now && w.cond == .always then some { d with created := some (.now run) } else none)
  else if w.attr == "updated_at" then
    (if w.src == .now && w.cond == .always then some { d with updated := some (.now run) } else none)
  else if w.attr == "definition" then
    match w.src with
    | .param p => (textWrite a p w.cond).map fun t => { d with definition := t }
    | _ => none
  else if w.attr == "unit" then
    match w.src with
    | .param p => (textWrite a p w.cond).map fun t => { d with unit := t }
    | _ => none
  else none

def writeAttrs (run : Nat) (a : CreateArgs) : Draft → List AttrWrite → Option Draft
  | d, [] => some d
  | d, w :: ws => match writeAttr run a d w with
    | none => none
    | some d' => writeAttrs run a d' ws

/-- `create_property` read off the source: the parameters reach `create_dataset` unchanged, then the attribute
writes in order; the result is the model's new-layout property (the `name` attribute is the link name) -/
def createG (dataset : List (String × String)) (writes : List AttrWrite) (run : Nat) (a : CreateArgs) :
    Option NewProp :=
  if dataset == [("name", "name"), ("dtype", "dtype"), ("data", "data")] then
    match writeAttrs run a ⟨false, none, none, none, none, none⟩ writes with
    | some ⟨true, some i, some c, some u, d, un⟩ =>
      some { id := i, created := c, updated := u, dtype := a.dtype, values := a.data, definition := d, unit := un,
             uncertainty := none }
    | _ => none
  else none

/-- atoms of `has_valid_file_id` on the header's `id` attribute (`is_uuid(None)` is not reached and false anyway) -/
def idEnv (i : FileId) (s : String) : Option Bool :=
  if s == "truthy" then some (match i with | .absent => false | .text t => t != "" | .fresh _ => true)
  else if s == "is_uuid" then some (match i with | .absent => false | .text t => isUuid t | .fresh _ => true)
  else none

/-- `file_upgrade` read off the source: the task list is collected, then processed; `none` = it returns True -/
def entryG (ops : List String) (lib : List Nat) (run : Nat) (f : File) : Option (File × Option Err) :=
  if ops == ["collect", "process"] then some (runSteps lib run f (collect lib f)) else none

/-! ## the link group of a converted alias range dimension -/

inductive LinkVal where
  | freshId                  -- `nix.util.create_id()`
  | text (s : String)
  | ints (l : List Int)
  | now                      -- the time stamp taken in this conversion
  deriving DecidableEq, Repr

def findLinkVal (attrs : List (String × LinkVal)) (k : String) : Option LinkVal :=
  (attrs.find? (·.1 == k)).map (·.2)

/-- the link group read off the source: its five attributes, and its single member named like the array's id
(`link[daid] = parentda`, operation `target`) -/
def newLinkG (attrs : List (String × LinkVal)) (ops : List String) (run : Nat) (daid : String) : Option Link :=
  match findLinkVal attrs "entity_id", findLinkVal attrs "data_object_type", findLinkVal attrs "index",
        findLinkVal attrs "created_at", findLinkVal attrs "updated_at" with
  | some .freshId, some (.text t), some (.ints ix), some .now, some .now =>
    if attrs.length == 5 && ops.contains "target" then
      some { id := .fresh run, created := .now run, updated := .now run, dataObjectType := t, index := ix,
             target := daid }
    else none
  | _, _, _, _, _ => none

end Nix.Upgrade.Shape
