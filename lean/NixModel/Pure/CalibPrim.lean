import NixModel.Pure.Poly

/-!
# Vocabulary and interpreter for the *shape* of the calibration read path

`harness/extract/calibshape.py` parses `DataArray._read_data` (`nixio/data_array.py`),
`util.apply_polynomial` (`nixio/util/util.py`) and `DataView._read_data` (`nixio/data_view.py`) with `ast` and
renders their statement lists in the small languages below (`NixModel/Generated/CalibShape.lean`).  The
interpreters give those statements the meaning the corresponding Python statements have over the model state
of `NixModel/Pure/Poly.lean`; `Props/C15.lean` proves that the generated programs compute exactly the
hand-written model functions `readData` / `readView`, so an edit of the source that changes the order of the
steps, a condition, the conversion or the helper that is called breaks `lake build` on a named theorem.

Local variables are addressed by *role* (the translator follows the assignments and the parameter binding of
the call `util.apply_polynomial(coeff, origin, data)`): `coeff`, `origin`, `data`.
-/
namespace Nix.Poly

/-- conditions that occur in the read path -/
inductive Cond where
  /-- `len(coeff)` (truth value of the length) -/
  | lenCoeff
  /-- `coeff` / `coefficients` used as a truth value (a tuple: true iff non-empty) -/
  | coeffTruthy
  /-- `origin` used as a truth value (`None`, `0`, `0.0` are false) -/
  | originTruthy
  /-- `len(data.shape)` (truth value of the rank) -/
  | rank
  | not (c : Cond)
  | or (a b : Cond)
  | and (a b : Cond)
  deriving DecidableEq, Repr, Inhabited

/-- statements that occur in `DataArray._read_data` and `util.apply_polynomial` -/
inductive Stmt where
  | skip
  | seq (a b : Stmt)
  /-- `if c: t` (no `else`) -/
  | ite (c : Cond) (t : Stmt)
  /-- `coeff = self.polynom_coefficients` -/
  | loadCoeff
  /-- `origin = self.expansion_origin` -/
  | loadOrigin
  /-- `data = np.array(super(DataArray, self)._read_data(sl))` -/
  | rawRead
  /-- `data.shape = (1,)` -/
  | setShape1
  /-- `origin = <float constant>` -/
  | originConst (r : Rat)
  /-- `data = data.astype(DataType.<d>)` -/
  | astype (d : DType)
  /-- `util.apply_polynomial(coeff, origin, data)` (arguments in exactly this order) -/
  | callApply
  /-- `data[:] = data[:] - origin` -/
  | subOrigin
  /-- `data[:] = np.polynomial.polynomial.polyval(data, coeff)` -/
  | polyval
  deriving DecidableEq, Repr, Inhabited

/-- the local variables while `_read_data` runs; `data = none`: not assigned yet -/
structure RSt where
  coeff : List Rat
  origin : Option Rat
  data : Option (DType × List Nat × List Rat)
  deriving DecidableEq, Repr, Inhabited

def Cond.eval (st : RSt) : Cond → Except Err Bool
  | .lenCoeff => .ok (st.coeff.length != 0)
  | .coeffTruthy => .ok (!st.coeff.isEmpty)
  | .originTruthy => .ok (truthy st.origin)
  | .rank =>
    match st.data with
    | none => .error .runtimeError              -- name used before assignment
    | some (_, shape, _) => .ok (shape.length != 0)
  | .not c => (c.eval st).map (!·)
  | .or a b => do if (← a.eval st) then pure true else b.eval st       -- Python `or` short-circuits
  | .and a b => do if (← a.eval st) then b.eval st else pure false

/-- statements that do not call a helper (the body of `apply_polynomial`, and every statement of
`_read_data` except the call) -/
def Stmt.runLeaf (a : Arr) (ix : Index) : Stmt → RSt → Except Err RSt
  | .skip, st => .ok st
  | .seq p q, st => do let st ← p.runLeaf a ix st; q.runLeaf a ix st
  | .ite c t, st => do if (← c.eval st) then t.runLeaf a ix st else pure st
  | .loadCoeff, st => .ok { st with coeff := a.coeffsGet }
  | .loadOrigin, st => .ok { st with origin := a.originGet }
  | .rawRead, st => do
    let (shape, vals) ← Nix.Poly.rawRead a ix
    pure { st with data := some (a.dtype, shape, vals) }
  | .setShape1, st =>
    match st.data with
    | none => .error .runtimeError
    | some (d, _, vals) => .ok { st with data := some (d, [1], vals) }
  | .originConst r, st => .ok { st with origin := some r }
  | .astype d, st =>
    match st.data with
    | none => .error .runtimeError
    | some (_, shape, vals) =>
      -- only the conversion to double is modelled (exact rationals stand for doubles: identity on values)
      if d = .float64 then .ok { st with data := some (.float64, shape, vals.map toDouble) }
      else .error .runtimeError
  | .callApply, _ => .error .runtimeError         -- no helper call inside the helper
  | .subOrigin, st =>
    match st.data, st.origin with
    | some (d, shape, vals), some o =>
      -- in-place arithmetic on a non-double array (integer truncation, single precision) is not modelled
      if d = .float64 then .ok { st with data := some (d, shape, vals.map (· - o)) } else .error .runtimeError
    | _, _ => .error .typeError                   -- `data - None`
  | .polyval, st =>
    match st.data with
    | none => .error .runtimeError
    | some (d, shape, vals) =>
      if d = .float64 then do
        let vals ← vals.mapM (fun x => Nix.Poly.polyval x st.coeff)
        pure { st with data := some (d, shape, vals) }
      else .error .runtimeError

/-- statements of `_read_data`; `apply` is the body of `util.apply_polynomial`, which works on the caller's
array in place and on its own copies of the two other arguments -/
def Stmt.run (apply : Stmt) (a : Arr) (ix : Index) : Stmt → RSt → Except Err RSt
  | .seq p q, st => do let st ← Stmt.run apply a ix p st; Stmt.run apply a ix q st
  | .ite c t, st => do if (← c.eval st) then Stmt.run apply a ix t st else pure st
  | .callApply, st => do
    let st' ← apply.runLeaf a ix st
    pure { st with data := st'.data }             -- rebinding `origin` / `coefficients` inside stays inside
  | s, st => s.runLeaf a ix st

/-- `DataArray._read_data(sl)` as the generated statement list computes it (`return data` at the end) -/
def readDataG (body apply : Stmt) (a : Arr) (ix : Index) : Except Err Result := do
  let st ← Stmt.run apply a ix body ⟨[], none, none⟩
  match st.data with
  | none => .error .runtimeError
  | some (d, shape, vals) => .ok ⟨d, shape, vals⟩

/-- statements of `DataView._read_data` -/
inductive VStmt where
  /-- `if not self.valid: return np.array([])` -/
  | ifInvalidReturnEmpty
  /-- `tsl = self._slices` -/
  | tslFromSlices
  /-- `if sl is not None: tsl = self._transform_coordinates(sl)` -/
  | ifIndexTransform
  /-- `return self.array._read_data(tsl)` -/
  | returnParentRead
  deriving DecidableEq, Repr, Inhabited

/-- locals of `DataView._read_data`: the index for the parent (`tsl`) once assigned -/
abbrev VSt := Option (List AxisIx)

/-- run the statements of `DataView._read_data`; the parent read is a parameter (`self.array._read_data`).
Falling off the end returns `None`, which no caller can use: `TypeError`. -/
def runView (parent : Arr → Index → Except Err Result) (a : Arr) (v : View) (uix : Index) :
    List VStmt → VSt → Except Err Result
  | [], _ => .error .typeError
  | .ifInvalidReturnEmpty :: rest, st =>
    if !v.valid then .ok ⟨.float64, [0], []⟩ else runView parent a v uix rest st
  | .tslFromSlices :: rest, _ =>
    runView parent a v uix rest
      (some (v.slices.map fun se => AxisIx.slice (some se.1) (some se.2) (some 1)))
  | .ifIndexTransform :: rest, st =>
    match uix with
    | none => runView parent a v uix rest st
    | some l => do
      let tsl ← transformCoordinates v.slices l
      runView parent a v uix rest (some tsl)
  | .returnParentRead :: _, st =>
    match st with
    | none => .error .runtimeError
    | some tsl => parent a (some tsl)

/-! ## The two calibration setters -/

/-- what is assigned -/
inductive SArg where
  | coeff (c : CoeffArg)
  | origin (o : OriginArg)
  deriving DecidableEq, Repr, Inhabited

inductive SCond where
  /-- `<arg> is None` -/
  | argIsNone
  /-- `len(<arg>) == 0` -/
  | argLenZero
  /-- `self._h5group.has_data(name)` -/
  | hasData (name : String)
  /-- `np.ndim(<arg>) != 1` -/
  | argNotFlat
  | not (c : SCond)
  | or (a b : SCond)
  | and (a b : SCond)
  deriving DecidableEq, Repr, Inhabited

inductive SStmt where
  | skip
  | seq (a b : SStmt)
  | ite (c : SCond) (t e : SStmt)
  /-- `del self._h5group[name]` -/
  | delItem (name : String)
  /-- `self._h5group.write_data(name, <arg>, DataType.<d>)` -/
  | writeData (name : String) (d : DType)
  /-- `if c: raise <Exception>(...)` -/
  | raiseIf (c : SCond) (e : Err)
  /-- `util.check_attr_type(<arg>, Number)` (`None` passes) -/
  | checkNumber
  /-- `self._h5group.set_attr(name, <arg>)` (`None` deletes the attribute) -/
  | setAttr (name : String)
  /-- `if self.file.auto_update_timestamps: self.force_updated_at()` — no calibration state involved -/
  | stampIfAuto
  deriving DecidableEq, Repr, Inhabited

/-- `cn` / `on`: the HDF5 names the two *getters* read; any other name is outside the model (`runtimeError`),
so a setter that writes somewhere the getter does not look cannot be proved equal to the model setter -/
def SCond.eval (cn : String) (a : Arr) (arg : SArg) : SCond → Except Err Bool
  | .argIsNone => .ok (arg == .coeff .none || arg == .origin .none)
  | .argLenZero =>
    match arg with
    | .coeff (.seq cs) => .ok (cs.length == 0)
    | .coeff (.notFlat n) => .ok (n == 0)
    | .coeff (.badElems _) => .ok false
    | .coeff _ => .error .typeError               -- `len()` of a number / of None
    | .origin _ => .error .runtimeError           -- not modelled
  | .hasData n => if n = cn then .ok a.coeffs.isSome else .error .runtimeError
  | .argNotFlat =>
    match arg with
    | .coeff (.seq _) => .ok false
    | .coeff (.badElems _) => .ok false
    | .coeff _ => .ok true                         -- nested / 2-D / text; `np.ndim` of a number or `None` is 0
    | .origin _ => .error .runtimeError            -- not modelled
  | .not c => (c.eval cn a arg).map (!·)
  | .or x y => do if (← x.eval cn a arg) then pure true else y.eval cn a arg
  | .and x y => do if (← x.eval cn a arg) then y.eval cn a arg else pure false

def SStmt.run (cn on : String) (arg : SArg) : SStmt → Arr → Except Err Arr
  | .skip, a => .ok a
  | .seq p q, a => do let a ← p.run cn on arg a; q.run cn on arg a
  | .ite c t e, a => do if (← c.eval cn a arg) then t.run cn on arg a else e.run cn on arg a
  | .delItem n, a =>
    if n = cn then (if a.coeffs.isSome then .ok { a with coeffs := none } else .error .keyError)
    else .error .runtimeError
  | .writeData n d, a =>
    if n = cn ∧ d = .float64 then
      match arg with
      | .coeff (.seq cs) => .ok { a with coeffs := some cs }
      -- `write_data` converts to double first: an element that is no real number is refused there
      | .coeff (.badElems cplx) => .error (if cplx then .typeError else .valueError)
      | _ => .error .runtimeError                 -- not modelled (never reached by the code as it is)
    else .error .runtimeError
  | .raiseIf c e, a => do if (← c.eval cn a arg) then .error e else pure a
  | .checkNumber, a =>
    match arg with
    | .origin .notNumber => .error .typeError
    | .origin _ => .ok a
    | .coeff _ => .error .runtimeError
  | .setAttr n, a =>
    if n = on then
      match arg with
      | .origin .none => .ok { a with origin := none }
      | .origin (.num x) => .ok { a with origin := some x }
      | _ => .error .runtimeError
    else .error .runtimeError
  | .stampIfAuto, a => .ok a

end Nix.Poly
