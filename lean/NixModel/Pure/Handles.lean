import NixModel.Basic

/-!
# The volatile state of nixio: `H5Group` handles  (`hdf5/h5group.py:21-57, 205-222`)

Entities and containers of nixio are handles; the only state a handle keeps outside the file is
the cached h5py group of its `H5Group` (`_group`), found lazily through `(parent, name)`:

* reads (`__len__`, `__iter__`, `__contains__`, `get_attr`, `delete`) go through the `group`
  getter: the cached object, else a lookup of `name` in `_parent` (no creation);
* writes (`create_link`, `set_attr`, `open_group`, `create_dataset`) first call
  `_create_h5obj()`: look `name` up in `_parent`, create the group when it is missing;
* `delete(key, delete_if_empty)` of the last entry of a group below depth 1 removes the group
  itself from its parent and forgets the cached object — of *this* handle only.

The machine below is one live parent group `P` (an entity's HDF5 group) with its named children
(link-list groups such as `data_arrays`, and role links such as `metadata` that lead to entity
groups living elsewhere in the file), any number of handles `H5Group(P, name)`, and the
operations nixio performs through them. HDF5 keeps an object alive while a handle is open, so
objects are never removed from `heap`; `path` is what h5py's `.name` reports (the link through
`P`, `none` once that link is gone), `anchored` marks entity groups, which stay part of the file
through the link from their owning container whatever happens to `P`'s links.

`Code` selects the two places the repository's history changed (`fix:` commits 3f50192, f74e1cb):
`reresolve` — the getter drops a cached group that is no longer part of the file when `P` has
a new child of that name (defect D9: the second handle on an emptied and refilled link list);
`keepBound` — `_create_h5obj` keeps a cached group that still is part of the file instead of
looking `(parent, name)` up again (a write through a handle obtained via a link that was removed
or redirected created a bogus group / hit another entity).
-/
namespace Nix.Handles

structure Code where
  reresolve : Bool
  keepBound : Bool
  deriving DecidableEq, Repr, Inhabited

/-- the code in `/repo` now -/
def Code.current : Code := { reresolve := true, keepBound := true }
/-- the pinned tree before the two `fix:` commits -/
def Code.before : Code := { reresolve := false, keepBound := false }

structure Obj where
  links : List (String × Nat) := []        -- entries (name → target object), creation order
  attrs : List (String × String) := []
  path : Option String := none             -- the name under which `P` links it (`.name` of the h5py object)
  anchored : Bool := false                 -- an entity group: linked from its owning container as well
  deriving DecidableEq, Repr, Inhabited

structure Handle where
  name : String
  cache : Option Nat
  deriving DecidableEq, Repr, Inhabited

structure St where
  plinks : String → Option Nat := fun _ => none     -- the links of `P`
  heap : Nat → Obj := fun _ => {}
  next : Nat := 0
  handles : List Handle := []
  depth : Nat := 5          -- depth of `P`'s children below `/` (`/data/b/groups/g/data_arrays`: 5)
  deriving Inhabited

def upd {α : Type} (f : Nat → α) (k : Nat) (v : α) : Nat → α := fun x => if x = k then v else f x
def updS (f : String → Option Nat) (n : String) (v : Option Nat) : String → Option Nat :=
  fun x => if x = n then v else f x

/-- is the object still part of the file (h5py: `bool(grp.name)`)? -/
def inFile (st : St) (c : Nat) : Bool := (st.heap c).anchored || (st.heap c).path.isSome

/-- the `group` property (`h5group.py:44-57`); returns the handle with its cache as left behind -/
def getter (cd : Code) (st : St) (h : Handle) : Handle :=
  match h.cache with
  | some c =>
    if cd.reresolve && !inFile st c then
      match st.plinks h.name with
      | some c' => { h with cache := some c' }
      | none => h
    else h
  | none => { h with cache := st.plinks h.name }

/-- look `(P, name)` up, create the group when it is missing -/
def lookupOrCreate (st : St) (h : Handle) : St × Handle :=
  match st.plinks h.name with
  | some c' => (st, { h with cache := some c' })
  | none =>
    ({ st with plinks := updS st.plinks h.name (some st.next),
               heap := upd st.heap st.next { path := some h.name },
               next := st.next + 1 },
     { h with cache := some st.next })

/-- `H5Group._create_h5obj` (`h5group.py:29-42`) -/
def createH5 (cd : Code) (st : St) (h : Handle) : St × Handle :=
  match h.cache with
  | some c => if cd.keepBound && inFile st c then (st, h) else lookupOrCreate st h
  | none => lookupOrCreate st h

inductive Op where
  | openH (name : String) (create : Bool)      -- `H5Group(P, name, create)`: a new handle
  | read (i : Nat)                             -- `len` / iteration / `in` through handle `i`
  | getAttr (i : Nat) (a : String)
  | createLink (i : Nat) (key : String) (target : Nat)
  | delete (i : Nat) (key : String) (deleteIfEmpty : Bool)
  | setAttr (i : Nat) (a : String) (v : Option String)
  | newEntity                                  -- an entity group created elsewhere in the file
  | plink (name : String) (target : Nat)       -- `P[name] = target` (a role setter, through `P`'s own handle)
  | punlink (name : String)                    -- `del P[name]` (a role deleter)
  deriving DecidableEq, Repr, Inhabited

/-- the operations on link lists (no role links, no entities) -/
def Op.isListOp : Op → Bool
  | .newEntity | .plink _ _ | .punlink _ => false
  | _ => true

inductive Out where
  | done
  | refused (e : Err)
  | entries (l : List (String × Nat))
  | value (v : Option String)
  | handle (i : Nat)
  | obj (k : Nat)
  | bad                                         -- no such handle
  deriving DecidableEq, Repr, Inhabited

def setHandle (st : St) (i : Nat) (h : Handle) : St := { st with handles := st.handles.set i h }

def attrGet (o : Obj) (a : String) : Option String := (o.attrs.find? (·.1 == a)).map (·.2)

def entriesOf (st : St) (h : Handle) : List (String × Nat) :=
  match h.cache with
  | some c => (st.heap c).links
  | none => []

/-- `del P[name]`: the object loses its path through `P` -/
def unlinkP (st : St) (name : String) : St :=
  match st.plinks name with
  | some c =>
    { st with plinks := updS st.plinks name none,
              heap := upd st.heap c { st.heap c with path := none } }
  | none => st

def step (cd : Code) (st : St) : Op → St × Out
  | .openH name create =>
    let h0 : Handle := { name := name, cache := none }
    let (st1, h1) := if create || (st.plinks name).isSome then createH5 cd st h0 else (st, h0)
    ({ st1 with handles := st1.handles ++ [h1] }, .handle st1.handles.length)
  | .read i =>
    match st.handles[i]? with
    | none => (st, .bad)
    | some h =>
      let h1 := getter cd st h
      (setHandle st i h1, .entries (entriesOf st h1))
  | .getAttr i a =>
    match st.handles[i]? with
    | none => (st, .bad)
    | some h =>
      let h1 := getter cd st h
      (setHandle st i h1, .value (match h1.cache with | some c => attrGet (st.heap c) a | none => none))
  | .createLink i key target =>
    match st.handles[i]? with
    | none => (st, .bad)
    | some h =>
      let (st1, h1) := createH5 cd st h
      let h2 := getter cd st1 h1
      match h2.cache with
      | none => (setHandle st1 i h2, .refused .typeError)
      | some c =>
        let o := st1.heap c
        let ls := (o.links.filter fun l => l.1 != key) ++ [(key, target)]
        (setHandle { st1 with heap := upd st1.heap c { o with links := ls } } i h2, .done)
  | .delete i key dIE =>
    match st.handles[i]? with
    | none => (st, .bad)
    | some h =>
      let h1 := getter cd st h
      match h1.cache with
      | none => (setHandle st i h1, .refused .valueError)
      | some c =>
        let o := st.heap c
        if !(o.links.any fun l => l.1 == key) then (setHandle st i h1, .refused .valueError)
        else
          let ls := o.links.filter fun l => l.1 != key
          let st1 := { st with heap := upd st.heap c { o with links := ls } }
          if !inFile st1 c then
            -- `self.group.name` is None: the depth cannot be computed
            (setHandle st1 i h1, .refused .attributeError)
          else if dIE && ls.isEmpty && st.depth > 1 then
            if (st1.plinks h1.name).isNone then (setHandle st1 i h1, .refused .keyError)
            else (setHandle (unlinkP st1 h1.name) i { h1 with cache := none }, .done)
          else (setHandle st1 i h1, .done)
  | .setAttr i a v =>
    match st.handles[i]? with
    | none => (st, .bad)
    | some h =>
      let (st1, h1) := createH5 cd st h
      let h2 := getter cd st1 h1
      match h2.cache with
      | none => (setHandle st1 i h2, .refused .typeError)
      | some c =>
        let o := st1.heap c
        let rest := o.attrs.filter fun kv => kv.1 != a
        let as := match v with | some s => rest ++ [(a, s)] | none => rest
        (setHandle { st1 with heap := upd st1.heap c { o with attrs := as } } i h2, .done)
  | .newEntity =>
    ({ st with heap := upd st.heap st.next { anchored := true }, next := st.next + 1 }, .obj st.next)
  | .plink name target =>
    if !(st.heap target).anchored then (st, .refused .typeError)
    else
      let st1 := unlinkP st name
      ({ st1 with plinks := updS st1.plinks name (some target) }, .done)
  | .punlink name =>
    if (st.plinks name).isNone then (st, .refused .keyError) else (unlinkP st name, .done)

def run (cd : Code) (st : St) : List Op → St × List Out
  | [] => (st, [])
  | op :: ops =>
    let (st1, o) := step cd st op
    let (st2, os) := run cd st1 ops
    (st2, o :: os)

def init : St := {}

/-- what a freshly opened handle on `name` shows -/
def truth (st : St) (name : String) : List (String × Nat) :=
  match st.plinks name with
  | some c => (st.heap c).links
  | none => []

/-- what handle `h` shows (the entries behind `len`, iteration and `in`) -/
def view (cd : Code) (st : St) (h : Handle) : List (String × Nat) := entriesOf st (getter cd st h)

end Nix.Handles
