import NixModel.Basic

/-!
# Ownership forest of sections / sources with metadata and source links  (property C13)

Standalone model of the part of a NIX file that C13 talks about:

* the metadata tree (`File.sections`, a forest of `Node`s, children in creation order),
* per block a source forest (`Block.sources`) and the entities that can carry links
  (`Holder`s: groups, data arrays, tags, multi-tags),
* the links: `md` (the `metadata` link of a block / holder / source) and `srcs` (the `sources`
  link list of a holder).

Entities are addressed by a *key*: the number of successful `create_*` calls before the one that
made them (a stand-in for the uuid; freshness of uuid4 is assumed, DESIGN section 8).

The query functions follow the Python code that exists in /repo now, branch for branch:

* `findLoop` / `findFrom`     — `nixio/util/find.py:_find_sections/_find_sources` (fifo, level counter,
                                push before filter, limit applied to the first level too),
* `parentLoop` / `sectionParent` — `Section.parent` (`section.py`: cached `_sec_parent`, else BFS over
                                `file.sections` with *id* containment),
* `findParentRec` / `sourceParent` — `Source._find_parent_recursive` / `Source.parent_source`,
* `parentBlock`               — `Source.parent_block` (the `_parent` chain of the handle),
* `referring…`                — `Section.referring_*`, `Source.referring_*`.
-/

namespace Nix.Tree

/-- Python's `sys.maxsize` on the 64-bit CPython the library runs on (`limit=None` default). -/
def maxsize : Nat := 9223372036854775807

/-- what the model keeps about a section or source -/
structure Info where
  key : Nat
  name : String
  type : String
  /-- `metadata` link (sources only; always `none` for sections) -/
  md : Option Nat := none
  /-- the `_sec_parent` a handle returned by `Section.create_section` carries (sections only) -/
  cparent : Option Nat := none
  deriving DecidableEq, Repr, Inhabited

/-- a section or a source together with what it owns, children in creation order -/
inductive Node where
  | mk (info : Info) (children : List Node)
  deriving Repr, Inhabited

namespace Node
def info : Node → Info | mk i _ => i
def children : Node → List Node | mk _ cs => cs
def key (n : Node) : Nat := n.info.key
def name (n : Node) : String := n.info.name
def type (n : Node) : String := n.info.type
def md (n : Node) : Option Nat := n.info.md
def cparent (n : Node) : Option Nat := n.info.cparent
end Node

mutual
/-- number of nodes of a tree -/
def Node.size : Node → Nat
  | .mk _ cs => 1 + sizeL cs
def sizeL : List Node → Nat
  | [] => 0
  | c :: cs => c.size + sizeL cs
end

mutual
/-- every node of the tree, preorder -/
def Node.nodes : Node → List Node
  | .mk i cs => .mk i cs :: nodesL cs
def nodesL : List Node → List Node
  | [] => []
  | c :: cs => c.nodes ++ nodesL cs
end

/-- keys of all nodes, preorder -/
def keysL (l : List Node) : List Nat := (nodesL l).map Node.key
def Node.keys (n : Node) : List Nat := n.nodes.map Node.key

theorem sizeL_append (a b : List Node) : sizeL (a ++ b) = sizeL a + sizeL b := by
  induction a with
  | nil => simp [sizeL]
  | cons x xs ih => simp [sizeL, ih]; omega

/-! ## find (util/find.py) -/

/-- total size of the trees waiting in the fifo (termination measure) -/
def qsize : List (Node × Nat) → Nat
  | [] => 0
  | (n, _) :: q => n.size + qsize q

theorem qsize_append (a b : List (Node × Nat)) : qsize (a ++ b) = qsize a + qsize b := by
  induction a with
  | nil => simp [qsize]
  | cons x xs ih => obtain ⟨n, l⟩ := x; simp [qsize, ih]; omega

theorem qsize_map (cs : List Node) (l : Nat) : qsize (cs.map (fun e => (e, l))) = sizeL cs := by
  induction cs with
  | nil => simp [qsize, sizeL]
  | cons x xs ih => simp [qsize, sizeL, ih]

/-- the `while len(fifo) > 0` loop of `_find_sections` / `_find_sources`:
pop the head, push its children with `level = child.level + 1` when `level <= limit`,
then apply the filter to the popped element. -/
def findLoop (filt : Node → Bool) (limit : Nat) : List (Node × Nat) → List Node
  | [] => []
  | (n, lvl) :: rest =>
    let fifo := if lvl + 1 ≤ limit then rest ++ n.children.map (fun e => (e, lvl + 1)) else rest
    if filt n then n :: findLoop filt limit fifo else findLoop filt limit fifo
termination_by q => qsize q
decreasing_by
  all_goals
    cases n with | mk i cs =>
    simp only [Node.children]
    split <;> simp [qsize, qsize_append, qsize_map, Node.size] <;> omega

/-- where a search starts: an entity that is itself a section/source (depth 0), or the `sections`
of a File / `sources` of a Block (their members are at depth 1) -/
inductive Root where
  | node (n : Node)
  | top (members : List Node)

/-- `find_sections` / `find_sources` of File, Block, Section, Source:
`limit=None` becomes `maxsize`, then `_find_*` builds the initial fifo. -/
def findFrom (root : Root) (filt : Node → Bool) (limit : Option Nat) : List Node :=
  let limit := match limit with
    | none => maxsize
    | some l => l
  match root with
  | .node n => findLoop filt limit [(n, 0)]
  | .top ms => if 1 ≤ limit then findLoop filt limit (ms.map (fun e => (e, 1))) else findLoop filt limit []

/-! ## parents -/

/-- `Container.__contains__(id)` for a uuid string: some child carries that id -/
def hasChildKey (n : Node) (k : Nat) : Bool := n.children.any (fun c => c.key == k)

/-- the BFS loop of `Section.parent`: pop a section, answer it if the wanted id is among its
children, otherwise queue its children -/
def parentLoop (k : Nat) : List Node → Option Node
  | [] => none
  | s :: rest => if hasChildKey s k then some s else parentLoop k (rest ++ s.children)
termination_by q => sizeL q
decreasing_by
  cases s with | mk i cs =>
  simp [sizeL_append, sizeL, Node.size, Node.children]; omega

mutual
/-- `Source._find_parent_recursive(child_id, False)` -/
def findParentRec (k : Nat) : Node → Option Node
  | .mk i cs => if (cs.any fun c => c.key == k) then some (.mk i cs) else findParentRecL k cs
/-- the `for s in self.sources` loops around it -/
def findParentRecL (k : Nat) : List Node → Option Node
  | [] => none
  | c :: cs => match findParentRec k c with
    | some p => some p
    | none => findParentRecL k cs
end

mutual
/-- look a node up by key (depth first) -/
def Node.find? (k : Nat) : Node → Option Node
  | .mk i cs => if i.key = k then some (.mk i cs) else findL? k cs
def findL? (k : Nat) : List Node → Option Node
  | [] => none
  | c :: cs => match c.find? k with
    | some n => some n
    | none => findL? k cs
end

/-! ## tree updates used by the operations -/

mutual
/-- append `new` to the children of the node with key `pk` -/
def Node.insertUnder (pk : Nat) (new : Node) : Node → Node
  | .mk i cs => if i.key = pk then .mk i (insertUnderL pk new cs ++ [new]) else .mk i (insertUnderL pk new cs)
def insertUnderL (pk : Nat) (new : Node) : List Node → List Node
  | [] => []
  | c :: cs => Node.insertUnder pk new c :: insertUnderL pk new cs
end

mutual
/-- remove the node with key `k` (and everything below it) -/
def Node.removeKey (k : Nat) : Node → Node
  | .mk i cs => .mk i (removeKeyL k cs)
def removeKeyL (k : Nat) : List Node → List Node
  | [] => []
  | c :: cs => if c.key = k then removeKeyL k cs else c.removeKey k :: removeKeyL k cs
end

mutual
/-- rewrite the `Info` of every node -/
def Node.mapInfo (g : Info → Info) : Node → Node
  | .mk i cs => .mk (g i) (mapInfoL g cs)
def mapInfoL (g : Info → Info) : List Node → List Node
  | [] => []
  | c :: cs => c.mapInfo g :: mapInfoL g cs
end

/-! ## the file -/

inductive Kind where
  | group | dataArray | tag | multiTag
  deriving DecidableEq, Repr, Inhabited

/-- a group, data array, tag or multi-tag of a block: may link a metadata section and sources -/
structure Holder where
  key : Nat
  kind : Kind
  name : String
  md : Option Nat := none
  srcs : List Nat := []
  deriving Repr, Inhabited

structure Block where
  key : Nat
  name : String
  md : Option Nat := none
  sources : List Node := []
  holders : List Holder := []
  deriving Repr, Inhabited

structure File where
  sections : List Node := []
  blocks : List Block := []
  next : Nat := 0
  deriving Repr, Inhabited

/-- what a key denotes in the current state -/
inductive Ref where
  | sec (n : Node)
  | blk (b : Block)
  | src (b : Block) (n : Node)
  | hold (b : Block) (h : Holder)

def lookupBlocks (k : Nat) : List Block → Option Ref
  | [] => none
  | b :: bs =>
    if b.key = k then some (.blk b) else
    match findL? k b.sources with
    | some n => some (.src b n)
    | none => match b.holders.find? (fun h => h.key == k) with
      | some h => some (.hold b h)
      | none => lookupBlocks k bs

def File.lookup (f : File) (k : Nat) : Option Ref :=
  match findL? k f.sections with
  | some n => some (.sec n)
  | none => lookupBlocks k f.blocks

def File.updBlock (f : File) (bk : Nat) (g : Block → Block) : File :=
  { f with blocks := f.blocks.map fun b => if b.key = bk then g b else b }

def Block.updHolder (b : Block) (hk : Nat) (g : Holder → Holder) : Block :=
  { b with holders := b.holders.map fun h => if h.key = hk then g h else h }

/-! ### operations (histories) -/

inductive Op where
  | createBlock (name type : String)
  | createSection (parent : Option Nat) (name type : String)
  | createSource (parent : Nat) (name type : String)
  | createHolder (block : Nat) (kind : Kind) (name type : String)
  | setMetadata (entity sec : Nat)
  | delMetadata (entity : Nat)
  | linkSource (holder src : Nat)
  | unlinkSource (holder src : Nat)
  | delete (k : Nat)
  | reopen
  /-- `dest.copy_section(src, children, keep_id=False, name)`; `dest = none`: `File.copy_section` -/
  | copySection (src : Nat) (dest : Option Nat) (name : String) (children : Bool)
  deriving Repr

def newNode (k : Nat) (name type : String) (cp : Option Nat) : Node :=
  .mk { key := k, name := name, type := type, md := none, cparent := cp } []

def hasName (cs : List Node) (name : String) : Bool := cs.any fun c => c.name == name

/-- what `copy_section(keep_id=False)` makes of a section (`H5Ocopy` + `change_id` on every member): the
same shape in the same order — without the subsections when `children=False` (shallow copy) —, the top
renamed, every id renewed (the stand-in for the new uuid of the entity with key `k` is `k + off`), and the
handle returned is re-fetched (`self.sections[name]`), so no `_sec_parent` anywhere in the copy. -/
def copyNode (off : Nat) (name : String) (children : Bool) (n : Node) : Node :=
  let g : Info → Info := fun i => { i with key := i.key + off, cparent := none }
  .mk { g n.info with name := name } (if children then mapInfoL g n.children else [])

/-- set / clear the metadata link of the entity a key denotes -/
def File.setMd (f : File) (e : Nat) (v : Option Nat) : Except Err File :=
  match f.lookup e with
  | some (.blk b) => .ok (f.updBlock b.key fun b => { b with md := v })
  | some (.hold b h) => .ok (f.updBlock b.key fun b => b.updHolder h.key fun h => { h with md := v })
  | some (.src b _) => .ok (f.updBlock b.key fun b =>
      { b with sources := mapInfoL (fun i => if i.key = e then { i with md := v } else i) b.sources })
  | _ => .error .keyError

/-- forget every metadata link whose target is in `dead` (`delete_all` removes the hard links) -/
def clearMd (dead : List Nat) (v : Option Nat) : Option Nat :=
  match v with
  | some t => if t ∈ dead then none else some t
  | none => none

def Block.clearMd (b : Block) (dead : List Nat) : Block :=
  { b with
    md := Tree.clearMd dead b.md
    sources := mapInfoL (fun i => { i with md := Tree.clearMd dead i.md }) b.sources
    holders := b.holders.map fun h => { h with md := Tree.clearMd dead h.md } }

/-- one operation; the `Nat` is the key of the created entity (creates) -/
def step (f : File) : Op → Except Err (File × Option Nat)
  | .createBlock name _ =>
    if f.blocks.any (fun b => b.name == name) then .error .duplicateName else
    .ok ({ f with blocks := f.blocks ++ [{ key := f.next, name := name }], next := f.next + 1 }, some f.next)
  | .createSection none name type =>
    if hasName f.sections name then .error .duplicateName else
    .ok ({ f with sections := f.sections ++ [newNode f.next name type none], next := f.next + 1 }, some f.next)
  | .createSection (some pk) name type =>
    match findL? pk f.sections with
    | none => .error .keyError
    | some p =>
      if hasName p.children name then .error .duplicateName else
      .ok ({ f with sections := insertUnderL pk (newNode f.next name type (some pk)) f.sections,
                    next := f.next + 1 }, some f.next)
  | .createSource pk name type =>
    match f.lookup pk with
    | some (.blk b) =>
      if hasName b.sources name then .error .duplicateName else
      .ok ({ f.updBlock b.key fun b => { b with sources := b.sources ++ [newNode f.next name type none] }
             with next := f.next + 1 }, some f.next)
    | some (.src b p) =>
      if hasName p.children name then .error .duplicateName else
      .ok ({ f.updBlock b.key fun b =>
               { b with sources := insertUnderL pk (newNode f.next name type none) b.sources }
             with next := f.next + 1 }, some f.next)
    | _ => .error .keyError
  | .createHolder bk kind name _ =>
    match f.lookup bk with
    | some (.blk b) =>
      if b.holders.any (fun h => h.kind == kind && h.name == name) then .error .duplicateName else
      .ok ({ f.updBlock b.key fun b =>
               { b with holders := b.holders ++ [{ key := f.next, kind := kind, name := name }] }
             with next := f.next + 1 }, some f.next)
    | _ => .error .keyError
  | .setMetadata e s =>
    match findL? s f.sections with
    | none => .error .keyError
    | some _ => (f.setMd e (some s)).map fun f' => (f', none)
  | .delMetadata e => (f.setMd e none).map fun f' => (f', none)
  | .linkSource hk s =>
    match f.lookup hk, f.lookup s with
    | some (.hold b h), some (.src b' _) =>
      -- SourceLinkContainer.append: the block's own find_sources must contain the id
      if b'.key = b.key then
        .ok (f.updBlock b.key fun b => b.updHolder h.key fun h =>
              { h with srcs := h.srcs.filter (· != s) ++ [s] }, none)
      else .error .runtimeError
    | _, _ => .error .keyError
  | .unlinkSource hk s =>
    match f.lookup hk, f.lookup s with
    | some (.hold b h), some (.src _ _) =>
      if h.srcs.contains s then
        .ok (f.updBlock b.key fun b => b.updHolder h.key fun h =>
              { h with srcs := h.srcs.filter (· != s) }, none)
      else .error .keyError
    | _, _ => .error .keyError
  | .delete k =>
    match f.lookup k with
    | some (.sec n) =>
      let dead := n.keys
      .ok ({ f with sections := removeKeyL k f.sections
                    blocks := f.blocks.map fun b => b.clearMd dead }, none)
    | some (.src b n) =>
      let dead := n.keys
      .ok (f.updBlock b.key fun b =>
            { b with sources := removeKeyL k b.sources
                     holders := b.holders.map fun h => { h with srcs := h.srcs.filter (fun s => !(dead.contains s)) } },
           none)
    | some (.hold b h) =>
      .ok (f.updBlock b.key fun b => { b with holders := b.holders.filter fun x => x.key != h.key }, none)
    | some (.blk b) => .ok ({ f with blocks := f.blocks.filter fun x => x.key != b.key }, none)
    | none => .error .keyError
  | .reopen =>
    -- every handle is re-fetched afterwards: no `_sec_parent` survives
    .ok ({ f with sections := mapInfoL (fun i => { i with cparent := none }) f.sections }, none)
  | .copySection s dest name children =>
    match findL? s f.sections with
    | none => .error .keyError
    | some n =>
      -- `if not name: name = str(obj.name)`
      let nm := if name.isEmpty then n.name else name
      -- the copy is a snapshot of the section as it is before the call (also when the destination lies
      -- inside it); all `f.next` ids so far are below `f.next`, so `key + f.next` is fresh
      let c := copyNode f.next nm children n
      match dest with
      | none =>
        -- `if name in self._metadata: raise NameError` (reported as duplicateName)
        if hasName f.sections nm then .error .duplicateName else
        .ok ({ f with sections := f.sections ++ [c], next := f.next + f.next }, some (n.key + f.next))
      | some d =>
        match findL? d f.sections with
        | none => .error .keyError
        | some p =>
          if hasName p.children nm then .error .duplicateName else
          .ok ({ f with sections := insertUnderL d c f.sections, next := f.next + f.next }, some (n.key + f.next))

/-- a refused operation leaves the state alone -/
def apply (f : File) (op : Op) : File :=
  match step f op with
  | .ok (f', _) => f'
  | .error _ => f

def run (f : File) (ops : List Op) : File := ops.foldl apply f

/-- states some history of operations leads to -/
def Reachable (f : File) : Prop := ∃ ops, f = run {} ops

/-! ### queries -/

/-- `Section.parent`.  `useCache`: the handle is the one `create_section` returned
(it carries `_sec_parent`); otherwise BFS from `file.sections`. -/
def sectionParent (f : File) (k : Nat) (useCache : Bool) : Except Err (Option Nat) :=
  match findL? k f.sections with
  | none => .error .keyError
  | some n =>
    match (if useCache then n.cparent else none) with
    | some p => .ok (some p)
    | none =>
      -- `if self in sections` on a list: Entity.__eq__ compares ids
      if f.sections.any (fun s => s.key == k) then .ok none else
      .ok ((parentLoop k f.sections).map Node.key)

/-- `Source.parent_block`: the first Block on the handle's `_parent` chain — the block the handle
was reached through -/
def parentBlock (f : File) (k : Nat) : Except Err Nat :=
  match f.lookup k with
  | some (.src b _) => .ok b.key
  | _ => .error .keyError

/-- `Source.parent_source` -/
def sourceParent (f : File) (k : Nat) : Except Err (Option Nat) :=
  match f.lookup k with
  | some (.src b _) =>
    if b.sources.any (fun s => s.key == k) then .ok none else
    .ok ((findParentRecL k b.sources).map Node.key)
  | _ => .error .keyError

def holdersOf (b : Block) (kind : Kind) : List Holder := b.holders.filter fun h => h.kind == kind

/-- `Section.referring_blocks` -/
def refBlocks (f : File) (k : Nat) : List Nat :=
  (f.blocks.filter fun b => b.md == some k).map Block.key

/-- `Section.referring_groups / _data_arrays / _tags / _multi_tags` -/
def refHolders (f : File) (kind : Kind) (k : Nat) : List Nat :=
  f.blocks.flatMap fun b => ((holdersOf b kind).filter fun h => h.md == some k).map Holder.key

/-- `Section.referring_sources`: every source below every block (`blk.find_sources()`) -/
def refSources (f : File) (k : Nat) : List Nat :=
  f.blocks.flatMap fun b =>
    ((findFrom (.top b.sources) (fun _ => true) none).filter fun s => s.md == some k).map Node.key

/-- `Section.referring_objects` -/
def refObjects (f : File) (k : Nat) : List Nat :=
  refBlocks f k ++ refHolders f .group k ++ refHolders f .dataArray k ++ refHolders f .tag k
    ++ refHolders f .multiTag k ++ refSources f k

/-- `Source.referring_groups / _data_arrays / _tags / _multi_tags` within its block -/
def srcRefHolders (b : Block) (kind : Kind) (k : Nat) : List Nat :=
  ((holdersOf b kind).filter fun h => h.srcs.contains k).map Holder.key

/-- `Source.referring_objects` -/
def srcRefObjects (b : Block) (k : Nat) : List Nat :=
  srcRefHolders b .group k ++ srcRefHolders b .dataArray k ++ srcRefHolders b .tag k
    ++ srcRefHolders b .multiTag k

end Nix.Tree
