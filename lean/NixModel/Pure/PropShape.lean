import NixModel.Pure.PropVals

/-!
# The statements of `Property.values` (setter), `extend_values`, `delete_values`, the `isinstance`
chain of `DataType.get_dtype` and the collections behind the `Section` dictionary methods, as data (C10)

`harness/extract/propvals.py` reads these functions with `ast` and writes what it finds — the list of
statements in source order, the chain of class tests, the order of the collections — to
`NixModel/Generated/PropValsShape.lean`, as values of the types below.  This file gives each statement
its meaning as a step of a small machine; `NixModel/Props/C10.lean` proves that the hand-written model
(`setValues`, `extendValues`, `PropRec.clear`, `getDtypeCls`, `items`, `contains`, …) *is* the
interpretation of the generated data, for all inputs.  Reordering statements in the source (say, the
resize before the conversion, or the type check after the write), dropping one, or changing the
chain changes the generated file and breaks those theorems at `lake build`.
-/
namespace Nix.PropVals.Shape
open Nix.PropVals
open Nix.Units (Str)

/-- one statement of `values.setter` / `extend_values` / `delete_values` -/
inductive Prim where
  | emptyClears   -- `if x is None or (isinstance(x, (Sequence, Iterable)) and not len(x)): self.delete_values(); return`
  | wrapSingle    -- `if not isinstance(x, (Sequence, Iterable)) or isinstance(x, str): x = [x]`
  | checkTypes    -- `vtype = self._check_new_value_types(x)`
  | checkText     -- `if vtype == DataType.String: … _check_text_storable(x)`
  | convert       -- `np.array(x, dtype=vtype)` (`.flatten('C')` in `extend_values`)
  | readLen       -- `src_len = len(self.values)`
  | resizeTo      -- `self._h5dataset.shape = np.shape(data)`
  | resizeBy      -- `dataset.shape = (src_len + dlen,)`
  | writeAll      -- `self._h5dataset.write_data(data)`
  | writeTail     -- `dataset.write_data(arr, slc=np.s_[src_len: src_len + dlen])`
  | truncate      -- `self._h5dataset.shape = (0,)`
  | stamp         -- `if self.file.auto_update_timestamps: self.force_updated_at()`  (C19's matter)
  deriving DecidableEq, Repr, Inhabited

/-- machine state: the dataset, the argument as it is now, the converted array, `src_len` -/
structure M where
  p : PropRec
  x : Input
  cells : List Cell := []
  base : Nat := 0

inductive Ctl where
  | next (m : M)
  | done (p : PropRec)                 -- `return`
  | raise (p : PropRec) (e : Err)

/-- `[x]` -/
def wrap : Input → Input
  | .list vs => .list vs
  | .ndarray a b c => .ndarray a b c
  | other => .list [other.asElem]

def Prim.sem : Prim → M → Ctl
  | .emptyClears, m =>
    match m.x with
    | .none => .done m.p.clear
    | .list [] => .done m.p.clear
    | .scalar v => if v.isEmptyStr then .done m.p.clear else .next m
    | .ndarray _ [] _ => .raise m.p .typeError            -- `len()` of an unsized object
    | .ndarray _ (0 :: _) _ => .done m.p.clear
    | _ => .next m
  | .wrapSingle, m => .next { m with x := wrap m.x }
  | .checkTypes, m =>
    match checkNewValueTypes m.p.dtype m.x with
    | .error e => .raise m.p e
    | .ok _ => .next m
  | .checkText, m => if textRefused m.p.dtype m.x.elems then .raise m.p .valueError else .next m
  | .convert, m =>
    match inputCells m.p.dtype m.x with
    | .error e => .raise m.p e
    | .ok cs => .next { m with cells := cs }
  | .readLen, m => .next { m with base := m.p.vals.length }
  | .resizeTo, m =>
    match m.x with
    | .ndarray _ (_ :: _ :: _) _ => .raise m.p .typeError  -- a rank-1 dataset cannot take a rank ≥ 2 shape
    | _ => .next { m with p := { m.p with vals := resize m.p.dtype m.p.vals m.cells.length } }
  | .resizeBy, m => .next { m with p := { m.p with vals := resize m.p.dtype m.p.vals (m.base + m.cells.length) } }
  | .writeAll, m => .next { m with p := { m.p with vals := m.cells } }
  | .writeTail, m => .next { m with p := { m.p with vals := m.p.vals.take m.base ++ m.cells } }
  | .truncate, m => .next { m with p := { m.p with vals := [] } }
  | .stamp, m => .next m

/-- run the statements in order; falling off the end returns -/
def exec : List Prim → M → PropRec × Except Err Unit
  | [], m => (m.p, .ok ())
  | s :: rest, m =>
    match s.sem m with
    | .next m' => exec rest m'
    | .done p => (p, .ok ())
    | .raise p e => (p, .error e)

def run (body : List Prim) (p : PropRec) (x : Input) : PropRec × Except Err Unit := exec body { p := p, x := x }

/-- statements that change the dataset -/
def Prim.mutates : Prim → Bool
  | .resizeTo | .resizeBy | .writeAll | .writeTail | .truncate => true
  | _ => false

/-- statements that can raise (`resizeTo` raises before it changes anything) -/
def Prim.mayRaise : Prim → Bool
  | .emptyClears | .checkTypes | .checkText | .convert | .resizeTo => true
  | _ => false

/-- every statement that can raise comes before (or is) the first statement that changes the dataset -/
def checksFirst : List Prim → Bool
  | [] => true
  | s :: rest => if s.mutates then rest.all (fun t => !t.mayRaise) else checksFirst rest

/-! ## `DataType.get_dtype` -/

/-- the class (tuple) an `isinstance` of the chain asks about -/
inductive ClassTest where
  | bools | integral | real | str
  deriving DecidableEq, Repr, Inhabited

def ClassTest.holds : ClassTest → PyClass → Bool
  | .bools, c => c.isBools
  | .integral, c => c.isIntegral
  | .real, c => c.isReal
  | .str, c => c.isStr

/-- `if isinstance(v, T1): return D1 elif … else: raise ValueError` -/
def evalChain : List (ClassTest × DType) → PyClass → Except Err DType
  | [], _ => .error .valueError
  | (t, d) :: rest, c => if t.holds c then .ok d else evalChain rest c

/-! ## the collections behind the dictionary methods of `Section` -/

inductive Coll where
  | props | sections
  deriving DecidableEq, Repr, Inhabited

def Coll.listing (st : State) : Coll → List (Str × ItemKind)
  | .props => st.props.map (fun p => (p.name, ItemKind.prop))
  | .sections => st.secs.map (fun x => (x.name, ItemKind.sec))

def Coll.has (st : State) (k : Key) : Coll → Bool
  | .props => propsContains st k
  | .sections => secsContains st k

def Coll.size (st : State) : Coll → Nat
  | .props => st.props.length
  | .sections => st.secs.length

end Nix.PropVals.Shape
