import NixModel.Basic

/-!
# Guards and writes: the discipline behind "refused ⇒ unchanged", for any function   (C12)

A mutator is a list of statements: *guards* (validations of the arguments that write nothing) and *writes*
(HDF5 operations).  A write may itself refuse (h5py finds out that a value cannot be stored) — but only for a
reason some guard could have asked about (`needs`).  Some writes are invisible to every reader (`open_group(name,
True)` of a container group that stays empty).  `safe` is the syntactic discipline: after the first visible write
nothing may be asked that has not been asked before it.  `Lemmas/C12Guarded.lean` proves, for every such system and
every list: safe ⇒ a refused run ends in a file no reader can tell from the one it started with.
`Pure/LinkWrite.lean` is the first system of this kind (with its own proof), `Pure/CopyWrite.lean` the second.
-/
namespace Nix.Guarded

/-- a system: `A` the arguments of the call, `S` the file, `O` what readers see of the file, `G` the guards, `W` the
writes -/
structure Sys (A S O G W : Type) where
  check : A → G → Option Err             -- `none`: the validation passes
  needs : W → List G                     -- what the write relies on
  invisible : W → Bool                   -- the write changes nothing a reader sees
  exec : A → S → W → S × Option Err
  obs : S → O
  /-- a guard that passes establishes these as well (`da in block.data_arrays` ⇒ `da` lives in this file) -/
  implies : G → List G := fun _ => []

inductive Step (G W : Type) where
  | guard (g : G)
  | write (w : W)
  deriving DecidableEq, Repr, Inhabited

variable {A S O G W : Type}

def step (sys : Sys A S O G W) (a : A) (s : S) : Step G W → S × Option Err
  | .guard g => (s, sys.check a g)
  | .write w => sys.exec a s w

def run (sys : Sys A S O G W) (a : A) : List (Step G W) → S → S × Option Err
  | [], s => (s, none)
  | st :: r, s =>
    match step sys a s st with
    | (s', none) => run sys a r s'
    | (s', some e) => (s', some e)

/-- once a visible write has happened (`dirty`), guards and the needs of writes must be among the guards passed
before it (`seen`) -/
def safeFrom [DecidableEq G] (sys : Sys A S O G W) (seen : List G) (dirty : Bool) : List (Step G W) → Bool
  | [] => true
  | .guard g :: r =>
    if dirty then seen.contains g && safeFrom sys seen dirty r else safeFrom sys (g :: (sys.implies g ++ seen)) dirty r
  | .write w :: r =>
    ((sys.needs w).all seen.contains) && safeFrom sys seen (dirty || !sys.invisible w) r

def safe [DecidableEq G] (sys : Sys A S O G W) (steps : List (Step G W)) : Bool := safeFrom sys [] false steps

/-- what has to be shown of a system: a write whose needs are established does not refuse; a refusing write and
an invisible write leave what readers see; what a guard is said to establish holds whenever it passes -/
structure Sys.Sound (sys : Sys A S O G W) : Prop where
  exec_ok : ∀ a s w, (∀ g ∈ sys.needs w, sys.check a g = none) → (sys.exec a s w).2 = none
  invisible_obs : ∀ a s w, sys.invisible w = true → sys.obs (sys.exec a s w).1 = sys.obs s
  implies_ok : ∀ a g g', sys.check a g = none → g' ∈ sys.implies g → sys.check a g' = none

end Nix.Guarded

namespace Nix.Guarded

variable {A S O G W : Type}

/-- a function with one protected section: `pre; try: body except Exception: <handler writes>; raise` then `post` -/
structure Fn (G W : Type) where
  pre : List (Step G W)
  body : List (Step G W)
  handler : List W
  post : List (Step G W)
  deriving Repr, Inhabited

/-- the clean-up of an `except` clause: its writes in order (a clean-up that raises replaces the exception, the
call stays refused: only the file it leaves matters here) -/
def execAll (sys : Sys A S O G W) (a : A) : List W → S → S
  | [], s => s
  | w :: r, s => execAll sys a r (sys.exec a s w).1

def runFn (sys : Sys A S O G W) (a : A) (fn : Fn G W) (s : S) : S × Option Err :=
  match run sys a fn.pre s with
  | (s1, some e) => (s1, some e)
  | (s1, none) =>
    match run sys a fn.body s1 with
    | (s2, some e) => (execAll sys a fn.handler s2, some e)
    | (s2, none) => run sys a fn.post s2

end Nix.Guarded

namespace Nix.Guarded

variable {A S G W : Type}

/-- a history of calls on one object: every call brings its arguments and the statements it runs -/
def runHistory (sys : Sys A S S G W) : List (A × List (Step G W)) → S → S
  | [], s => s
  | c :: r, s => runHistory sys r (run sys c.1 c.2 s).1

/-- the same history with every refused call left out -/
def runAccepted (sys : Sys A S S G W) : List (A × List (Step G W)) → S → S
  | [], s => s
  | c :: r, s =>
    match (run sys c.1 c.2 s).2 with
    | none => runAccepted sys r (run sys c.1 c.2 s).1
    | some _ => runAccepted sys r s

end Nix.Guarded
