import NixModel.Pure.Guarded

/-!
# Role links: the setters of `positions`, `extents`, `Feature.data`, `metadata`, `Section.link`   (C12)

A role link is a hard link of a fixed name (`positions`, `extents`, `data`, `metadata`, `link`) from an entity to
another one.  Its setter validates the offered object (right class, member of the owner's block), removes the
link it replaces and writes the new one through `H5Group.create_link` (which removes a previous link of that name
itself and, since nixio 16b3ce3, refuses an object of another file *before* doing so).  A refused assignment has
something to lose whenever a previous value exists: every validation that can refuse has to stand before the
first statement that touches the old link.

A system of `Pure/Guarded.lean`.  The offered object is abstract: its Python class (`Kind`: the setters branch on
it, the generated step lists are functions of it), where it lives (`Place`), and — for `Section.link` given an id —
whether `find_sections` finds it.  The file is the owner's group as readers see it: the role link, the
`target_type` attribute of a feature, `updated_at`.
-/
namespace Nix.RoleWrite
open Nix.Guarded

/-- the class of the offered object, as the `is None` / `isinstance` tests of the setters see it -/
inductive Kind where
  | none | array | frame | section | other
  deriving DecidableEq, Repr, Inhabited

def Kind.all : List Kind := [.none, .array, .frame, .section, .other]

/-- where the offered entity lives: held by the owner's block (for sections: anywhere in this file), in another
block of this file, in ANOTHER FILE, or nowhere any more (a handle of an entity that was deleted) -/
inductive Place where
  | member | otherBlock | otherFile | deleted
  deriving DecidableEq, Repr, Inhabited

structure Arg where
  kind : Kind
  place : Place
  idFound : Bool        -- (`Section.link = <no Section>`) `find_sections` finds a section with that id
  ownerTagged : Bool    -- the feature's link type is `Tagged` (read by the setter, not written)
  target : Nat          -- which object it is
  now : Nat
  deriving DecidableEq, Repr, Inhabited

inductive Guard where
  | refuse (e : Err)    -- a `raise` reached on the path the class of the object selects
  | inBlock             -- `da not in self._parent.data_arrays` / `… data_frames` → RuntimeError
  | notTagged           -- `self.link_type == LinkType.Tagged` (data frame offered) → UnsupportedLinkType
  | idFound             -- `if not found: raise KeyError`
  | sameFile            -- `H5Group.create_link`: `h5target.file != self.group.file` → ValueError
  deriving DecidableEq, Repr, Inhabited

inductive Write where
  | ensureGroup         -- `self._create_h5obj()`: the owner's group exists already
  | dropLink            -- `if name in group: del group[name]` (setter or `create_link`), `delete(name, False)`
  | link                -- `self.group[name] = h5target`
  | setTargetType (frame : Bool)
  | stamp               -- `if self.file.auto_update_timestamps: self.force_updated_at()`
  | newLinkGroup        -- (dimension links) `open_group("link", True)`, `set_attr("entity_id", …)`: a fresh link group
  deriving DecidableEq, Repr, Inhabited

/-- the owner's group as readers see it -/
structure File where
  link : Option Nat
  targetFrame : Option Bool
  stamp : Nat
  deriving DecidableEq, Repr, Inhabited

def check (a : Arg) : Guard → Option Err
  | .refuse e => some e
  | .inBlock => if a.place == .member then none else some .runtimeError
  | .notTagged => if a.ownerTagged then some .valueError else none
  | .idFound => if a.idFound then none else some .keyError
  | .sameFile => if a.place == .otherFile then some .valueError else none

def needs : Write → List Guard
  | .link => [.sameFile]
  | _ => []

/-- an object held by this block's container lives in this file -/
def implies : Guard → List Guard
  | .inBlock => [.sameFile]
  | _ => []

def exec (a : Arg) (f : File) : Write → File × Option Err
  | .ensureGroup => (f, none)
  | .dropLink => ({ f with link := none }, none)
  | .link => if a.place == .otherFile then (f, some .valueError) else ({ f with link := some a.target }, none)
  | .setTargetType fr => ({ f with targetFrame := some fr }, none)
  | .stamp => ({ f with stamp := a.now }, none)
  | .newLinkGroup => ({ f with link := none, targetFrame := none }, none)

/-- the role-link setters as a system of guards and writes; readers see the whole group -/
def sys : Sys Arg File File Guard Write :=
  { check := check, needs := needs, invisible := fun w => w == .ensureGroup, exec := exec, obs := id,
    implies := implies }

abbrev RStep := Step Guard Write

/-- a setter: the statements on the path that the class of the offered object selects -/
abbrev Setter := Kind → List RStep

def runSetter (st : Setter) (a : Arg) (f : File) : File × Option Err := run sys a (st a.kind) f

end Nix.RoleWrite
