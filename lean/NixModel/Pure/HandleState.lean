import NixModel.Generated.HandleState

/-!
# What a nixio object keeps outside the file  (C02: "independent of how many handles … were used")

nixio's entities, containers, dimension descriptors, views and HDF5 wrappers are handles: their answers are read
from the file when asked.  The structural model (`Store/*`) therefore has no per-handle component at all, and the
handle machine (`Pure/Handles.lean`) models the one piece of volatile state that matters for behaviour, the cached
h5py group of an `H5Group`.  That is only an honest model while the code keeps no *other* state on its objects.

This file is the hand-written side of that claim: every instance field the code assigns is listed here with the role
it plays in the models; `Generated/HandleState.lean` is what the source says today (regenerated on every run by
`harness/extract/handlestate.py`); `Props/C02.lean` proves the two agree.  No role stands for cached *content*
(attribute values, data, shapes, schemas, timestamps, parsed units …): a field of that kind cannot be classified and
breaks `handle_fields_accounted`.
-/
namespace Nix.HandleState

inductive Role where
  /-- the file, the parent handle, the HDF5 wrapper object, the item class, a position index: given to the constructor,
  never reassigned — the identity of the handle, modelled as the path / key the handle stands for -/
  | ref
  /-- a `Container` / `DimensionContainer` … object created on first access of the getter of the same name; itself a
  handle whose own fields are `ref`s; modelled as re-deriving the container from the file on every access -/
  | lazyView
  /-- `H5Group._group`: the cached h5py group — the `cache` field of `Handles.Handle`, the state of the handle machine -/
  | h5cache
  /-- `Section._sec_parent`, `Source._parent_block`: a handle of the containing entity, handed over at creation or found
  by search on first use; a *handle* (so it reads the file), determined by the position of the entity, which never
  changes (nixio has no move operation) — modelled by the ownership relation of the structural model (C13) -/
  | parentCache
  /-- session configuration held by `File` / `Block` (open mode, auto-timestamp switch, compression default): not part
  of the file's observable state; C01 / C11 / C19 model them as parameters of the session -/
  | session
  /-- fields of plain value objects that are not handles of file objects: exceptions, the BFS queue entry of `find`,
  the window of a `DataView` (fixed when the view is made), the `S` proxy of `Section` -/
  | valueObject
  /-- assigned `None` in a constructor and never used -/
  | unused
  deriving DecidableEq, Repr

open Role in
/-- every (class, field) the models account for, with its role -/
def modelled : List (String × String × Role) := [
  ("Entity", "_file", ref), ("Entity", "_h5group", ref), ("Entity", "_parent", ref),
  ("Feature", "_file", ref), ("Feature", "_h5group", ref), ("Feature", "_parent", ref),
  ("Dimension", "_file", ref), ("Dimension", "_h5group", ref), ("Dimension", "_parent", ref),
  ("Dimension", "dim_index", ref),
  ("DimensionLink", "_file", ref), ("DimensionLink", "_h5group", ref), ("DimensionLink", "_parent", ref),
  ("Container", "_backend", ref), ("Container", "_file", ref), ("Container", "_itemclass", ref),
  ("Container", "_name", ref), ("Container", "_parent", ref), ("LinkContainer", "_itemstore", ref),
  ("Property", "_h5dataset", ref),
  ("H5Group", "_parent", ref), ("H5Group", "h5obj", ref), ("H5Group", "name", ref),
  ("H5DataSet", "_parent", ref), ("H5DataSet", "dataset", ref), ("H5DataSet", "h5obj", ref), ("H5DataSet", "name", ref),
  ("File", "_h5file", ref), ("File", "_h5group", ref), ("File", "_root", ref), ("File", "_data", ref),
  ("File", "_metadata", ref),
  ("H5Group", "_group", h5cache),
  ("File", "_blocks", lazyView), ("File", "_sections", lazyView),
  ("Block", "_data_arrays", lazyView), ("Block", "_data_frames", lazyView), ("Block", "_groups", lazyView),
  ("Block", "_multi_tags", lazyView), ("Block", "_sources", lazyView), ("Block", "_tags", lazyView),
  ("Group", "_data_arrays", lazyView), ("Group", "_data_frames", lazyView), ("Group", "_multi_tags", lazyView),
  ("Group", "_sources", lazyView), ("Group", "_tags", lazyView),
  ("DataArray", "_dimensions", lazyView), ("DataArray", "_sources", lazyView),
  ("DataFrame", "_sources", unused),
  ("BaseTag", "_features", lazyView), ("BaseTag", "_references", lazyView), ("BaseTag", "_sources", lazyView),
  ("Tag", "_references", lazyView), ("Tag", "_sources", lazyView),
  ("MultiTag", "_references", lazyView), ("MultiTag", "_sources", lazyView),
  ("Section", "_properties", lazyView), ("Section", "_sections", lazyView),
  ("Source", "_sources", lazyView),
  ("Section", "_sec_parent", parentCache), ("Source", "_parent_block", parentCache),
  ("File", "mode", session), ("File", "_auto_update_timestamps", session), ("File", "_compr", session),
  ("Block", "_compr", session),
  ("DataFrame", "_columns", unused), ("DataFrame", "_rows", unused),
  ("DataView", "_error_message", valueObject), ("DataView", "_h5group", valueObject),
  ("DataView", "_slices", valueObject), ("DataView", "_valid", valueObject), ("DataView", "array", valueObject),
  ("Cont", "elem", valueObject), ("Cont", "level", valueObject),
  ("S", "section", valueObject), ("S", "section_type", valueObject),
  ("DuplicateColumnName", "message", valueObject), ("DuplicateName", "message", valueObject),
  ("IncompatibleDimensions", "message", valueObject), ("InvalidAttrType", "message", valueObject),
  ("InvalidEntity", "message", valueObject), ("InvalidFile", "message", valueObject),
  ("InvalidSlice", "message", valueObject), ("InvalidUnit", "message", valueObject),
  ("OutOfBounds", "message", valueObject), ("UninitializedEntity", "message", valueObject),
  ("UnsupportedLinkType", "message", valueObject)]

def classify (cls field : String) : Option Role :=
  (modelled.find? (fun e => e.1 == cls && e.2.1 == field)).map (·.2.2)

/-- where a field of the given role may be assigned: the method name, given the field name -/
def allowedSite (r : Role) (field method : String) : Bool :=
  match r with
  | .ref | .valueObject | .unused => method == "__init__"
  | .lazyView => method == "__init__" || "_" ++ method == field            -- `_blocks` in `blocks`
      || (field == "_properties" && method == "props")                       -- `Section.props`
  | .parentCache => method == "__init__" || method == "parent" || method == "parent_block"
  | .h5cache => method == "group" || method == "group.setter"              -- the `group` property of H5Group
  | .session => method == "__init__" || "_" ++ method == field ++ ".setter"

/-- state planted on *another* object: a new section is handed its parent, a new block the file's compression -/
def modelledForeignStores : List (String × String × String) := [
  ("Block", "create_new", "newentity._compr"),
  ("Section", "create_section", "sec._sec_parent")]

/-- item assignments through a field: all of them are writes to h5py objects (the file), or the `S` proxy forwarding
to `Section.__setitem__` -/
def modelledItemStores : List (String × String × String) := [
  ("File", "_h5file.attrs", "force_created_at"),
  ("File", "_h5file.attrs", "force_updated_at"),
  ("H5DataSet", "dataset", "write_data"),
  ("H5DataSet", "dataset.attrs", "set_attr"),
  ("H5Group", "group", "create_link"),
  ("H5Group", "group.attrs", "set_attr"),
  ("S", "section", "__setitem__")]

/-- module-level containers: the prefix table of `units.py` (a constant; C09 regenerates and proves over it) -/
def modelledModuleState : List (String × String) := [("nixio/util/units.py", "PREFIX_FACTORS")]

end Nix.HandleState
