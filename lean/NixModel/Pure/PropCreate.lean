import NixModel.Pure.Guarded

/-!
# `Section.create_property` (values given) with `Property.create_new` inlined   (C12)

The property dataset is created, named, given its id and time stamps, and only then the values are assigned
(`prop.values = vals`) — which can still refuse (an integer beyond 64 bit, text that cannot be stored).  The
`except` clause deletes the half-built property by name.  That restores the section *because* the duplicate test
came first: the name was free, so deleting it removes exactly what the call created.
-/
namespace Nix.PropCreate
open Nix.Guarded

structure Call where
  memberOk : Bool        -- `name in <h5py group>` is defined (text or bytes)
  taken : Bool           -- the section already has a property of that name
  nameValid : Bool       -- `util.check_entity_name`: not empty, no "/", storable text
  valuesOk : Bool        -- the typing block: a DataType, or non-empty values of one supported type
  dtypeOk : Bool         -- `Property._make_h5_dtype`
  valuesStorable : Bool  -- the `values` setter accepts and h5py stores them
  key : Nat              -- which name it is
  now : Nat
  deriving DecidableEq, Repr, Inhabited

inductive Guard where
  | nameFree | valuesChecked | nameValid | dtypeOk
  deriving DecidableEq, Repr, Inhabited

inductive Write where
  | openContainer | createDataset | setName | setId | stampCreated | stampUpdated | setValues | deleteByName
  deriving DecidableEq, Repr, Inhabited

structure Item where
  key : Nat
  named : Bool := false
  hasId : Bool := false
  created : Option Nat := none
  updated : Option Nat := none
  values : Bool := false
  deriving DecidableEq, Repr, Inhabited

structure File where
  container : Bool
  items : List Item
  deriving DecidableEq, Repr, Inhabited

def check (c : Call) : Guard → Option Err
  | .nameFree => if !c.memberOk then some .typeError else if c.taken then some .duplicateName else none
  | .valuesChecked => if c.valuesOk then none else some .typeError
  | .nameValid => if c.nameValid then none else some .valueError
  | .dtypeOk => if c.dtypeOk then none else some .typeError

def needs : Write → List Guard
  | .createDataset => [.nameFree, .nameValid, .dtypeOk]
  | .setName => [.nameValid]
  | _ => []

def mapLast (f : Item → Item) : List Item → List Item
  | [] => []
  | [x] => [f x]
  | x :: r => x :: mapLast f r

def exec (c : Call) (f : File) : Write → File × Option Err
  | .openContainer => ({ f with container := true }, none)
  | .createDataset =>
    if c.memberOk && !c.taken && c.nameValid && c.dtypeOk then ({ f with items := f.items ++ [{ key := c.key }] }, none)
    else (f, some .valueError)
  | .setName =>
    if c.nameValid then ({ f with items := mapLast (fun i => { i with named := true }) f.items }, none)
    else (f, some .typeError)
  | .setId => ({ f with items := mapLast (fun i => { i with hasId := true }) f.items }, none)
  | .stampCreated => ({ f with items := mapLast (fun i => { i with created := some c.now }) f.items }, none)
  | .stampUpdated => ({ f with items := mapLast (fun i => { i with updated := some c.now }) f.items }, none)
  | .setValues =>
    if c.valuesStorable then
      ({ f with items := mapLast (fun i => { i with values := true, updated := some c.now }) f.items }, none)
    else (f, some .typeError)
  | .deleteByName => ({ f with items := f.items.filter (fun i => i.key != c.key) }, none)

def sys : Sys Call File (List Item) Guard Write :=
  { check := check, needs := needs, invisible := fun w => w == .openContainer, exec := exec, obs := (·.items) }

abbrev PStep := Step Guard Write

/-- the call's view of the section agrees with the section -/
def Consistent (c : Call) (f : File) : Prop := c.taken = f.items.any (fun i => i.key == c.key)

end Nix.PropCreate
