import NixModel.Basic
import NixModel.Pure.Time
import NixModel.Generated.Setters

/-!
# Pure.Stamps — the time stamp machine of nixio (`created_at` / `updated_at`)

State: the entities of one file with their two stored time stamp attributes (the *text* written by
`time_to_str`, or nothing when the attribute is missing), the file's `auto_update_timestamps`
switch and the value the (controlled) clock `util.now_int()` returns.

What the code does (anchors):

* `Entity.create_new`, `Property.create_new`, `Feature.create_new`, `File.__init__`: the new object
  gets `created_at` and `updated_at` = `time_to_str(now_int())` (`create`; what is left behind when
  that conversion raises — a clock outside the years 1…9999 — differs per kind and is not modelled);
* `Entity.force_created_at / force_updated_at`, `File.force_*` (`entity.py:70-107`,
  `file.py:250-287`): `time=None` → the clock, otherwise `check_attr_type(time, int)` then
  `time_to_str(time)`; `Feature` has no such methods (AttributeError) (`forceCreated`, `forceUpdated`);
* every property setter / mutator: validation (may refuse, nothing written), the write, then —
  on the paths of its body that run the idiom `if self.file.auto_update_timestamps:
  self.force_updated_at()` — the update of that object's `updated_at`; a path that runs
  `self.force_updated_at()` outside that test (touch state `always`) writes it whatever the switch
  says.  Which paths a member has
  (how each ends: `return` or an exception; whether the idiom has run before that exit, and on which
  object) is **not** written here: it is read from `Generated/Setters.lean` (`Member.outcomes`, a
  path-sensitive analysis of the source), with Python's method resolution order.  A call is modelled
  as taking *one of the outcomes of the member it resolves to* (`call … o`); the theorems quantify
  over all of them;
* `File.auto_update_timestamps = b` is a plain assignment (`setAuto`); closing and re-opening keeps
  every attribute and takes the switch from the `open` call (`reopen`);
* deleting an entity removes it and what it owns, nothing else (`delete`);
* `create_*(copy_from=x)` / `copy_section(x)` makes an entity that carries the stored time stamps of
  `x`, and copies of everything `x` owns with theirs (`copy`);
* the getters `created_at` / `updated_at` are `str_to_time(attribute)`, `None` when missing.
-/
namespace Nix.Stamps
open Nix.Time Nix.Stamps.Gen

inductive Kind where
  | file | block | group | dataArray | dataFrame | tag | multiTag | source | section | property
  | feature
  deriving DecidableEq, Repr

/-- the nixio class of every entity kind -/
def Kind.cls : Kind → Cls
  | .file => .File | .block => .Block | .group => .Group | .dataArray => .DataArray
  | .dataFrame => .DataFrame | .tag => .Tag | .multiTag => .MultiTag | .source => .Source
  | .section => .Section | .property => .Property | .feature => .Feature

/-- ownership: which kind can be created inside which -/
def validParent (k p : Kind) : Bool :=
  match k, p with
  | .block, .file | .section, .file | .section, .section | .property, .section => true
  | .group, .block | .dataArray, .block | .dataFrame, .block | .tag, .block | .multiTag, .block
  | .source, .block | .source, .source | .feature, .tag | .feature, .multiTag => true
  | _, _ => false

structure Ent where
  kind : Kind
  /-- index of the owner (the file, index 0, owns itself) -/
  parent : Nat
  alive : Bool
  created : Option Str
  updated : Option Str
  deriving DecidableEq, Repr

structure State where
  ents : List Ent
  auto : Bool
  clock : Int
  deriving Repr

/-- how the harness built the argument of a creation: accepted, or refused by the validation that
precedes every write (`refusedLate` is kept for the line protocol; creations have no such case) -/
inductive Input where | good | refusedEarly | refusedLate
  deriving DecidableEq, Repr

/-- argument of `force_*_at`: omitted (the clock), an `int`, or a value of another type -/
inductive TimeArg where | now | at (t : Int) | badType
  deriving DecidableEq, Repr

inductive Op where
  | create (k : Kind) (parent : Nat) (inp : Input)
  /-- `entity.<m> = v` / `entity.<m>(…)` ending in outcome `o` (one of the outcomes the source of the
  resolved member has); `via` names a helper class whose method is invoked on behalf of the entity
  (`LinkContainer.append` for `group.data_arrays.append(x)`, a dimension's setter for
  `array.dimensions[k].unit = …`; for `DimensionLink` — `dim.label = …` / `dim.unit = …` on a dimension
  that is linked to a data object — `e` is that linked data object, whose attribute is written) -/
  | call (e : Nat) (via : Option Cls) (m : Mem) (o : Outcome)
  /-- `owner.create_<kind>(name, copy_from=src)` / `owner.copy_section(src)`: a copy of the live entity
  `src` inside the live owner `parent` (`H5Group.copy` duplicates the HDF5 object with all its
  attributes and everything below it: the copy and the copies of all entities `src` owns - features of
  a tag, everything inside a block, sub-sections and properties of a section - carry the time stamps
  of their sources, whether or not they keep the ids) -/
  | copy (src : Nat) (parent : Nat)
  | forceCreated (e : Nat) (t : TimeArg)
  | forceUpdated (e : Nat) (t : TimeArg)
  | setAuto (b : Bool)
  | setClock (t : Int)
  | delete (e : Nat)
  | reopen (auto : Bool)
  deriving DecidableEq, Repr

inductive Res where
  | done | refused | err (e : Err)
  /-- the operation does not make sense on this state (dead target, unknown member, …): never
  generated by the harness; the state is unchanged -/
  | bad
  deriving DecidableEq, Repr

/-! ## the setter table with Python's method resolution -/

def lookupIn (c : Cls) (m : Mem) : Option Member :=
  members.find? (fun x => x.cls == c && x.mem == m)

/-- the definition of `m` that `obj.m` reaches for an object of class `c` -/
def resolve (c : Cls) (m : Mem) : Option Member :=
  (mro c).findSome? (fun c' => lookupIn c' m)

/-- is the `force_*_at` method that Python resolves for class `c` the canonical one (`time=None` →
the clock, otherwise `check_attr_type(time, int)`, then the write of `time_to_str(time)` to that
attribute), as recorded in `Generated/Setters.lean`; the model knows no other -/
def forceCanonical (c : Cls) (a : StampAttr) : Bool :=
  match (mro c).findSome? (fun c' => forceDefs.find? (fun d => d.cls == c' && d.attr == a)) with
  | some d => d.canonical
  | none => false

/-! ## primitives -/

def setCreated (ents : List Ent) (i : Nat) (v : Str) : List Ent :=
  ents.modify i (fun e => { e with created := some v })

def setUpdated (ents : List Ent) (i : Nat) (v : Str) : List Ent :=
  ents.modify i (fun e => { e with updated := some v })

def aliveAt (s : State) (i : Nat) : Option Ent :=
  match s.ents[i]? with
  | some e => if e.alive then some e else none
  | none => none

/-- is `i` equal to `root` or owned (transitively) by it; `fuel` bounds the walk up -/
def ownedBy (ents : List Ent) (root : Nat) : Nat → Nat → Bool
  | 0, i => i == root
  | fuel + 1, i =>
    if i == root then true
    else match ents[i]? with
      | some e => if e.parent == i then false else ownedBy ents root fuel e.parent
      | none => false

/-- the kinds `create_*(copy_from=…)` / `copy_section` can copy -/
def copyable : Kind → Bool
  | .dataArray | .dataFrame | .property | .tag | .multiTag | .block | .section => true
  | _ => false

/-- the live entities that `root` owns (transitively), `root` itself included, with their indices, in
index order: what `H5Group.copy` duplicates when the HDF5 object of `root` is copied -/
def subtree (ents : List Ent) (root : Nat) : List (Ent × Nat) :=
  ents.zipIdx.filter fun x => x.1.alive && ownedBy ents root ents.length x.2

/-- the copy of one entity of the subtree: every stored attribute is kept (`created_at`, `updated_at`
included); the copy of `src` is owned by `p`, the copy of anything else by the copy of its owner
(the `k`-th member of the subtree becomes entity `ents.length + k`) -/
def copyOf (ents : List Ent) (sub : List (Ent × Nat)) (src p : Nat) (x : Ent × Nat) : Ent :=
  { x.1 with parent := if x.2 == src then p else ents.length + (sub.map (·.2)).idxOf x.1.parent }

def copies (ents : List Ent) (src p : Nat) : List Ent :=
  (subtree ents src).map (copyOf ents (subtree ents src) src p)

/-- the argument of `force_*_at` as the text that is stored -/
def timeArgStr (s : State) : TimeArg → Except Err Str
  | .now => timeToStr s.clock
  | .at t => timeToStr t
  | .badType => .error .typeError

/-- a freshly opened (created) file: entity 0 -/
def State.open (clock : Int) (auto : Bool) : Except Err State :=
  match timeToStr clock with
  | .ok v => .ok { ents := [{ kind := .file, parent := 0, alive := true, created := some v,
                              updated := some v }], auto := auto, clock := clock }
  | .error e => .error e

/-! ## one operation -/

def step (s : State) : Op → State × Res
  | .create k p inp =>
    match aliveAt s p with
    | none => (s, .bad)
    | some pe =>
      if !validParent k pe.kind then (s, .bad)
      else match inp with
        | .refusedEarly => (s, .refused)
        | .refusedLate => (s, .bad)
        | .good =>
          match timeToStr s.clock with
          | .error _ => (s, .bad)   -- creation under a clock outside the years 1…9999: not modelled
          | .ok v =>
            ({ s with ents := s.ents ++ [{ kind := k, parent := p, alive := true, created := some v,
                                           updated := some v }] }, .done)
  | .copy src p =>
    match aliveAt s src, aliveAt s p with
    | some se, some pe =>
      if !validParent se.kind pe.kind || !copyable se.kind then (s, .bad)
      else ({ s with ents := s.ents ++ copies s.ents src p }, .done)
    | _, _ => (s, .bad)
  | .call e via m o =>
    match aliveAt s e with
    | none => (s, .bad)
    | some ent =>
      let c := match via with | some c => c | none => ent.kind.cls
      match resolve c m with
      | none => (s, .bad)
      | some mb =>
        match mb.kind with
        | .forceCreated => (s, .bad)
        | .forceUpdated => (s, .bad)
        | _ =>
          if !mb.outcomes.contains o then (s, .bad)   -- no path of the source ends like this
          else
            let res := match o.exit with | .returns => Res.done | .raises => Res.refused
            if s.auto then
              match o.touch with
              | .none => (s, res)
              | .self =>
                match timeToStr s.clock with
                | .error er => (s, .err er)
                | .ok v => ({ s with ents := setUpdated s.ents e v }, res)
              | .parent =>
                match timeToStr s.clock with
                | .error er => (s, .err er)
                | .ok v => ({ s with ents := setUpdated s.ents ent.parent v }, res)
              | .linked =>
                -- a setter of a `DimensionLink`, run on behalf of the data object the link points to
                -- (entity `e`): `lobj.set_attr("updated_at", …)` with `lobj = self._linked_group()`
                match timeToStr s.clock with
                | .error er => (s, .err er)
                | .ok v => ({ s with ents := setUpdated s.ents e v }, res)
              | .always =>
                match timeToStr s.clock with
                | .error er => (s, .err er)
                | .ok v => ({ s with ents := setUpdated s.ents e v }, res)
            else
              match o.touch with
              | .always =>
                -- `self.force_updated_at()` outside the test of the switch: written although the switch
                -- is off (no member of the source has such a path: `Nix.C19.C19_no_unguarded_stamp`)
                match timeToStr s.clock with
                | .error er => (s, .err er)
                | .ok v => ({ s with ents := setUpdated s.ents e v }, res)
              | _ => (s, res)
  | .forceCreated e t =>
    match aliveAt s e with
    | none => (s, .bad)
    | some ent =>
      match resolve ent.kind.cls .m_force_created_at with
      | none => (s, .err .attributeError)
      | some mb =>
        if mb.kind != .forceCreated || !forceCanonical ent.kind.cls .created then (s, .bad)
        else match timeArgStr s t with
          | .error er => (s, .err er)
          | .ok v => ({ s with ents := setCreated s.ents e v }, .done)
  | .forceUpdated e t =>
    match aliveAt s e with
    | none => (s, .bad)
    | some ent =>
      match resolve ent.kind.cls .m_force_updated_at with
      | none => (s, .err .attributeError)
      | some mb =>
        if mb.kind != .forceUpdated || !forceCanonical ent.kind.cls .updated then (s, .bad)
        else match timeArgStr s t with
          | .error er => (s, .err er)
          | .ok v => ({ s with ents := setUpdated s.ents e v }, .done)
  | .setAuto b => ({ s with auto := b }, .done)
  | .setClock t => ({ s with clock := t }, .done)
  | .delete e =>
    match aliveAt s e with
    | none => (s, .bad)
    | some _ =>
      if e == 0 then (s, .bad)
      else
        ({ s with ents := s.ents.mapIdx (fun i x =>
              if ownedBy s.ents e s.ents.length i then { x with alive := false } else x) }, .done)
  | .reopen a => ({ s with auto := a }, .done)

def run (s : State) : List Op → State
  | [] => s
  | op :: ops => run (step s op).1 ops

/-! ## a call that hands work to a member of another object

`section[name] = v` for a name in use runs `property.values = v`; `dim.label = …` on a linked
`RangeDimension` runs the `DimensionLink`'s setter; a creating function runs setters on the entity it
has made.  Such a nested call is admitted exactly where the source has one: the name `f` must be in
the generated `foreign` list of the member the outer call resolves to.  Its effect is that of the
inner call (on behalf of entity `d`, on one of the paths of the member `f` resolves to there)
followed by the outer member's own outcome. -/

def callDelegating (s : State) (e : Nat) (via : Option Cls) (m : Mem) (o : Outcome)
    (d : Nat) (dvia : Option Cls) (f : Mem) (fo : Outcome) : State × Res :=
  match aliveAt s e with
  | none => (s, .bad)
  | some ent =>
    match resolve (via.getD ent.kind.cls) m with
    | none => (s, .bad)
    | some mb =>
      if !mb.foreign.contains f then (s, .bad)       -- the body invokes no such member on another object
      else
        let r1 := step s (.call d dvia f fo)
        match r1.2 with
        | .bad => (s, .bad)
        | _ => step r1.1 (.call e via m o)

/-! ## observation -/

/-- the getters `created_at` / `updated_at`: `str_to_time(attr)`, `None` when the attribute is missing -/
def readStamp : Option Str → Except Err (Option Int)
  | none => .ok none
  | some v => match strToTime v with
    | .ok t => .ok (some t)
    | .error e => .error e

def readCreated (s : State) (i : Nat) : Option (Except Err (Option Int)) :=
  (s.ents[i]?).map (fun e => readStamp e.created)

def readUpdated (s : State) (i : Nat) : Option (Except Err (Option Int)) :=
  (s.ents[i]?).map (fun e => readStamp e.updated)

/-! ### the getters as the source has them

`entity.created_at` / `entity.updated_at` is whatever the getter of the entity's class (Python's MRO)
computes.  `Generated/Setters.lean` records the body of each getter: `parsesStored a` = exactly
`return util.str_to_time(<stored attribute a>)`, so the value depends on the file alone — not on
the Python object through which it is read, and not on what that object saw earlier. -/

def getterBody (c : Cls) (a : StampAttr) : Option GetterBody :=
  (mro c).findSome? (fun c' =>
    (stampGetters.find? (fun g => g.cls == c' && g.attr == a)).map (·.body))

def Ent.stored (e : Ent) : StampAttr → Option Str
  | .created => e.created
  | .updated => e.updated

/-- what reading stamp `a` of entity `i` returns, through any handle: `none` when there is no such
entity or when the getter is not of the shape the model knows -/
def observe (s : State) (i : Nat) (a : StampAttr) : Option (Except Err (Option Int)) :=
  match s.ents[i]? with
  | none => none
  | some e =>
    match getterBody e.kind.cls a with
    | some (.parsesStored b) => some (readStamp (e.stored b))
    | _ => none

/-- the object whose stored time stamps an operation may write (none for session operations) -/
def Op.target (s : State) : Op → Option Nat
  | .create _ _ _ => some s.ents.length
  | .copy _ _ => some s.ents.length
  | .call e _ _ o =>
    match aliveAt s e with
    | none => none
    | some ent =>
      match o.touch with
      | .parent => some ent.parent
      | _ => some e
  | .forceCreated e _ => some e
  | .forceUpdated e _ => some e
  | _ => none

/-- the touch states in which the member can return normally -/
def Gen.Member.returnTouches (mb : Member) : List Touch :=
  (mb.outcomes.filter (fun o => o.exit == .returns)).map (·.touch)

/-- the outcome of an accepted call when the source leaves no choice: all normal exits of the member
are reached in the same touch state (used by the driver to run harness histories, which say
"accepted" without naming a path) -/
def Gen.Member.acceptedOutcome (mb : Member) : Option Outcome :=
  match mb.returnTouches.eraseDups with
  | [t] => some ⟨.returns, t⟩
  | _ => none

/-- the outcome of a call refused before / after the idiom ran, if the source has such a path -/
def Gen.Member.refusedOutcome (mb : Member) (late : Bool) : Option Outcome :=
  mb.outcomes.find? (fun o => o.exit == .raises && (o.touch != .none) == late)

def Op.isForce : Op → Bool
  | .forceCreated _ _ => true
  | .forceUpdated _ _ => true
  | _ => false

end Nix.Stamps
