import NixModel.Pure.Units
import NixModel.Generated.UnitsScaling

/-!
# `scaling()` over the statement shape regenerated from the source

`Generated/UnitsScaling.lean` holds the shape of `is_si`, of `scalable` (which operands must be SI, which split
components are compared) and of `nixio/util/units.py:scaling` — the shortcut's comparisons, the
if/elif chain on the two prefixes with the expression each branch assigns, the else branch, which power text is
applied.  This file interprets that shape; `Lemmas/UnitsScalingEq.lean` proves that the result is the hand-written
`Nix.Units.scaling` for all inputs, so the theorems about `Nix.Units.scaling` are theorems about the code's shape
as it is today, and an edit of a branch of `scaling()` breaks `lake build` at `Nix.C09.scaling_shape`.
The C09 driver runs this function.
-/
namespace Nix.Units.Scaling
open Nix.Units Nix.Units.Gen

/-- truth value of the expression `is_si` returns -/
def evalSi (s : Str) : SiExpr → Bool
  | .nonEmpty => !s.isEmpty
  | .atomic => isAtomic s
  | .compound => isCompound s
  | .and a b => evalSi s a && evalSi s b
  | .or a b => evalSi s a || evalSi s b

/-- `is_si(unit)` -/
def isSi (s : Str) : Bool := evalSi s isSiShape

/-- `scalable(units_a, units_b)` on two strings: the SI guard, then the comparison of the split components -/
def scalable (a b : Str) : Bool :=
  if !((!scalableNeedsSiA || isSi a) && (!scalableNeedsSiB || isSi b)) then false
  else if (scalableComparesUnit && (split a).2.1 != (split b).2.1) ||
      (scalableComparesPower && (split a).2.2 != (split b).2.2) then false
  else true

/-- evaluate an assigned expression; `fo`/`fd` are `PREFIX_FACTORS[org_prefix]` / `[dest_prefix]` (`none` = KeyError) -/
def evalExpr (fo fd : Option Rat) : ScaleExpr → Option Rat
  | .one => some 1
  | .orgF => fo
  | .destF => fd
  | .div a b =>
    match evalExpr fo fd a, evalExpr fo fd b with
    | some x, some y => some (x / y)
    | _, _ => none
  | .mul a b =>
    match evalExpr fo fd a, evalExpr fo fd b with
    | some x, some y => some (x * y)
    | _, _ => none

/-- truthiness of a prefix string in a branch condition -/
def litHolds (op dp : Str) (l : ScaleLit) : Bool := (if l.org then op else dp).isEmpty != l.nonEmpty

/-- the if/elif chain: the first branch whose condition holds assigns; no branch and no else: still 1.0 -/
def chainScale (op dp : Str) : List (List ScaleLit × ScaleExpr) → Option Rat
  | [] =>
    match scaleElse with
    | some e => evalExpr ((prefixExpOf op).map tenPow) ((prefixExpOf dp).map tenPow) e
    | none => some 1
  | (c, e) :: rest =>
    if c.all (litHolds op dp) then evalExpr ((prefixExpOf op).map tenPow) ((prefixExpOf dp).map tenPow) e
    else chainScale op dp rest

/-- `scaling` after the `scalable` test, as a function of the two split results -/
def scalingCore (op dp opow dpow : Str) : Except Err Rat :=
  if (!scaleShortcutPrefix || op == dp) && (!scaleShortcutPower || opow == dpow) then .ok 1
  else
    match chainScale op dp scaleChain with
    | none => .error .keyError
    | some sc =>
      let pw := if scalePowerFromOrg then opow else dpow
      if pw.isEmpty then .ok sc
      else match pyInt pw with
        | some w => .ok (sc ^ w)
        | none => .error .valueError

/-- `scaling(origin, destination)` -/
def scaling (a b : Str) : Except Err Rat :=
  if !Scaling.scalable a b then .error .invalidUnit
  else scalingCore (split a).1 (split b).1 (split a).2.2 (split b).2.2

end Nix.Units.Scaling
