import NixModel.Pure.Frame
/-!
# Pure.FrameBytes — the data frame as it lies in the file: text cells are UTF-8 bytes

`Pure/Frame.lean` keeps a text cell as the Python `str` the reads return.  In the file (HDF5 variable-length string
members of the compound type) it is the UTF-8 encoding of that string, and nixio's code sees both views:

 * **raw** — `self._h5group.group['data'][:]` in `append_column` and `write_column`: h5py returns the text fields of
   a compound row as `bytes`; the rows are written back with those bytes in them (h5py stores `bytes` as they are
   and a `str` as its UTF-8 encoding);
 * **converted** — every read API (`read_rows`, `read_cell`, `read_columns`, `frame[...]`) and the row `write_cell`
   edits go through `DataSet._read_data` → `H5DataSet.read_data` (nixio/hdf5/h5dataset.py), which selects from the
   dataset and then runs `_convert_string_cols`: in every selected row the fields **whose type is the
   variable-length string type** are replaced by `ensure_str(bytes)`; a single selected row (`not data.shape`) and an
   array of rows take different branches of that function.

This file models that layer: `SFrame` is the stored table with text as `bytes`; the reads select raw rows and
convert them; the writes follow the code in using raw or converted rows.  `Lemmas/C16Bytes.lean` proves that the
byte-level machine started from any created frame stays the encoding of the abstract frame, operation by operation,
and that each byte-level read returns what the abstract read returns (`Props/C16.lean`: `C16_storage_*`).
The driver (`Driver/C16.lean`) runs this machine, so the differential runs tie it to the implementation directly.
-/
namespace Nix.Frame

/-- a cell as h5py hands it over in a raw row -/
inductive SVal where
  | int (n : Int)
  | flt (r : Rat)
  | bool (b : Bool)
  | bytes (b : ByteArray)
  deriving Inhabited

abbrev SRow := List SVal

/-- what h5py stores for a (converted) cell: a `str` as its UTF-8 encoding -/
def enc : Val → SVal
  | .int n => .int n
  | .flt r => .flt r
  | .bool b => .bool b
  | .str s => .bytes s.toUTF8

def encRow (r : Row) : SRow := r.map enc

structure SFrame where
  cols : List (String × ColType)
  rows : List SRow
  units : Option (List (Option String))
  deriving Inhabited

def SFrame.types (s : SFrame) : List ColType := s.cols.map (·.2)

/-- the stored form of an abstract frame -/
def encFrame (f : Frame) : SFrame := ⟨f.cols, f.rows.map encRow, f.units⟩

/-- `six.ensure_str(bytes)`: strict UTF-8 decoding (`UnicodeDecodeError` is a `ValueError`) -/
def ensureStr (b : ByteArray) : Except Err Val :=
  match String.fromUTF8? b with
  | some s => .ok (.str s)
  | none => .error .valueError

/-- one field in `_convert_string_cols`: a field of the variable-length string type is decoded, any other field
    is left as it is (a non-text field never holds bytes) -/
def convStringCell (t : ColType) (v : SVal) : Except Err Val :=
  match v with
  | .int n => .ok (.int n)
  | .flt r => .ok (.flt r)
  | .bool b => .ok (.bool b)
  | .bytes b => if t = .text then ensureStr b else .error .typeError

/-- `conv_row(row)` of `_convert_string_cols` -/
def convStringCols : List ColType → SRow → Except Err Row
  | [], [] => .ok []
  | t :: ts, v :: vs =>
    match convStringCell t v with
    | .error e => .error e
    | .ok w => match convStringCols ts vs with
      | .error e => .error e
      | .ok ws => .ok (w :: ws)
  | _, _ => .error .valueError

/-- `for row in data: conv_row(row)` -/
def convStringRows (ts : List ColType) : List SRow → Except Err (List Row)
  | [] => .ok []
  | r :: rs =>
    match convStringCols ts r with
    | .error e => .error e
    | .ok w => match convStringRows ts rs with
      | .error e => .error e
      | .ok ws => .ok (w :: ws)

-- ---------------------------------------------------------------------------------------
-- reads: `H5DataSet.read_data(slc)` = select from the dataset, then `_convert_string_cols`

/-- `frame[:]` -/
def sReadAll (s : SFrame) : Except Err (List Row) := convStringRows s.types s.rows

/-- `read_rows(i)` / `frame[i]`: one raw row selected, then the single-row branch of the conversion -/
def sReadRow (s : SFrame) (i : Int) : Except Err Row :=
  match normIdx s.rows.length i with
  | none => .error .indexError
  | some k => match s.rows[k]? with
    | some r => convStringCols s.types r
    | none => .error .indexError

def sGetRows (rows : List SRow) : List Nat → Except Err (List SRow)
  | [] => .ok []
  | k :: ks =>
    match rows[k]? with
    | none => .error .indexError
    | some r => match sGetRows rows ks with
      | .error e => .error e
      | .ok rs => .ok (r :: rs)

/-- `read_rows([i, j, …])`: point selection, then the conversion of every selected row -/
def sReadRows (s : SFrame) (idx : List Int) : Except Err (List Row) :=
  match selectList s.rows.length idx .indexError with
  | .error e => .error e
  | .ok ks => match sGetRows s.rows ks with
    | .error e => .error e
    | .ok rs => convStringRows s.types rs

/-- `read_columns`: `_read_data(slc)` (slice of the rows, converted), then the field selection -/
def sReadColumns (s : SFrame) (sel : Except Err (List Nat)) (lo hi : Option Int) : Except Err (List Row) :=
  match sel with
  | .error e => .error e
  | .ok ks =>
    if hasDupNat ks then .error .valueError
    else match convStringRows s.types (sliceList s.rows lo hi) with
      | .error e => .error e
      | .ok rows => pickAll rows ks

/-- `read_cell(position=[row, col])` = `self[row][col]` -/
def sReadCellPos (s : SFrame) (pos : List Int) : Except Err Val :=
  match pos with
  | [ri, ci] =>
    match sReadRow s ri with
    | .error e => .error e
    | .ok row => match normIdx row.length ci with
      | none => .error .indexError
      | some c => match row[c]? with
        | some v => .ok v
        | none => .error .indexError
  | _ => .error .valueError

/-- `read_cell(col_name=, row_idx=)` = `self[row][name]` -/
def sReadCellName (s : SFrame) (name : String) (ri : Int) : Except Err Val :=
  match sReadRow s ri with
  | .error e => .error e
  | .ok row => match findCol s.cols name with
    | none => .error .valueError
    | some c => match row[c]? with
      | some v => .ok v
      | none => .error .valueError

def sColOf : List SRow → Nat → Except Err (List SVal)
  | [], _ => .ok []
  | r :: rs, c =>
    match r[c]?, sColOf rs c with
    | some v, .ok vs => .ok (v :: vs)
    | _, .error e => .error e
    | none, _ => .error .indexError

/-- `np.array(list(map(ensure_str, data.ravel())))` for a field of the string type; other fields as they are -/
def convStringField (t : ColType) : List SVal → Except Err (List Val)
  | [] => .ok []
  | v :: vs =>
    match convStringCell t v, convStringField t vs with
    | .ok w, .ok ws => .ok (w :: ws)
    | .error e, _ => .error e
    | _, .error e => .error e

/-- `frame[name]`: h5py selects the one field of every row (text: an array of `bytes`); `read_data` takes the
    branch `data.dtype == util.vlen_str_dtype` for a text field and converts every element -/
def sGetField (s : SFrame) (name : String) : Except Err (List Val) :=
  match findCol s.cols name with
  | none => .error .indexError
  | some c => match s.cols[c]? with
    | none => .error .indexError
    | some ct => match sColOf s.rows c with
      | .error e => .error e
      | .ok raw => convStringField ct.2 raw

/-- `frame[lo:hi]`: the raw rows of the slice, converted row by row -/
def sGetSlice (s : SFrame) (lo hi : Option Int) : Except Err (List Row) :=
  convStringRows s.types (sliceList s.rows lo hi)

/-- `read_columns(..., group_by_cols=True)`: `self._read_data(slc=slc)[col_name]` for every requested column -/
def sReadColumnsGrouped (s : SFrame) (sel : Except Err (List Nat)) (lo hi : Option Int) :
    Except Err (List (List Val)) :=
  match sel with
  | .error e => .error e
  | .ok [k] => match convStringRows s.types (sliceList s.rows lo hi) with
    | .error e => .error e
    | .ok rows => pickAll rows [k]
  | .ok ks => match convStringRows s.types (sliceList s.rows lo hi) with
    | .error e => .error e
    | .ok rows => colsOf rows ks

-- ---------------------------------------------------------------------------------------
-- writes

/-- `append_rows`: `np.array(rows, dtype)`, resize, write (h5py encodes the text cells) -/
def sAppendRows (s : SFrame) (rows : List (List Val)) : SFrame × Option Err :=
  match convRows s.types rows with
  | .error e => (s, some e)
  | .ok rs => ({ s with rows := s.rows ++ rs.map encRow }, none)

def sAppendCell : List SRow → List SVal → List SRow
  | r :: rs, v :: vs => (r ++ [v]) :: sAppendCell rs vs
  | _, _ => []

/-- `append_column`: the **raw** rows of the dataset (`self._h5group.group['data'][:]`, text as bytes) get the
    converted cell appended and are written to the rebuilt dataset: the bytes go back as they came -/
def sAppendColumn (s : SFrame) (col : List Val) (name : String) (dt : Option ColType) : SFrame × Option Err :=
  if col.length ≠ s.rows.length then (s, some .valueError) else
  let t? : Except Err ColType := match dt with
    | some t => .ok t
    | none => match col with
      | [] => .error .indexError
      | v :: _ => .ok (typeOfVal v)
  match t? with
  | .error e => (s, some e)
  | .ok t =>
    match mkDtype (s.cols ++ [(name, t)]) with
    | .error e => (s, some e)
    | .ok cols' =>
      match convCol t col with
      | .error e => (s, some e)
      | .ok ws =>
        ({ cols := cols', rows := sAppendCell s.rows (ws.map enc),
           units := s.units.map (· ++ [none]) }, none)

def sSetMany : List SRow → List Nat → List SRow → List SRow
  | rows, k :: ks, r :: rs => sSetMany (rows.set k r) ks rs
  | rows, _, _ => rows

/-- `write_rows(rows, index)` (nested form) -/
def sWriteRows (s : SFrame) (rows : List (List Val)) (idx : List Int) : SFrame × Option Err :=
  match rows with
  | [] => (s, some .indexError)
  | _ =>
    if rows.length ≠ idx.length then (s, some .indexError) else
    if maxInt idx > (s.rows.length : Int) - 1 then (s, some .outOfBounds) else
    match convRows s.types rows with
    | .error e => (s, some e)
    | .ok rs =>
      match selectList s.rows.length idx .typeError with
      | .error e => (s, some e)
      | .ok ks => ({ s with rows := sSetMany s.rows ks (rs.map encRow) }, none)

def sWriteRowFlat (s : SFrame) (row : List Val) (idx : List Int) : SFrame × Option Err :=
  match row with
  | [] => (s, some .indexError)
  | _ => if idx.length ≠ 1 then (s, some .typeError) else sWriteRows s [row] idx

/-- the loop of `write_column` over a copy of the **raw** rows: field `c` of row `i` gets the converted cell; the
    other fields keep their raw content (text as bytes) and are written back as such -/
def sWriteColLoop (t : ColType) (c : Nat) : List SRow → List Val → List SRow × Option Err
  | r :: rs, v :: vs =>
    match conv t v with
    | .error e => (r :: rs, some e)
    | .ok w =>
      let p := sWriteColLoop t c rs vs
      (r.set c (enc w) :: p.1, p.2)
  | rs, _ => (rs, none)

def sResolveColName (s : SFrame) (index : Option Int) (name : Option String) : Except Err String :=
  match name with
  | some n => .ok n
  | none => match index with
    | none => .error .valueError
    | some i => match normIdx s.cols.length i with
      | none => .error .indexError
      | some k => match s.cols[k]? with
        | some c => .ok c.1
        | none => .error .indexError

def sWriteColumn (s : SFrame) (col : List Val) (index : Option Int) (name : Option String) : SFrame × Option Err :=
  if col.length ≠ s.rows.length then (s, some .valueError) else
  match sResolveColName s index name with
  | .error e => (s, some e)
  | .ok nm =>
    match s.rows with
    | [] => (s, none)
    | _ =>
      match findCol s.cols nm with
      | none => (s, some .valueError)
      | some c => match s.cols[c]? with
        | none => (s, some .valueError)
        | some ct =>
          match sWriteColLoop ct.2 c s.rows col with
          | (rows', none) => ({ s with rows := rows' }, none)
          | (_, some e) => (s, some e)

/-- `write_cell(cell, position=[row, col])`: the **converted** row `read_rows(row)` returns gets the cell assigned
    and is written back (its text cells are encoded again) -/
def sWriteCellPos (s : SFrame) (cell : Val) (pos : List Int) : SFrame × Option Err :=
  match pos with
  | [ri, ci] =>
    match normIdx s.rows.length ri with
    | none => (s, some .indexError)
    | some r => match sReadRow s ri with
      | .error e => (s, some e)
      | .ok row => match normIdx s.cols.length ci with
        | none => (s, some .indexError)
        | some c => match s.cols[c]? with
          | none => (s, some .indexError)
          | some ct => match conv ct.2 cell with
            | .error e => (s, some e)
            | .ok w => ({ s with rows := s.rows.set r (encRow (row.set c w)) }, none)
  | _ => (s, some .valueError)

/-- `write_cell(cell, col_name=, row_idx=)` -/
def sWriteCellName (s : SFrame) (cell : Val) (name : String) (ri : Int) : SFrame × Option Err :=
  match normIdx s.rows.length ri with
  | none => (s, some .indexError)
  | some r => match sReadRow s ri with
    | .error e => (s, some e)
    | .ok row => match findCol s.cols name with
      | none => (s, some .valueError)
      | some c => match s.cols[c]? with
        | none => (s, some .valueError)
        | some ct => match conv ct.2 cell with
          | .error e => (s, some e)
          | .ok w => ({ s with rows := s.rows.set r (encRow (row.set c w)) }, none)

def sSetUnits (s : SFrame) (us : List (Option String)) : SFrame × Option Err :=
  if us.length ≠ s.cols.length then (s, some .valueError)
  else ({ s with units := some (us.map (fun u => if u = some "" then none else u)) }, none)

def sstep (s : SFrame) : Op → SFrame × Option Err
  | .appendRows rows => sAppendRows s rows
  | .appendColumn col name dt => sAppendColumn s col name dt
  | .writeRows rows idx => sWriteRows s rows idx
  | .writeRowFlat row idx => sWriteRowFlat s row idx
  | .writeColumn col index name => sWriteColumn s col index name
  | .writeCellPos cell pos => sWriteCellPos s cell pos
  | .writeCellName cell name row => sWriteCellName s cell name row
  | .setUnits us => sSetUnits s us

def srun (s : SFrame) (ops : List Op) : SFrame := ops.foldl (fun g op => (sstep g op).1) s

/-- creation: the data converted to the column types (`np.ascontiguousarray`), written with `write_direct`
    (h5py encodes the text cells) -/
def sCreated (r : Except Err Frame) : Except Err SFrame := r.map encFrame

end Nix.Frame
