import NixModel.Pure.Frame
/-!
# Pure.FrameShape — the shape of nixio/data_frame.py that `Pure/Frame.lean` was written against

Hand-written counterpart of `NixModel/Generated/FrameShape.lean` (regenerated from the source by
harness/extract/frameshape.py on every run).  `Props/C16.lean` proves the generated tables equal to these
(`C16_guards_as_modelled`, `C16_calls_as_modelled`, `C16_handles_stateless`): when a guard of a modelled method
is edited, a check is reordered, a conversion moves behind a write or another storage helper is called, a named
theorem breaks and the check goes looking for a failing input.  Which model branch stands for which guard:

 * `append_column`  len(column) </> len(self)            → `appendColumn`: `col.length ≠ f.rows.length` ⇒ ValueError
 * `write_column`   len(column) != self.shape[0]          → `writeColumn`: `col.length ≠ f.rows.length` ⇒ ValueError
                    index is None and name is None        → `resolveColName`: ValueError
 * `write_rows`     len(index) != 1 (flat row)            → `writeRowFlat`: TypeError
                    len(rows) != len(index)               → `writeRows`: IndexError
                    max(index) > n_rows - 1               → `writeRows`: `maxInt idx > n - 1` ⇒ OutOfBounds
 * `write_cell` / `read_cell`   len(position) != 2        → `writeCellPos` / `readCellPos`: ValueError
 * `units.setter`   shape != (len(column_names),)         → `setUnits`: `us.length ≠ f.cols.length` ⇒ ValueError
 * `create_data_frame`  len(col_names) != len(col_dict)   → `createNamesTypes`: DuplicateColumnName
 * the `<reraise>` entries are the roll-back handlers of `append_column` / `append_rows` / `write_column`
   (fix: commits e4fbac6, ad11a3a, 2f1693f) and of `create_data_frame` (51bc882): the model returns the unchanged frame with the error.
The refusal theorems of `Props/C16.lean` (`C16_refuses_*`) are stated over those model branches.
-/
namespace Nix.Frame.Shape

/-- `if test: raise Exception` statements of the modelled methods, in source order -/
def guards : List (String × List (String × String)) := [
  ("append_column", [("len(column) < len(self)", "ValueError"), ("len(column) > len(self)", "ValueError"), ("True", "<reraise>")]),
  ("append_rows", [("True", "<reraise>")]),
  ("write_column", [("len(column) != self.shape[0]", "ValueError"), ("index is None and name is None", "ValueError"), ("True", "<reraise>")]),
  ("read_columns", [("index is None and name is None", "ValueError")]),
  ("write_rows", [("len(index) != 1", "TypeError"), ("len(rows) != len(index)", "IndexError"), ("max(index) > n_rows - 1", "OutOfBounds")]),
  ("read_rows", []),
  ("write_cell", [("len(position) != 2", "ValueError"), ("col_name is None or row_idx is None", "ValueError")]),
  ("read_cell", [("len(position) != 2", "ValueError"), ("col_name is None or row_idx is None", "ValueError")]),
  ("_find_name_by_idx", []),
  ("row_count", []),
  ("units", []),
  ("units.setter", [("units_arr.shape != (len(self.column_names),)", "ValueError")]),
  ("columns", []),
  ("column_names", []),
  ("dtype", []),
  ("df_shape", []),
  ("create_data_frame", [("not isinstance(copy_from, DataFrame)", "TypeError"), ("name in data_frames", "DuplicateName"), ("True", "ValueError"), ("len(col_names) != len(col_dict)", "DuplicateColumnName"), ("len(col_dtype.fields.values()) != len(col_dict)", "DuplicateColumnName"), ("True", "ValueError"), ("True", "<reraise>")]),
  ("create_new", [])
]

/-- attribute-chain calls and named HDF5 object accesses of the modelled methods, in source order -/
def calls : List (String × List String) := [
  ("append_column", ["DataType.get_dtype", "dt_arr.append", "np.dtype", "column.tolist", "np.array", "self._h5group.group['data']", "row_list.append", "new_da.append", "np.ascontiguousarray", "self._h5group.create_dataset", "newds.write_data", "del grp['data.new']", "del grp['data']", "grp.move"]),
  ("append_rows", ["li_data.append", "np.array", "self.append"]),
  ("write_column", ["self._find_name_by_idx", "np.array", "self._h5group.group['data']", "stored.copy", "self._python_scalar", "self.write_rows", "self._write_data"]),
  ("read_columns", ["name.append", "self._read_data", "self._read_data", "col_types.add", "gcol.append", "np.array", "np.array", "self._read_data"]),
  ("write_rows", ["self._write_data", "cr_list.append", "self._write_data"]),
  ("read_rows", []),
  ("write_cell", ["self.read_rows", "self._python_scalar", "self._write_data", "self.read_rows", "self._python_scalar", "self._write_data"]),
  ("read_cell", []),
  ("_find_name_by_idx", []),
  ("row_count", []),
  ("units", ["self._h5group.get_attr"]),
  ("units.setter", ["np.array", "util.units.sanitizer", "util.check_attr_type", "self._h5group.set_attr", "self.force_updated_at"]),
  ("columns", ["np.any"]),
  ("column_names", ["self._h5group.group['data']"]),
  ("dtype", ["self._h5group.group['data']", "col_dict.values"]),
  ("df_shape", ["self._h5group.group['data']"]),
  ("create_data_frame", ["self._copy_objects", "util.check_entity_name_and_type", "self._h5group.open_group", "exceptions.DuplicateName", "col_dtypes.append", "col_dtype.fields.keys", "col_dtype.fields.values", "col_dtype.fields.values", "col_dict.items", "col_dict.items", "np.dtype", "np.ascontiguousarray", "DataFrame.create_new", "df.write_direct"]),
  ("create_new", ["super(DataFrame, cls).create_new", "newentity._h5group.create_dataset"])
]

/-- the read path of every DataFrame read (`DataSet.__getitem__` → `_read_data` → `H5DataSet.read_data` →
    `_convert_string_cols`), statement by statement, as `Pure/FrameBytes.lean` models it: selection from the dataset
    (h5py's ValueError / TypeError turned into IndexError), then by the kind of the selection — one string, an array
    of the string type (`sGetField` on a text column: every element through `ensure_str`), a compound selection
    (`convStringCols` on a single row when `not data.shape`, else row by row: `convStringRows`), converting exactly
    the fields whose type is the variable-length string type -/
def storage : List (String × List String) := [
  ("DataSet.__getitem__", ["def __getitem__(self, index):", "return self._read_data(index)"]),
  ("DataSet._read_data", ["def _read_data(self, slc=None):", "return self._h5group.get_dataset('data').read_data(slc)"]),
  ("H5DataSet.read_data", ["def read_data(self, slc=None):", "if slc is None:", "slc = slice(None, None, None)", "try:", "data = self.dataset[slc]", "except ValueError as ve_exc:", "raise IndexError(ve_exc)", "except TypeError as te_exc:", "raise IndexError(te_exc)", "if isinstance(data, (bytes, str)):", "data = np.array(ensure_str(data), dtype=object)", "else:", "if data.dtype == util.vlen_str_dtype:", "data = np.reshape(np.array(list(map(ensure_str, data.ravel())), dtype=object), data.shape)", "else:", "if data.dtype.fields:", "data = self._convert_string_cols(data)", "return data"]),
  ("H5DataSet._convert_string_cols", ["def _convert_string_cols(data):", "str_cols = list()", "for (field_name, (col_type, _)) in data.dtype.fields.items():", "if col_type == util.vlen_str_dtype:", "str_cols.append(field_name)", "def conv_row(row):", "for field in str_cols:", "row[field] = ensure_str(row[field])", "if str_cols:", "if not data.shape:", "conv_row(data)", "else:", "for row in data:", "conv_row(row)", "return data"])
]

end Nix.Frame.Shape
