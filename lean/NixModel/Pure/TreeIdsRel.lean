import NixModel.Pure.TreeIds

/-!
# `Section.find_related` with every id comparison made on the stored texts  (property C13)

```
result = []
if self.parent is not None: result = finders._find_sections(self.parent, filtr, <limit>)     -- `Section.parent` on texts
if self in result: del result[result.index(self)]                     -- `Entity.__eq__`: the two `id` texts
result += finders._find_sections(self, filtr, <limit>)
```
-/

namespace Nix.Tree.Ids
open Nix.Tree Nix.Tree.Shape

/-- `del result[result.index(self)]`: the first element whose id text is the entity's -/
def eraseT (texts : Nat → String) (k : Nat) : List Node → List Node
  | [] => []
  | x :: xs => if texts x.key == texts k then xs else x :: eraseT texts k xs

def findRelatedT (ps : ParentShape) (rs : RelatedShape) (sh : IdLookup) (texts : Nat → String) (f : File) (k : Nat)
    (useCache : Bool) (filt : Node → Bool) : Except Err (List Node) :=
  match findL? k f.sections with
  | none => .error .keyError
  | some n =>
    match sectionParentT ps sh texts f k useCache with
    | .error e => .error e
    | .ok par =>
      let first : Except Err (List Node) :=
        match par with
        | none => .ok []
        | some pk =>
          match findL? pk f.sections with
          | none => .error .keyError
          | some p => findG rs.finder (.node p) filt (some rs.parentLimit)
      match first, findG rs.finder (.node n) filt (some rs.selfLimit) with
      | .ok a, .ok b => .ok (eraseT texts k a ++ b)
      | .error e, _ => .error e
      | _, .error e => .error e

end Nix.Tree.Ids
