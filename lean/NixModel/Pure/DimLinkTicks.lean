import NixModel.Basic

/-!
# Ticks of a linked RangeDimension (`nixio/dimensions.py`)

`RangeDimension.link_data_array`, `RangeDimension.is_alias`, `RangeDimension.ticks` and `DimensionLink.values`
for a DataArray provider: the ticks of a linked dimension are ONE VECTOR of the provider's data, named by an
index that holds one coordinate per data dimension of the provider and exactly one `-1` (the axis the vector runs
along).  Data are row-major (`data[tuple(dimindex)]` on the NumPy array `get_data("data")` returns).
-/

namespace Nix.DimLinkTicks

/-- `RangeDimension._check_index` on integer entries: exactly one entry is `-1` and it is the only negative one -/
def indexOk (index : List Int) : Bool :=
  index.count (-1) == 1 && (index.filter (fun i => decide (i < 0))).length == 1

/-- `Dimension.link_data_array`: the rank test comes first (IncompatibleDimensions), then the index test
(ValueError); nothing about the LENGTH of the selected vector is tested -/
def linkDataArray (shape : List Nat) (index : List Int) : Except Err Unit :=
  if shape.length != index.length then .error .incompatibleDimensions
  else if !indexOk index then .error .valueError
  else .ok ()

/-- what `RangeDimension.is_alias` reads from the dimension's HDF5 group -/
structure RangeStore where
  /-- `self._h5group.has_data("ticks")` -/
  hasTicks : Bool
  /-- `len(self._h5group)` -/
  members : Nat
  /-- `has_link`, and whether `dimension_link._data_object_type == "DataArray"` -/
  link : Option Bool
  deriving DecidableEq, Repr

/-- `RangeDimension.is_alias`, branch for branch -/
def isAlias (s : RangeStore) : Bool :=
  if s.hasTicks then false
  else if s.link.isNone && decide (s.members > 0) then true
  else if s.link == some true then true
  else false

/-- the group after `link_data_array(provider, index)` was accepted: the link group is a member, ticks are deleted -/
def afterLinkArray (s : RangeStore) : RangeStore :=
  { hasTicks := false, members := (if s.hasTicks then s.members - 1 else s.members) + (if s.link.isNone then 1 else 0),
    link := some true }

/-- product of the extents: entries of one block -/
def blockSize (shape : List Nat) : Nat := shape.foldr (· * ·) 1

/-- the `k`-th block of `size` entries -/
def block (data : List Rat) (size k : Nat) : List Rat := (data.drop (k * size)).take size

/-- `List.mapM` in `Except`, written out -/
def mapE {α β : Type} (f : α → Except Err β) : List α → Except Err (List β)
  | [] => .ok []
  | a :: rest => match f a with
    | .error e => .error e
    | .ok b => match mapE f rest with
      | .error e => .error e
      | .ok bs => .ok (b :: bs)

/-- every coordinate fixed: the one entry NumPy returns (IndexError for a coordinate outside the extent) -/
def pick : List Nat → List Int → List Rat → Except Err Rat
  | [], [], [x] => .ok x
  | n :: shape, i :: index, data =>
    if i < 0 ∨ n ≤ i.toNat then .error .indexError
    else pick shape index (block data (blockSize shape) i.toNat)
  | _, _, _ => .error .indexError

/-- `DimensionLink.values` for a DataArray: `data[tuple(dimindex)]` with the `-1` replaced by `slice(None)` -/
def values : List Nat → List Int → List Rat → Except Err (List Rat)
  | n :: shape, i :: index, data =>
    if i == -1 then mapE (fun k => pick shape index (block data (blockSize shape) k)) (List.range n)
    else if i < 0 ∨ n ≤ i.toNat then .error .indexError
    else values shape index (block data (blockSize shape) i.toNat)
  | _, _, _ => .error .indexError

/-- the provider's extent along the axis the index marks with `-1` -/
def axisLen : List Nat → List Int → Option Nat
  | n :: shape, i :: index => if i == -1 then some n else axisLen shape index
  | _, _ => none

/-- `RangeDimension.ticks` of a dimension linked to a DataArray (`has_link`: `dimension_link.values`) -/
def linkedTicks (shape : List Nat) (index : List Int) (data : List Rat) : Except Err (List Rat) :=
  values shape index data

/-- every coordinate is fixed and lies inside the extent -/
def fixedOk : List Nat → List Int → Bool
  | [], [] => true
  | n :: shape, i :: index => decide (0 ≤ i) && decide (i.toNat < n) && fixedOk shape index
  | _, _ => false

/-- one coordinate per extent, exactly one `-1`, every other coordinate inside its extent -/
def coordsOk : List Nat → List Int → Bool
  | n :: shape, i :: index =>
    if i == -1 then fixedOk shape index
    else if 0 ≤ i ∧ i.toNat < n then coordsOk shape index
    else false
  | _, _ => false

end Nix.DimLinkTicks
