import NixModel.Pure.DimLink
import NixModel.Store.Copy

/-!
# Id-keeping / id-regenerating copies inside the C05 histories

`Block.create_data_array / create_tag / create_multi_tag (copy_from=obj, name, keep_copy_id)` on the state with
content: the graph part is `Store.copyIntoBlock` (HDF5 object copy: everything reachable from the source is
duplicated once, so the arrays a copied tag refers to are duplicated WITH it and live only inside the copy), the
content tables (array data, ticks, labels, link indices, frames) follow the duplicated nodes.
-/
namespace Nix.DimLink
open Nix.Store

/-- the content of every duplicated node is the content of its original -/
def copyTable {α : Type} (tbl : List (Nat × α)) (m : List (Nat × Nat)) : List (Nat × α) :=
  m.foldl (fun acc kv => match look tbl kv.1 with | some v => put acc kv.2 v | none => acc) tbl

def copyInto (s : DState) (destBlockPath : Path) (what : String) (obj : Nat) (name : String) (keepId : Bool) :
    Except Err DState :=
  match copyIntoBlock s.g s.g destBlockPath what obj name keepId with
  | .error e => .error e
  | .ok g' =>
    -- the key map of `copyNodes`: the nodes reachable from the source, numbered from the key supply in that order
    -- (nothing after the duplication draws a key)
    let ks := reachFrom s.g obj
    let base := g'.nextKey - ks.length
    let m : List (Nat × Nat) := ks.zipIdx.map fun ki => (ki.1, base + ki.2)
    .ok { s with g := g', data := copyTable s.data m, ticks := copyTable s.ticks m, labels := copyTable s.labels m,
                 index := copyTable s.index m, frames := copyTable s.frames m }

end Nix.DimLink
