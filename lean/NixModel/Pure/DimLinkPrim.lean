import NixModel.Pure.DimLink

/-!
# The statements of nixio's dimension-link methods, as a small vocabulary

`harness/extract/linkshape.py` reads `Dimension.link_data_array`, `Dimension.link_data_frame`, the
`RangeDimension` wrappers, `Dimension.remove_link` and the `RangeDimension.ticks` setter from
`nixio/dimensions.py` and renders their bodies as lists of `LStmt` (`Generated/LinkShape.lean`).
`runWrites` executes the *writing* statements on the model state; `Props/C05.lean` proves that the
generated bodies, executed, are the model's `attachLink` / `removeLink` / `setTicks` writes, and that in
every generated body all checks come before the first write.
-/
namespace Nix.DimLink

inductive LStmt where
  | checkRank            -- `_check_link_dimensionality` … `raise IncompatibleDimensions`
  | checkIndex           -- `_check_index` … `raise ValueError`
  | checkIntIndex        -- `util.check_attr_type(index, int)`
  | checkBounds          -- `if not 0 <= index < len(data_frame.columns): raise OutOfBounds`
  | requireLink          -- `if not self.has_link: raise RuntimeError`
  | convertTicks         -- `ticks = np.asarray(ticks, dtype=DataType.Double)` (a conversion of the argument)
  | checkAscending       -- `if np.any(np.diff(ticks) < 0): raise ValueError`
  | removeOldLink        -- `if self.has_link: self.remove_link()`
  | createLink (dotype : String)   -- `DimensionLink.create_new(self._file, self, self._h5group, <obj>, dotype, index)`
  | callSuper            -- `super(RangeDimension, self).link_data_…(<obj>, index)`
  | dropTicks            -- `if "ticks" in self._h5group: self._h5group.delete("ticks", False)`
  | deleteLink           -- `self._h5group.delete("link", False)`
  | writeTicks           -- `self._h5group.write_data("ticks", ticks, …)`
  deriving DecidableEq, Repr, Inhabited

def LStmt.isWrite : LStmt → Bool
  | .removeOldLink | .createLink _ | .dropTicks | .deleteLink | .writeTicks => true
  | _ => false

/-- all checks of a body come before its first write (a refused call has written nothing) -/
def checksFirst (body : List LStmt) : Bool := (body.dropWhile fun st => !st.isWrite).all LStmt.isWrite

/-- a `callSuper` replaced by the base-class body -/
def inlineSuper (base : List LStmt) (body : List LStmt) : List LStmt :=
  body.flatMap fun st => if st == .callSuper then base else [st]

structure LArgs where
  dn : Nat
  target : Nat
  tid : String
  iv : List Int
  ts : List Rat := []

/-- one writing statement on the model state (checks are no-ops here: the model functions perform them) -/
def execWrite (a : LArgs) (s : DState) : LStmt → DState
  | .removeOldLink => if hasLink s.g a.dn then { s with g := s.g.delLink a.dn "link" } else s
  | .createLink ty => createLinkGroup s a.dn a.target a.tid ty a.iv
  | .dropTicks => if s.g.hasChild a.dn "ticks" then { s with g := s.g.delLink a.dn "ticks" } else s
  | .deleteLink => { s with g := s.g.delLink a.dn "link" }
  | .writeTicks =>
    let (g2, k) := ensureDataset s.g a.dn "ticks"
    { s with g := g2, ticks := put s.ticks k a.ts }
  | _ => s

def runWrites (a : LArgs) (body : List LStmt) (s : DState) : DState := body.foldl (execWrite a) s

end Nix.DimLink
