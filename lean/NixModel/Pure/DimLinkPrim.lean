import NixModel.Pure.DimLink

/-!
# The statements of nixio's dimension-link methods, as a small vocabulary

`harness/extract/linkshape.py` reads `Dimension.link_data_array`, `Dimension.link_data_frame`, the
`RangeDimension` wrappers, `Dimension.remove_link` and the `RangeDimension.ticks` setter from
`nixio/dimensions.py` and renders their bodies as lists of `LStmt` (`Generated/LinkShape.lean`).
`runWrites` executes the *writing* statements on the model state; `Props/C05.lean` proves that the
generated bodies, executed, are the model's `attachLink` / `removeLink` / `setTicks` writes, and that in
every generated body all checks come before the first write.  The DataFrame branch of the `DimensionLink.unit`
getter / setter is rendered as `UStmt` (below).
-/
namespace Nix.DimLink

inductive LStmt where
  | checkRank            -- `_check_link_dimensionality` … `raise IncompatibleDimensions`
  | checkIndex           -- `_check_index` … `raise ValueError`
  | checkIntIndex        -- `util.check_attr_type(index, int)`
  | checkBounds          -- `if not 0 <= index < len(data_frame.columns): raise OutOfBounds`
  | checkSameFile        -- `if <obj>._h5group.group.file != self._h5group.group.file: raise ValueError`
  | requireLink          -- `if not self.has_link: raise RuntimeError`
  | convertTicks         -- `ticks = np.asarray(ticks, dtype=DataType.Double)` (a conversion of the argument)
  | checkAscending       -- `if np.any(np.diff(ticks) < 0): raise ValueError`
  | removeOldLink        -- `if self.has_link: self.remove_link()`
  | createLink (dotype : String)   -- `DimensionLink.create_new(self._file, self, self._h5group, <obj>, dotype, index)`
  | callSuper            -- `super(RangeDimension, self).link_data_…(<obj>, index)`
  | dropTicks            -- `if "ticks" in self._h5group: self._h5group.delete("ticks", False)`
  | deleteLink           -- `self._h5group.delete("link", False)`
  | writeTicks           -- `self._h5group.write_data("ticks", ticks, …)`
  deriving DecidableEq, Repr, Inhabited

def LStmt.isWrite : LStmt → Bool
  | .removeOldLink | .createLink _ | .dropTicks | .deleteLink | .writeTicks => true
  | _ => false

/-- all checks of a body come before its first write (a refused call has written nothing) -/
def checksFirst (body : List LStmt) : Bool := (body.dropWhile fun st => !st.isWrite).all LStmt.isWrite

/-- a `callSuper` replaced by the base-class body -/
def inlineSuper (base : List LStmt) (body : List LStmt) : List LStmt :=
  body.flatMap fun st => if st == .callSuper then base else [st]

structure LArgs where
  dn : Nat
  target : Nat
  tid : String
  iv : List Int
  ts : List Rat := []

/-- one writing statement on the model state (checks are no-ops here: the model functions perform them) -/
def execWrite (a : LArgs) (s : DState) : LStmt → DState
  | .removeOldLink => if hasLink s.g a.dn then { s with g := s.g.delLink a.dn "link" } else s
  | .createLink ty => createLinkGroup s a.dn a.target a.tid ty a.iv
  | .dropTicks => if s.g.hasChild a.dn "ticks" then { s with g := s.g.delLink a.dn "ticks" } else s
  | .deleteLink => { s with g := s.g.delLink a.dn "link" }
  | .writeTicks =>
    let (g2, k) := ensureDataset s.g a.dn "ticks"
    { s with g := g2, ticks := put s.ticks k a.ts }
  | _ => s

def runWrites (a : LArgs) (body : List LStmt) (s : DState) : DState := body.foldl (execWrite a) s

/-! ## the unit of a dimension link to a frame column (`DimensionLink.unit`, DataFrame branch)

The translator renders the DataFrame branch of the getter and of the setter statement by statement; `runUnitGetter`
/ `runUnitSetter` execute them on a frame's content the way Python would (a missing `units` attribute is `None`:
subscripting or copying it raises TypeError).  `Props/C05.lean` proves that the generated bodies are the model's
`linkFrameUnit` / `setFrameUnit` for every frame, column and value. -/

inductive UStmt where
  | readUnits                 -- `units = lobj.get_attr("units")`
  | noneIfNoUnits             -- `if units is None: return None`
  | pickEntry                 -- `unit = units[self.index]`
  | returnEmptyAsNone         -- `return unit if unit != "" else None`
  | emptyPerColumnIfNoUnits   -- `if units is None: units = [""] * len(lobj.group["data"].dtype.names)`
  | copyList                  -- `units = list(units)`
  | putEntryNoneAsEmpty       -- `units[self.index] = unit if unit is not None else ""`
  | writeUnits                -- `lobj.set_attr("units", units)`
  deriving DecidableEq, Repr, Inhabited

/-- the locals of the branch: `units`, `unit` (getter), what the function returned / raised so far, and what was
handed to `set_attr("units", …)` (`some none`: `set_attr` with None removes the attribute) -/
structure UState where
  units : Option (List String) := none
  picked : Option String := none
  result : Option (Except Err (Option String)) := none
  written : Option (Option (List String)) := none

def execU (fd : FrameData) (c : Nat) (v : Option String) (st : UState) (stmt : UStmt) : UState :=
  if st.result.isSome then st          -- the function has returned or raised
  else match stmt with
    | .readUnits => { st with units := fd.units }
    | .noneIfNoUnits => if st.units.isNone then { st with result := some (.ok none) } else st
    | .pickEntry =>
      match st.units with
      | none => { st with result := some (.error .typeError) }       -- 'NoneType' object is not subscriptable
      | some us =>
        match us[c]? with
        | some u => { st with picked := some u }
        | none => { st with result := some (.error .indexError) }
    | .returnEmptyAsNone =>
      match st.picked with
      | some u => { st with result := some (.ok (readUnit u)) }
      | none => { st with result := some (.error .runtimeError) }    -- (UnboundLocalError: never with a generated body)
    | .emptyPerColumnIfNoUnits =>
      if st.units.isNone then { st with units := some (List.replicate fd.cols.length "") } else st
    | .copyList =>
      match st.units with
      | none => { st with result := some (.error .typeError) }       -- 'NoneType' object is not iterable
      | some _ => st
    | .putEntryNoneAsEmpty =>
      match st.units with
      | none => { st with result := some (.error .typeError) }
      | some us =>
        if c < us.length then { st with units := some (us.set c (unitText v)) }
        else { st with result := some (.error .indexError) }
    | .writeUnits => { st with written := some st.units }

/-- the getter's branch: what it returns (falling off the end returns None) -/
def runUnitGetter (body : List UStmt) (fd : FrameData) (c : Nat) : Except Err (Option String) :=
  match (body.foldl (execU fd c none) {}).result with
  | some r => r
  | none => .ok none

/-- the setter's branch: the frame's content afterwards (or the exception) -/
def runUnitSetter (body : List UStmt) (fd : FrameData) (c : Nat) (v : Option String) : Except Err FrameData :=
  let st := body.foldl (execU fd c v) {}
  match st.result with
  | some (.error e) => .error e
  | _ =>
    match st.written with
    | some us => .ok { fd with units := us }
    | none => .ok fd

end Nix.DimLink
