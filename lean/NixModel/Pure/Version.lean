import NixModel.Basic
import NixModel.Generated.FormatConst

/-!
# Model of `nixio/file.py`: format-version gating, open modes, read-only sessions

* `canWrite`, `canRead`, `checkHeader` follow `can_write`, `can_read`, `File._check_header`
  branch for branch; the constants, the `map_file_mode` chain, the comparison of `can_write`,
  the boolean condition of `can_read`, the mode-gate dispatch and the id threshold come from
  `Generated/FormatConst.lean` (regenerated from the Python source on every run).
* `openFile` follows `File.__init__`: missing path + ReadOnly ⇒ RuntimeError; missing path or
  Overwrite ⇒ create/truncate with a fresh header; otherwise open with the mapped access flag;
  then `_check_header`, then the `data`/`metadata` groups and the two timestamps are created when
  absent (which HDF5 refuses through an `ACC_RDONLY` handle).
* `openPath` is `File.__init__` for a path in ANY condition (`Node`: missing, an HDF5 file, a file
  libhdf5 cannot open, a directory), written over the generated shape of `__init__` (guards,
  create-or-open condition, rebound mode, ordered tail); `Lemmas/C11Path.lean` proves that on
  missing paths and HDF5 files it is `openFile`.
* A session is the pair (mode, access flag).  nixio itself has no write guard: every mutator goes
  to h5py, and libhdf5 refuses writes through a handle opened `ACC_RDONLY`.  That runtime
  behaviour is the stand-in `step`: a mutator (any function on the content) is applied iff the
  session's flag is not `rdonly`.
* `is_uuid` = `uuid.UUID(str(x))` succeeds; `uuidAccepts` follows CPython's `UUID.__init__(hex)`
  and `int(hex, 16)` for ASCII strings.

Strings are `List Char`.
-/
namespace Nix.Version
open Nix Nix.Gen.Format

abbrev Str := List Char

/-! ## Python helpers -/

def cmpInt : Cmp → Int → Int → Bool
  | .eq, a, b => decide (a = b)
  | .ne, a, b => decide (a ≠ b)
  | .lt, a, b => decide (a < b)
  | .le, a, b => decide (a ≤ b)
  | .gt, a, b => decide (a > b)
  | .ge, a, b => decide (a ≥ b)

/-- Python's `a < b` on tuples of ints: lexicographic, a proper prefix is smaller -/
def tupleLt : List Int → List Int → Bool
  | [], [] => false
  | [], _ :: _ => true
  | _ :: _, [] => false
  | a :: as, b :: bs => if a = b then tupleLt as bs else decide (a < b)

/-- Python's comparison operators on tuples of ints -/
def cmpTuple : Cmp → List Int → List Int → Bool
  | .eq, a, b => decide (a = b)
  | .ne, a, b => decide (a ≠ b)
  | .lt, a, b => tupleLt a b
  | .le, a, b => !tupleLt b a
  | .gt, a, b => tupleLt b a
  | .ge, a, b => !tupleLt a b

/-- first matching entry of an if/elif chain `x == k₁ … elif x == k₂ …` -/
def chainLookup {β : Type} (k : Str) : List (Str × β) → Option β
  | [] => none
  | (k', v) :: rest => if k = k' then some v else chainLookup k rest

/-! ### `uuid.UUID(hex)` acceptance (CPython 3.12, ASCII input) -/

/-- `s.replace(pat, "")` for a non-empty `pat`: leftmost non-overlapping occurrences are removed.
The counter is the number of characters of the current occurrence still to be skipped. -/
def removeAllAux (pat : Str) : Nat → Str → Str
  | _, [] => []
  | n + 1, _ :: cs => removeAllAux pat n cs
  | 0, c :: cs =>
    if pat.isPrefixOf (c :: cs) then removeAllAux pat (pat.length - 1) cs
    else c :: removeAllAux pat 0 cs

def removeAll (pat : Str) (s : Str) : Str := removeAllAux pat 0 s

/-- `s.strip(chars)` -/
def stripChars (chars : List Char) (s : Str) : Str :=
  ((s.dropWhile (chars.contains ·)).reverse.dropWhile (chars.contains ·)).reverse

/-- `Py_ISSPACE` -/
def isSpace (c : Char) : Bool :=
  c = ' ' || c = '\t' || c = '\n' || c = '\r' || c = Char.ofNat 11 || c = Char.ofNat 12

def isHex (c : Char) : Bool :=
  (decide ('0' ≤ c) && decide (c ≤ '9')) || (decide ('a' ≤ c) && decide (c ≤ 'f')) ||
  (decide ('A' ≤ c) && decide (c ≤ 'F'))

def isHexOrUs (c : Char) : Bool := isHex c || c = '_'

def hasDoubleUs : Str → Bool
  | '_' :: '_' :: _ => true
  | _ :: cs => hasDoubleUs cs
  | [] => false

/-- optional sign: (negative?, rest) -/
def splitSign (s : Str) : Bool × Str :=
  match s with
  | '+' :: t => (false, t)
  | '-' :: t => (true, t)
  | _ => (false, s)

/-- base 16: an optional `0x` / `0X`, and one `_` allowed right after it -/
def skipHexPrefix (s : Str) : Str :=
  match s with
  | '0' :: x :: t =>
    if x = 'x' || x = 'X' then (match t with | '_' :: u => u | _ => t) else s
  | _ => s

/-- the digit run: not empty, no `_` at either end, no `__` -/
def digitsOk (body : Str) : Bool :=
  !body.isEmpty && body.head? != some '_' && body.getLast? != some '_' && !hasDoubleUs body

/-- `int(s, 16)` succeeds with a non-negative result (`PyLong_FromString`: blanks, sign, optional
`0x`/`0X` and one `_` after it, digits with single `_` between them, blanks) -/
def pyIntHexNonneg (s : Str) : Bool :=
  let ns := splitSign (s.dropWhile isSpace)
  let s3 := skipHexPrefix ns.2
  let body := s3.takeWhile isHexOrUs
  let rest := s3.dropWhile isHexOrUs
  digitsOk body && rest.all isSpace && (!ns.1 || body.all (fun c => c = '0' || c = '_'))

/-- `uuid.UUID(s)` does not raise ValueError -/
def uuidAccepts (s : Str) : Bool :=
  let h := removeAll ['-'] (stripChars ['{', '}'] (removeAll "uuid:".toList (removeAll "urn:".toList s)))
  h.length == 32 && pyIntHexNonneg h

/-- `str(x)` of an attribute value that is absent (`None`) or a string -/
def pyStr : Option Str → Str
  | none => "None".toList
  | some s => s

/-- `util.is_uuid(x)` = `UUID(str(x))` succeeds -/
def isUuid (id : Option Str) : Bool := uuidAccepts (pyStr id)

/-! ## Header and the version gates -/

/-- the three root attributes of the header; `none` = attribute absent -/
structure Header where
  fmt : Option Str
  version : Option (List Int)
  id : Option Str
  deriving DecidableEq, Repr

/-- `can_write`: `tuple(None)` ⇒ TypeError; wrong length ⇒ RuntimeError -/
def canWrite (h : Header) : Except Err Bool :=
  match h.version with
  | none => .error .typeError
  | some v =>
    if v.length ≠ versionLen then .error .runtimeError
    else .ok (cmpTuple canWriteCmp libVersion v)

/-- `can_read`; the three-way unpack fails with ValueError on another length -/
def canRead (h : Header) : Except Err Bool :=
  match h.version with
  | none => .error .typeError
  | some v =>
    if v.length ≠ versionLen then .error .runtimeError
    else match v with
      | [f0, f1, f2] => .ok (canReadCond libX libY libZ f0 f1 f2)
      | _ => .error .valueError

def runGate (g : Gate) (h : Header) : Except Err Bool :=
  match g with
  | .canWrite => canWrite h
  | .canRead => canRead h

/-- `File._check_header(mode)` -/
def checkHeader (mode : Str) (h : Header) : Except Err Unit :=
  if h.fmt ≠ some fileFormat then .error .invalidFile
  else
    let gate : Except Err Unit :=
      match chainLookup mode gateTable with
      | some g =>
        match runGate g h with
        | .error e => .error e
        | .ok true => .ok ()
        | .ok false => .error .runtimeError
      | none => .ok ()
    match gate with
    | .error e => .error e
    | .ok () =>
      match h.version with
      | none => .error .typeError
      | some v =>
        if cmpTuple idThresholdCmp v idThreshold then
          if isUuid h.id then .ok () else .error .runtimeError
        else .ok ()

/-! ## Files on disk, opening -/

abbrev Key := List Str
abbrev Val := Str
/-- everything stored below `/data` and `/metadata`, as an association list path ↦ value -/
abbrev Content := List (Key × Val)

/-- what an existing path holds -/
structure Disk where
  header : Header
  hasData : Bool
  hasMeta : Bool
  hasCreated : Bool
  hasUpdated : Bool
  content : Content
  deriving DecidableEq, Repr

/-- why a call was refused: a Python exception class of nixio's own checks, or libhdf5 refusing a
write through an `ACC_RDONLY` handle (h5py raises ValueError, OSError, KeyError or RuntimeError
depending on the call; the class is not modelled) -/
inductive Refusal where
  | err (e : Err)
  | h5ReadOnly
  /-- h5py's OSError: libhdf5 cannot open / create what is at the path (no such file, not an HDF5
  file, truncated file, a directory) -/
  | osError
  deriving DecidableEq, Repr

structure Session where
  /-- `File.mode` -/
  mode : Str
  /-- the flag the HDF5 handle was opened with -/
  acc : Acc
  deriving DecidableEq, Repr

def Session.writable (s : Session) : Bool := s.acc != .rdonly

/-- `map_file_mode` -/
def mapFileMode (mode : Str) : Except Err Acc :=
  match chainLookup mode modeTable with
  | some a => .ok a
  | none => .error .valueError

/-- the file right after `h5f.create(…ACC_TRUNC…)` and `_create_header()` -/
def freshDisk (freshId : Str) : Disk :=
  { header := { fmt := some fileFormat, version := some libVersion, id := some freshId },
    hasData := false, hasMeta := false, hasCreated := false, hasUpdated := false, content := [] }

/-- Python truth value of an attribute read with `get_attr`: absent (`None`) and `""` are false -/
def truthyStr : Option Str → Bool
  | none => false
  | some s => !s.isEmpty

/-- one `_set_<x>()` of `_create_header`: when it keeps an existing (truthy) value it returns, else
it writes the constant.  The truth value of a numpy version vector that does not have exactly one
component is a ValueError (numpy ≥ 2.2 also for the empty one). -/
def headerStep (fid : Str) (h : Header) : HeaderAttr × Bool → Except Err Header
  | (.format, keep) =>
    if keep && truthyStr h.fmt then .ok h else .ok { h with fmt := some fileFormat }
  | (.id, keep) =>
    if keep && truthyStr h.id then .ok h else .ok { h with id := some fid }
  | (.version, keep) =>
    if keep then
      match h.version with
      | none => .ok { h with version := some libVersion }
      | some [x] => if x ≠ 0 then .ok h else .ok { h with version := some libVersion }
      | some _ => .error .valueError
    else .ok { h with version := some libVersion }

/-- `File._create_header()` over the generated call order -/
def createHeaderFrom (fid : Str) : Header → List (HeaderAttr × Bool) → Except Err Header
  | h, [] => .ok h
  | h, st :: sts =>
    match headerStep fid h st with
    | .error e => .error e
    | .ok h' => createHeaderFrom fid h' sts

def createHeader (h : Header) (fid : Str) : Except Err Header := createHeaderFrom fid h createHeaderSteps

/-- tail of `File.__init__` after `_check_header`: `open_group("data", create=True)`,
`open_group("metadata", create=True)`, `force_created_at()` / `force_updated_at()` when the
attribute is absent.  Each is a write, refused through a read-only handle. -/
def finishOpen (acc : Acc) (d : Disk) : Disk × Except Refusal Unit :=
  if acc = .rdonly then
    if d.hasData && d.hasMeta && d.hasCreated && d.hasUpdated then (d, .ok ()) else (d, .error .h5ReadOnly)
  else
    ({ d with hasData := true, hasMeta := true, hasCreated := true, hasUpdated := true }, .ok ())

/-- `_check_header`, then the tail of `__init__` -/
def checkAndFinish (mode : Str) (acc : Acc) (d : Disk) : Option Disk × Except Refusal Session :=
  match checkHeader mode d.header with
  | .error e => (some d, .error (.err e))
  | .ok () =>
    match finishOpen acc d with
    | (d', .error r) => (some d', .error r)
    | (d', .ok ()) => (some d', .ok { mode := mode, acc := acc })

/-- `File.__init__(path, mode)`: `disk` is what the path holds (`none` = no such file); `freshId` is
the `uuid4()` drawn if a header is created.  Returns the path's new state and the outcome. -/
def openFile (mode : Str) (disk : Option Disk) (freshId : Str) : Option Disk × Except Refusal Session :=
  match disk with
  | none =>
    if mode = modeReadOnly then (none, .error (.err .runtimeError))
    else
      match mapFileMode modeOverwrite with
      | .error e => (none, .error (.err e))
      | .ok acc =>
        -- `h5f.create` is only modelled for the truncating flag
        if acc ≠ .trunc then (none, .error (.err .valueError))
        else checkAndFinish modeOverwrite acc (freshDisk freshId)
  | some d =>
    if mode = modeOverwrite then
      match mapFileMode modeOverwrite with
      | .error e => (some d, .error (.err e))
      | .ok acc =>
        if acc ≠ .trunc then (some d, .error (.err .valueError))
        else checkAndFinish modeOverwrite acc (freshDisk freshId)
    else
      match mapFileMode mode with
      | .error e => (some d, .error (.err e))
      | .ok acc =>
        -- `h5f.open` is only modelled for the two non-truncating flags
        if acc = .trunc then (some d, .error (.err .valueError))
        else checkAndFinish mode acc d

/-! ## Paths in every condition; `File.__init__` over the generated shape -/

/-- what a path holds.  `blob`: a regular file that libhdf5 cannot open (not HDF5, truncated, wiped
signature …; `empty` = zero bytes), identified by an opaque tag standing for its bytes; `dir`: a
directory (with an opaque tag for what is in it) -/
inductive Node where
  | missing
  | hdf (d : Disk)
  | blob (tag : Str) (empty : Bool)
  | dir (tag : Str)
  deriving DecidableEq, Repr

/-- `os.path.exists` -/
def Node.ex : Node → Bool
  | .missing => false
  | _ => true
/-- `os.path.isfile` -/
def Node.isf : Node → Bool
  | .hdf _ => true
  | .blob _ _ => true
  | _ => false
/-- `os.path.getsize(path) == 0` (an HDF5 file is never empty) -/
def Node.emp : Node → Bool
  | .blob _ e => e
  | _ => false

def Node.ofDisk : Option Disk → Node
  | none => .missing
  | some d => .hdf d

/-- the guards of `File.__init__` in source order; a guard that validates the mode first raises
`map_file_mode`'s ValueError for an invalid letter -/
def runGuards (mode : Str) (n : Node) : List ((Str → Bool → Bool → Bool → Bool) × Bool × Err) → Except Err Unit
  | [] => .ok ()
  | (c, validates, e) :: gs =>
    if c mode n.ex n.isf n.emp then
      if validates then
        match mapFileMode mode with
        | .error e' => .error e'
        | .ok _ => .error e
      else .error e
    else runGuards mode n gs

/-- one statement of the tail of `File.__init__`; each `ensure…` is a write when the thing is
absent, refused through a read-only handle -/
def tailStep (mode : Str) (acc : Acc) (d : Disk) : InitStep → Disk × Except Refusal Unit
  | .checkHeader =>
    match checkHeader mode d.header with
    | .error e => (d, .error (.err e))
    | .ok () => (d, .ok ())
  | .setMode => (d, .ok ())
  | .ensureData =>
    if d.hasData then (d, .ok ()) else if acc = .rdonly then (d, .error .h5ReadOnly)
    else ({ d with hasData := true }, .ok ())
  | .ensureMeta =>
    if d.hasMeta then (d, .ok ()) else if acc = .rdonly then (d, .error .h5ReadOnly)
    else ({ d with hasMeta := true }, .ok ())
  | .ensureCreated =>
    if d.hasCreated then (d, .ok ()) else if acc = .rdonly then (d, .error .h5ReadOnly)
    else ({ d with hasCreated := true }, .ok ())
  | .ensureUpdated =>
    if d.hasUpdated then (d, .ok ()) else if acc = .rdonly then (d, .error .h5ReadOnly)
    else ({ d with hasUpdated := true }, .ok ())

def runTail (mode : Str) (acc : Acc) : Disk → List InitStep → Disk × Except Refusal Unit
  | d, [] => (d, .ok ())
  | d, st :: sts =>
    match tailStep mode acc d st with
    | (d', .error r) => (d', .error r)
    | (d', .ok ()) => runTail mode acc d' sts

/-- the tail of `File.__init__` in the order of the source (`initTail`) -/
def checkAndFinishT (mode : Str) (acc : Acc) (d : Disk) : Node × Except Refusal Session :=
  match runTail mode acc d initTail with
  | (d', .error r) => (.hdf d', .error r)
  | (d', .ok ()) => (.hdf d', .ok { mode := mode, acc := acc })

/-- what libhdf5 finds when `h5f.open(path, flags)` is called: an HDF5 file is opened; an EMPTY file
opened with write access is initialised as an HDF5 file without any attribute; everything else
(no file, not HDF5, truncated, a directory) is an OSError -/
def h5fOpen (acc : Acc) : Node → Option Disk
  | .hdf d => some d
  | .blob _ true =>
    if acc = .rdwr then
      some { header := ⟨none, none, none⟩, hasData := false, hasMeta := false, hasCreated := false,
             hasUpdated := false, content := [] }
    else none
  | _ => none

/-- `File.__init__(path, mode)` for a path in any condition, following the generated shape: the
guards, then `h5f.create` (with the flag of the rebound mode) or `h5f.open` (with the flag of the
mode), then the tail -/
def openPath (mode : Str) (n : Node) (freshId : Str) : Node × Except Refusal Session :=
  match runGuards mode n initGuards with
  | .error e => (n, .error (.err e))
  | .ok () =>
    if initCreateCond mode n.ex n.isf n.emp then
      match mapFileMode initCreateMode with
      | .error e => (n, .error (.err e))
      | .ok acc =>
        -- `h5f.create` is only modelled for the truncating flag
        if acc ≠ .trunc then (n, .error (.err .valueError))
        else
          match n with
          | .dir _ => (n, .error .osError)
          | _ => checkAndFinishT initCreateMode acc (freshDisk freshId)
    else
      match mapFileMode mode with
      | .error e => (n, .error (.err e))
      | .ok acc =>
        -- `h5f.open` is only modelled for the two non-truncating flags
        if acc = .trunc then (n, .error (.err .valueError))
        else
          match h5fOpen acc n with
          | none => (n, .error .osError)
          | some d => checkAndFinishT mode acc d

/-- `File.open(path)` / `File(path)` without a mode -/
def openDefault (n : Node) (freshId : Str) : Node × Except Refusal Session := openPath defaultModeOpen n freshId

/-! ## Sessions: reads and mutators -/

/-- `str.startswith` on paths -/
def isPrefix : Key → Key → Bool
  | [], _ => true
  | _ :: _, [] => false
  | a :: as, b :: bs => a = b && isPrefix as bs

def lookupKey (k : Key) : Content → Option Val
  | [] => none
  | (k', v) :: rest => if k = k' then some v else lookupKey k rest

/-- set the value at a path (replace in place, else append) -/
def putKey (k : Key) (v : Val) : Content → Content
  | [] => [(k, v)]
  | (k', v') :: rest => if k = k' then (k, v) :: rest else (k', v') :: putKey k v rest

/-- delete a path and everything below it; KeyError if nothing is there -/
def delKey (k : Key) (c : Content) : Except Err Content :=
  if c.any (fun kv => isPrefix k kv.1) then .ok (c.filter (fun kv => !isPrefix k kv.1))
  else .error .keyError

inductive Read where
  | get (k : Key)
  | keys (pre : Key)
  | header
  deriving DecidableEq, Repr

inductive Out where
  | val (v : Option Val)
  | keys (ks : List Key)
  | header (h : Header)
  | done
  | refused (r : Refusal)
  deriving DecidableEq, Repr

/-- an operation of a session: a read, or a mutator given by what it would do to the content in
a writable session (so the theorems cover every mutator, whatever its effect) -/
inductive Op where
  | read (r : Read)
  | mutate (f : Content → Except Err Content)

def doRead (d : Disk) : Read → Out
  | .get k => .val (lookupKey k d.content)
  | .keys pre => .keys ((d.content.filter (fun kv => isPrefix pre kv.1)).map (·.1))
  | .header => .header d.header

/-- one call in a session -/
def step (s : Session) (d : Disk) : Op → Disk × Out
  | .read r => (d, doRead d r)
  | .mutate f =>
    if s.acc = .rdonly then (d, .refused .h5ReadOnly)
    else
      match f d.content with
      | .ok c => ({ d with content := c }, .done)
      | .error e => (d, .refused (.err e))

/-- a whole session: the outputs in call order and the final state of the file -/
def run (s : Session) : Disk → List Op → Disk × List Out
  | d, [] => (d, [])
  | d, op :: ops =>
    let (d1, o) := step s d op
    let (d2, os) := run s d1 ops
    (d2, o :: os)

def Op.isRead : Op → Bool
  | .read _ => true
  | .mutate _ => false

/-! ## Histories: several sessions on one path -/

/-- what a program does with one path over time -/
inductive Ev where
  | open (mode : Str) (freshId : Str)
  | op (o : Op)
  | close
  | remove

structure World where
  node : Node
  sess : Option Session

/-- result of one event -/
inductive EvOut where
  | opened (s : Session)
  | refused (r : Refusal)
  | out (o : Out)
  | closed
  | ignored

/-- events on a closed file / a second open are ignored (the harness never generates them) -/
def evStep (w : World) : Ev → World × EvOut
  | .open mode fid =>
    match w.sess with
    | some _ => (w, .ignored)
    | none =>
      match openPath mode w.node fid with
      | (n', .ok s) => ({ node := n', sess := some s }, .opened s)
      | (n', .error r) => ({ node := n', sess := none }, .refused r)
  | .op o =>
    match w.sess, w.node with
    | some s, .hdf d =>
      let (d', out) := step s d o
      ({ node := .hdf d', sess := some s }, .out out)
    | _, _ => (w, .ignored)
  | .close =>
    match w.sess with
    | some _ => ({ w with sess := none }, .closed)
    | none => (w, .ignored)
  | .remove =>
    match w.sess with
    | some _ => (w, .ignored)
    | none => ({ node := .missing, sess := none }, .closed)

def evRun : World → List Ev → World × List EvOut
  | w, [] => (w, [])
  | w, e :: es =>
    let (w1, o) := evStep w e
    let (w2, os) := evRun w1 es
    (w2, o :: os)

end Nix.Version
