import NixModel.Pure.TreeIds

/-!
# `Section.referring_*` with the id comparison made on the stored texts  (property C13)

`x.metadata is not None and x.metadata.id == self.id` compares two `entity_id` texts as they are stored
(`Entity.id` is `get_attr("entity_id")`, matched literally by `harness/extract/c13_idlookup.py`).  The scans of
`Pure/TreeShape.lean` with that comparison on texts; a scan the source makes by name stays as it is there.
-/

namespace Nix.Tree.Ids
open Nix.Tree Nix.Tree.Shape

/-- the test of a referring scan by its extracted key -/
def mdMatchK (texts : Nat → String) (f : File) (kb : KeyBy) (md : Option Nat) (k : Nat) : Bool :=
  match kb with
  | .name => mdMatch f .name md k
  | _ => mdMatchT texts md k

def refScanT (texts : Nat → String) (f : File) (sc : Scan) (k : Nat) : List Nat :=
  match sc.scope with
  | .blocks => (f.blocks.filter fun b => mdMatchK texts f sc.key b.md k).map Block.key
  | .holders kind =>
    f.blocks.flatMap fun b => ((holdersOf b kind).filter fun h => mdMatchK texts f sc.key h.md k).map Holder.key
  | .sourcesFind =>
    f.blocks.flatMap fun b =>
      ((findFrom (.top b.sources) (fun _ => true) none).filter fun s => mdMatchK texts f sc.key s.md k).map Node.key
  | .sourcesTop =>
    f.blocks.flatMap fun b => (b.sources.filter fun s => mdMatchK texts f sc.key s.md k).map Node.key

def refListT (texts : Nat → String) (tbl : List (String × Scan)) (f : File) (nm : String) (k : Nat) :
    Except Err (List Nat) :=
  match tbl.lookup nm with
  | some sc => .ok (refScanT texts f sc k)
  | none => .error .attributeError

def refObjectsT (texts : Nat → String) (tbl : List (String × Scan)) (order : List String) (f : File) (k : Nat) :
    Except Err (List Nat) :=
  match order with
  | [] => .ok []
  | nm :: rest =>
    match refListT texts tbl f nm k, refObjectsT texts tbl rest f k with
    | .ok a, .ok b => .ok (a ++ b)
    | .error e, _ => .error e
    | _, .error e => .error e

end Nix.Tree.Ids
