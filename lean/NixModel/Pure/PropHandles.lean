import NixModel.Pure.PropVals

/-!
# Kept `Property` objects (C10)

nixio hands out a *new* `Property` object on every lookup (`section.props[key]`, iteration,
`items()`, the return value of `create_property`).  A program may keep such an object and use it
later, after the same property was written through other objects.  The only state a `Property`
object carries is the HDF5 dataset it stands for (`Entity._h5group`; `property.py:94-96`): every
getter reads the dataset, every setter writes it.  The model therefore has **one value list per
property, whatever object is used**: a kept object is a name for a property *id*, and a call through
it is the same call on a fresh lookup by that id.

The state adds to the section (`PropVals.State`) the table of kept objects.  An object whose
property was deleted, and every object after the file was closed, is dropped from the table (what
nixio does with such an object is outside the property and outside the model).
-/
namespace Nix.PropVals
open Nix.Units (Str)

/-- the section plus the kept `Property` objects: (name the program gave the object, property id) -/
structure HState where
  st : State := {}
  handles : List (Nat × Nat) := []
  deriving DecidableEq, Repr, Inhabited

def HState.init : HState := {}

/-- the property a kept object stands for -/
def lookupH (hs : List (Nat × Nat)) (h : Nat) : Option Nat :=
  match hs.find? (·.1 == h) with
  | some e => some e.2
  | none => none

/-- `h = <some Property object>`: a previous binding of the program variable `h` is gone -/
def bindH (hs : List (Nat × Nat)) (h pid : Nat) : List (Nat × Nat) :=
  (h, pid) :: hs.filter (·.1 != h)

/-- drop the objects whose property no longer exists -/
def prune (st : State) (hs : List (Nat × Nat)) : List (Nat × Nat) :=
  hs.filter fun e => st.props.any (·.id == e.2)

inductive HOp where
  | plain (op : Op)                                   -- a call through a fresh lookup
  | hold (h : Nat) (k : PKey)                         -- `h = section.props[k]`
  | createHold (h : Nat) (name : Str) (inp : Input)   -- `h = section.create_property(name, inp)`
  | hset (h : Nat) (inp : Input)                      -- `h.values = inp`
  | hextend (h : Nat) (inp : Input)                   -- `h.extend_values(inp)`
  | hclear (h : Nat)                                  -- `h.delete_values()`
  | hsetAttr (h : Nat) (a : AttrName) (v : AttrVal)
  | hsetOdml (h : Nat) (o : Option OdmlType)
  | hget (h : Nat)                                    -- every getter of `h`
  | drop (h : Nat)                                    -- `del h`
  deriving Repr, Inhabited

/-- a call through the kept object `h`: the same call on `section.props[<id of h's property>]`.
An unknown `h` is a `KeyError` of the protocol (no such program variable). -/
def viaHandle (hs : HState) (h : Nat) (mk : PKey → Op) : HState × Out :=
  match lookupH hs.handles h with
  | none => (hs, .error .keyError)
  | some pid =>
    let r := step hs.st (mk (.key (.id pid)))
    ({ hs with st := r.1 }, r.2)

def hstep (hs : HState) : HOp → HState × Out
  | .plain op =>
    let r := step hs.st op
    ({ st := r.1, handles := match op with | .reopen => [] | _ => prune r.1 hs.handles }, r.2)
  | .hold h k =>
    match findProp hs.st k with
    | .error e => (hs, .error e)
    | .ok p => ({ hs with handles := bindH hs.handles h p.id }, .ok (.prop p))
  | .createHold h name inp =>
    let r := step hs.st (.create name inp)
    match r.2 with
    | .error e => ({ hs with st := r.1 }, .error e)
    | .ok x => ({ st := r.1, handles := bindH hs.handles h hs.st.next }, .ok x)
  | .hset h inp => viaHandle hs h (.set · inp)
  | .hextend h inp => viaHandle hs h (.extend · inp)
  | .hclear h => viaHandle hs h .clear
  | .hsetAttr h a v => viaHandle hs h (.setAttr · a v)
  | .hsetOdml h o => viaHandle hs h (.setOdml · o)
  | .hget h => viaHandle hs h .get
  | .drop h => ({ hs with handles := hs.handles.filter (·.1 != h) }, .ok .unit)

def hrun (hs : HState) : List HOp → HState
  | [] => hs
  | op :: ops => hrun (hstep hs op).1 ops

def HOp.WF : HOp → Bool
  | .plain op => op.WF
  | .createHold _ _ inp | .hset _ inp | .hextend _ inp => inp.WF
  | _ => true

/-- the calls on fresh lookups a step stands for (for a history: computed along the run) -/
def HOp.erase (hs : HState) : HOp → List Op
  | .plain op => [op]
  | .hold _ k => [.get k]
  | .createHold _ name inp => [.create name inp]
  | .drop _ => []
  | .hset h inp => match lookupH hs.handles h with | some pid => [.set (.key (.id pid)) inp] | none => []
  | .hextend h inp => match lookupH hs.handles h with | some pid => [.extend (.key (.id pid)) inp] | none => []
  | .hclear h => match lookupH hs.handles h with | some pid => [.clear (.key (.id pid))] | none => []
  | .hsetAttr h a v => match lookupH hs.handles h with | some pid => [.setAttr (.key (.id pid)) a v] | none => []
  | .hsetOdml h o => match lookupH hs.handles h with | some pid => [.setOdml (.key (.id pid)) o] | none => []
  | .hget h => match lookupH hs.handles h with | some pid => [.get (.key (.id pid))] | none => []

def eraseAll (hs : HState) : List HOp → List Op
  | [] => []
  | op :: ops => op.erase hs ++ eraseAll (hstep hs op).1 ops

end Nix.PropVals
