import NixModel.Pure.NdGen

/-!
# Spellings of the element type (C01)

`Block.create_data_array(dtype=…)` takes anything NumPy takes where it expects a dtype: Python's own types
(`bool`, `int`, `float`, `str`), NumPy scalar types (`np.float64`, `np.double`, … — the members of `nixio.DataType`
are these very classes), `np.dtype` objects (also byte-swapped ones) and type strings (`'f8'`, `'<i4'`, `'float64'`,
`'int'`, `'d'` …).  nixio hands the argument through to h5py untouched, except for one test in
`H5DataSet.__init__` (`dtype == DataType.String`, compiled into `Generated/DataSetDType.lean`).

This file is the vocabulary: the spellings, what NumPy means by each (`np.dtype(spelling)`, x86-64 Linux: C `long`
is 64 bit), Python's `==` between a spelling and a `DataType` member, and what h5py makes of the result.
Spellings whose meaning is outside the 12 element types of the property (`complex`, `'f2'`, `'S'`, `object`, …) or
that NumPy does not understand have no meaning here (`none`): the model does not speak about them.
-/
namespace Nix.NdSpell
open Nix Nix.Nd Nix.NdGen

/-- Python's own types that NumPy accepts as a dtype -/
inductive PyType where
  | bool | int | float | str
  deriving DecidableEq, Repr

/-- a way to write the `dtype` argument -/
inductive Spelling where
  /-- `bool`, `int`, `float`, `str` -/
  | py (t : PyType)
  /-- `np.<name>`: a NumPy scalar type -/
  | npType (name : String)
  /-- `nixio.DataType.<member>` -/
  | nix (member : String)
  /-- `np.dtype('<type string>')`: a dtype object; the string split into byte-order character and the rest -/
  | dtypeObj (order : Option Char) (body : String)
  /-- `'<type string>'`, split the same way -/
  | typeStr (order : Option Char) (body : String)
  deriving DecidableEq, Repr

/-- a NumPy dtype as far as C01 can tell dtypes apart: the element type (`string` = fixed-width unicode `<U…`)
and whether it is stored in the other byte order -/
structure NpDType where
  t : DType
  swapped : Bool
  deriving DecidableEq, Repr

/-- the NumPy scalar types by attribute name (`np.float64`, `np.double`, `np.intc`, … on x86-64 Linux) -/
def npScalarType : String → Option DType
  | "uint8" | "ubyte" => some .uint8
  | "uint16" | "ushort" => some .uint16
  | "uint32" | "uintc" => some .uint32
  | "uint64" | "ulonglong" | "uintp" | "uint" | "ulong" => some .uint64
  | "int8" | "byte" => some .int8
  | "int16" | "short" => some .int16
  | "int32" | "intc" => some .int32
  | "int64" | "longlong" | "intp" | "int_" | "long" => some .int64
  | "float32" | "single" => some .float32
  | "float64" | "double" => some .float64
  | "bool_" | "bool" => some .bool
  | "str_" => some .string
  | _ => none

/-- type names NumPy understands as strings beyond the scalar type names: `'int'`, `'float'`, `'bool'`, `'str'` -/
def npTypeName (s : String) : Option DType :=
  match s with
  | "int" => some .int64
  | "float" => some .float64
  | "str" => some .string
  | s => npScalarType s

/-- the type codes: one character, or kind character + size in bytes (`i4`, `u2`, `f8`, `b1`, `U<n>` for the
widths the table lists) -/
def npCode : String → Option DType
  | "?" | "b1" => some .bool
  | "b" | "i1" => some .int8
  | "B" | "u1" => some .uint8
  | "h" | "i2" => some .int16
  | "H" | "u2" => some .uint16
  | "i" | "i4" => some .int32
  | "I" | "u4" => some .uint32
  | "l" | "q" | "p" | "i8" => some .int64
  | "L" | "Q" | "P" | "u8" => some .uint64
  | "f" | "f4" => some .float32
  | "d" | "f8" => some .float64
  | "U" | "U1" | "U2" | "U3" | "U4" | "U8" | "U16" | "U32" | "U64" => some .string
  | _ => none

/-- bytes per element (text: more than one, a `>U` dtype is byte-swapped) -/
def itemsize : DType → Nat
  | .uint8 | .int8 | .bool => 1
  | .uint16 | .int16 => 2
  | .uint32 | .int32 | .float32 => 4
  | .uint64 | .int64 | .float64 => 8
  | .string => 4

/-- `np.dtype('<type string>')`: an optional byte-order character (`<` little, `>` big, `=` native, `|` not
applicable) in front of a code, or — without byte-order character — a code or a type name (`'<int'` is refused).
The string arrives split into the byte-order character and the rest -/
def npTypeString (order : Option Char) (body : String) : Option NpDType :=
  match order with
  | none => ((npCode body).orElse fun _ => npTypeName body).map fun t => ⟨t, false⟩
  | some '>' => (npCode body).map fun t => ⟨t, decide (itemsize t > 1)⟩
  | some '<' => (npCode body).map fun t => ⟨t, false⟩
  | some '=' => (npCode body).map fun t => ⟨t, false⟩
  | some '|' => (npCode body).map fun t => ⟨t, false⟩
  | some _ => none

/-- the NumPy scalar type a `nixio.DataType` member is bound to, by the table read from `nixio/datatype.py` -/
def memberType (table : List (String × String)) (member : String) : Option DType :=
  (table.lookup member).bind npScalarType

/-- `np.dtype(spelling)` -/
def meaning (table : List (String × String)) : Spelling → Option NpDType
  | .py .bool => some ⟨.bool, false⟩
  | .py .int => some ⟨.int64, false⟩
  | .py .float => some ⟨.float64, false⟩
  | .py .str => some ⟨.string, false⟩
  | .npType n => (npScalarType n).map fun t => ⟨t, false⟩
  | .nix m => (memberType table m).map fun t => ⟨t, false⟩
  | .dtypeObj o s => npTypeString o s
  | .typeStr o s => npTypeString o s

/-- Python's `spelling == DataType.<member>`: the member is a NumPy scalar type (a class).  A class equals only
itself; a `np.dtype` object compares by turning the other side into a dtype (same element type, same byte order:
the class means the native one); a `str` or a builtin type is never equal to a NumPy class -/
def pyEqMember (table : List (String × String)) (s : Spelling) (member : String) : Bool :=
  match memberType table member with
  | none => false
  | some m =>
    match s with
    | .npType n => npScalarType n = some m
    | .nix k => memberType table k = some m
    | .dtypeObj o d => npTypeString o d = some ⟨m, false⟩
    | .py _ => false
    | .typeStr _ _ => false

/-- the value of the `dtype` variable inside `H5DataSet.__init__`: the argument as spelled, or
`util.vlen_str_dtype` (h5py's variable-length UTF-8 string type) -/
inductive DtypeVal where
  | spelled (s : Spelling)
  | vlenStr
  deriving DecidableEq, Repr

/-- Python's `dtype == DataType.<member>` on the variable of `H5DataSet.__init__` -/
def DtypeVal.pyEq (table : List (String × String)) : DtypeVal → String → Bool
  | .spelled s, member => pyEqMember table s member
  | .vlenStr, _ => false

/-- `require_dataset(dtype=…)`: h5py turns the argument into a NumPy dtype and that into an HDF5 type; the
variable-length string type is nixio's text; NumPy's fixed-width unicode has no HDF5 type (`TypeError`,
`DTypeArg.numpyText`); `none`: a spelling outside the model -/
def h5pyDtype (table : List (String × String)) : DtypeVal → Option DTypeArg
  | .vlenStr => some (.nix .string)
  | .spelled s =>
    match meaning table s with
    | none => none
    | some ⟨.string, _⟩ => some .numpyText
    | some ⟨t, _⟩ => some (.nix t)

/-- the type code of an element type (`np.dtype(t).str` without the byte-order character) -/
def typeCode : DType → String
  | .uint8 => "u1" | .uint16 => "u2" | .uint32 => "u4" | .uint64 => "u8"
  | .int8 => "i1" | .int16 => "i2" | .int32 => "i4" | .int64 => "i8"
  | .float32 => "f4" | .float64 => "f8" | .bool => "b1" | .string => "U"

/-- h5py's `dataset.dtype` of a stored array: the NumPy dtype object of a numeric / boolean dataset, the
variable-length string dtype of a text dataset -/
def storedDtype (t : DType) : DtypeVal :=
  if t = .string then .vlenStr else .spelled (.dtypeObj none (typeCode t))

/-- `dtype == util.vlen_str_dtype` (a NumPy dtype of a number is never equal to it) -/
def DtypeVal.isVlenStr : DtypeVal → Bool
  | .vlenStr => true
  | .spelled _ => false

end Nix.NdSpell
