import NixModel.Basic
import NixModel.Pure.Units
import NixModel.Generated.ValidatorCatalogue

/-!
# Model of `nixio/validator.py`

The validator reads a file exclusively through the public API.  The model therefore works on a
*description* of the file: for every object exactly the values the API reads return
(`entity.type`, `dim.ticks`, `len(da.shape)`, `tag.units`, …), produced by the harness by walking the
file through the same API.  Numbers that are floats in Python are `Rat`.

Structure of the model
* `checkEntity`, `checkRangeDim`, `checkSampledDim`, `checkDataArray`, `checkTag`, `checkMultiTag`,
  `checkFeature`, `checkSection`, `checkProperty` follow the Python functions branch for branch and
  return the error list in the order the code appends (warnings are outside C14 and not modelled);
* `allChecks` is the traversal of `check_file` (blocks → groups, arrays, tags, multi-tags, source
  tree in pre-order; then the section tree in pre-order): one entry per visited object;
* `reports` keeps the non-empty ones (`update_results`);
* some API reads *raise* instead of returning (`Entity.__init__` refuses a non-UUID id,
  `Feature.data` refuses a missing link, `LinkType(None)`; the RuntimeError of `MultiTag.positions` for a
  missing link is caught by `check_multi_tag`); `raiseEvents`
  lists those in traversal order and `validate` fails with the first one, as the exception
  propagates out of `File.validate()`.
-/
namespace Nix.Validator
open Nix.Units (Str isSi isAtomic scalable)
open Nix.Validator.Gen

/-! ## Messages -/

/-- a rendered message: catalogue identifier + format arguments (+ feature/property wrapper) -/
inductive Msg where
  /-- a template without placeholder -/
  | plain (m : MsgId)
  /-- `template.format(idx)` -/
  | dim (m : MsgId) (idx : Nat)
  /-- `template.format(idx, value)` (IncorrectDimensionIndex) -/
  | dim2 (m : MsgId) (idx : Nat) (v : Int)
  /-- `"feature {}: {}".format(i, template)` -/
  | feature (i : Nat) (m : MsgId)
  /-- `"property {}: {}".format(i, template)` -/
  | property (i : Nat) (m : MsgId)
  deriving DecidableEq, Repr

/-! ## Description of a file (what the API reads return) -/

/-- Python truthiness of an optional string attribute: `None` and `""` are falsy -/
def falsy : Option Str → Bool
  | none => true
  | some s => s.isEmpty

/-- the fields `check_entity` reads -/
structure Ent where
  type_ : Option Str
  /-- `entity.id` -/
  id : Option Str
  /-- `util.is_uuid(id)` — evaluated by `Entity.__init__`, which raises ValueError when false -/
  idUuid : Bool
  name : Option Str
  /-- `entity.created_at` (`none` = the API returns `None`) -/
  createdAt : Option Int
  deriving DecidableEq, Repr

inductive DimKind where
  | range | sample | set
  deriving DecidableEq, Repr

/-- a dimension descriptor as returned by iterating `da.dimensions` -/
structure Dim where
  kind : DimKind
  /-- `dim.index` (the name of the HDF5 group as an int) -/
  index : Int
  /-- `dim.ticks` (range; `()` when none are stored) -/
  ticks : List Rat
  /-- `len(dim.labels)` (set) -/
  nLabels : Nat
  /-- `dim.sampling_interval` (sample) -/
  interval : Option Rat
  /-- `dim.unit` (range, sample) -/
  unit : Option Str
  deriving DecidableEq, Repr

structure DataArray where
  ent : Ent
  /-- `da.data_type` -/
  dataType : Option Str
  /-- `da.shape` -/
  shape : List Nat
  /-- `da.dimensions`, in iteration order -/
  dims : List Dim
  deriving DecidableEq, Repr

structure Feature where
  id : Option Str
  idUuid : Bool
  createdAt : Option Int
  /-- index (in the block's `data_arrays`) of the linked array; `none` = link absent (RuntimeError) -/
  data : Option Nat
  /-- stored `link_type` attribute; `LinkType(value)` raises ValueError unless it is a member value -/
  linkType : Option Str
  deriving DecidableEq, Repr

structure Tag where
  ent : Ent
  /-- `len(tag.position)` -/
  posLen : Nat
  /-- `len(tag.extent)` -/
  extLen : Nat
  /-- `tag.units` -/
  units : List Str
  /-- `tag.references` as indices into the block's `data_arrays` -/
  refs : List Nat
  features : List Feature
  deriving DecidableEq, Repr

structure MultiTag where
  ent : Ent
  /-- linked positions array (index into the block's arrays); `none` = link absent (`MultiTag.positions` raises) -/
  positions : Option Nat
  /-- linked extents array; `none` = `mtag.extents is None` -/
  extents : Option Nat
  units : List Str
  refs : List Nat
  features : List Feature
  deriving DecidableEq, Repr

inductive Source where
  | mk (ent : Ent) (children : List Source)
  deriving Repr

structure Property where
  id : Option Str
  idUuid : Bool
  name : Option Str
  deriving DecidableEq, Repr

inductive Section where
  | mk (ent : Ent) (props : List Property) (children : List Section)
  deriving Repr

structure Block where
  ent : Ent
  groups : List Ent
  arrays : List DataArray
  tags : List Tag
  mtags : List MultiTag
  sources : List Source
  deriving Repr

structure File where
  /-- `nixfile.created_at` (`none` = the attribute is missing: the read raises KeyError, which `check_file` catches) -/
  createdAt : Option Int
  blocks : List Block
  sections : List Section
  deriving Repr

/-! ## check_entity -/

/-- `check_entity` -/
def checkEntity (e : Ent) : List Msg :=
  (if falsy e.type_ then [.plain .NoType] else []) ++
  (if falsy e.id then [.plain .NoID] else []) ++
  (if falsy e.name then [.plain .NoName] else []) ++
  (if e.createdAt.isNone then [.plain .NoDate] else [])

/-! ## dimensions -/

/-- `all(ti < tj for ti, tj in zip(ticks[:-1], ticks[1:]))` -/
def ticksSorted (t : List Rat) : Bool :=
  (t.dropLast.zip t.tail).all fun p => decide (p.1 < p.2)

/-- `dim.unit and not units.is_atomic(dim.unit)` -/
def badDimUnit (u : Option Str) : Bool :=
  !falsy u && (match u with | some s => !isAtomic s | none => false)

/-- `check_range_dimension` -/
def checkRangeDim (d : Dim) (idx : Nat) : List Msg :=
  (if d.ticks.isEmpty then [.dim .NoTicks idx]
   else if !ticksSorted d.ticks then [.dim .UnsortedTicks idx] else []) ++
  (if badDimUnit d.unit then [.dim .InvalidDimensionUnit idx] else [])

/-- `not dim.sampling_interval` : `None` or `0` -/
def noInterval : Option Rat → Bool
  | none => true
  | some r => r == 0

/-- `check_sampled_dimension` (errors only) -/
def checkSampledDim (d : Dim) (idx : Nat) : List Msg :=
  (if noInterval d.interval then [.dim .NoSamplingInterval idx]
   else match d.interval with
     | some r => if r < 0 then [.dim .InvalidSamplingInterval idx] else []
     | none => []) ++
  (if !falsy d.unit then
     (if badDimUnit d.unit then [.dim .InvalidDimensionUnit idx] else [])
   else [])

/-- body of the `for idx, (dim, datalen) in enumerate(zip(...), 1)` loop -/
def dimMsgs (idx : Nat) (d : Dim) (datalen : Nat) : List Msg :=
  (if d.index == 0 || d.index ≤ 0 then [.dim .InvalidDimensionIndex idx]
   else if d.index != (idx : Int) then [.dim2 .IncorrectDimensionIndex idx d.index] else []) ++
  (match d.kind with
   | .range =>
     (if d.ticks.length != datalen then [.dim .RangeDimTicksMismatch idx] else []) ++
     checkRangeDim d idx
   | .sample => checkSampledDim d idx
   | .set =>
     (if d.nLabels != 0 && d.nLabels != datalen then [.dim .SetDimLabelsMismatch idx] else []))

/-- the loop, `idx` counting from `start` -/
def dimLoop : Nat → List (Dim × Nat) → List Msg
  | _, [] => []
  | idx, (d, n) :: rest => dimMsgs idx d n ++ dimLoop (idx + 1) rest

/-- `check_data_array` (errors only) -/
def checkDataArray (da : DataArray) : List Msg :=
  checkEntity da.ent ++
  (if falsy da.dataType then [.plain .NoDataType] else []) ++
  (if da.dims.length != da.shape.length then [.plain .DimensionMismatch] else []) ++
  dimLoop 1 (da.dims.zip da.shape)

/-! ## tags -/

/-- `get_dim_units` -/
def getDimUnits (da : DataArray) : List Str :=
  da.dims.map fun d =>
    match d.kind with
    | .range | .sample => (match d.unit with | some u => if u.isEmpty then [] else u | none => [])
    | .set => []

/-- one iteration of the inner loop of `tag_units_match_refs_units` is fine -/
def unitPairOk (p : Str × Str) : Bool :=
  (p.1.isEmpty && p.2.isEmpty) || scalable p.1 p.2

/-- `tag_units_match_refs_units` (the nested loops return False at the first failing pair) -/
def unitsMatch (tagUnits : List Str) (refsUnits : List (List Str)) : Bool :=
  refsUnits.all fun ru => (tagUnits.zip ru).all unitPairOk

/-- `any(not units.is_si(u) for u in tag.units if u)` -/
def anyNonSi (us : List Str) : Bool :=
  (us.filter fun u => !u.isEmpty).any fun u => !isSi u

/-- the arrays of block `b` a reference list points to -/
def refArrays (arrays : List DataArray) (refs : List Nat) : List DataArray :=
  refs.filterMap fun i => arrays[i]?

/-- `len(da)` : first entry of the shape (`none` = IndexError on an empty shape) -/
def firstLen (shape : List Nat) : Option Nat := shape.head?

/-- `LinkType(value)` succeeds -/
def linkTypeOk : Option Str → Bool
  | some s => s == "tagged".toList || s == "untagged".toList || s == "indexed".toList
  | none => false

/-- `check_feature` -/
def checkFeature (arrays : List DataArray) (ft : Feature) (i : Nat) : List Msg :=
  (if falsy ft.id then [.feature i .NoID] else []) ++
  (if ft.createdAt.isNone then [.feature i .NoDate] else []) ++
  (match ft.data.bind (fun k => arrays[k]?) with
   | some da => if firstLen da.shape == some 0 then [.feature i .NoData] else []
   | none => []) ++
  (if !linkTypeOk ft.linkType then [.feature i .NoLinkType] else [])

/-- `for idx, feat in enumerate(tag.features)` -/
def featLoop (arrays : List DataArray) : Nat → List Feature → List Msg
  | _, [] => []
  | i, ft :: rest => checkFeature arrays ft i ++ featLoop arrays (i + 1) rest

/-- the part of `check_tag` / `check_multi_tag` that compares units with the references -/
def refUnitMsgs (units : List Str) (refs : List DataArray) : List Msg :=
  (if (refs.map getDimUnits).any (fun ru => ru.length != units.length)
   then [.plain .ReferenceUnitsMismatch] else []) ++
  (if !unitsMatch units (refs.map getDimUnits) then [.plain .ReferenceUnitsIncompatible] else [])

/-- `check_tag` (errors only) -/
def checkTag (arrays : List DataArray) (t : Tag) : List Msg :=
  let refs := refArrays arrays t.refs
  checkEntity t.ent ++
  (if t.posLen == 0 then [.plain .NoPosition] else []) ++
  (if t.extLen != 0 && t.extLen != t.posLen then [.plain .PositionExtentMismatch] else []) ++
  (if !t.refs.isEmpty then
     (if refs.any (fun da => t.posLen != da.shape.length) then [.plain .PositionDimensionMismatch] else []) ++
     (if t.extLen != 0 then
        (if refs.any (fun da => t.extLen != da.shape.length) then [.plain .ExtentDimensionMismatch] else [])
      else []) ++
     refUnitMsgs t.units refs
   else []) ++
  (if anyNonSi t.units then [.plain .InvalidUnit] else []) ++
  featLoop arrays 0 t.features

/-- `posdim`: `1 if len(shape) == 1 else shape[1]` (`none` = IndexError) -/
def secondDim : List Nat → Option Nat
  | [_] => some 1
  | _ :: n :: _ => some n
  | [] => none

/-- `check_multi_tag` (errors only); `pshape` / `eshape` are the linked arrays' shapes.  A missing positions link
(`MultiTag.positions` raises RuntimeError) is caught and reported as `NoPositions`; the two checks that need the
positions are then skipped. -/
def checkMultiTag (arrays : List DataArray) (t : MultiTag) : List Msg :=
  let refs := refArrays arrays t.refs
  let pshape := (t.positions.bind fun k => arrays[k]?).map (·.shape)
  let eshape := (t.extents.bind fun k => arrays[k]?).map (·.shape)
  checkEntity t.ent ++
  (if pshape.isNone || (pshape.bind firstLen) == some 0 then [.plain .NoPositions] else []) ++
  (match eshape with
   | some es =>
     if pshape.isSome && firstLen es != some 0 && pshape != some es then [.plain .PositionsExtentsMismatch] else []
   | none => []) ++
  (if !t.refs.isEmpty then
     (if pshape.isSome && refs.any (fun da => (pshape.bind secondDim) != some da.shape.length)
      then [.plain .PositionsDimensionMismatch] else []) ++
     (match eshape with
      | some es =>
        if firstLen es != some 0 then
          (if refs.any (fun da => secondDim es != some da.shape.length)
           then [.plain .ExtentsDimensionMismatch] else [])
        else []
      | none => []) ++
     refUnitMsgs t.units refs
   else []) ++
  (if anyNonSi t.units then [.plain .InvalidUnit] else []) ++
  featLoop arrays 0 t.features

/-! ## sections -/

/-- `check_property` (errors only) -/
def checkProperty (p : Property) (i : Nat) : List Msg :=
  (if falsy p.id then [.property i .NoID] else []) ++
  (if falsy p.name then [.property i .NoName] else [])

def propLoop : Nat → List Property → List Msg
  | _, [] => []
  | i, p :: rest => checkProperty p i ++ propLoop (i + 1) rest

/-- `check_section` (errors only) -/
def checkSection (e : Ent) (props : List Property) : List Msg :=
  checkEntity e ++ propLoop 0 props

/-! ## check_file -/

inductive Kind where
  | file | block | group | array | tag | mtag | source | section
  deriving DecidableEq, Repr

/-- an object of the file: its kind and its index path (block index first; the file has path `[]`) -/
structure Key where
  kind : Kind
  path : List Nat
  deriving DecidableEq, Repr

/-- `for i, x in enumerate(xs)`: apply `f` with the running index -/
def mapIdx {α β : Type} (f : Nat → α → β) : Nat → List α → List β
  | _, [] => []
  | i, x :: xs => f i x :: mapIdx f (i + 1) xs

mutual
/-- `traverse_sources`: pre-order -/
def sourceChecks (pre : List Nat) : Source → List (Key × List Msg)
  | .mk e ch => (⟨.source, pre⟩, checkEntity e) :: sourcesChecks pre 0 ch
def sourcesChecks (pre : List Nat) : Nat → List Source → List (Key × List Msg)
  | _, [] => []
  | i, s :: rest => sourceChecks (pre ++ [i]) s ++ sourcesChecks pre (i + 1) rest
end

mutual
/-- `traverse_sections`: pre-order -/
def sectionChecks (pre : List Nat) : Section → List (Key × List Msg)
  | .mk e ps ch => (⟨.section, pre⟩, checkSection e ps) :: sectionsChecks pre 0 ch
def sectionsChecks (pre : List Nat) : Nat → List Section → List (Key × List Msg)
  | _, [] => []
  | i, s :: rest => sectionChecks (pre ++ [i]) s ++ sectionsChecks pre (i + 1) rest
end

/-- everything `check_file` visits for one block, in order -/
def blockChecks (bi : Nat) (b : Block) : List (Key × List Msg) :=
  (⟨.block, [bi]⟩, checkEntity b.ent) ::
  (mapIdx (fun i g => ((⟨.group, [bi, i]⟩ : Key), checkEntity g)) 0 b.groups ++
   mapIdx (fun i da => ((⟨.array, [bi, i]⟩ : Key), checkDataArray da)) 0 b.arrays ++
   mapIdx (fun i t => ((⟨.tag, [bi, i]⟩ : Key), checkTag b.arrays t)) 0 b.tags ++
   mapIdx (fun i t => ((⟨.mtag, [bi, i]⟩ : Key), checkMultiTag b.arrays t)) 0 b.mtags ++
   sourcesChecks [bi] 0 b.sources)

def blocksChecks : Nat → List Block → List (Key × List Msg)
  | _, [] => []
  | i, b :: rest => blockChecks i b ++ blocksChecks (i + 1) rest

/-- `if file_created_at is None` (repaired: the test was `not nixfile.created_at`, which reported a file dated at the
epoch and raised KeyError for a missing attribute) -/
def checkFileObj (f : File) : List Msg :=
  if f.createdAt.isNone then [.plain .NoDate] else []

/-- one entry per object `check_file` visits, in visiting order -/
def allChecks (f : File) : List (Key × List Msg) :=
  (⟨.file, []⟩, checkFileObj f) :: (blocksChecks 0 f.blocks ++ sectionsChecks [] 0 f.sections)

/-- `results["errors"]`: `update_results` stores non-empty lists only -/
def reports (f : File) : List (Key × List Msg) :=
  (allChecks f).filter fun km => !km.2.isEmpty

/-! ## API reads that raise -/

/-- `Entity.__init__`: `util.check_entity_id` -/
def ctorEvents (idUuid : Bool) : List Err := if idUuid then [] else [.valueError]

/-- constructing the feature, then `feat.data`, then `feat.link_type` -/
def featureEvents (arrays : List DataArray) (ft : Feature) : List Err :=
  ctorEvents ft.idUuid ++
  (match ft.data.bind (fun k => arrays[k]?) with
   | none => [.runtimeError]
   | some da => if (firstLen da.shape).isNone then [.indexError] else []) ++
  (if linkTypeOk ft.linkType then [] else [.valueError])

def tagEvents (arrays : List DataArray) (t : Tag) : List Err :=
  ctorEvents t.ent.idUuid ++ t.features.flatMap (featureEvents arrays)

/-- `len(da)` and `da.shape[1]` on the linked positions / extents -/
def shapeEvents (needSecond : Bool) (shape : List Nat) : List Err :=
  (if (firstLen shape).isNone then [.indexError] else []) ++
  (if needSecond && (secondDim shape).isNone then [.indexError] else [])

def mtagEvents (arrays : List DataArray) (t : MultiTag) : List Err :=
  ctorEvents t.ent.idUuid ++
  (match t.positions.bind (fun k => arrays[k]?) with
   | none => []
   | some p => shapeEvents (!t.refs.isEmpty) p.shape) ++
  (match t.extents.bind (fun k => arrays[k]?) with
   | none => []
   | some e => shapeEvents (!t.refs.isEmpty) e.shape) ++
  t.features.flatMap (featureEvents arrays)

mutual
def sourceEvents : Source → List Err
  | .mk e ch => ctorEvents e.idUuid ++ sourcesEvents ch
def sourcesEvents : List Source → List Err
  | [] => []
  | s :: rest => sourceEvents s ++ sourcesEvents rest
end

mutual
def sectionEvents : Section → List Err
  | .mk e ps ch => ctorEvents e.idUuid ++ ps.flatMap (fun p => ctorEvents p.idUuid) ++ sectionsEvents ch
def sectionsEvents : List Section → List Err
  | [] => []
  | s :: rest => sectionEvents s ++ sectionsEvents rest
end

def blockEvents (b : Block) : List Err :=
  ctorEvents b.ent.idUuid ++
  b.groups.flatMap (fun g => ctorEvents g.idUuid) ++
  b.arrays.flatMap (fun da => ctorEvents da.ent.idUuid) ++
  b.tags.flatMap (tagEvents b.arrays) ++
  b.mtags.flatMap (mtagEvents b.arrays) ++
  sourcesEvents b.sources

/-- every exception an API read of `check_file` would raise, in traversal order -/
def raiseEvents (f : File) : List Err :=
  f.blocks.flatMap blockEvents ++ sectionsEvents f.sections

/-- `File.validate()['errors']`, or the exception that propagates -/
def validate (f : File) : Except Err (List (Key × List Msg)) :=
  match (raiseEvents f).head? with
  | some e => .error e
  | none => .ok (reports f)

end Nix.Validator
