import NixModel.Pure.Upgrade

/-!
# `Property.values` on a file of either layout (`nixio/property.py`)

nixio chooses the reader by the *file's* header version, not by the layout of the dataset it reads: below the bound
(`filever < (1, 1, 1)`, regenerated into `Gen.valuesOldBelow`) `_read_old_values` takes the field `value` of every row
of the compound dataset, from the bound on the dataset is read as it is. So a plain dataset in a file that still
carries an old version (a property already converted by an interrupted upgrade) cannot be read until the version is
raised, and a compound dataset in a file with a new version reads as whole records.
-/
namespace Nix.Upgrade

inductive ReadOut where
  | values (vs : List Val)
  /-- `val[0]["value"]` on a plain element: IndexError (numbers) / TypeError (text) -/
  | raises
  /-- one record per value: the whole compound row, not the value -/
  | records
  deriving DecidableEq, Repr

/-- `Property.values` on a dataset of a file whose header version is `ver`; `thr` is the bound of the switch -/
def readValues (thr ver : List Nat) : PObj → ReadOut
  | .old o =>
    if ver < thr then .values (o.rows.map (·.value))
    else if o.rows.isEmpty then .values [] else .records
  | .new n =>
    if ver < thr then (if n.values.isEmpty then .values [] else .raises)
    else .values n.values

end Nix.Upgrade
