import NixModel.Basic
import NixModel.Generated.Tolerances

/-!
# Model of the position ↔ index conversions of `nixio/dimensions.py`

`SampledDimension`, `RangeDimension`, `SetDimension`: `index_of`, `range_indices`, `position_at`,
`tick_at`, `axis`; `IndexMode`, `SliceMode`.  Floats are exact rationals (`Rat`, DESIGN §5).

The functions follow the Python code branch for branch.  What is *data* in the source — the
tolerances passed to `np.isclose`, which value the "first sample" guard tests, the rounding function
in front of the hit test, the enum members and the `end_mode` choice of `range_indices` — is read from
`Generated/Tolerances.lean`, regenerated from the source on every run.  Each conversion exists in a
form parameterised by the tolerances (`…T`) and in the form instantiated with the generated values
(`sampledIndexOf`, `rangeIndexOf`, `setIndexOf`, `sampledRangeIndices`, `rangeRangeIndices`,
`setRangeIndices`), which is what the driver runs and what other models (C08) import.

Exported for C08: `IndexMode`, `SliceMode`, `sampledIndexOf`, `rangeIndexOf`, `setIndexOf`,
`sampledRangeIndices`, `rangeRangeIndices`, `setRangeIndices`, `sampledPositionAt`, `rangeTickAt`.
-/
namespace Nix.Dim
open Nix.Dim.Gen

/-- `IndexMode`; `other` stands for any value that is none of the three members (the code then falls
through to `ValueError`, or to `IndexError` on the out-of-bounds branches taken first) -/
inductive IndexMode where
  | less | leq | geq | other
  deriving DecidableEq, Repr, Inhabited

inductive SliceMode where
  | exclusive | inclusive
  deriving DecidableEq, Repr, Inhabited

/-- member name (aliases included) → mode -/
def IndexMode.ofName (s : String) : IndexMode :=
  if s = "Less" then .less
  else if s = "LessOrEqual" ∨ s = "LEQ" then .leq
  else if s = "GreaterOrEqual" ∨ s = "GEQ" then .geq
  else .other

def SliceMode.name : SliceMode → String
  | .exclusive => "Exclusive"
  | .inclusive => "Inclusive"

/-- `end_mode = IndexMode.A if mode == SliceMode.X else IndexMode.B`, with `(X, A, B)` generated -/
def endModeOf (tbl : String × String × String) (m : SliceMode) : IndexMode :=
  if m.name = tbl.1 then IndexMode.ofName tbl.2.1 else IndexMode.ofName tbl.2.2

/-- `SliceMode.to_index_mode` (returns `None` when no branch matches) -/
def sliceToIndexMode (m : SliceMode) : Option IndexMode :=
  (toIndexMode.lookup m.name).map IndexMode.ofName

/-! ## numpy stand-ins -/

def absR (x : Rat) : Rat := if x < 0 then -x else x

/-- the band of `np.isclose(·, b)`: `atol + rtol * |b|` -/
def band (t : Tol) (b : Rat) : Rat := t.atol + t.rtol * absR b

/-- `np.isclose(a, b, rtol, atol)` on finite numbers: `|a - b| ≤ atol + rtol * |b|` -/
def isclose (t : Tol) (a b : Rat) : Bool := decide (absR (a - b) ≤ band t b)

/-- `np.round`: round half to even -/
def roundHalfEven (x : Rat) : Int :=
  let f := x.floor
  let d := x - (f : Rat)
  if d < 1 / 2 then f
  else if 1 / 2 < d then f + 1
  else if f % 2 = 0 then f else f + 1

/-- `int(np.<name>(x))` for the rounding functions the translator accepts -/
def roundBy (name : String) (x : Rat) : Int :=
  if name = "round" then roundHalfEven x
  else if name = "ceil" then x.ceil
  else x.floor

/-! ## SampledDimension -/

/-- `position_at`: `index * sample + offset` (no check on the index) -/
def sampledPositionAt (off si : Rat) (index : Int) : Rat := (index : Rat) * si + off

/-- `SampledDimension.index_of` with explicit tolerances: `tz`/`onScaled` describe the guard
`np.isclose(<scaled_position | position>, 0) and mode == Less`, `th` the hit test, `rnd` the rounding
function.  A zero interval is refused (the code divides by it: OverflowError / ValueError from
`int(np.round(±inf | nan))`). -/
def sampledIndexOfT (tz : Tol) (onScaled : Bool) (th : Tol) (rnd : String)
    (off si pos : Rat) (mode : IndexMode) : Except Err Int :=
  if si = 0 then .error .valueError
  else
    let sp := (pos - off) / si
    if sp < 0 then
      if mode = .geq then .ok 0 else .error .indexError
    else if isclose tz (if onScaled then sp else pos) 0 && decide (mode = .less) then
      .error .indexError
    else
      let index := roundBy rnd sp
      if isclose th sp index then
        match mode with
        | .geq | .leq => .ok index
        | .less => .ok (index - 1)
        | .other => .error .valueError
      else if (index : Rat) < sp then
        match mode with
        | .leq | .less => .ok index
        | .geq => .ok (index + 1)
        | .other => .error .valueError
      else
        match mode with
        | .leq | .less => .ok (index - 1)
        | .geq => .ok index
        | .other => .error .valueError

def sampledIndexOf (off si pos : Rat) (mode : IndexMode) : Except Err Int :=
  sampledIndexOfT sampledZeroTol sampledZeroOnScaled sampledHitTol sampledRounding off si pos mode

/-- the common tail of the three `range_indices`: both conversions, `IndexError` ⇒ `None`,
`start > end` ⇒ `None` -/
def pairOrNone (a b : Except Err Int) : Except Err (Option (Int × Int)) :=
  match a with
  | .error .indexError => .ok none
  | .error e => .error e
  | .ok s =>
    match b with
    | .error .indexError => .ok none
    | .error e => .error e
    | .ok e => if s > e then .ok none else .ok (some (s, e))

/-- `SampledDimension.range_indices` (no `start > end` test of its own) -/
def sampledRangeIndicesT (tz : Tol) (onScaled : Bool) (th : Tol) (rnd : String)
    (endTbl : String × String × String) (off si s e : Rat) (m : SliceMode) :
    Except Err (Option (Int × Int)) :=
  pairOrNone (sampledIndexOfT tz onScaled th rnd off si s .geq)
    (sampledIndexOfT tz onScaled th rnd off si e (endModeOf endTbl m))

def sampledRangeIndices (off si s e : Rat) (m : SliceMode) : Except Err (Option (Int × Int)) :=
  sampledRangeIndicesT sampledZeroTol sampledZeroOnScaled sampledHitTol sampledRounding sampledEndMode
    off si s e m

/-- `SampledDimension.axis(count, start, start_position)`: `start` wins over `start_position`;
`np.arange(count)` is empty for `count ≤ 0` -/
def sampledAxis (off si : Rat) (count : Int) (start : Option Int) (startPos : Option Rat) :
    Except Err (List Rat) :=
  let go (startVal : Rat) : Except Err (List Rat) :=
    .ok ((List.range count.toNat).map fun k => ((k : Nat) : Rat) * si + startVal)
  match start with
  | some st => if st < 0 then .error .valueError else go ((st : Rat) * si + off)
  | none =>
    match startPos with
    | some p => if p < off then .error .valueError else go p
    | none => go off

/-! ## RangeDimension -/

/-- `np.where(cond)[0]`: the indices (counted from `k`) whose element satisfies `p`, ascending -/
def whereFrom (p : Rat → Bool) : List Rat → Nat → List Nat
  | [], _ => []
  | x :: xs, k => if p x then k :: whereFrom p xs (k + 1) else whereFrom p xs (k + 1)

/-- `a[0]` / `a[-1]` on an index array: `IndexError` when it is empty -/
def firstOr (l : List Nat) : Except Err Int :=
  match l.head? with
  | some i => .ok i
  | none => .error .indexError

def lastOr (l : List Nat) : Except Err Int :=
  match l.getLast? with
  | some i => .ok i
  | none => .error .indexError

/-- `RangeDimension.index_of` (no tolerance): `ticks[0]` on an empty tuple is an `IndexError` -/
def rangeIndexOf (ticks : List Rat) (pos : Rat) (mode : IndexMode) : Except Err Int :=
  match ticks.head?, ticks.getLast? with
  | some t0, some tl =>
    if pos < t0 then
      if mode = .geq then .ok 0 else .error .indexError
    else if tl < pos then
      if mode = .less ∨ mode = .leq then .ok ((ticks.length : Int) - 1) else .error .indexError
    else
      match mode with
      | .leq => lastOr (whereFrom (fun t => decide (t ≤ pos)) ticks 0)
      | .less => lastOr (whereFrom (fun t => decide (t < pos)) ticks 0)
      | .geq => firstOr (whereFrom (fun t => decide (pos ≤ t)) ticks 0)
      | .other => .error .valueError
  | _, _ => .error .indexError

/-- `RangeDimension.range_indices`: `start > end` is an `IndexError` (raised, not `None`) -/
def rangeRangeIndicesT (endTbl : String × String × String) (ticks : List Rat) (s e : Rat)
    (m : SliceMode) : Except Err (Option (Int × Int)) :=
  if e < s then .error .indexError
  else pairOrNone (rangeIndexOf ticks s .geq) (rangeIndexOf ticks e (endModeOf endTbl m))

def rangeRangeIndices (ticks : List Rat) (s e : Rat) (m : SliceMode) : Except Err (Option (Int × Int)) :=
  rangeRangeIndicesT rangeEndMode ticks s e m

/-- Python `seq[i]` for an integer `i`: negative indices count from the end -/
def pyGet (l : List Rat) (i : Int) : Except Err Rat :=
  let j := if i < 0 then i + l.length else i
  if j < 0 then .error .indexError
  else match l[j.toNat]? with
    | some x => .ok x
    | none => .error .indexError

/-- `tick_at`: `list(self.ticks)[index]` -/
def rangeTickAt (ticks : List Rat) (index : Int) : Except Err Rat := pyGet ticks index

/-- Python `slice(a, b).indices(n)` for step 1: clamp one bound -/
def pyClamp (n : Nat) (i : Int) : Nat :=
  if i < 0 then (i + n).toNat else if i > n then n else i.toNat

/-- `RangeDimension.axis(count, start)`: `ticks[start:start+count]` with Python slice semantics,
`IndexError` when `start + count > len(ticks)` -/
def rangeAxis (ticks : List Rat) (count start : Int) : Except Err (List Rat) :=
  let stop := start + count
  if stop > ticks.length then .error .indexError
  else
    let a := pyClamp ticks.length start
    let b := pyClamp ticks.length stop
    .ok ((ticks.drop a).take (b - a))

/-! ## SetDimension -/

/-- `SetDimension.index_of`; `n` = number of labels (`0`: no labels, unbounded) -/
def setIndexOfT (th : Tol) (rnd : String) (n : Nat) (pos : Rat) (mode : IndexMode) : Except Err Int :=
  if pos < 0 then
    if mode = .geq then .ok 0 else .error .indexError
  else if pos = 0 ∧ mode = .less then .error .indexError
  else if n ≠ 0 ∧ ((n : Rat) - 1 < pos) then
    if mode = .less ∨ mode = .leq then .ok ((n : Int) - 1) else .error .indexError
  else
    let index := roundBy rnd pos
    if isclose th pos index then
      match mode with
      | .geq | .leq => .ok index
      | .less => .ok (index - 1)
      | .other => .error .valueError
    else
      match mode with
      | .geq => .ok (index + 1)
      | .leq | .less => .ok index
      | .other => .error .valueError

def setIndexOf (n : Nat) (pos : Rat) (mode : IndexMode) : Except Err Int :=
  setIndexOfT setHitTol setRounding n pos mode

/-- `SetDimension.range_indices`: `start > end` is an `IndexError` (raised) -/
def setRangeIndicesT (th : Tol) (rnd : String) (endTbl : String × String × String) (n : Nat)
    (s e : Rat) (m : SliceMode) : Except Err (Option (Int × Int)) :=
  if e < s then .error .indexError
  else pairOrNone (setIndexOfT th rnd n s .geq) (setIndexOfT th rnd n e (endModeOf endTbl m))

def setRangeIndices (n : Nat) (s e : Rat) (m : SliceMode) : Except Err (Option (Int × Int)) :=
  setRangeIndicesT setHitTol setRounding setEndMode n s e m

end Nix.Dim
