import NixModel.Basic

/-!
# Order of validations and writes along a path through a mutator   (C12)

`Generated/MutatorOrder.lean` lists, for every public mutator of nixio, the events along every path through its
body. `safePath` is the syntactic discipline "no validation, raise or refusable call after an unprotected write";
`run` is the abstract execution the discipline is about: the file is a counter of writes, validations and refusable
calls raise when an oracle says so, a protected section (`try … except: <clean-up>; raise`) restores the file it found.
-/
namespace Nix.Order

inductive Ev where
  | check        -- a validation that may raise and writes nothing
  | raise        -- an explicit `raise`
  | write        -- a primitive write (attribute, dataset, link, delete, resize, time stamp)
  | atomic       -- a call that either refuses without a trace or writes (another mutator, a property setter)
  | tryBegin     -- start of a section whose `except` clause cleans up and re-raises
  | tryEnd
  deriving DecidableEq, Repr, Inhabited

/-- `dirty`: an unprotected write has happened; `tr = some wrote`: inside a protected section -/
def safeFrom (dirty : Bool) (tr : Option Bool) : List Ev → Bool
  | [] => true
  | .tryBegin :: r => match tr with
    | none => safeFrom dirty (some false) r
    | some _ => false                     -- nested protected sections are not part of the discipline
  | .tryEnd :: r => safeFrom (dirty || tr.getD false) none r
  | .write :: r => match tr with
    | some _ => safeFrom dirty (some true) r
    | none => safeFrom true none r
  | .check :: r => !dirty && safeFrom dirty tr r
  | .raise :: _ => !dirty
  | .atomic :: r => !dirty && (match tr with
    | some _ => safeFrom dirty (some true) r
    | none => safeFrom true none r)

def safePath (p : List Ev) : Bool := safeFrom false none p

/-- abstract execution: `orc` answers, for each validation / refusable call in turn, whether it raises; `ts` is the
file found by the enclosing protected section. Returns the file reached and whether the call was refused. -/
def run : List Ev → List Bool → Nat → Option Nat → Nat × Bool
  | [], _, file, _ => (file, false)
  | .raise :: _, _, file, ts => (ts.getD file, true)
  | .check :: r, orc, file, ts =>
    match orc with
    | true :: _ => (ts.getD file, true)
    | _ :: o => run r o file ts
    | [] => run r [] file ts
  | .write :: r, orc, file, ts => run r orc (file + 1) ts
  | .atomic :: r, orc, file, ts =>
    match orc with
    | true :: _ => (ts.getD file, true)
    | _ :: o => run r o (file + 1) ts
    | [] => run r [] (file + 1) ts
  | .tryBegin :: r, orc, file, _ => run r orc file (some file)
  | .tryEnd :: r, orc, file, _ => run r orc file none

end Nix.Order
