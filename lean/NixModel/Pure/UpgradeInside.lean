import NixModel.Pure.Upgrade

/-!
# Interruption *inside* one conversion of `nixio/cmd/upgrade.py`

The property quantifies over interruption points *between* conversions.  This file models the finer points the
property does not promise anything about, so that what happens there is stated and proved rather than assumed:
an exception raised inside the `with h5py.File(fname, "a")` block of one property conversion (the block closes the
file normally, so what was written stays) before its `(c+1)`-th `create_property` call — the old dataset is
already deleted (`del hfile[propname]`, :82), the first `c` objects of `converted` exist (the `uncertainty`
attribute of the main property is written before the next `create_property` call, :93-95).
-/
namespace Nix.Upgrade

/-- body of the loop in `update_props` (:61-115) cut before its `(c+1)`-th `create_property` call -/
def convertPropTake (run : Nat) (f : File) (p : Path) (c : Nat) : File × Option Err :=
  match lookup f.props p with
  | none => (f, some .keyError)
  | some (.new _) => (f, none)
  | some (.old o) =>
    if nameTaken f.props (converted run p o) then (f, some .valueError)
    else
      let r := createAll (f.props.filter (·.1 != p)) ((converted run p o).take c)
      ({ f with props := r.1 }, r.2)

/-- the upgrade with an exception raised at the `(c+1)`-th `create_property` call of its `k`-th step (0-based);
a step that makes fewer calls (or is not a property conversion) is not interrupted and the run goes on -/
def interruptInside (lib : List Nat) (run : Nat) (k c : Nat) (f : File) : File × Option Err :=
  match runSteps lib run f ((collect lib f).take k) with
  | (g, some e) => (g, some e)
  | (g, none) =>
    match (collect lib f).drop k with
    | .prop p :: rest =>
      match lookup g.props p with
      | some (.old o) =>
        if c < (converted run p o).length || nameTaken g.props (converted run p o) then convertPropTake run g p c
        else runSteps lib run g (.prop p :: rest)
      | _ => runSteps lib run g (.prop p :: rest)
    | rest => runSteps lib run g rest

/-- a range dimension group between `link[daid] = parentda` … `updated_at` (:176-183) and `del dim[daid]` (:186):
the complete link group and the old alias link are both there -/
def Dim.halfConverted (d : Dim) : Bool := d.ticks.isNone && d.link.isSome && d.alias

end Nix.Upgrade
