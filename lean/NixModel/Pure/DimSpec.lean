import NixModel.Pure.Dim

/-!
# Order-theoretic specification of the position ↔ index conversions (property C07)

A dimension is a coordinate function `coord : Nat → Rat` on a domain of sample indices
(`none`: every natural number — sampled dimensions and set dimensions without labels;
`some n`: the indices `0 … n-1` — ticks, labels).  The three index modes ask for

* `IsLastAtOrBefore` — the last sample at or before the position,
* `IsLastBefore`     — the last sample strictly before it,
* `IsFirstAtOrAfter` — the first sample at or after it,

each a sample that has the stated relation to the position and is extremal among all samples
of the domain that have it (so with repeated coordinates "last" is the largest index, "first" the
smallest).  `Meets` says what a conversion result must be: `ok i` with `i` that sample, or
`IndexError` when no such sample exists — nothing else.  Since the sample is unique
(`isSample_unique` in `Lemmas/C07Spec.lean`), `Meets` is equivalent to the two "iff" forms.
No Mathlib; these definitions are shared with C08.
-/
namespace Nix.Dim

/-- `i` is a sample index of a dimension with domain `n` -/
def InDom (n : Option Nat) (i : Nat) : Prop := ∀ m, n = some m → i < m

def IsLastAtOrBefore (coord : Nat → Rat) (n : Option Nat) (x : Rat) (i : Nat) : Prop :=
  InDom n i ∧ coord i ≤ x ∧ ∀ j, InDom n j → coord j ≤ x → j ≤ i

def IsLastBefore (coord : Nat → Rat) (n : Option Nat) (x : Rat) (i : Nat) : Prop :=
  InDom n i ∧ coord i < x ∧ ∀ j, InDom n j → coord j < x → j ≤ i

def IsFirstAtOrAfter (coord : Nat → Rat) (n : Option Nat) (x : Rat) (i : Nat) : Prop :=
  InDom n i ∧ x ≤ coord i ∧ ∀ j, InDom n j → x ≤ coord j → i ≤ j

/-- the sample an `IndexMode` asks for (`other` is not a mode: nothing qualifies) -/
def IsSample (mode : IndexMode) (coord : Nat → Rat) (n : Option Nat) (x : Rat) (i : Nat) : Prop :=
  match mode with
  | .leq => IsLastAtOrBefore coord n x i
  | .less => IsLastBefore coord n x i
  | .geq => IsFirstAtOrAfter coord n x i
  | .other => False

/-- what `index_of` must return -/
def Meets (mode : IndexMode) (coord : Nat → Rat) (n : Option Nat) (x : Rat) (r : Except Err Int) : Prop :=
  match r with
  | .ok i => ∃ k : Nat, i = (k : Int) ∧ IsSample mode coord n x k
  | .error e => e = .indexError ∧ ∀ k, ¬ IsSample mode coord n x k

/-- the coordinates are in ascending order on the domain (repeats allowed) -/
def Ascending (coord : Nat → Rat) (n : Option Nat) : Prop :=
  ∀ i j, i ≤ j → InDom n j → coord i ≤ coord j

/-- closed interval `[s, e]`, or `[s, e)` when exclusive -/
def InInterval (m : SliceMode) (s e x : Rat) : Prop :=
  s ≤ x ∧ (match m with | .exclusive => x < e | .inclusive => x ≤ e)

/-- what `range_indices` must return: `(a, b)` with `a … b` exactly the samples whose coordinate lies in
the interval (and there is one), or an empty answer — `None` or `IndexError`, the property accepts
both — when there is none -/
def MeetsRange (m : SliceMode) (coord : Nat → Rat) (n : Option Nat) (s e : Rat)
    (r : Except Err (Option (Int × Int))) : Prop :=
  match r with
  | .ok (some (a, b)) => ∃ ka kb : Nat, a = (ka : Int) ∧ b = (kb : Int) ∧ ka ≤ kb ∧ InDom n kb ∧
      ∀ i, InDom n i → (InInterval m s e (coord i) ↔ ka ≤ i ∧ i ≤ kb)
  | .ok none => ∀ i, InDom n i → ¬ InInterval m s e (coord i)
  | .error err => err = .indexError ∧ ∀ i, InDom n i → ¬ InInterval m s e (coord i)

/-! coordinate functions of the three kinds -/

/-- sample `i` of a sampled dimension: `position_at i` -/
def sampledCoord (off si : Rat) (i : Nat) : Rat := sampledPositionAt off si (i : Int)

/-- tick `i` (only used inside the domain `i < ticks.length`) -/
def tickCoord (ticks : List Rat) (i : Nat) : Rat := ticks.getD i 0

/-- label `i` of a set dimension sits at position `i` -/
def setCoord (i : Nat) : Rat := (i : Rat)

/-- domain of a set dimension: no labels = unbounded -/
def setDom (n : Nat) : Option Nat := if n = 0 then none else some n

/-- ascending tick list (repeats allowed) -/
def AscendingList (ticks : List Rat) : Prop := ticks.Pairwise (· ≤ ·)

/-- the scaled position `x` is on sample `k` or outside the `np.isclose` band around every sample:
the hypothesis under which a tolerance-based hit test decides "on a sample" exactly -/
def SeparatedAt (t : Gen.Tol) (x : Rat) : Prop :=
  ∀ k : Int, x = (k : Rat) ∨ band t (k : Rat) < absR (x - (k : Rat))

end Nix.Dim
