import NixModel.Pure.Time
import NixModel.Generated.TimeShape

/-!
# Pure.TimeFormat — `time_to_str` / `str_to_time` driven by the format strings of the source

`Pure.Time.timeToStr` / `strToTime` have the layout `YYYYMMDDTHHMMSS` written into them.  Here the
same conversions are defined *over a format* (a list of `Piece`s, as `Generated/TimeShape.lean`
renders the string literals handed to `strftime` / `strptime` in `nixio/util/util.py`) and over the
epoch date the source subtracts.  `Props/C19.lean` proves that with the generated format and epoch
they are the functions of `Pure.Time`, for every argument.

`strftime`: `%Y` unpadded decimal (glibc), the other directives two digits, a literal is itself.
`strptime` (on fixed-width fields, the domain `canonicalShape` describes): `%Y` four digits, the other
directives two, a literal matches itself in either case (`_strptime` compiles the format with
`re.IGNORECASE`); fields that the format does not mention keep CPython's defaults 1900-01-01 00:00:00.
-/
namespace Nix.Time
open Nix.Civil Nix.Time.Gen

structure Fields where
  year : Nat
  month : Nat
  day : Nat
  hour : Nat
  minute : Nat
  second : Nat
  deriving DecidableEq, Repr

/-! ## strftime -/

def renderPiece (f : Fields) : Piece → Option Str
  | .year => some (yearDigits f.year)
  | .month => some (pad2 f.month)
  | .day => some (pad2 f.day)
  | .hour => some (pad2 f.hour)
  | .minute => some (pad2 f.minute)
  | .second => some (pad2 f.second)
  | .lit c => some [c]
  | .other _ => none

def formatWith (f : Fields) : List Piece → Option Str
  | [] => some []
  | p :: ps =>
    match renderPiece f p, formatWith f ps with
    | some a, some b => some (a ++ b)
    | _, _ => none

/-- `datetime.utcfromtimestamp(t)` as broken-down fields (years 1 … 9999) -/
def fieldsOf (t : Int) : Except Err Fields :=
  let days := t / 86400
  let sod := (t % 86400).toNat
  let z := days + (epochShift : Int)
  if z < 0 then .error .valueError
  else
    let c := civilOfDay z.toNat
    if c.1 < 1 || c.1 > 9999 then .error .valueError
    else .ok ⟨c.1, c.2.1, c.2.2, sod / 3600, sod % 3600 / 60, sod % 60⟩

/-- `datetime.utcfromtimestamp(t).strftime(fmt)` -/
def timeToStrWith (fmt : List Piece) (t : Int) : Except Err Str :=
  match fieldsOf t with
  | .error e => .error e
  | .ok f =>
    match formatWith f fmt with
    | some s => .ok s
    | none => .error .valueError

/-! ## strptime -/

def litMatches (c x : Char) : Bool := x == c || x == c.toLower || x == c.toUpper

def parsePiece (f : Fields) : Piece → Str → Option (Fields × Str)
  | .year, a :: b :: c :: d :: rest =>
    if [a, b, c, d].all isDigit then some ({ f with year := num4 a b c d }, rest) else none
  | .month, a :: b :: rest => if [a, b].all isDigit then some ({ f with month := num2 a b }, rest) else none
  | .day, a :: b :: rest => if [a, b].all isDigit then some ({ f with day := num2 a b }, rest) else none
  | .hour, a :: b :: rest => if [a, b].all isDigit then some ({ f with hour := num2 a b }, rest) else none
  | .minute, a :: b :: rest => if [a, b].all isDigit then some ({ f with minute := num2 a b }, rest) else none
  | .second, a :: b :: rest => if [a, b].all isDigit then some ({ f with second := num2 a b }, rest) else none
  | .lit c, x :: rest => if litMatches c x then some (f, rest) else none
  | _, _ => none

def parseWith : List Piece → Fields → Str → Option Fields
  | [], f, [] => some f
  | [], _, _ :: _ => none
  | p :: ps, f, s =>
    match parsePiece f p s with
    | some (f', rest) => parseWith ps f' rest
    | none => none

/-- `int((datetime.strptime(s, fmt) - datetime(*ep)).total_seconds())` -/
def strToTimeWith (fmt : List Piece) (ep : Nat × Nat × Nat) (s : Str) : Except Err Int :=
  match parseWith fmt ⟨1900, 1, 1, 0, 0, 0⟩ s with
  | none => .error .valueError
  | some f =>
    if validDate f.year f.month f.day && f.hour ≤ 23 && f.minute ≤ 59 && f.second ≤ 59 then
      .ok ((((dayOfCivil f.year f.month f.day : Nat) : Int) -
              ((dayOfCivil ep.1 ep.2.1 ep.2.2 : Nat) : Int)) * 86400
            + ((f.hour * 3600 + f.minute * 60 + f.second : Nat) : Int))
    else .error .valueError

end Nix.Time
