import NixModel.Basic
import NixModel.Pure.Flush

/-!
# C17 — several `nixio.File` objects on one path inside one writer process

libhdf5 hands a second `H5Fopen` of a file that the process has open the file structure it already holds:
all `File` objects of the process on that path share ONE cache (`cache`), whatever access each asked for.
`H5Fflush` through any of them writes that cache; `H5Fclose` of one of them releases the library's file
only when it was the last one (then, as in `Nix.Flush`, what was cached is merely *pending*: the model gives
the library close no durability of its own).

The bodies of `File.flush` / `File.close` are the generated statement lists of `Generated/FlushShape.lean`,
interpreted by `mprim` on the object the call is issued on.
-/
namespace Nix.FlushMulti
open Nix.Flush

structure MWorld where
  /-- what the OS has of the (existing) file -/
  disk : Store
  /-- the library's one file structure of this process (`none`: the process does not hold the file) -/
  cache : Option Store
  /-- cache the library still holds after its last close -/
  pending : Option Store
  /-- the `File` objects the process created on the path, in order of creation: still open? -/
  objs : List Bool

/-- one statement of a generated body, issued on `File` object number `i` -/
def mprim (w : MWorld) (i : Nat) : Prim → MWorld × Option Err
  | .gcCollect => (w, none)
  | .h5flush =>
    match w.objs[i]?, w.cache with
    | some true, some c => ({ w with disk := c }, none)
    | _, _ => (w, some .runtimeError)              -- closed object: "not a file or file object"
  | .h5close =>
    match w.objs[i]? with
    | some true =>
      let objs' := w.objs.set i false
      if objs'.contains true then ({ w with objs := objs' }, none)       -- the library's file stays
      else ({ w with objs := objs', cache := none, pending := w.cache }, none)
    | _ => (w, none)

def mrunBody (w : MWorld) (i : Nat) : List Prim → MWorld × Option Err
  | [] => (w, none)
  | p :: ps =>
    match mprim w i p with
    | (w', none) => mrunBody w' i ps
    | (w', some e) => (w', some e)

inductive MEv where
  /-- a further `File.open(path, 'r' | 'a')` in the process -/
  | openObj
  /-- a mutating API call through object `i` -/
  | write (i : Nat) (x : Write)
  | flush (i : Nat)
  | close (i : Nat)
  /-- environment: the library writes back the cache entries `ks` -/
  | writeback (ks : List Key)
  | kill

def mwriteback (w : MWorld) (ks : List Key) : MWorld :=
  match w.cache with
  | some c => { w with disk := wb c ks w.disk }
  | none =>
    match w.pending with
    | some p => { w with disk := wb p ks w.disk }
    | none => w

def mstep (w : MWorld) : MEv → MWorld × Option Err
  | .openObj =>
    match w.cache with
    | some _ => ({ w with objs := w.objs ++ [true] }, none)
    | none =>
      let d := match w.pending with
        | some p => p
        | none => w.disk
      ({ disk := d, cache := some d, pending := none, objs := w.objs ++ [true] }, none)
  | .write i x =>
    match w.objs[i]?, w.cache with
    | some true, some c => ({ w with cache := some (x.apply c) }, none)
    | _, _ => (w, some .runtimeError)
  | .flush i => mrunBody w i Gen.fileFlushBody
  | .close i => mrunBody w i Gen.fileCloseBody
  | .writeback ks => (mwriteback w ks, none)
  | .kill => ({ w with cache := none, pending := none, objs := [] }, none)

def mrun (w : MWorld) : List MEv → MWorld
  | [] => w
  | e :: es => mrun (mstep w e).1 es

/-- nothing new is written -/
def mquiet : MEv → Bool
  | .write _ _ => false
  | _ => true

/-- the writer is killed now and the file is opened again: what the API shows -/
def mreopenView (w : MWorld) : Option Store := (mstep (mstep w .kill).1 .openObj).1.cache

end Nix.FlushMulti
