import NixModel.Basic
import NixModel.Pure.FlushPrim
import NixModel.Generated.FlushShape

/-!
# C17 — two-level disk / cache protocol model of `nixio.File` (file.py: `flush`, `close`, `__exit__`)

A `World` is what one writer process and the operating system hold of one NIX file:

* `disk`    — what the OS has (survives `SIGKILL`); `none` = the path does not exist;
* `handle`  — the open h5py file of the `nixio.File` object: access mode and the library's *cache*
              (HDF5 metadata cache + raw-data chunk cache). Every API read sees the cache, every API write
              goes to the cache only;
* `pending` — a cache libhdf5 still holds after h5py's `close()` released the ids but before the library
              has written everything back (the model gives `h5close` *no* durability guarantee of its own:
              weaker than real libhdf5, so that the flush inside `File.close` is what the theorem rests on).

Events: API calls (`open`, `write`, `flush`, `close`, `exit` = leaving a `with` block), the environment's
nondeterministic `writeback ks` (at any time libhdf5 may evict / write back any set `ks` of cache entries
— a *relation* on worlds, rendered as an event carrying the chosen set so that "for every write-back
behaviour" is "for every history"), and `kill` (SIGKILL: handle, cache and pending cache are gone).

The bodies of `flush` / `close` / `__exit__` are not written here: they are the generated statement lists
`Gen.fileFlushBody`, `Gen.fileCloseBody`, `Gen.fileExitBody` interpreted by `prim`.

Stores are total functions `Key → Option Val` (object path ↦ canonical record); container order lives inside
the record of the container, so a store is order-free.
-/
namespace Nix.Flush

abbrev Key := String
abbrev Val := String
/-- what is found under each object key (`none` = no such object) -/
abbrev Store := Key → Option Val

def Store.empty : Store := fun _ => none

/-- effect of one mutating API call at the level of stored objects -/
inductive Write where
  | put (k : Key) (v : Val)
  | del (k : Key)
  deriving DecidableEq, Repr

def Write.apply (x : Write) (s : Store) : Store :=
  match x with
  | .put k v => fun k' => if k' = k then some v else s k'
  | .del k => fun k' => if k' = k then none else s k'

def applyWrites (xs : List Write) (s : Store) : Store := xs.foldl (fun acc x => x.apply acc) s

/-- `FileMode` of file.py: `'r'`, `'a'`, `'w'` -/
inductive Mode where
  | readOnly | readWrite | overwrite
  deriving DecidableEq, Repr

structure Handle where
  mode : Mode
  cache : Store

structure World where
  disk : Option Store
  handle : Option Handle
  pending : Option Store

def World.init : World := ⟨none, none, none⟩

inductive Ev where
  /-- `File.open(path, mode)` / `File(path, mode)` -/
  | open (m : Mode)
  /-- any mutating API call -/
  | write (x : Write)
  /-- `File.flush()` -/
  | flush
  /-- `File.close()` -/
  | close
  /-- `File.__exit__` (leaving a `with` block, normally or by an exception) -/
  | exit
  /-- environment: libhdf5 writes back the cache entries `ks` (any set, any time) -/
  | writeback (ks : List Key)
  /-- SIGKILL of the writer process -/
  | kill
  deriving Repr

/-- write-back of the entries `ks` of `src` into `d` -/
def wb (src : Store) (ks : List Key) (d : Store) : Store :=
  fun k => if ks.contains k then src k else d k

/-- the library finishes a deferred close: everything still pending reaches the disk -/
def settle (w : World) : World :=
  match w.pending with
  | some p => { w with disk := some p, pending := none }
  | none => w

/-- create / truncate: the file exists and is empty, the handle's mode is Overwrite -/
def createW (w : World) : World :=
  { w with disk := some Store.empty, handle := some ⟨.overwrite, Store.empty⟩ }

/-- `File.__init__` (file.py:81-138) as far as storage is concerned: ReadOnly needs an existing file;
a missing file or Overwrite creates/truncates (`h5f.create(ACC_TRUNC)`) and the mode becomes Overwrite;
otherwise the existing file is opened. A second `open` while the process holds the file is outside the
model (single writer) and is refused. -/
def openFile (w : World) (m : Mode) : World × Option Err :=
  match w.handle with
  | some _ => (w, some .runtimeError)
  | none =>
    let w := settle w
    match m, w.disk with
    | .readOnly, none => (w, some .runtimeError)
    | .readOnly, some d => ({ w with handle := some ⟨.readOnly, d⟩ }, none)
    | .readWrite, some d => ({ w with handle := some ⟨.readWrite, d⟩ }, none)
    | .readWrite, none => (createW w, none)
    | .overwrite, _ => (createW w, none)

/-- `H5Fflush` on a writable handle: everything cached reaches the disk -/
def flushW (w : World) (hd : Handle) : World := { w with disk := some hd.cache }

/-- h5py `File.close` on an open handle: ids released; what was cached is still to be written back -/
def closeW (w : World) (hd : Handle) : World :=
  { w with handle := none, pending := if hd.mode = .readOnly then none else some hd.cache }

/-- one statement of a generated body -/
def prim (w : World) : Prim → World × Option Err
  | .gcCollect => (w, none)
  | .h5flush =>
    match w.handle with
    | none => (w, some .runtimeError)          -- h5py: "Unable to flush file (not a file or file object)"
    | some hd =>
      if hd.mode = .readOnly then (w, none)    -- nothing is ever dirty in a read-only handle
      else (flushW w hd, none)
  | .h5close =>
    match w.handle with
    | none => (w, none)                        -- h5py File.close: `if self.id.valid:` … else nothing
    | some hd => (closeW w hd, none)

/-- statements run in order; an exception ends the body (effects so far stay) -/
def runBody (w : World) : List Prim → World × Option Err
  | [] => (w, none)
  | p :: ps =>
    match prim w p with
    | (w', none) => runBody w' ps
    | (w', some e) => (w', some e)

/-- a mutating API call: refused on a closed file and in a read-only session, else applied to the cache -/
def writeCall (w : World) (x : Write) : World × Option Err :=
  match w.handle with
  | none => (w, some .runtimeError)
  | some hd =>
    if hd.mode = .readOnly then (w, some .runtimeError)
    else ({ w with handle := some { hd with cache := x.apply hd.cache } }, none)

def writebackEv (w : World) (ks : List Key) : World :=
  match w.handle with
  | some hd =>
    if hd.mode = .readOnly then w else { w with disk := w.disk.map (wb hd.cache ks) }
  | none =>
    match w.pending with
    | some p => { w with disk := w.disk.map (wb p ks) }
    | none => w

def step (w : World) : Ev → World × Option Err
  | .open m => openFile w m
  | .write x => writeCall w x
  | .flush => runBody w Gen.fileFlushBody
  | .close => runBody w Gen.fileCloseBody
  | .exit => runBody w Gen.fileExitBody
  | .writeback ks => (writebackEv w ks, none)
  | .kill => ({ w with handle := none, pending := none }, none)

/-- a history: the world after all events (outcomes of the single calls are not collected here) -/
def run (w : World) : List Ev → World
  | [] => w
  | e :: es => run (step w e).1 es

/-- what the API shows: the cache of the open handle -/
def view (w : World) : Option Store := w.handle.map (·.cache)

def isOpen (w : World) : Bool := w.handle.isSome

/-- the writer is killed now and the file is opened again with mode `m` -/
def reopenView (w : World) (m : Mode) : Option Store :=
  view (step (step w .kill).1 (.open m)).1

/-! ### decidable shape predicates on bodies (evaluated on the generated constants by the theorems) -/

/-- scanning the body of an open file: an `h5flush` is reached before any `h5close` -/
def syncs : List Prim → Bool
  | [] => false
  | .gcCollect :: ps => syncs ps
  | .h5flush :: _ => true
  | .h5close :: _ => false

/-- run on an open file, the body raises nothing: no `h5flush` after the first `h5close` -/
def raiseFree : List Prim → Bool
  | [] => true
  | .h5close :: ps => !ps.contains .h5flush
  | _ :: ps => raiseFree ps

/-- the body closes the h5py file -/
def closes (body : List Prim) : Bool := body.contains .h5close

/-- events after which nothing new has been written: no successful write can happen and the file is not
truncated -/
def quiet : Ev → Bool
  | .write _ => false
  | .open .overwrite => false
  | _ => true

/-- events of a writing session between `open` and its end -/
def sessionEv : Ev → Bool
  | .write _ => true
  | .writeback _ => true
  | .flush => true
  | _ => false

def writesOf : List Ev → List Write
  | [] => []
  | .write x :: es => x :: writesOf es
  | _ :: es => writesOf es

end Nix.Flush
