import NixModel.Basic

/-!
# Dimension links: validations and writes of `link_data_array`, `link_data_frame`,
# `append_range_dimension_using_self`   (C12)

A dimension link is built by several functions that hand the `index` argument on to each other:
`Dimension.link_data_array` (pre-checks `_check_link_dimensionality`, `_check_index`) removes the previous link,
`DimensionLink.create_new` writes the link group attribute by attribute and, in the middle, assigns
`DimensionLink.index`, whose setter validates the index *again* (type `Sequence`, exactly one `-1`) and hands it
to h5py (which refuses entries it cannot store).  A refused call leaves the dimension alone only if everything
the late validations ask for has been asked before the first write — for every *spelling* of the index: a list,
a tuple, an ndarray (no `count`, not a `Sequence`), a duck-typed container, entries that compare like integers
but are not numbers (`Fraction(-1)`).  The *object* to be linked can be refused as well: `H5Group.create_link`
refuses an object of another open file (HDF5 has no hard links between files), in the middle of
`DimensionLink.create_new`; `link_data_array` / `link_data_frame` therefore test the object's file with their
other pre-checks (`Guard.sameFile`).

The functions are step lists (`Generated/LinkOrder.lean`, rendered from the source in statement order, callees
inlined) run by the machine below.  The index is abstract: what the container can do (`len`, iteration, `count`,
membership in `collections.abc.Sequence`) and, per entry, what the validations ask of it.
-/
namespace Nix.LinkWrite

/-- one entry of the index offered -/
structure Entry where
  plain : Bool        -- `isinstance(idx, (int, float, np.integer, np.floating))`
  minusOne : Bool     -- `idx == -1`
  neg : Bool          -- `idx < 0`
  cmpOk : Bool        -- `idx < 0` is defined (not for text, None, complex numbers)
  storable : Bool     -- NumPy gives the list of all entries a numeric element type (h5py stores the list)
  deriving DecidableEq, Repr, Inhabited

/-- the index offered: capabilities of the container, and its entries -/
structure Idx where
  hasLen : Bool
  iterable : Bool
  hasCount : Bool
  isSeq : Bool        -- registered with `collections.abc.Sequence`
  entries : List Entry
  deriving DecidableEq, Repr, Inhabited

/-- the column offered to `link_data_frame` -/
structure Col where
  isInt : Bool
  val : Int
  deriving DecidableEq, Repr, Inhabited

/-- one call: the arguments and what the call finds (rank of the array / number of columns of the frame to be
linked, the clock, the id drawn for the link) -/
structure Call where
  idx : Idx
  col : Col
  target : Nat
  targetRank : Nat
  targetCols : Nat
  now : Nat
  newId : Nat
  otherFile : Bool := false   -- the object to be linked lives in ANOTHER open file
  deriving DecidableEq, Repr, Inhabited

inductive Guard where
  | rankMatches     -- `len(data_array.data_extent) != len(index)` → IncompatibleDimensions
  | isSequence      -- `util.check_attr_type(index, Sequence)`
  | entriesPlain    -- `for idx in index: if not isinstance(idx, (int, float, np.integer, np.floating))`
  | entriesStorable -- `np.asarray(list(index)).dtype.kind not in "iufb"`
  | oneMinusOne     -- `index.count(-1) != 1`
  | oneNegative     -- `sum(idx < 0 for idx in index) != 1`
  | colIsInt        -- `util.check_attr_type(index, int)`
  | colInRange      -- `not 0 <= index < len(data_frame.columns)` → OutOfBounds
  | sameFile        -- `<obj>._h5group.group.file != self._h5group.group.file` → ValueError
  deriving DecidableEq, Repr, Inhabited

def count (p : Entry → Bool) (es : List Entry) : Nat := (es.filter p).length

/-- the validation on the call's arguments: `none` = passes -/
def Guard.check (c : Call) : Guard → Option Err
  | .rankMatches =>
    if !c.idx.hasLen then some .typeError
    else if c.idx.entries.length != c.targetRank then some .incompatibleDimensions else none
  | .isSequence => if c.idx.isSeq then none else some .typeError
  | .entriesPlain =>
    if !c.idx.iterable then some .typeError
    else if c.idx.entries.all (·.plain) then none else some .valueError
  | .entriesStorable =>
    if !c.idx.iterable then some .typeError
    else if c.idx.entries.all (·.storable) then none else some .valueError
  | .oneMinusOne =>
    if !c.idx.hasCount then some .attributeError
    else if count (·.minusOne) c.idx.entries == 1 then none else some .valueError
  | .oneNegative =>
    if !c.idx.iterable then some .typeError
    else if c.idx.entries.any (fun e => !e.cmpOk) then some .typeError
    else if count (·.neg) c.idx.entries == 1 then none else some .valueError
  | .colIsInt => if c.col.isInt then none else some .typeError
  | .colInRange =>
    if !c.col.isInt then some .typeError
    else if 0 ≤ c.col.val ∧ c.col.val < (c.targetCols : Int) then none else some .outOfBounds
  | .sameFile => if c.otherFile then some .valueError else none

inductive Step where
  | guard (g : Guard)
  | removeLinkIfAny        -- `if self.has_link: self.remove_link()`
  | openLinkGroup          -- `h5parent.open_group("link", True)`; `set_attr("entity_id", id_)`
  | setDotype (isArray : Bool)
  | createTargetLink       -- `create_link(dataobj, dataobj.id)`: refuses an object of another file (HDF5 has no
                           -- hard links between files; ValueError since nixio 16b3ce3)
  | createSelfLink         -- the same with the array that owns the descriptor as the object
                           -- (`rdim.link_data_array(self, index)`): it lives in the file of its descriptor
  | setIndexAttr           -- `set_attr("index", list(index))`: h5py refuses entries it cannot store
  | setColAttr             -- `set_attr("index", index)` for a frame column
  | setCreated
  | setUpdated
  | deleteTicksIfAny       -- `if "ticks" in self._h5group: delete("ticks")`
  | createDim              -- `RangeDimension.create_new(self, dim_index, None)`
  | touchArray             -- `self.force_updated_at()`
  deriving DecidableEq, Repr, Inhabited

/-- the stored link group -/
structure Link where
  id : Nat
  isArray : Option Bool := none
  target : Option Nat := none
  index : Option (List Entry) := none
  column : Option Int := none
  created : Option Nat := none
  updated : Option Nat := none
  deriving DecidableEq, Repr, Inhabited

/-- the dimension descriptor addressed -/
structure Dim where
  ticks : Bool
  link : Option Link
  deriving DecidableEq, Repr, Inhabited

/-- the part of the file the calls can touch: the descriptor (`none`: the one `append_range_dimension_using_self`
is about to add does not exist yet), the number of descriptors of the array, the array's `updated_at` -/
structure File where
  dim : Option Dim
  ndims : Nat
  stamp : Nat
  deriving DecidableEq, Repr, Inhabited

def File.mapLink (f : File) (g : Link → Link) : File :=
  { f with dim := f.dim.map fun d => { d with link := d.link.map g } }

/-- one statement; `none` = no error.  Only `.guard`, `.createTargetLink`, `.setIndexAttr`, `.setColAttr` can raise;
an error leaves the file as the statement found it. -/
def step (c : Call) (f : File) : Step → File × Option Err
  | .guard g => (f, g.check c)
  | .removeLinkIfAny => ({ f with dim := f.dim.map fun d => { d with link := none } }, none)
  | .openLinkGroup => ({ f with dim := f.dim.map fun d => { d with link := some { id := c.newId } } }, none)
  | .setDotype a => (f.mapLink fun l => { l with isArray := some a }, none)
  | .createTargetLink =>
    if c.otherFile then (f, some .valueError) else (f.mapLink fun l => { l with target := some c.target }, none)
  | .createSelfLink => (f.mapLink fun l => { l with target := some c.target }, none)
  | .setIndexAttr =>
    if c.idx.iterable && c.idx.entries.all (·.storable) then
      (f.mapLink fun l => { l with index := some c.idx.entries }, none)
    else (f, some .typeError)
  | .setColAttr =>
    if c.col.isInt then (f.mapLink fun l => { l with column := some c.col.val }, none)
    else (f, some .typeError)
  | .setCreated => (f.mapLink fun l => { l with created := some c.now }, none)
  | .setUpdated => (f.mapLink fun l => { l with updated := some c.now }, none)
  | .deleteTicksIfAny => ({ f with dim := f.dim.map fun d => { d with ticks := false } }, none)
  | .createDim => ({ f with dim := some { ticks := false, link := none }, ndims := f.ndims + 1 }, none)
  | .touchArray => ({ f with stamp := c.now }, none)

/-- the statements in order; the first error ends the call (nothing here catches exceptions) -/
def run (c : Call) : List Step → File → File × Option Err
  | [], f => (f, none)
  | s :: r, f =>
    match step c f s with
    | (f', none) => run c r f'
    | (f', some e) => (f', some e)

/-- the guards a statement needs to have been passed before it may follow a write -/
def Step.needs : Step → List Guard
  | .guard g => [g]
  | .createTargetLink => [.sameFile]
  | .setIndexAttr => [.entriesStorable]
  | .setColAttr => [.colIsInt]
  | _ => []

/-- the discipline: once something has been written (`dirty`), every statement that can still raise asks only
for what a guard passed *before the first write* (`seen`) has already established -/
def safeFrom (seen : List Guard) (dirty : Bool) : List Step → Bool
  | [] => true
  | .guard g :: r =>
    if dirty then seen.contains g && safeFrom seen dirty r else safeFrom (g :: seen) dirty r
  | s :: r => (s.needs.all seen.contains) && safeFrom seen true r

def safe (steps : List Step) : Bool := safeFrom [] false steps

end Nix.LinkWrite
