import NixModel.Basic
import NixModel.Pure.Dim
import NixModel.Pure.DataView
import NixModel.Pure.Units
import NixModel.Generated.TagShape

/-!
# Model of the region computation of tags (`nixio/tag.py`, `nixio/multi_tag.py`)

Follows the code in `/repo` branch for branch:

* `scalePosition`   — `BaseTag._scale_position` (`tag.py:152-180`)
* `axisSlice`       — the loop body of `BaseTag._calc_data_slices` for an axis that has a position
* `calcSlices`      — `BaseTag._calc_data_slices` (`tag.py:116-142`)
* `slicesInData`    — `BaseTag._slices_in_data` (`tag.py:144-150`, with NumPy's broadcasting of
                      `np.less_equal(stops, data_extent)`)
* `Tag.taggedData`, `Tag.featureData` — `Tag.tagged_data` / `Tag.feature_data` (`tag.py:302-357`)
* `PosArr`, `calcSlicesMtag` — `MultiTag._calc_data_slices_mtag` (`multi_tag.py:102-129`): row selection and
                      the 1-D → 2-D promotion of position / extent arrays
* `MultiTag.taggedData`, `MultiTag.featureData` — `multi_tag.py:137-196`

The per-dimension conversions are the ones of `Pure/Dim.lean` (C07, instantiated with the generated
tolerances), unit scaling is `Pure/Units.lean` (C09), the resulting view is `DataView.mkView` (C06).
Floats are exact rationals (DESIGN §5).  Array *content* is not modelled here: a result is the view
(validity + window); what a valid window reads is C06 / C01.

The *decisions* of `_calc_data_slices` / `_slices_in_data` / `feature_data` that are not arithmetic of the
dimensions or units — the test on the extent entry that keeps the stop rule, the mode otherwise and without an
entry, the stop position, `slice(a, b + 1)`, the start of a whole axis, the comparison of the stops with the
data extent, the row test of indexed features, the text that means "no unit" on a set dimension — are the
definitions of `Generated/TagShape.lean`, re-rendered from the source by `harness/extract/tagshape.py` on every
run, and are used here as they come (`Gen.…`).

The loop `for idx, dim in enumerate(data.dimensions)` indexes `position[idx]`, `extent[idx]`,
`units[idx]` and `data.shape[idx]`; the model consumes those lists in lock-step with the dimension
list, which is the same thing (an index beyond `units` / `shape` is an `IndexError` in both).
-/
namespace Nix.Tagging
open Nix.Dim Nix.DataView Nix.Units

/-- a dimension descriptor as the region computation sees it.  `unit = none` is a missing `unit`
attribute; `off` is `self.offset if self.offset else 0`; `nlabels = 0` is a set dimension without labels -/
inductive DimDesc where
  | sampled (off si : Rat) (unit : Option Str)
  | range (ticks : List Rat) (unit : Option Str)
  | set (nlabels : Nat)
  deriving Repr

/-- a `DataArray` as the region computation sees it: `data_extent` and `dimensions` -/
structure Arr where
  shape : List Nat
  dims : List DimDesc
  deriving Repr

/-- `dim.unit` (`None` for a set dimension) -/
def DimDesc.unit : DimDesc → Option Str
  | .sampled _ _ u => u
  | .range _ u => u
  | .set _ => none

def noneStr : Str := Gen.setNoUnitText

/-- `SliceMode.<member>` by member name (the translator accepts only the two members) -/
def sliceModeNamed (s : String) : SliceMode := if s = "Exclusive" then .exclusive else .inclusive

/-- `BaseTag._scale_position(pos, unit, dim)` → `(pos * scaling, scaling)`.
Only `InvalidUnit` is caught and turned into `IncompatibleDimensions`. -/
def scalePosition (pos : Rat) (unit : Option Str) (dim : DimDesc) : Except Err (Rat × Rat) :=
  match dim with
  | .set _ =>
    match unit with
    | some u =>
      -- `if unit and unit != "none"`
      if !u.isEmpty && u != noneStr then .error .incompatibleDimensions else .ok (pos * 1, 1)
    | none => .ok (pos * 1, 1)
  | .sampled _ _ du | .range _ du =>
    match du, unit with
    | none, some _ => .error .incompatibleDimensions
    | some d, some u =>
      match scaling u d with
      | .ok sc => .ok (pos * sc, sc)
      | .error .invalidUnit => .error .incompatibleDimensions
      | .error e => .error e
    | _, none => .ok (pos * 1, 1)

/-- `dim.range_indices(start, stop, mode)` of the dimension's class -/
def dimRangeIndices (dim : DimDesc) (s e : Rat) (m : SliceMode) : Except Err (Option (Int × Int)) :=
  match dim with
  | .sampled off si _ => sampledRangeIndices off si s e m
  | .range ticks _ => rangeRangeIndices ticks s e m
  | .set n => setRangeIndices n s e m

/-- stop position and slice mode of an axis: with an extent entry `e`, `stop = e * scaling + start`
and the mode is the stop rule when `e > 0` (the *unscaled* entry), `Inclusive` otherwise; without one
the region is the position itself, inclusive -/
def stopOf (stop : SliceMode) (start sc : Rat) (e? : Option Rat) : Rat × SliceMode :=
  match e? with
  | some e => (Gen.stopPos e sc start,
      if Gen.extentKeepsStopRule e then stop else sliceModeNamed Gen.extentElseMode)
  | none => (start, sliceModeNamed Gen.noExtentMode)

/-- loop body of `_calc_data_slices` for `idx < len(position)`:
`range_indices if range_indices is None else slice(range_indices[0], range_indices[1] + 1)` -/
def axisSlice (stop : SliceMode) (dim : DimDesc) (p : Rat) (e? : Option Rat) (unit : Option Str) :
    Except Err (Option Win) :=
  match scalePosition p unit dim with
  | .error e => .error e
  | .ok (start, sc) =>
    match dimRangeIndices dim start (stopOf stop start sc e?).1 (stopOf stop start sc e?).2 with
    | .error e => .error e
    | .ok none => .ok none
    | .ok (some (a, b)) => .ok (some (Gen.sliceOf a b))

/-- `units[idx]`: `units = none` is the branch `units = [None] * len(data.dimensions)` -/
def nextUnit : Option (List Str) → Except Err (Option Str × Option (List Str))
  | none => .ok (none, none)
  | some [] => .error .indexError
  | some (u :: us) => .ok (some u, some us)

/-- `extent[idx]` guarded by `extent is not None and idx < len(extent)` -/
def nextExtent : List Rat → Option Rat × List Rat
  | [] => (none, [])
  | e :: es => (some e, es)

/-- `BaseTag._calc_data_slices(data, position, extent, stop_rule)`; the lists are what is left of
`data.dimensions`, `data.shape`, `position`, `extent`, `units` from the current `idx` on -/
def calcSlices (stop : SliceMode) : List DimDesc → List Nat → List Rat → List Rat → Option (List Str) →
    Except Err (List (Option Win))
  | [], _, _, _, _ => .ok []
  | dim :: dims, shape, p :: pos, ext, units =>
    match nextUnit units with
    | .error e => .error e
    | .ok (u, us) =>
      match axisSlice stop dim p (nextExtent ext).1 u with
      | .error e => .error e
      | .ok w =>
        match calcSlices stop dims (shape.drop 1) pos (nextExtent ext).2 us with
        | .error e => .error e
        | .ok ws => .ok (w :: ws)
  | _ :: dims, shape, [], ext, units =>
    -- no position: the whole axis, `slice(0, data.shape[idx])`
    match shape with
    | [] => .error .indexError
    | n :: shape' =>
      match calcSlices stop dims shape' [] ext units with
      | .error e => .error e
      | .ok ws => .ok (some (Gen.wholeAxisStart, (n : Int)) :: ws)

/-- `np.all(np.less_equal(stops, dasize))` with NumPy's broadcasting of two 1-D operands -/
def npAllLe (stops : List Int) (ext : List Nat) : Except Err Bool :=
  if stops.length = ext.length then
    .ok ((stops.zip ext).all fun se => Gen.stopInData se.1 (se.2 : Int))
  else
    match stops, ext with
    | [s], _ => .ok (ext.all fun n => Gen.stopInData s (n : Int))
    | _, [n] => .ok (stops.all fun s => Gen.stopInData s (n : Int))
    | _, _ => .error .valueError

/-- `BaseTag._slices_in_data(data, slices)` -/
def slicesInData (shape : List Nat) (sl : List (Option Win)) : Except Err Bool :=
  match allSome sl with
  | none => .ok false
  | some ws => npAllLe (ws.map fun w => w.2) shape

/-- `self.units`: an absent / empty `units` dataset is falsy -/
def unitsOpt (u : List Str) : Option (List Str) := if u.isEmpty then none else some u

/-- `LinkType` -/
inductive LinkType where
  | tagged | untagged | indexed
  deriving DecidableEq, Repr, Inhabited

/-- `tuple(slice(0, stop) for stop in data.shape)` -/
def fullWindows (shape : List Nat) : List (Option Win) := shape.map fun (n : Nat) => (some ((0 : Int), (n : Int)) : Option Win)

/-- the tail shared by every caller that tests `_slices_in_data` before building the view -/
def viewIfInData (shape : List Nat) (sl : List (Option Win)) : Except Err View :=
  match slicesInData shape sl with
  | .error e => .error e
  | .ok false => .error .outOfBounds
  | .ok true => .ok (mkView shape (some sl))

/-! ## Tag -/

/-- a `Tag`: `position`, `extent` (empty: none stored), `units` (empty: none stored) -/
structure TagDesc where
  position : List Rat
  extent : List Rat
  units : List Str
  deriving Repr

/-- `Tag.tagged_data(refidx, stop_rule)` with `nrefs = len(self.references)` and `ref = references[refidx]` -/
def Tag.taggedData (t : TagDesc) (nrefs refidx : Nat) (ref : Arr) (stop : SliceMode) : Except Err View :=
  if nrefs = 0 then .error .outOfBounds
  else if refidx ≥ nrefs then .error .outOfBounds
  else if !t.extent.isEmpty && t.position.length != t.extent.length then .error .incompatibleDimensions
  else
    match calcSlices stop ref.dims ref.shape t.position t.extent (unitsOpt t.units) with
    | .error e => .error e
    | .ok sl =>
      if (allSome sl).isNone then .ok (mkView ref.shape (some sl))       -- `if not all(slices)`
      else viewIfInData ref.shape sl

/-- `Tag.feature_data(featidx, stop_rule)` with `nfeats = len(self.features)`, `link`/`data` those of
the selected feature -/
def Tag.featureData (t : TagDesc) (nfeats : Nat) (link : LinkType) (data : Arr) (stop : SliceMode) :
    Except Err View :=
  if nfeats = 0 then .error .outOfBounds
  else
    match link with
    | .tagged =>
      match calcSlices stop data.dims data.shape t.position t.extent (unitsOpt t.units) with
      | .error e => .error e
      | .ok sl => viewIfInData data.shape sl
    | _ => .ok (mkView data.shape (some (fullWindows data.shape)))

/-! ## MultiTag -/

/-- a positions / extents `DataArray` of rank 1 or 2 -/
inductive PosArr where
  | oneD (v : List Rat)
  | twoD (ncols : Nat) (rows : List (List Rat))
  deriving Repr

/-- `data_extent` -/
def PosArr.extent : PosArr → List Nat
  | .oneD v => [v.length]
  | .twoD c rows => [rows.length, c]

/-- `len(arr)` = `shape[0]` -/
def PosArr.len : PosArr → Nat
  | .oneD v => v.length
  | .twoD _ rows => rows.length

/-- `arr[index]` after the promotion `np.array([p for p in arr])` of a 1-D array (each entry becomes an
array of length 1) -/
def PosArr.row : PosArr → Nat → Option (List Rat)
  | .oneD v, i => v[i]?.map fun p => [p]
  | .twoD _ rows, i => rows[i]?

/-- `extents and index >= extents.shape[0]` (truthiness of `self.extents`: not `None` and `len > 0`) -/
def extBeyond : Option PosArr → Nat → Bool
  | none, _ => false
  | some e, i => decide (0 < e.len) && decide (i ≥ e.len)

/-- `extents and positions.data_extent != extents.data_extent` -/
def extMismatch (positions : PosArr) : Option PosArr → Bool
  | none => false
  | some e => decide (0 < e.len) && decide (positions.extent ≠ e.extent)

/-- `extent = None; if extents is not None and len(extents) > 0: extent = extents[index]`
(`[]` stands for `None`: both make `idx < len(extent)` false on every axis) -/
def extentRow : Option PosArr → Nat → Except Err (List Rat)
  | none, _ => .ok []
  | some e, i =>
    if 0 < e.len then
      match e.row i with
      | some r => .ok r
      | none => .error .indexError
    else .ok []

structure MTagDesc where
  positions : PosArr
  extents : Option PosArr
  units : List Str
  deriving Repr

/-- `MultiTag._calc_data_slices_mtag(data, index, stop_rule)` -/
def calcSlicesMtag (t : MTagDesc) (data : Arr) (index : Nat) (stop : SliceMode) :
    Except Err (List (Option Win)) :=
  if t.positions.len = 0 ∨ index ≥ t.positions.len then .error .outOfBounds
  else if extBeyond t.extents index then .error .outOfBounds
  else if extMismatch t.positions t.extents then .error .incompatibleDimensions
  else
    match t.positions.row index with
    | none => .error .indexError
    | some position =>
      match extentRow t.extents index with
      | .error e => .error e
      | .ok extent => calcSlices stop data.dims data.shape position extent (unitsOpt t.units)

/-- `MultiTag.tagged_data(posidx, refidx, stop_rule)` (no `_slices_in_data` test: the `DataView`
constructor decides) -/
def MultiTag.taggedData (t : MTagDesc) (nrefs posidx refidx : Nat) (ref : Arr) (stop : SliceMode) :
    Except Err View :=
  if nrefs = 0 then .error .outOfBounds
  else if posidx ≥ t.positions.len ∨ extBeyond t.extents posidx = true then .error .outOfBounds
  else if refidx ≥ nrefs then .error .indexError                          -- `references[refidx]`
  else
    match calcSlicesMtag t ref posidx stop with
    | .error e => .error e
    | .ok sl => .ok (mkView ref.shape (some sl))

/-- `MultiTag.feature_data(posidx, featidx, stop_rule)` -/
def MultiTag.featureData (t : MTagDesc) (nfeats posidx : Nat) (link : LinkType) (data : Arr)
    (stop : SliceMode) : Except Err View :=
  if nfeats = 0 then .error .outOfBounds
  else
    match link with
    | .tagged =>
      match calcSlicesMtag t data posidx stop with
      | .error e => .error e
      | .ok sl => viewIfInData data.shape sl
    | .indexed =>
      match data.shape with
      | [] => .error .indexError                                           -- `data.data_extent[0]`
      | rows :: rest =>
        if Gen.indexedRowBeyond posidx rows then .error .outOfBounds
        else viewIfInData data.shape (some ((posidx : Int), (posidx : Int) + 1) :: fullWindows rest)
    | .untagged => .ok (mkView data.shape (some (fullWindows data.shape)))

end Nix.Tagging
