import NixModel.Pure.Frame
/-!
# Pure.FrameRec — rows and tables handed over as NumPy *structured* arrays

`append_rows`, `write_rows` and every creation variant of `create_data_frame` also accept their rows as a NumPy
structured array (a record array built by the caller, the result of `read_rows` / `frame[:]` of another frame, a
multi-field view `table[['c', 'a']]`, a list of `np.void` records) instead of a list of tuples.  A structured array
has its own field names, its own field types and its own memory layout (byte offsets, padding); the data frame code
takes such rows **by position** — cell `j` of a record goes to column `j`, whatever the field is called and wherever
it lies inside the record:

 * `append_rows`: `tuple(record)` for every record, then `np.array(list_of_tuples, dtype=<compound of the frame>)`;
 * `write_rows`: `tuple(rows[0])` / `tuple(row)` for every row, then the same conversion inside `_write_data`;
 * `create_data_frame(col_dict= | col_names=, data=<structured array>)`: the records are taken apart like every other
   row (`list(map(tuple, data))`, fix ac50c5b: NumPy's structured-to-structured cast would store a value the column
   cannot hold as another value), then `np.ascontiguousarray(list_of_tuples, dtype=col_dtype)`;
 * `create_data_frame(col_names=, data=<structured array>)`: the column types are the types of the first record's
   cells, i.e. the field types;
 * `create_data_frame(data=<structured array>)`: names and types are `data[0].dtype.fields` in its own order, which is
   the order of `dtype.names` — *not* the order of the byte offsets.

The model therefore keeps the field names and offsets of a record array only to say that they do not matter.
(libhdf5 converts compound data by member *name*: code that hands a record array straight to the dataset stores
nothing in the columns whose names do not match — the model says what must be stored instead.)
-/
namespace Nix.Frame

/-- a NumPy structured array -/
structure RecArray where
  /-- the fields in `dtype.names` order: name, type, byte offset inside a record -/
  fields : List (String × ColType × Nat)
  /-- one entry per record: its cells in `dtype.names` order (what `tuple(record)` yields) -/
  rows : List Row
  deriving Repr, Inhabited

/-- names and types of the fields, in `dtype.names` order (`dtype.fields` iterates in that order) -/
def RecArray.cols (r : RecArray) : List (String × ColType) := r.fields.map (fun x => (x.1, x.2.1))

def RecArray.types (r : RecArray) : List ColType := r.fields.map (fun x => x.2.1)

/-- `tuple(record)` for every record / the positional structured cast: cells in `dtype.names` order -/
def RecArray.tuples (r : RecArray) : List (List Val) := r.rows

/-- `append_rows(<structured array>)` -/
def appendRowsRec (f : Frame) (r : RecArray) : Frame × Option Err := appendRows f r.tuples

/-- `write_rows(<structured array>, index)`: `rows[0]` is an `np.void`, so the nested form is taken -/
def writeRowsRec (f : Frame) (r : RecArray) (idx : List Int) : Frame × Option Err := writeRows f r.tuples idx

/-- `write_rows(<one np.void record>, [i])`: `rows[0]` is the record's first cell (a scalar: the flat form) -/
def writeRowVoid (f : Frame) (record : Row) (idx : List Int) : Frame × Option Err := writeRowFlat f record idx

/-- shared tail of creation with structured data: the records taken apart into tuples, then as `createWith` -/
def createWithRec (cols : List (String × ColType)) (r : RecArray) : Except Err Frame :=
  createWith cols (some r.tuples)

/-- variant `col_dict=, data=<structured array>` -/
def createDictRec (cols : List (String × ColType)) (r : RecArray) : Except Err Frame := createWithRec cols r

/-- variant `col_names=, col_dtypes=, data=<structured array>` -/
def createNamesTypesRec (names : List String) (types : List ColType) (r : RecArray) : Except Err Frame :=
  let z := names.zip types
  if names.length ≠ (dedupNames (z.map (·.1))).length then .error .duplicateName
  else createWithRec z r

/-- variant `col_names=, data=<structured array>`: the column types are the field types (`type(val)` of the cells
    of `data[0]`, NumPy scalars) -/
def createNamesRec (names : List String) (r : RecArray) : Except Err Frame :=
  match r.rows with
  | [] => .error .indexError
  | _ => createNamesTypesRec names r.types r

/-- variant `data=<structured array>` alone: names and types are the fields in `dtype.names` order -/
def createStructRec (r : RecArray) : Except Err Frame := createStruct r.cols r.tuples

-- ---------------------------------------------------------------------------------------
-- histories in which rows may be given either way

/-- an operation as the caller spells it: with rows as lists of cells (`plain`) or as structured arrays -/
inductive OpR where
  | plain (op : Op)
  | appendRowsRec (r : RecArray)
  | writeRowsRec (r : RecArray) (idx : List Int)
  | writeRowVoid (record : Row) (idx : List Int)
  deriving Repr

def stepR (f : Frame) : OpR → Frame × Option Err
  | .plain op => step f op
  | .appendRowsRec r => appendRowsRec f r
  | .writeRowsRec r idx => writeRowsRec f r idx
  | .writeRowVoid record idx => writeRowVoid f record idx

def runR (f : Frame) (ops : List OpR) : Frame := ops.foldl (fun g op => (stepR g op).1) f

/-- the operation on lists of cells a spelling stands for: the records taken apart by position -/
def OpR.toOp : OpR → Op
  | .plain op => op
  | .appendRowsRec r => .appendRows r.tuples
  | .writeRowsRec r idx => .writeRows r.tuples idx
  | .writeRowVoid record idx => .writeRowFlat record idx

end Nix.Frame
