import NixModel.Pure.NdStore

/-!
# Sources that are not NumPy arrays: lists, tuples, ranges, Python scalars (C01)

`create_data_array` and `append` turn their data into an array first (`np.ascontiguousarray`), so a list means what
NumPy reads from it and libhdf5 converts the elements (`Pure/NdConv.lean`).  A whole-array write and a region
assignment hand the source to h5py as it is, and h5py (`Dataset.__setitem__`) reads anything that is not an
`ndarray` *with the dataset's own element type*: `numpy.asarray(val, order='C', dtype=self.dtype)`.  The elements
are then cast by NumPy from the Python objects — with other rules than libhdf5's conversion: a Python integer
outside the range of the element type is an `OverflowError` (libhdf5 saturates), a Python float is truncated
toward zero into an integer type and must then be in range, NaN is a `ValueError`, ±inf an `OverflowError`;
anything non-zero is `True`.  Nothing is written when the cast raises.

Elements of such a source are Python objects: `Elem.int v` (any size), `Elem.f64 bits` (a Python float is a
double), `Elem.bool`, `Elem.text`.  Text in a sequence written to a numeric array is parsed by NumPy (`'12'` is
12): outside this model (`none`).  A text array takes the objects as they are (h5py casts to `object`) and refuses
everything but text when writing — that is `convRefusal`, as for arrays.
-/
namespace Nix.Nd
open Nix Nix.NdGen

/-- Python's `int(x)` of a float: truncation toward zero; `ValueError` for NaN, `OverflowError` for ±inf -/
def pyIntOfFloat (bits : Nat) : Except IoErr Int :=
  match decodeFloat 53 11 bits with
  | .nan _ _ => .error (.err .valueError)
  | .inf _ => .error (.err .overflowError)
  | .fin neg m e =>
    let t : Nat := if e ≥ 0 then m <<< e.toNat else m >>> (-e).toNat
    .ok (if neg then -(t : Int) else (t : Int))

/-- a Python integer stored into an integer element type: in range, or `OverflowError` -/
def castInt (lo hi v : Int) : Except IoErr Elem :=
  if lo ≤ v ∧ v ≤ hi then .ok (.int v) else .error (.err .overflowError)

/-- is the double zero (`+0.0` or `-0.0`)? -/
def f64IsZero (bits : Nat) : Bool := bits % 9223372036854775808 == 0

/-- the C cast of a double to a narrower float (`cvtsd2ss`): rounding to nearest-even, also across the largest
finite value — libhdf5 (`convFloat`) tests for overflow first and turns everything above the largest finite value
into infinity, the hardware rounds `0x47efffffefffffff` down to it -/
def castFloat (p eb p' eb' : Nat) (bits : Nat) : Nat :=
  match decodeFloat p eb bits with
  | .fin neg m e =>
    let b := encodeMag p' eb' m e
    signBit p' eb' neg + (if b ≥ infBits p' eb' then infBits p' eb' else b)
  | _ => convFloat p eb p' eb' bits

/-- NumPy's cast of one Python object to the element type `tgt` (numeric or boolean) -/
def castElem (tgt : DType) (x : Elem) : Except IoErr Elem :=
  match tgt with
  | .string => .ok x
  | .bool => match x with
    | .int v => .ok (.bool (decide (v ≠ 0)))
    | .f64 b => .ok (.bool (!f64IsZero b))
    | .bool b => .ok (.bool b)
    | _ => .error (.err .valueError)
  | .float64 => match x with
    | .int v => .ok (.f64 (intToFloat 53 11 v))
    | .f64 b => .ok (.f64 (if b < 18446744073709551616 then b else 0))
    | .bool b => .ok (.f64 (if b then 0x3ff0000000000000 else 0))
    | _ => .error (.err .valueError)
  | .float32 => match x with
    -- through a double: `PyFloat_AsDouble`, then the C cast
    | .int v => .ok (.f32 (castFloat 53 11 24 8 (intToFloat 53 11 v)))
    | .f64 b => .ok (.f32 (castFloat 53 11 24 8 b))
    | .bool b => .ok (.f32 (if b then 0x3f800000 else 0))
    | _ => .error (.err .valueError)
  | t => match t.intRange with
    | none => .ok x
    | some (lo, hi) => match x with
      | .int v => castInt lo hi v
      | .f64 b => (pyIntOfFloat b).bind (castInt lo hi)
      | .bool b => castInt lo hi (if b then 1 else 0)
      | _ => .error (.err .valueError)

/-- the first exception in a list of results (NumPy fills the new array in C order and stops at the first
element it cannot cast) -/
def firstError : List (Except IoErr Elem) → Option IoErr
  | [] => none
  | .error e :: _ => some e
  | .ok _ :: rest => firstError rest

/-- `numpy.asarray(seq, order='C', dtype=tgt)` on a sequence whose elements NumPy reads as `d` (Python integers,
floats, booleans or text): the array of the cast elements, the first exception, or `none` (text parsed into
numbers).  For a text array h5py keeps the objects -/
def castSeq (tgt : DType) (d : Arr) : Option (Except IoErr Arr) :=
  if tgt = .string then some (.ok d)
  else if d.dt = .string ∨ d.dt = .float32 then none
  else
    match firstError (d.a.toList.map (castElem tgt)) with
    | some e => some (.error e)
    | none => some (.ok ⟨tgt, ⟨d.a.shape, fun idx => match castElem tgt (d.a.get idx) with
        | .ok e => e
        | .error _ => tgt.fill⟩⟩)

/-- `H5DataSet.write_data(seq, slc)`: the empty-source guard looks at `np.size(seq)`; then h5py casts the
sequence and writes the array it got -/
def writeSeq (A : DArr) (d : Arr) (slc : IndexArg) : Option (Except IoErr DArr) :=
  if (arrIsEmpty d && optTruthy (h5SelectedCount A slc)) then some (.error (.err .valueError))
  else (castSeq A.dtype d).map fun r => r.bind fun d' => writeData A d' slc

/-- a step whose source is a sequence: `write_direct(seq)` / `da[ix] = seq` (h5py's cast), `append(seq, axis)`
(`np.ascontiguousarray(seq)` first: the array NumPy reads, then as for arrays) -/
def stepSeq (A : DArr) : TStep → Option Run
  | .write d => (writeSeq A d .none).map (runOf A)
  | .assign ix d => (writeSeq A d ix).map (runOf A)
  | s => some (stepS A s)

/-- the array step a write / assignment with a sequence source amounts to: the assignment of the cast values, or
a step that changes nothing (`reopen`) when the empty-source guard or the cast raises -/
def seqAsArray (A : DArr) (d : Arr) (ix : IndexArg) : Option TStep :=
  if (arrIsEmpty d && optTruthy (h5SelectedCount A ix)) then some .reopen
  else
    match castSeq A.dtype d with
    | none => none
    | some (.error _) => some .reopen
    | some (.ok d') => some (.assign ix d')

def arrayStepOf (A : DArr) : TStep → Option TStep
  | .write d => seqAsArray A d .none
  | .assign ix d => seqAsArray A d ix
  | s => some s

/-- the history with array sources only that a history with sequence sources amounts to (the array a sequence
is cast to depends on the element type only, which no step changes; whether the cast raises decides the step) -/
def toArrays (A : DArr) : List (TStep × Bool) → Option (List TStep)
  | [] => some []
  | (s, seq) :: rest =>
    match (if seq then arrayStepOf A s else some s) with
    | none => none
    | some s' => (toArrays (stepS A s').1 rest).map (s' :: ·)

/-- a history whose steps take arrays (`false`) or Python sequences (`true`) as sources; `none`: some sequence is
outside the model (text parsed into numbers) -/
def runMixed (A : DArr) : List (TStep × Bool) → Option DArr
  | [] => some A
  | (s, seq) :: rest =>
    match (if seq then stepSeq A s else some (stepS A s)) with
    | none => none
    | some (B, _) => runMixed B rest

end Nix.Nd
